#!/bin/sh
# Build the framework from files on disk only (offline). Run once after a fresh restore.
set -e
export CARGO_NET_OFFLINE=true GOPROXY=off PIP_NO_INDEX=1
export PATH="$PATH:/root/.cargo/bin:/opt/veriftools/lean/bin"
cd "$(dirname "$0")/.."
for i in 0 1 2 3 4 5 6 7; do mkdir -p harness/gc/gc$i/src/gen; [ -f harness/gc/gc$i/src/gen/root.rs ] || echo "fn main() {}" > harness/gc/gc$i/src/gen/root.rs; done
( cd harness && cargo build --offline )
./harness/target/debug/zv extract /repo lean/ZeepVerif/Generated
( cd lean && lake build zvdrv zvspec ZeepVerif.AuditLib )
# theorem modules: prebuilt here so the checks start warm; a failure here is reported by the check of the property concerned, not by setup
( cd lean && lake build ZeepVerif ) || echo "setup: some theorem modules do not build (the per-property checks report which)"
echo "setup ok"
