#!/bin/sh
# Build the framework from files on disk only (offline). Run once after a fresh restore.
set -e
export CARGO_NET_OFFLINE=true GOPROXY=off PIP_NO_INDEX=1
export PATH="$PATH:/root/.cargo/bin:/opt/veriftools/lean/bin"
cd "$(dirname "$0")/.."
( cd harness && cargo build --offline )
./harness/target/debug/zv extract /repo lean/ZeepVerif/Generated
( cd lean && lake build ZeepVerif zvdrv zvspec )
echo "setup ok"
