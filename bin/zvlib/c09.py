"""C09 — QName references resolve by namespace, independent of declaration order."""
from . import structural as st
from . import gencorr as g

CHECKER = "cd /verif/lean && lake build ZeepVerif.Props.C09 && lake env lean ZeepVerif/Audit/C09.lean"


def targets(lines):
    """(struct, member position) -> the component the reference denotes; aliases; simple-type bases"""
    out = []
    for l in lines:
        f = l.split("\t")
        if f[0] == "FIELD":
            out.append("\t".join(["TARGET", f[1], f[2], f[3], f[6], f[8]]))
        elif f[0] in ("ALIAS", "SIMPLE"):
            out.append(l)
    return out


def oracle(case, obs, A, norm):
    if obs is None:
        return [("generation-failed", f"a well-formed schema set was not accepted: {case['impl']}")]
    miss, extra = g.diff_sets(targets(case["ref"]), targets(norm))
    if miss or extra:
        return [("reference-bound-to-wrong-component", "reference: " + (miss[0].replace("\t", " ") if miss else "-") + " | emitted: " +
                 (extra[0].replace("\t", " ") if extra else "-") + f" ({len(miss)} missing, {len(extra)} unexpected)")]
    return []


def projection(obs, A, norm):
    return sorted(targets(norm or []))


def run(tier, seed):
    return st.run_structural(
        "C09", tier, seed, "ZeepVerif.Props.C09", "ZeepVerif/Audit/C09.lean",
        [("gencollide", 250, 6000), ("gen", 80, 2000), ("gentopo", 150, 3000)], oracle, projection, CHECKER, extra_props=[('ZeepVerif.Props.C09Read', 'ZeepVerif/Audit/C09Read.lean'), ('ZeepVerif.Props.C09All', 'ZeepVerif/Audit/C09All.lean'), ('ZeepVerif.Props.C09Denote', 'ZeepVerif/Audit/C09Denote.lean'), ('ZeepVerif.Props.C09Ref', 'ZeepVerif/Audit/C09Ref.lean')], extra=st.refinement_coverage,
        note_assumptions=["the 'collide' profile draws all names from ten words (incl. int, date, long, boolean), so local names are reused across namespaces, "
                          "kinds (type, global element, local element, attribute) and files; every file binds its own namespace to the prefix tns",
                          "message parts are covered by C05's WSDL stream"],
        rule_note="The oracle compares, for every member / alias / simple-type base, the component (namespace URI, name) the reference denotes.")


def replay(payload):
    return st.replay_case(payload, oracle)
