"""C09 — QName references resolve by namespace, independent of declaration order."""
from . import structural as st
from . import gencorr as g

CHECKER = "cd /verif/lean && lake build ZeepVerif.Props.C09 && lake env lean ZeepVerif/Audit/C09.lean"


def targets(lines):
    """(struct, member position) -> the component the reference denotes; aliases; simple-type bases"""
    out = []
    for l in lines:
        f = l.split("\t")
        if f[0] == "FIELD":
            out.append("\t".join(["TARGET", f[1], f[2], f[3], f[6], f[8]]))
        elif f[0] in ("ALIAS", "SIMPLE"):
            out.append(l)
    return out


def oracle(case, obs, A, norm):
    if obs is None:
        return [("generation-failed", f"a well-formed schema set was not accepted: {case['impl']}")]
    miss, extra = g.diff_sets(targets(case["ref"]), targets(norm))
    if miss or extra:
        return [("reference-bound-to-wrong-component", "reference: " + (miss[0].replace("\t", " ") if miss else "-") + " | emitted: " +
                 (extra[0].replace("\t", " ") if extra else "-") + f" ({len(miss)} missing, {len(extra)} unexpected)")]
    return []


def projection(obs, A, norm):
    return sorted(targets(norm or []))


PROBE_MAIN = """<?xml version="1.0"?>
<xs:schema xmlns:xs="http://www.w3.org/2001/XMLSchema" xmlns:t="urn:ep:drawing" targetNamespace="urn:ep:drawing" elementFormDefault="qualified">
  <xs:import namespace="urn:ep:shapes" schemaLocation="base.xsd"/>
  <xs:complexType name="Shape"><xs:sequence><xs:element name="own" type="xs:string"/></xs:sequence></xs:complexType>
  <xs:complexType name="Circle">
    <xs:complexContent>
      <xs:extension xmlns:q9="urn:ep:shapes" base="q9:Shape">
        <xs:sequence><xs:element name="radius" type="xs:double"/></xs:sequence>
      </xs:extension>
    </xs:complexContent>
  </xs:complexType>
</xs:schema>
"""
PROBE_BASE = """<?xml version="1.0"?>
<xs:schema xmlns:xs="http://www.w3.org/2001/XMLSchema" xmlns:s="urn:ep:shapes" targetNamespace="urn:ep:shapes" elementFormDefault="qualified">
  <xs:complexType name="Shape"><xs:sequence><xs:element name="id" type="xs:string"/></xs:sequence></xs:complexType>
</xs:schema>
"""


def extension_prefix_probe(c, cases):
    """recorded finding, recognised by its input class only: a prefix that is declared on the `xs:extension` element itself (and nowhere
    else in the file) is not in the prefix table when `base=` is resolved; the lookup then runs without a namespace and takes the first
    type of that name — here the file's own `Shape` instead of `{urn:ep:shapes}Shape`. Any other outcome than the recorded one or the
    right one is a violation."""
    import os
    from .common import sh, ZV
    d = os.path.join(os.path.dirname(cases[0]["dir"]), "probe-extension-prefix", "in") if cases else None
    fails = []
    if d:
        os.makedirs(d, exist_ok=True)
        open(os.path.join(d, "shapes.xsd"), "w").write(PROBE_MAIN)
        open(os.path.join(d, "base.xsd"), "w").write(PROBE_BASE)
        out = os.path.join(os.path.dirname(d), "out.rs")
        rc, o, e = sh([ZV, "gen", d, "shapes.xsd", out])
        first = None
        if o.strip().split("\n")[-1].startswith("ok"):
            src = open(out).read()
            i = src.find("pub struct Circle")
            import re
            m = re.search(r"pub (\w+):", src[i:]) if i >= 0 else None
            first = m.group(1) if m else None
        c.cov["extension_prefix_probe"] = {"first_member_of_Circle": first, "expected": "id"}
        if first == "own" and "prefix-declared-only-on-extension-element" in c.known_classes():
            c.known("prefix-declared-only-on-extension-element: <xs:extension xmlns:q9=\"urn:ep:shapes\" base=\"q9:Shape\">: Circle starts with the members of the file's own Shape (`own`), not of {urn:ep:shapes}Shape (`id`)")
        elif first != "id":
            case = {"dir": os.path.dirname(d), "in": d, "start": "shapes.xsd", "meta": {"features": "probe prefix declared on the extension element"}, "impl": o.strip()[-80:], "ref": None}
            fails.append(("base-not-the-denoted-type", f"a derived type whose base QName uses a prefix declared on the extension element starts with member {first!r}; the denoted base's first member is 'id'", case))
    return fails + st.refinement_coverage(c, cases)


def run(tier, seed):
    return st.run_structural(
        "C09", tier, seed, "ZeepVerif.Props.C09", "ZeepVerif/Audit/C09.lean",
        [("gencollide", 250, 6000), ("gen", 80, 2000), ("gentopo", 150, 3000)], oracle, projection, CHECKER, extra_props=[('ZeepVerif.Props.C09Read', 'ZeepVerif/Audit/C09Read.lean'), ('ZeepVerif.Props.C09All', 'ZeepVerif/Audit/C09All.lean'), ('ZeepVerif.Props.C09Denote', 'ZeepVerif/Audit/C09Denote.lean'), ('ZeepVerif.Props.C09Ref', 'ZeepVerif/Audit/C09Ref.lean')], extra=extension_prefix_probe,
        note_assumptions=["the 'collide' profile draws all names from ten words (incl. int, date, long, boolean), so local names are reused across namespaces, "
                          "kinds (type, global element, local element, attribute) and files; every file binds its own namespace to the prefix tns",
                          "message parts are covered by C05's WSDL stream"],
        rule_note="The oracle compares, for every member / alias / simple-type base, the component (namespace URI, name) the reference denotes.")


def replay(payload):
    return st.replay_case(payload, oracle)
