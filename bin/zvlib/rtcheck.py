"""Shared runner for the properties decided on compiled emitted code by round trips (C03, C04, C07)."""
import collections
import os
from . import structural as st
from . import gencorr as g
from . import gencrate
from . import rt
from . import yacorr
from .common import Check


def run_rt(pid, tier, seed, prop_module, audit_file, checker_cmd, profiles, inst_file, pick_violation, check_restrictions,
           assumptions, rule, extra_after=None, extra_props=(), ya=False):
    """pick_violation(verdict_text) -> class name or None: which round-trip problems this property is about"""
    c = Check(pid, tier, seed)
    ok, err = c.build_harness()
    if not ok:
        c.violation({"kind": "harness-build", "error": err}, no_input=True)
        return c.finish(checker_cmd=checker_cmd)
    c.extract()
    c.lake_build(["zvspec"])
    proved = c.prove(prop_module, audit_file)
    for em, ea in extra_props:
        proved = c.prove(em, ea) and proved
    if tier == "thorough" and proved:
        c.leanchecker([prop_module] + [em for em, _ in extra_props])
    model_ok, model_err = c.lake_build(["zvdrv"])
    root = g.scratch(f"{pid}-{tier}-{seed}")
    cases = []
    for profile, nq, nt in profiles:
        n = nq if tier == "quick" else nt
        if not proved:
            n = max(n, nt // 3)
        sub = os.path.join(root, profile)
        os.makedirs(sub, exist_ok=True)
        cases += g.gen_cases(seed * 15485863 + 29, n, sub, profile)
    g.run_impl(cases)
    if model_ok:
        g.run_model(cases)
    corr = [cs for cs in cases if model_ok and not cs.get("same_bytes")]
    violations, excluded, passed = [], [], []
    build_problems = []
    ya_stats = {"compared": 0, "skipped": 0, "classes": collections.Counter(), "hyp": collections.Counter()}
    ya_dis = []
    for i in range(0, len(cases), 48):
        res, info = rt.run_roundtrips(cases[i:i + 48], inst_file)
        if info["rc"] != 0:
            build_problems.append(info)
            continue
        if ya and model_ok:
            # the yaserde environment model against the real crates, on the very same round trips
            comp, dis, skipped, classes = yacorr.check(res)
            ya_stats["compared"] += comp
            ya_stats["skipped"] += skipped
            ya_dis += dis
            for k, v2 in classes.items():
                if k == "hypotheses":
                    ya_stats["hyp"].update(v2)
                elif not k.startswith("_"):
                    ya_stats["classes"][k] += v2
        v, e, p = rt.classify(res, check_restrictions)
        violations += v
        excluded += e
        passed += p
    gencrate.cleanup()
    mine = []
    others = collections.Counter()
    for r, vi in violations:
        cls = pick_violation(vi)
        if cls:
            mine.append((cls, vi, r))
        else:
            others[vi.split(":")[0][:40]] += 1
    total = len(violations) + len(excluded) + len(passed)
    valid_n = sum(1 for r in passed if r["inst"]["valid"])
    c.cov.update({
        "evaluations": total,
        "distinct_nontrivial": len({r["inst"]["xml"] for r in passed} | {r["inst"]["xml"] for r, _ in violations}),
        "rule": rule,
        "samples": [{"type": r["inst"]["type"], "instance": r["inst"]["xml"][:400], "reserialised": (r["out"] or "")[:400], "check": r["check"]} for r in passed[:2]],
        "round_trips_passed": len(passed),
        "passed_valid_instances": valid_n,
        "passed_facet_violating_instances": len(passed) - valid_n,
        "excluded_because_reference_structs_fail_too": len(excluded),
        "excluded_kinds": dict(collections.Counter(x[1].split(":")[0][:40] for x in excluded)),
        "problems_of_this_property": len(mine),
        "problems_belonging_to_other_properties": dict(others),
        "programs_compiled": len([cs for cs in cases if cs["impl"].startswith("ok")]),
        "disagreements_checked": len(cases) if model_ok else 0,
        "model_vs_impl_disagreements": len(corr),
    })
    progof_n, progof_dis = (0, [])
    if ya and model_ok:
        progof_n, progof_dis = yacorr.check_progof(cases, limit=40 if tier == "quick" else 400)
        c.cov["yaserde_model"] = {
            "round_trips_compared_with_the_real_crates": ya_stats["compared"],
            "disagreements": len(ya_dis),
            "real_outcome_classes": dict(ya_stats["classes"]),
            "theorem_hypotheses_on_real_programs_and_values": dict(ya_stats["hyp"]),
            "progOf_of_model_document_vs_derive_input_of_real_output": {"programs": progof_n, "disagreements": len(progof_dis)},
        }
        c.assumptions.append("yaserde 0.12 / yaserde_derive 0.12 / xml-rs 0.8 are modelled by Ya (lean/ZeepVerif/Ya/Model.lean): the theorems of Props/C03Ya, C04Ya are about that model; "
                             "on every run the model is given the derive input read from the real emitted file and every instance of the batch, and must predict the real outcome class and reserialised infoset; "
                             "elements nested in an element of the same (recursive) type, on which the runtime's event loop fails for hand-written reference structs too, are outside the model")
    c.assumptions += list(assumptions)
    if extra_after is not None:
        extra_after(c, cases, mine)
    # the targeted corpus: members, declared namespaces and facet constructors of hand-written inputs against their reviewed golden
    cf, ncorpus = st.corpus_failures()
    c.cov["targeted_corpus"] = {"cases": ncorpus, "differ_from_reviewed_golden": len(cf)}
    for cls, msg, case in cf[:3]:
        c.violation(st.save_replay(c, case, msg, {"class": cls}))
    if build_problems:
        c.violation({"kind": "oracle", "what": "a batch of emitted code with its round-trip driver does not build", "errors": build_problems[0]["build_errors"], "tail": build_problems[0]["tail"][-800:]}, no_input=False)
    if mine:
        by = collections.defaultdict(list)
        for cls, vi, r in mine:
            by[cls].append((vi, r))
        for cls, items in by.items():
            vi, r = min(items, key=lambda t: len(t[1]["inst"]["xml"]))
            rp = st.save_replay(c, r["case"], vi, {"class": cls, "count": len(items), "type": r["inst"]["type"], "instance": r["inst"]["xml"], "reserialised": r["out"]})
            c.violation(rp)
    elif not build_problems and (c.proof["errors"] or not model_ok or corr or ya_dis or progof_dis):
        what = []
        if ya_dis:
            r0, d0 = ya_dis[0]
            what.append({"broken": "correspondence of the yaserde environment model Ya with the real crates", "count": len(ya_dis), "first": d0[:400],
                         "instance": r0["inst"]["xml"][:600], "real_output": (r0["out"] or "")[:600]})
        if progof_dis:
            what.append({"broken": "Ya.progOf (derive input computed from the model's document) vs the derive input read from the real emitted file", "count": len(progof_dis), "first": progof_dis[0][1][:600]})
        if c.proof["errors"]:
            what.append({"broken": f"proof obligations of {prop_module}", "errors": c.proof["errors"]})
        if not model_ok:
            what.append({"broken": "model does not build", "errors": model_err[-2000:]})
        if corr:
            what.append({"broken": "correspondence model vs implementation (bytes of the emitted file)", "count": len(corr)})
        c.violation({"kind": "obligation", "no_longer_checks": what, "searched": f"{total} round trips on compiled emitted types without a failure of this property"}, no_input=True)
    g.cleanup(f"{pid}-{tier}-{seed}")
    return c.finish(checker_cmd=checker_cmd)
