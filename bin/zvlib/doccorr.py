"""Document-level correspondence: the reader model's `Doc` (zvdrv docdump) against the real `RustDocument`
(cfg-guarded hook `RustDocument::verif_dump`, harness command `zv docbatch`) on the same inputs — namespace lists, prefix table,
target namespaces, every node with its fields / facets / element kind, messages, port types, bindings with their envelopes,
services. Tighter than the byte comparison of the generated text: two documents that happen to print alike still differ here."""
import os
from .common import ZV, ZVDRV, run_lines


def compare(cases):
    """cases need `in`, `start`, `dir`, `dump` (tree dump written by run_impl). Returns (compared, differing [(case, first difference)], stats)"""
    todo = [cs for cs in cases if os.path.exists(cs.get("dump", "") or "")]
    if not todo:
        return 0, [], {}
    rc, real, err = run_lines([ZV, "docbatch"], ["\t".join([cs["in"], cs["start"], os.path.join(cs["dir"], "doc.impl")]) for cs in todo])
    rc2, model, err2 = run_lines([ZVDRV, "docdump"], ["\t".join([cs["dump"], cs["start"], os.path.join(cs["dir"], "doc.model")]) for cs in todo])
    if len(real) != len(todo) or len(model) != len(todo):
        return 0, [(todo[0], f"driver failure: {len(real)}/{len(model)} replies for {len(todo)} requests {err[-200:]} {err2[-200:]}")], {}
    dis, n = [], 0
    stats = {"ok": 0, "read-err": 0, "hook-disabled": 0}
    for cs, r, m in zip(todo, real, model):
        if r == "hook-disabled":
            stats["hook-disabled"] += 1
            continue
        n += 1
        if r != m:
            dis.append((cs, f"outcome: real {r}, model {m}"))
            continue
        if r != "ok":
            stats["read-err"] += 1
            continue
        stats["ok"] += 1
        a = open(os.path.join(cs["dir"], "doc.impl")).read().split("\n")
        b = open(os.path.join(cs["dir"], "doc.model")).read().split("\n")
        if a != b:
            k = next((i for i in range(min(len(a), len(b))) if a[i] != b[i]), min(len(a), len(b)))
            dis.append((cs, f"line {k}: real {a[k][:200] if k < len(a) else '<end>'} | model {b[k][:200] if k < len(b) else '<end>'}"))
    return n, dis, stats


def invariants(path):
    """the conclusions of the every-input theorems (Props/C10All.Good, the restored `resolving` stack of Props/C13All) evaluated on
    the REAL document's dump: returns a list of violated facts"""
    ns, tns, lookup, nodes, out = [], [], [], [], []
    for l in open(path).read().split("\n"):
        f = l.split("\t")
        if f[0] == "NS":
            ns.append((f[1], f[2], f[3]))
        elif f[0] == "TNS":
            tns.append(f[1])
        elif f[0] == "LOOKUP":
            lookup.append((f[1], f[2], f[3]))
        elif f[0] == "NODE":
            nodes.append((f[1], f[4]))
        elif f[0] == "RESOLVING" and f[1] != "0":
            out.append(f"the resolving stack holds {f[1]} keys after the read")
    by_abbr, by_uri = {}, {}
    for u, a, m in ns:
        if by_abbr.setdefault(a, u) != u:
            out.append(f"abbreviation {bytes.fromhex(a).decode()} stands for two namespaces")
        if by_uri.setdefault(u, (a, m)) != (a, m):
            out.append(f"namespace {bytes.fromhex(u).decode()} has two abbreviations/modules")
    uris = {u for u, _, _ in ns}
    for p, u, a in lookup:
        if u not in uris or by_uri.get(u, (a,))[0] != a:
            out.append(f"prefix {bytes.fromhex(p).decode() if p != chr(39) * 2 else ''} is bound to a namespace that is not in the namespace list")
    for u in tns:
        if u not in uris:
            out.append("a target namespace is not in the namespace list")
    for o, u in nodes:
        if u != "-" and u not in tns:
            out.append(f"node {o} is filed under a namespace that is not a target namespace")
    return out
