"""C14 — schema-supplied text reaches the output only as data, never as code."""
import collections
import os
from xml.sax.saxutils import quoteattr, escape
from . import structural as st
from . import gencorr as g
from . import compiled as cp
from . import gencrate
from .common import Check, ZV, sh

CHECKER = "cd /verif/lean && lake build ZeepVerif.Props.C14 && lake env lean ZeepVerif/Audit/C14.lean"
MARK = "ZVMARK"
KEYWORDS = ["as", "break", "const", "continue", "crate", "else", "enum", "extern", "false", "fn", "for", "if", "impl", "in", "let", "loop", "match", "mod", "move",
            "mut", "pub", "ref", "return", "self", "Self", "static", "struct", "super", "trait", "true", "type", "unsafe", "use", "where", "while", "async", "await", "dyn",
            "abstract", "become", "box", "do", "final", "macro", "override", "priv", "typeof", "unsized", "virtual", "yield", "try", "gen", "macro_rules", "union", "raw", "safe"]
PAYLOADS = [
    MARK + '"; fn injected() {} //', MARK + "\\", MARK + '\\"', MARK + "{}{", MARK + "\nfn injected() {}\n", MARK + "\r\nx", MARK + "\rfn injected() {}", MARK + "*/ fn injected() {} /*",
    MARK + "é日本", MARK + "'a", MARK + "\\u{41}", MARK + "#\"#", MARK + "\\n", "\t" + MARK + "\t", MARK + "]]>", MARK + "${x}",
]
# lexical forms of numbers that Rust's FromStr accepts or rejects differently from Rust's expression syntax
NUMERIC_FORMS = ["+1", "007", " 5 ", "-0", "+0", "1e3", "0x10", "1_000", "\u0661\u0662", "--1", "+ 1", "2147483647", "+2147483647", "2147483648", "-2147483649", "9999999999", "-9999999999", "18446744073709551616", "1.0", ""]
NAME_PAYLOADS = ["_", "__", "_._", "-", "a_", "self_", "_self", "Self-", "self.", "-Self", "SELF_", "crate_", "_super", "Super.", "r#type", "type_", "_Type", MARK + "-9.x", "9" + MARK, MARK + " with space", "_" + MARK, MARK + "é", "-" + MARK + "-", MARK + '"q', MARK + "/*x*/", MARK + ";"]

SCHEMA = """<xs:schema xmlns:xs="http://www.w3.org/2001/XMLSchema" xmlns:tns={uri} targetNamespace={uri} elementFormDefault="qualified">
  <xs:simpleType name={stname}>
    <xs:annotation><xs:documentation>{doc}</xs:documentation></xs:annotation>
    <xs:restriction base="xs:string"><xs:enumeration value={enum}/><xs:enumeration value="plain"/><xs:maxLength value={facet}/></xs:restriction>
  </xs:simpleType>
  <xs:simpleType name="Num"><xs:restriction base="xs:int"><xs:minInclusive value={nfacet}/></xs:restriction></xs:simpleType>
  <xs:complexType name={ctname}>
    <xs:annotation><xs:documentation>{doc}</xs:documentation></xs:annotation>
    <xs:sequence><xs:element name={elname} type="xs:string"/><xs:element name="other" type="xs:int" minOccurs="0"/></xs:sequence>
    <xs:attribute name={atname} type="xs:string"/>
  </xs:complexType>
  <xs:element name={gename}><xs:complexType><xs:sequence><xs:element name="v" type="xs:string"/></xs:sequence></xs:complexType></xs:element>
</xs:schema>
"""
SCHEMA_F = """<xs:schema xmlns:xs="http://www.w3.org/2001/XMLSchema" xmlns:tns="urn:zv:c14:main" xmlns:o={furi} targetNamespace="urn:zv:c14:main" elementFormDefault="qualified">
  <xs:import namespace={furi} schemaLocation="other.xsd"/>
  <xs:complexType name="Holder"><xs:sequence><xs:element name="own" type="xs:string"/><xs:element ref="o:Item"/><xs:element name="typed" type="o:Kind"/></xs:sequence></xs:complexType>
</xs:schema>
"""
SCHEMA_F_OTHER = """<xs:schema xmlns:xs="http://www.w3.org/2001/XMLSchema" xmlns:o={furi} targetNamespace={furi} elementFormDefault="qualified">
  <xs:element name="Item" type="xs:string"/>
  <xs:simpleType name="Kind"><xs:restriction base="xs:string"><xs:maxLength value="9"/></xs:restriction></xs:simpleType>
</xs:schema>
"""
WSDL = """<wsdl:definitions xmlns:wsdl="http://schemas.xmlsoap.org/wsdl/" xmlns:soap="http://schemas.xmlsoap.org/wsdl/soap/" xmlns:xs="http://www.w3.org/2001/XMLSchema" xmlns:tns={uri} targetNamespace={uri}>
  <wsdl:types><xs:schema targetNamespace={uri} elementFormDefault="qualified">
    <xs:element name={gename}><xs:complexType><xs:sequence><xs:element name="v" type="xs:string"/></xs:sequence></xs:complexType></xs:element>
    <xs:element name="Reply"><xs:complexType><xs:sequence><xs:element name="v" type="xs:string"/></xs:sequence></xs:complexType></xs:element>
  </xs:schema></wsdl:types>
  <wsdl:message name={msgname}><wsdl:part name={partname} element={geref}/>{bodypart}</wsdl:message>
  <wsdl:message name="Out"><wsdl:part name="r" element="tns:Reply"/></wsdl:message>
  <wsdl:portType name="PT"><wsdl:operation name={opname}><wsdl:input message={msgref}/><wsdl:output message="tns:Out"/></wsdl:operation></wsdl:portType>
  <wsdl:binding name="B" type="tns:PT"><wsdl:operation name={opname}><soap:operation soapAction={action}/>
    <wsdl:input><soap:header message={msgref} part={partname} use="literal"/><soap:body use="literal"/></wsdl:input><wsdl:output><soap:body use="literal"/></wsdl:output></wsdl:operation></wsdl:binding>
  <wsdl:service name={svcname}><wsdl:port name="P" binding="tns:B"><soap:address location={address}/></wsdl:port></wsdl:service>
</wsdl:definitions>
"""
# WSDL: the part under test is bound as a header, a second part is the body; WSDL2: the part under test is the body
WSDL2 = WSDL.replace("<soap:header message={msgref} part={partname} use=\"literal\"/>", "").replace("{bodypart}", "")
WSDL = WSDL.replace("{bodypart}", '<wsdl:part name="zvbody" element="tns:Reply"/>')

DEFAULTS = {"furi": "urn:zv:c14:other", "uri": "urn:zv:c14", "stname": "Code", "doc": "plain", "enum": "A", "facet": "9", "nfacet": "1", "ctname": "Thing", "elname": "name", "atname": "id", "gename": "Ask",
            "msgname": "In", "partname": "p", "opname": "ask", "action": "http://example.com/act", "svcname": "Svc", "address": "http://example.com/svc"}
LITERAL_POS = {"uri", "furi", "enum", "elname", "atname", "gename", "ctname", "stname"}      # the original text must be the value of some string literal
DOC_POS = {"doc"}
NAME_POS = {"stname", "ctname", "elname", "atname", "gename", "partname", "opname", "svcname", "msgname"}
URL_POS = {"action", "address"}


def render(template, vals):
    d = dict(DEFAULTS)
    d.update(vals)
    # a carriage return survives XML line-end normalisation only as a character reference
    q = {k: (escape(v).replace("\r", "&#13;") if k == "doc" else quoteattr(v)) for k, v in d.items()}
    q["geref"] = quoteattr("tns:" + d["gename"])
    q["msgref"] = quoteattr("tns:" + d["msgname"])
    return template.format(**q)


def build_cases(root, tier, rng):
    cases = []

    def add(kind, pos, text, template, fname, extra=None):
        d = os.path.join(root, f"k{len(cases)}")
        os.makedirs(os.path.join(d, "in"))
        open(os.path.join(d, "in", fname), "w", encoding="utf-8").write(render(template, {pos: text}))
        for en, et in (extra or {}).items():
            open(os.path.join(d, "in", en), "w", encoding="utf-8").write(render(et, {pos: text}))
        cases.append({"dir": d, "in": os.path.join(d, "in"), "start": fname, "meta": {"features": f"{kind} {pos}", "pos": pos, "text": text, "kind": kind}, "ref": None})

    for kw in KEYWORDS:
        for pos in ("stname", "ctname", "elname", "atname", "gename"):
            add("keyword", pos, kw, SCHEMA, "k.xsd")
        for pos in ("opname", "partname", "svcname", "msgname", "gename"):
            add("keyword", pos, kw, WSDL if pos == "partname" else WSDL2, "k.wsdl")
    # namespace URIs whose last path segment BEGINS with characters that Unicode calls alphanumeric but Rust does not allow in an
    # identifier (superscripts, fractions, circled and non-ASCII digits) or that are letters outside ASCII: the abbreviation — prefix
    # and module name — is made from the first characters of that segment
    for seg in ("m\u00b2", "\u00bd", "\u2460\u24d0", "\u65e5\u672c", "\u00e9", "\u0663", "\u2075x"):
        add("payload", "uri", "http://example.com/units/" + seg + MARK, SCHEMA, "k.xsd")
        add("payload", "furi", "http://example.com/units/" + seg + MARK, SCHEMA_F, "k.xsd", {"other.xsd": SCHEMA_F_OTHER})
        add("payload", "uri", "http://example.com/units/" + seg + MARK, WSDL2, "k.wsdl")
    for p in PAYLOADS:
        for pos in ("doc", "enum", "uri", "facet", "nfacet"):
            add("payload", pos, p, SCHEMA, "k.xsd")
        for pos in ("action", "address", "uri"):
            add("payload", pos, ("http://example.com/" if pos != "uri" else "urn:") + p, WSDL2, "k.wsdl")
        # the namespace of an imported file whose components the start file's type has as members (declared on that struct, too)
        add("payload", "furi", "urn:" + p, SCHEMA_F, "k.xsd", {"other.xsd": SCHEMA_F_OTHER})
        # URLs keep different characters in different components: an opaque path (no `//`) keeps quotes,
        # a query or a fragment keeps backslashes
        for pos in ("action", "address"):
            for pre in ("urn:", "http://example.com/p?q=", "http://example.com/p#"):
                add("payload", pos, pre + p, WSDL2, "k.wsdl")
    for p in NUMERIC_FORMS:
        for pos in ("facet", "nfacet"):
            add("numeric-form", pos, p, SCHEMA, "k.xsd")
    for p in NAME_PAYLOADS + PAYLOADS[:6]:
        for pos in ("stname", "ctname", "elname", "atname", "gename"):
            add("name-payload", pos, p, SCHEMA, "k.xsd")
        for pos in ("opname", "partname", "svcname"):
            add("name-payload", pos, p, WSDL if pos == "partname" else WSDL2, "k.wsdl")
    return cases


def lex(case):
    rc, out, err = sh([ZV, "lex", case["impl_rs"], MARK])
    toks = []
    status = "?"
    for l in out.splitlines():
        if l.startswith("LEX"):
            status = l[4:]
        elif l.startswith("TOK"):
            f = l.split(" ", 2)
            toks.append((f[1], f[2] if len(f) > 2 else ""))
    return status, toks


def run(tier, seed):
    import random
    c = Check("C14", tier, seed)
    ok, err = c.build_harness()
    if not ok:
        c.violation({"kind": "harness-build", "error": err}, no_input=True)
        return c.finish(checker_cmd=CHECKER)
    c.extract()
    proved = c.prove("ZeepVerif.Props.C14", "ZeepVerif/Audit/C14.lean")
    if tier == "thorough" and proved:
        c.leanchecker(["ZeepVerif.Props.C14", "ZeepVerif.Generated.Tables"])
    model_ok, model_err = c.lake_build(["zvdrv"])
    root = g.scratch(f"C14-{tier}-{seed}")
    cases = build_cases(root, tier, random.Random(seed))
    g.run_impl(cases)
    if model_ok:
        g.run_model(cases)
    fails = []
    known_hits = []
    known = c.known_classes()
    stats = collections.Counter()
    for cs in cases:
        pos, text, kind = cs["meta"]["pos"], cs["meta"]["text"], cs["meta"]["kind"]
        if not cs["impl"].startswith("ok"):
            stats["rejected-input"] += 1       # an error is an acceptable answer to a bad schema
            if cs["impl"].startswith(("panic", "crash", "timeout")):
                fails.append(("generator-crashed", f"{kind} at {pos}: {cs['impl']}", cs))
            continue
        status, toks = lex(cs)
        obs = g.parse_obs(cs["impl_obs"])
        problem = None
        if not status.startswith("ok"):
            problem = ("output-does-not-parse", f"{kind} {text!r} at {pos}: the emitted file is not Rust: {status[:200]}")
        elif any(f["name"] == "injected" for f in obs["fns"]) or any(t[0] == "other" for t in toks):
            problem = ("schema-text-became-code", f"{kind} {text!r} at {pos}: the text shows up outside identifiers, string literals and comments")
        elif kind == "payload" and pos in LITERAL_POS | URL_POS and MARK in text:
            want = text if pos not in URL_POS else None
            vals = [bytes.fromhex(t[1]).decode("utf-8", "replace") for t in toks if t[0] == "str"]
            if want is not None and want not in vals and pos != "uri":
                problem = ("literal-does-not-evaluate-to-the-text", f"payload {text!r} at {pos}: no string literal has that value (values: {vals[:3]})")
            if pos == "furi":
                want = None
                if not any(text in v for v in vals):
                    problem = ("literal-does-not-evaluate-to-the-text", f"imported namespace URI {text!r}: no string literal carries it (values: {vals[:3]})")
            if pos == "uri" and not any(text in v for v in vals):
                problem = ("literal-does-not-evaluate-to-the-text", f"namespace URI {text!r}: no string literal carries it (values: {vals[:3]})")
        elif kind == "payload" and pos in ("facet", "nfacet"):
            if any(MARK in bytes.fromhex(t[1]).decode("utf-8", "replace") for t in toks if t[0] == "str") or any(t[0] == "ident" for t in toks):
                problem = ("facet-text-in-output", f"facet value {text!r} reached the output")
        if problem:
            cls, msg = problem
            key = f"{cls}:{kind}:{pos}"
            if cls in known:
                known_hits.append((cls, msg))
            else:
                fails.append((cls, msg, cs))
        stats[f"{kind}:{'ok' if not problem else problem[0]}"] += 1
    # rustc on the keyword family
    kwcases = [cs for cs in cases if cs["meta"]["kind"] == "keyword" and cs["impl"].startswith("ok")]
    chosen = kwcases if tier == "thorough" else kwcases[:: max(1, len(kwcases) // 160)]
    # ... and on the numeric lexical forms of facets (a facet beyond the carrier's range must not become an out-of-range literal)
    chosen = chosen + [cs for cs in cases if cs["meta"]["kind"] == "numeric-form" and cs["impl"].startswith("ok")]
    n_comp = 0
    for i in range(0, len(chosen), 64):
        okc, res, info = cp.compile_batch(chosen[i:i + 64], with_struct_asserts=False, with_send_asserts=False)
        n_comp += info["modules"]
        for cs in okc:
            if res[id(cs)]["emitted"]:
                fails.append(("keyword-name-does-not-compile" if cs["meta"]["kind"] == "keyword" else "facet-form-does-not-compile", f"{cs['meta']['kind']} {cs['meta']['text']!r} as {cs['meta']['pos']}: {res[id(cs)]['emitted'][0][:200]}", cs))
    gencrate.cleanup()
    # non-ASCII text in identifier position is outside the Lean transcription of Inflector (documented approximation)
    def modelled(cs):
        return not (cs["meta"]["pos"] in NAME_POS and any(ord(ch) > 127 for ch in cs["meta"]["text"]))
    corr = [cs for cs in cases if model_ok and not cs.get("same_bytes") and modelled(cs)]
    c.cov.update({
        "evaluations": len(cases),
        "distinct_nontrivial": len(cases),
        "rule": f"every strict, reserved and weak keyword of edition 2024 ({len(KEYWORDS)}) x naming positions (simple type, complex type, element, attribute, global element, operation, part, service, message); "
                f"{len(PAYLOADS)} adversarial payloads (quotes, backslashes, braces, CR/LF, comment terminators, code-like text, non-ASCII) x data positions (documentation, enumeration, namespace URI, facets, soapAction, address); "
                f"{len(NAME_PAYLOADS) + 6} hostile names x naming positions. Each case plants the text (with a marker) in one position; the emitted file is lexed with proc_macro2/syn and every token containing the marker is classified",
        "samples": [cs["meta"] | {"impl": cs["impl"]} for cs in cases[:2] + cases[-2:]],
        "outcomes": dict(stats),
        "keyword_programs_compiled": n_comp,
        "disagreements_checked": len(cases) if model_ok else 0,
        "model_vs_impl_disagreements": len(corr),
    })
    c.assumptions += ["proc_macro2/syn are the Rust lexer used for classification; RustLex (Lean) is the ASCII subset used by the theorems",
                      "a schema the generator rejects with an error is an acceptable outcome for hostile names (C14 is about what is emitted)"]
    seen = set()
    for cls, msg in known_hits:
        if cls not in seen:
            seen.add(cls)
            c.known(f"{cls}: {known[cls]} (e.g. {msg[:160]})")
    if fails:
        by = collections.defaultdict(list)
        for cls, msg, cs in fails:
            by[cls].append((msg, cs))
        for cls, items in by.items():
            msg, cs = items[0]
            c.violation(st.save_replay(c, cs, msg, {"class": cls, "count": len(items), "position": cs["meta"]["pos"], "text": cs["meta"]["text"]}))
    elif c.proof["errors"] or not model_ok or corr:
        what = []
        if c.proof["errors"]:
            what.append({"broken": "proof obligations of ZeepVerif.Props.C14 over the regenerated keyword table", "errors": c.proof["errors"]})
        if not model_ok:
            what.append({"broken": "model does not build", "errors": model_err[-2000:]})
        if corr:
            what.append({"broken": "correspondence model vs implementation", "count": len(corr), "first": corr[0]["meta"], "impl": corr[0]["impl"], "model": corr[0].get("model")})
        c.violation({"kind": "obligation", "no_longer_checks": what, "searched": f"{len(cases)} planted texts, all confined to identifiers, literals and comments"}, no_input=True)
    g.cleanup(f"C14-{tier}-{seed}")
    return c.finish(checker_cmd=CHECKER)


def replay(payload):
    d = payload.get("case_dir")
    print(payload.get("what"))
    if d:
        rc, out, err = sh([ZV, "gen", os.path.join(d, "in"), payload["start"], "/tmp/c14_replay.rs"])
        print(out.strip())
        rc, out, err = sh([ZV, "lex", "/tmp/c14_replay.rs", MARK])
        print(out[:2000])
    return 0
