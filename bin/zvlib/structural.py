"""Shared runner for the properties decided on the structure of the generator's output
(C02, C08, C09, C10, C11, ...): proof obligations + generated-input correspondence + reference oracle."""
import collections
import glob
import hashlib
import json
import os
import shutil
from . import gencorr as g
from .common import Check, VERIF, REPO, ZV, sh

REPO_CORPUS_SMALL = [
    ("resources/hello", "hello.wsdl"), ("resources/temp_converter", "tempconverter.wsdl"),
    ("resources/simple", "simple.xsd"), ("resources/number_services", "number_services.wsdl"),
    ("zeep-lib/test-data", "extensions.xsd"), ("zeep-lib/test-data", "forward-pointing-type.xsd"),
    ("zeep-lib/test-data", "use-of-groups.xsd"), ("zeep-lib/test-data", "single-complex.xsd"),
    ("resources/blz_service", "blz.wsdl"), ("resources/weather", "weather.wsdl"),
    ("resources/smgr", "userimport.xsd"),
]
REPO_CORPUS_LARGE = [
    ("resources/aacc", "CustomerWS.wsdl"), ("resources/broadband_forum", "cwmp-1-2.xsd"),
    ("resources/exchange", "services.wsdl"), ("resources/exchange", "messages.xsd"), ("resources/aic", "agent_wsdl.xml"),
    ("resources/aic", "workflow_wsdl.xml"), ("resources/smgr", "IPOffice_Endpoint.xsd"),
]


def repo_corpus_cases(root, large=False):
    """the repository's own inputs, copied (flat files only) so nothing is written under /repo"""
    cases = []
    for i, (d, start) in enumerate(REPO_CORPUS_SMALL + (REPO_CORPUS_LARGE if large else [])):
        src = os.path.join(REPO, d)
        if not os.path.exists(os.path.join(src, start)):
            continue
        cd = os.path.join(root, f"r{i}")
        os.makedirs(os.path.join(cd, "in"), exist_ok=True)
        for f in os.listdir(src):
            p = os.path.join(src, f)
            # what the CLI would register: the start file and the sibling .xsd files
            if os.path.isfile(p) and (f == start or f.endswith(".xsd")):
                shutil.copy(p, os.path.join(cd, "in", f))
        cases.append({"dir": cd, "in": os.path.join(cd, "in"), "start": start, "meta": {"features": "repo-corpus", "source": f"{d}/{start}"}, "ref": None})
    return cases


def corpus_projection(indir, start):
    """what the current tree generates for a corpus input, in the normalised form the golden files are written in"""
    import tempfile
    out = tempfile.mktemp(prefix="zv-corpus-", suffix=".rs", dir="/var/tmp")
    try:
        rc, o, e = sh([ZV, "gen", indir, start, out])
        last = o.strip().split("\n")[-1] if o.strip() else f"crash rc={rc}"
        if not last.startswith("ok"):
            return ["OUTCOME\t" + last]
        src = open(out).read()
        cut = src.find("pub mod error {")
        open(out, "w").write(src[:cut] if cut >= 0 else src)
        rc, o, e = sh([ZV, "obs", out])
        obs = g.parse_obs([l for l in o.split("\n") if l])
        A = g.assignment(obs)
        lines = g.normalize_structs(obs, A, include_root=True)
        lines += [f"MODULE\t{A['mod2uri'].get(m, '?' + m)}" for m in obs["mods"]]
        lines += [f"CHECK\t{A['mod2uri'].get(c['mod'], '?' + c['mod'])}\t{c['name']}\t{' '.join(c['body'].split())}" for c in obs["checks"] if "Restrictions" in c["body"]]
        # which members the restriction check of a struct hands the check on to (every member must be there, at every depth)
        import re as _re
        lines += [f"DELEGATES\t{A['mod2uri'].get(c['mod'], '?' + c['mod']) if c['mod'] not in ('', '-') else '(no module)'}\t{c['name']}\t" +
                  ",".join(_re.findall(r"self\.\s*((?:r#)?[A-Za-z_][A-Za-z0-9_]*)\s*\.\s*check_restrictions", c["body"]))
                  for c in obs["checks"] if "Restrictions" not in c["body"]]
        lines += [f"FN\t{f['owner']}\t{f['name']}\tasync={int(f['async'])}\t{f['args']}\t{f['ret']}" for f in obs["fns"] if f["owner"] != "-" or f["async"]]
        lines += [f"STRING\t{k}\t{v}" for k, v in obs["conststr"] if "://" in v or v.startswith("urn:")]
        return sorted(lines)
    finally:
        if os.path.exists(out):
            os.remove(out)


def corpus_failures():
    """the targeted corpus (corpus/<case>/): inputs written for shapes the random generator rarely produces, each with a golden
    projection that was reviewed by hand against the property statements. Returns [(class, message, case)]."""
    root = os.path.join(VERIF, "corpus")
    out, n = [], 0
    for name in sorted(os.listdir(root)) if os.path.isdir(root) else []:
        d = os.path.join(root, name)
        gp = os.path.join(d, "golden.txt")
        if not os.path.exists(gp):
            continue
        n += 1
        start = open(os.path.join(d, "start.txt")).read().strip()
        want = [l for l in open(gp).read().split("\n") if l]
        have = corpus_projection(os.path.join(d, "in"), start)
        if have != want:
            missing = [l for l in want if l not in have]
            extra = [l for l in have if l not in want]
            case = {"dir": d, "in": os.path.join(d, "in"), "start": start, "meta": {"features": "corpus " + name}, "impl": have[0] if have and have[0].startswith("OUTCOME") else "ok", "ref": None}
            out.append(("corpus-" + name, f"corpus/{name} ({open(os.path.join(d, 'note.txt')).read().strip()}): expected but not generated: {missing[:2]}; generated but not expected: {extra[:2]}", case))
    return out, n


def verif_corpus_cases(root):
    """the targeted corpus as ordinary cases (model/implementation correspondence, rustc in C01)"""
    cases = []
    croot = os.path.join(VERIF, "corpus")
    for name in sorted(os.listdir(croot)) if os.path.isdir(croot) else []:
        d = os.path.join(croot, name)
        if not os.path.exists(os.path.join(d, "start.txt")):
            continue
        cd = os.path.join(root, "corpus-" + name)
        shutil.copytree(os.path.join(d, "in"), os.path.join(cd, "in"))
        cases.append({"dir": cd, "in": os.path.join(cd, "in"), "start": open(os.path.join(d, "start.txt")).read().strip(),
                      "meta": {"features": "targeted-corpus", "source": "corpus/" + name, "corpus": name}, "ref": None})
    return cases


def input_hash(case):
    h = hashlib.sha256()
    for f in sorted(os.listdir(case["in"])):
        h.update(os.fsencode(f))
        h.update(open(os.path.join(case["in"], f), "rb").read())
    h.update(case["start"].encode())
    return h.hexdigest()[:16]


def save_replay(check, case, what, extra=None):
    h = input_hash(case)
    d = os.path.join(VERIF, "replays", f"{check.pid}-{h}")
    shutil.rmtree(d, ignore_errors=True)
    shutil.copytree(case["in"], os.path.join(d, "in"))
    for f in ("meta.txt", "ref.obs"):
        p = os.path.join(case["dir"], f)
        if os.path.exists(p):
            shutil.copy(p, d)
    payload = {"kind": "oracle", "what": what, "case_dir": d, "start": case["start"],
               "features": case["meta"].get("features"), "impl_outcome": case.get("impl"),
               "replay_cmd": f"{ZV} gen {d}/in {case['start']} /tmp/out.rs   # then: {ZV} obs /tmp/out.rs ; reference facts in {d}/ref.obs"}
    if extra:
        payload.update(extra)
    return payload


def model_obs(case):
    rc, out, err = sh([ZV, "obs", case["model_rs"]])
    # observe the generated part only, like the batch does for the implementation
    src = open(case["model_rs"]).read()
    cut = src.find("pub mod error {")
    tmp = case["model_rs"] + ".cut.rs"
    open(tmp, "w").write(src[:cut] if cut >= 0 else src)
    rc, out, err = sh([ZV, "obs", tmp])
    return [l for l in out.split("\n") if l]


def run_structural(pid, tier, seed, prop_module, audit_file, profiles, oracle, projection, checker_cmd,
                   note_assumptions=(), extra_lean_targets=(), known_classes=None, rule_note="", extra=None, extra_props=()):
    """profiles: list of (generator-profile, n_quick, n_thorough)
    oracle(case, obs, A, norm) -> list of (class, message): failures of the property on the implementation
    projection(obs, A, norm) -> list of canonical lines: what the property looks at (for the correspondence)"""
    c = Check(pid, tier, seed)
    ok, err = c.build_harness()
    if not ok:
        c.violation({"kind": "harness-build", "what": "the correspondence harness no longer builds against /repo", "error": err}, no_input=True)
        return c.finish(checker_cmd=checker_cmd)
    c.extract()
    c.lake_build(["zvspec"])
    proved = c.prove(prop_module, audit_file, extra_lean_targets)
    for em, ea in extra_props:
        proved = c.prove(em, ea) and proved
    if tier == "thorough" and proved:
        c.leanchecker([prop_module] + [em for em, _ in extra_props])
    model_ok, model_err = c.lake_build(["zvdrv"])

    root = g.scratch(f"{pid}-{tier}-{seed}")
    cases = repo_corpus_cases(root, large=(tier == "thorough")) + verif_corpus_cases(root)
    escalate = (not proved) or (not model_ok)
    for (profile, nq, nt) in profiles:
        n = nq if tier == "quick" else nt
        if escalate:
            n = max(n, nt // 2)
        sub = os.path.join(root, profile)
        os.makedirs(sub, exist_ok=True)
        cases += g.gen_cases(seed * 100003 + 17, n, sub, profile)
    g.run_impl(cases)
    if model_ok:
        g.run_model(cases)

    feats = collections.Counter()
    outcomes = collections.Counter()
    oracle_fail, corr_fail, known_hits = [], [], []
    distinct = set()
    n_oracle = 0
    for case in cases:
        for t in (case["meta"].get("features") or "").split():
            feats[t.split("=")[0] if "=" in t and not t.startswith("ns=") else t] += 1
        outcomes[case["impl"].split(" ")[0] + ("" if case["impl"].startswith("ok") else " " + " ".join(case["impl"].split(" ")[1:2]))] += 1
        obs = A = norm = None
        if case["impl"].startswith("ok"):
            obs = g.parse_obs(case["impl_obs"])
            A = g.assignment(obs)
            norm = g.normalize_structs(obs, A)
        if case["ref"] is not None:
            n_oracle += 1
            distinct.add(input_hash(case))
            for cls, msg in oracle(case, obs, A, norm):
                if known_classes and cls in known_classes:
                    known_hits.append((cls, msg, case))
                else:
                    oracle_fail.append((cls, msg, case))
        if model_ok and not case.get("same_bytes", False):
            # bytes differ: compare what this property looks at
            same_proj = False
            if case["impl"].startswith("ok") and case.get("model", "").startswith("ok"):
                mo = g.parse_obs(model_obs(case))
                mA = g.assignment(mo)
                same_proj = projection(mo, mA, g.normalize_structs(mo, mA)) == projection(obs, A, norm)
            if not same_proj:
                corr_fail.append((case, case["impl"], case.get("model")))

    c.cov.update({
        "evaluations": len(cases),
        "distinct_nontrivial": len(distinct),
        "rule": "repository corpus + seeded inhabitants of the Spec grammar (Lean generator, profiles "
                + ", ".join(p for p, _, _ in profiles) + "); non-trivial = a generated schema set with a reference "
                "elaboration to compare with; distinct = distinct input file contents. " + rule_note,
        "samples": [{"dir_features": cs["meta"].get("features"), "start": cs["start"], "impl": cs["impl"],
                     "first_input_file": open(os.path.join(cs["in"], sorted(os.listdir(cs["in"]))[0])).read()[:600]} for cs in cases[len(cases) // 2: len(cases) // 2 + 2]],
        "feature_distribution": dict(feats),
        "impl_outcomes": dict(outcomes),
        "oracle_evaluated": n_oracle,
        "oracle_failures": len(oracle_fail),
        "disagreements_checked": len(cases) if model_ok else 0,
        "model_vs_impl_disagreements": len(corr_fail),
        "model_vs_impl_byte_identical": sum(1 for cs in cases if cs.get("same_bytes")),
    })
    c.assumptions += list(note_assumptions)

    # document-level correspondence (cfg-guarded hook in zeep-lib): the model's Doc against the real RustDocument, and the
    # conclusions of the every-input theorems evaluated on the real document
    from . import doccorr
    if model_ok:
        ndoc, docdis, docstats = doccorr.compare(cases)
        inv_bad = []
        for cs in cases:
            pth = os.path.join(cs["dir"], "doc.impl")
            if os.path.exists(pth):
                for what in doccorr.invariants(pth):
                    inv_bad.append((what, cs))
        c.cov["document_level"] = {"documents_compared": ndoc, "differing": len(docdis), "outcomes": docstats,
                                   "theorem_conclusions_violated_on_the_real_document": len(inv_bad)}
        for cs, d in docdis:
            corr_fail.append((cs, "RustDocument: " + d, "(document-level dump differs)"))
        for what, cs in inv_bad[:3]:
            oracle_fail.append(("document-invariant", f"the document the real reader returns violates a proved invariant of the model: {what}", cs))
    cf, ncorpus = corpus_failures()
    oracle_fail += cf
    c.cov["targeted_corpus"] = {"cases": ncorpus, "differ_from_reviewed_golden": len(cf)}
    c.cov["oracle_failures"] = len(oracle_fail)
    if extra is not None:
        # property-specific additional observation (e.g. rustc on compiled batches); may add violations
        for cls, msg, case in extra(c, cases):
            oracle_fail.append((cls, msg, case))
        c.cov["oracle_failures"] = len(oracle_fail)

    seen_known = set()
    for cls, msg, case in known_hits:
        if cls not in seen_known:
            seen_known.add(cls)
            c.known(f"{known_classes[cls]} (e.g. {msg}; input {case['meta'].get('seed')})")
    if oracle_fail:
        by_cls = collections.defaultdict(list)
        for cls, msg, case in oracle_fail:
            by_cls[cls].append((msg, case))
        for cls, items in by_cls.items():
            msg, case = min(items, key=lambda t: sum(os.path.getsize(os.path.join(t[1]["in"], f)) for f in os.listdir(t[1]["in"])))
            c.violation(save_replay(c, case, msg, {"class": cls, "count": len(items)}))
    elif c.proof["errors"] or not model_ok or corr_fail:
        what = []
        if c.proof["errors"]:
            what.append({"broken": f"proof obligations of {prop_module}", "errors": c.proof["errors"]})
        if not model_ok:
            what.append({"broken": "the Lean model / translated definitions do not build", "errors": model_err[-3000:]})
        if corr_fail:
            case, i, m = corr_fail[0]
            rp = save_replay(c, case, "model and implementation differ on what this property observes")
            what.append({"broken": "correspondence model vs implementation", "count": len(corr_fail), "impl": i, "model": m, "input": rp["case_dir"]})
        c.violation({"kind": "obligation", "no_longer_checks": what,
                     "searched": f"{n_oracle} generated schema sets against the reference oracle without finding a failing input"}, no_input=True)
    g.cleanup(f"{pid}-{tier}-{seed}")
    return c.finish(checker_cmd=checker_cmd)


def refinement_coverage(c, cases, key="reader_refinement_theorems"):
    """zvdrv plainfile on every generated input whose dump exists: does the decidable hypothesis of the file-level /
    import-graph refinement theorem hold on the tree the real parser produced, and does the closed form it states equal
    the reader model's result (executed as a cross-check)"""
    from .common import ZVDRV, run_lines
    todo = [cs for cs in cases if cs.get("ref") is not None and os.path.exists(cs.get("dump", "") or "")]
    rc, out, err = run_lines([ZVDRV, "plainfile"], [cs["dump"] + "\t" + cs["start"] for cs in todo])
    tally = collections.Counter(out)
    multi = sum(v for k, v in tally.items() if " imports" in k)
    c.cov[key] = {"inputs": len(todo), "hypothesis_holds_on_the_real_parse": sum(v for k, v in tally.items() if k.startswith("plain=1")),
                  "of_these_file_sets_with_imports": multi, "closed_form_equals_model_result": sum(v for k, v in tally.items() if "closed=ok" in k),
                  "closed_form_differs": sum(v for k, v in tally.items() if "closed=differs" in k)}
    if any("closed=differs" in k for k in tally) or len(out) != len(todo):
        c.proof["errors"].append("zvdrv plainfile: the closed form of the refinement theorem differs from the reader model's result (or the driver failed): " + str(dict(tally))[:300] + err[-200:])
    return []


def replay_case(payload, oracle):
    d = payload.get("case_dir")
    if not d or not os.path.isdir(d):
        print(json.dumps(payload, indent=1))
        return 1
    meta = {}
    mp = os.path.join(d, "meta.txt")
    if os.path.exists(mp):
        for l in open(mp).read().splitlines():
            if "=" in l:
                k, v = l.split("=", 1)
                meta[k] = v
    rp = os.path.join(d, "ref.obs")
    case = {"dir": g.scratch("replay"), "in": os.path.join(d, "in"), "start": payload.get("start", meta.get("start", "")), "meta": meta,
            "ref": [l for l in open(rp).read().split("\n") if l] if os.path.exists(rp) else None}
    g.run_impl([case])
    print("impl:", case["impl"])
    fails = []
    if case["ref"] is not None:
        obs = A = norm = None
        if case["impl"].startswith("ok"):
            obs = g.parse_obs(case["impl_obs"])
            A = g.assignment(obs)
            norm = g.normalize_structs(obs, A)
        fails = oracle(case, obs, A, norm)
    for cls, msg in fails:
        print("FAIL", cls, msg)
    return 1 if fails else 0
