"""Compile batches of emitted files together with assertion modules synthesized from the reference
observation (Spec.Ref): exact field names and types (C02), Send/Sync of envelopes and futures (C18).
rustc's verdict on the emitted module itself is C01's oracle."""
import os
from . import gencorr as g
from . import gencrate as gc
from .common import sh

PRIMS = g.PRIMS


def rust_path(leaf, k, uri2mod):
    """reference leaf -> Rust type path inside crate module g<k>"""
    if leaf.startswith("{"):
        u, n = leaf[1:].split("}", 1)
        m = uri2mod.get(u)
        if m is None:
            return None
        return f"crate::g{k}::{m}::{n}"
    return leaf


def struct_asserts(case, k, uri2mod):
    """module text asserting, for every reference struct, its exact field set and field types"""
    lines = ["#![allow(dead_code, unused_variables, non_snake_case)]\n"]
    structs = {}
    for l in case["ref"]:
        f = l.split("\t")
        if f[0] == "STRUCT":
            structs.setdefault((f[1], f[2]), {"fields": [], "simple": None})
        elif f[0] == "FIELD":
            structs.setdefault((f[1], f[2]), {"fields": [], "simple": None})["fields"].append((int(f[3]), f[4], f[5], f[6]))
        elif f[0] == "SIMPLE":
            structs.setdefault((f[1], f[2]), {"fields": [], "simple": None})["simple"] = (f[3], f[4])
    n = 0
    for (u, name), s in sorted(structs.items()):
        m = uri2mod.get(u)
        if m is None:
            lines.append(f'compile_error!("no module for namespace {u}");\n')
            continue
        path = f"crate::g{k}::{m}::{name}"
        body = []
        if s["simple"] is not None:
            kind, leaf = s["simple"]
            ty = rust_path(leaf, k, uri2mod) or "()"
            body.append(f"    let {path} {{ value: _ }} = v;\n    let _: &{ty} = &v.value;\n")
        else:
            fs = sorted(s["fields"])
            pat = ", ".join(f"{fn}: _" for _, fn, _, _ in fs)
            body.append(f"    let {path} {{ {pat} }} = v;\n")
            for _, fn, w, leaf in fs:
                ty = rust_path(leaf, k, uri2mod) or "()"
                full = {"T": ty, "Option": f"Option<{ty}>", "Vec": f"Vec<{ty}>"}[w]
                body.append(f"    let _: &{full} = &v.{fn};\n")
        lines.append(f"fn s{n}(v: &{path}) {{\n" + "".join(body) + "}\n")
        n += 1
    for l in case["ref"]:
        f = l.split("\t")
        if f[0] == "ALIAS":
            m = uri2mod.get(f[1])
            ty = rust_path(f[3], k, uri2mod)
            if m and ty:
                lines.append(f"fn al{n}(v: crate::g{k}::{m}::{f[2]}) -> {ty} {{ v }}\n")
                n += 1
    return "".join(lines), n


def send_asserts(case, k, obs):
    """module text asserting Send/Sync of every envelope type and Send of every client future"""
    lines = ["#![allow(dead_code, unused_variables, non_snake_case)]\nfn assert_send<T: Send>(_: T) {}\nfn assert_send_sync<T: Send + Sync>() {}\n"]
    # the shared-reference helper of the fixed runtime is Send + Sync whenever its content is (it "uses Arc")
    lines.append(f"fn multi_ref() {{\n    assert_send_sync::<crate::g{k}::multi_ref::MultiRef<String>>();\n    assert_send_sync::<crate::g{k}::multi_ref::MultiRef<Vec<i64>>>();\n}}\n")
    n = 1
    envs = sorted({s["name"] for s in obs["structs"] if s["mod"] == "-" and ("InputEnvelope" in s["name"] or "OutputEnvelope" in s["name"])})
    if envs:
        lines.append("fn envelopes() {\n" + "".join(f"    assert_send_sync::<crate::g{k}::{e}>();\n" for e in envs) + "}\n")
        n += len(envs)
    svc = {fn["owner"] for fn in obs["fns"] if fn["name"] == "new" and fn["owner"] != "-"}
    for fn in obs["fns"]:
        if fn["owner"] in svc and fn["name"] != "new" and fn["async"]:
            args = fn["args"].split(";")
            if len(args) == 2:
                lines.append(f"fn m{n}(svc: &'static crate::g{k}::{fn['owner']}, req: crate::g{k}::{args[1]}) {{\n    assert_send(svc.{fn['name']}(req));\n"
                             f"    let _h = tokio::runtime::Builder::new_multi_thread().build().unwrap().spawn(svc.{fn['name']}(crate::g{k}::{args[1]}::default()));\n}}\n")
                n += 1
        elif fn["owner"] == "-" and fn["async"] and fn["args"].endswith("Option<(String,String)>"):
            args = fn["args"].split(";")
            lines.append(f"fn f{n}(req: crate::g{k}::{args[0]}) {{\n    assert_send(crate::g{k}::{fn['name']}(req, None));\n}}\n")
            n += 1
    return "".join(lines), n


def compile_batch(cases, with_struct_asserts=True, with_send_asserts=True, cmd="check"):
    """cases must have impl_rs/impl_obs (run_impl). Returns per case: {'emitted': [...errors], 'structs': [...], 'send': [...]}"""
    ok = [c for c in cases if c["impl"].startswith("ok")]
    per = (len(ok) + gc.NCRATES - 1) // gc.NCRATES or 1
    where = {}
    counts = {"struct_asserts": 0, "send_asserts": 0, "modules": 0}
    for i in range(gc.NCRATES):
        mods = []
        for k, c in enumerate(ok[i * per:(i + 1) * per]):
            obs = g.parse_obs(c["impl_obs"])
            A = g.assignment(obs)
            uri2mod = {u: m for m, u in A["mod2uri"].items()}
            mods.append((f"g{k}", c["impl_rs"]))
            where[(i, f"g{k}")] = (c, "emitted")
            counts["modules"] += 1
            if with_struct_asserts and c.get("ref"):
                text, n = struct_asserts(c, k, uri2mod)
                mods.append((f"a{k}", ("text", text)))
                where[(i, f"a{k}")] = (c, "structs")
                counts["struct_asserts"] += n
            if with_send_asserts:
                text, n = send_asserts(c, k, obs)
                mods.append((f"s{k}", ("text", text)))
                where[(i, f"s{k}")] = (c, "send")
                counts["send_asserts"] += n
        gc.write_crate(i, mods)
    rc, out = gc.cargo(cmd, range(gc.NCRATES))
    errs, other = gc.errors_by_module(out)
    res = {id(c): {"emitted": [], "structs": [], "send": []} for c in ok}
    for key, msgs in errs.items():
        if key in where:
            c, kind = where[key]
            res[id(c)][kind] += msgs
    return ok, res, {"rc": rc, "other_errors": other[:10], **counts, "raw_tail": out[-1500:] if rc != 0 else ""}
