"""C17 — CLI: result depends on file contents only; failures keep the old output."""
import os
import shutil
import subprocess
from . import structural as st
from . import gencorr as g
from .common import Check, ZV, REPO, HARNESS, sh

CHECKER = "cd /verif/lean && lake build ZeepVerif.Props.C17 && lake env lean ZeepVerif/Audit/C17.lean"
BIN_DIR = os.path.join(HARNESS, "target", "zeepbin")
BIN = os.path.join(BIN_DIR, "debug", "zeep")

OK_XSD = """<xs:schema xmlns:xs="http://www.w3.org/2001/XMLSchema" xmlns:tns="urn:cli" xmlns:o="urn:other" targetNamespace="urn:cli" elementFormDefault="qualified">
  <xs:import namespace="urn:other" schemaLocation="other.xsd"/>
  <xs:complexType name="Order"><xs:sequence><xs:element name="id" type="xs:int"/><xs:element name="item" type="o:Item" maxOccurs="unbounded"/></xs:sequence></xs:complexType>
</xs:schema>
"""
OTHER_XSD = """<xs:schema xmlns:xs="http://www.w3.org/2001/XMLSchema" xmlns:tns="urn:other" targetNamespace="urn:other" elementFormDefault="qualified">
  <xs:complexType name="Item"><xs:sequence><xs:element name="name" type="xs:string"/></xs:sequence></xs:complexType>
</xs:schema>
"""
WSDL_ENCODED = """<wsdl:definitions xmlns:wsdl="http://schemas.xmlsoap.org/wsdl/" xmlns:soap="http://schemas.xmlsoap.org/wsdl/soap/" xmlns:xs="http://www.w3.org/2001/XMLSchema" xmlns:tns="urn:cli" targetNamespace="urn:cli">
  <wsdl:types><xs:schema targetNamespace="urn:cli"><xs:element name="A"><xs:complexType><xs:sequence/></xs:complexType></xs:element></xs:schema></wsdl:types>
  <wsdl:message name="M"><wsdl:part name="p" element="tns:A"/></wsdl:message>
  <wsdl:portType name="PT"><wsdl:operation name="op"><wsdl:input message="tns:M"/></wsdl:operation></wsdl:portType>
  <wsdl:binding name="B" type="tns:PT"><wsdl:operation name="op"><wsdl:input><soap:body use="encoded"/></wsdl:input></wsdl:operation></wsdl:binding>
</wsdl:definitions>
"""

class Link(str):
    """file content that is reached through a symbolic link (the content lives outside the project directory)"""


INPUTS = {
    # name: (files, start, expected to succeed)
    "ok": ({"main.xsd": OK_XSD, "other.xsd": OTHER_XSD}, "main.xsd", True),
    "ok-unrelated-siblings": ({"main.xsd": OK_XSD, "other.xsd": OTHER_XSD, "junk.xsd": "<<< not xml", "notes.txt": "hello", "broken.xml": "<a>"}, "main.xsd", True),
    "ok-imported-file-is-a-symlink": ({"main.xsd": OK_XSD, "other.xsd": Link(OTHER_XSD)}, "main.xsd", True),
    "ok-start-file-is-a-symlink": ({"main.xsd": Link(OK_XSD), "other.xsd": OTHER_XSD}, "main.xsd", True),
    "missing-input": ({"other.xsd": OTHER_XSD}, "main.xsd", False),
    "malformed-xml": ({"main.xsd": OK_XSD.replace("</xs:schema>", ""), "other.xsd": OTHER_XSD}, "main.xsd", False),
    "malformed-import": ({"main.xsd": OK_XSD, "other.xsd": "<xs:schema"}, "main.xsd", False),
    "unresolved-import": ({"main.xsd": OK_XSD}, "main.xsd", False),
    "import-without-namespace": ({"main.xsd": OK_XSD.replace('namespace="urn:other" ', ""), "other.xsd": OTHER_XSD}, "main.xsd", False),
    "unsupported-binding": ({"svc.wsdl": WSDL_ENCODED}, "svc.wsdl", False),
    # a sibling nobody imports that is not UTF-8 text is skipped by the tool's directory scan (fix 67f8c29); the library is given the rest
    "not-utf8-sibling": ({"main.xsd": OK_XSD, "other.xsd": OTHER_XSD, "bin.xsd": b"\xff\xfe\x00\x01"}, "main.xsd", True),
    "not-utf8-imported-file": ({"main.xsd": OK_XSD, "other.xsd": OTHER_XSD.encode("utf-16")}, "main.xsd", False),
    # XML allows white space around the `=` of an attribute and either kind of quote
    "ok-attribute-spacing": ({"main.xsd": OK_XSD.replace('schemaLocation="other.xsd"', "schemaLocation = 'other.xsd'").replace('namespace="urn:other"', 'namespace\n   =\t"urn:other"'), "other.xsd": OTHER_XSD}, "main.xsd", True),
    # the default output path replaces the LAST extension only
    "ok-two-dots-in-the-name": ({"catalog.v2.xsd": OK_XSD, "other.xsd": OTHER_XSD, "catalog.rs": "// somebody else's file\n"}, "catalog.v2.xsd", True),
    # a sibling whose name begins with a dot is a file like any other: it can be imported
    "ok-import-of-a-dot-file": ({"main.xsd": OK_XSD.replace('schemaLocation="other.xsd"', 'schemaLocation=".other.xsd"'), ".other.xsd": OTHER_XSD}, "main.xsd", True),
    "ok-no-extension": ({"schema": OK_XSD, "other.xsd": OTHER_XSD}, "schema", True),
    "ok-upper-case-extension": ({"MAIN.XSD": OK_XSD, "other.xsd": OTHER_XSD}, "MAIN.XSD", True),
}


def write_files(d, files, follow_links=False):
    os.makedirs(d, exist_ok=True)
    for n, t in files.items():
        if isinstance(t, Link) and not follow_links:
            shared = os.path.join(os.path.dirname(os.path.abspath(d)), "shared-" + os.path.basename(d))
            os.makedirs(shared, exist_ok=True)
            with open(os.path.join(shared, n), "w") as f:
                f.write(t)
            os.symlink(os.path.join(shared, n), os.path.join(d, n))
            continue
        mode = "wb" if isinstance(t, bytes) else "w"
        with open(os.path.join(d, n), mode) as f:
            f.write(t)


def run(tier, seed):
    c = Check("C17", tier, seed)
    ok, err = c.build_harness()
    if not ok:
        c.violation({"kind": "harness-build", "error": err}, no_input=True)
        return c.finish(checker_cmd=CHECKER)
    rc, out, e2 = sh(["cargo", "build", "--offline", "-q", "-p", "zeep", "--target-dir", BIN_DIR], cwd=REPO, timeout=3000)
    if rc != 0 or not os.path.exists(BIN):
        c.violation({"kind": "harness-build", "what": "the zeep binary does not build", "error": (out + e2)[-2000:]}, no_input=True)
        return c.finish(checker_cmd=CHECKER)
    c.extract()
    proved = c.prove("ZeepVerif.Props.C17", "ZeepVerif/Audit/C17.lean")
    if tier == "thorough" and proved:
        c.leanchecker(["ZeepVerif.Props.C17", "ZeepVerif.Generated.Cli"])
    root = g.scratch(f"C17-{tier}-{seed}")
    inputs = dict(INPUTS)
    # generated valid inputs too (schema sets and WSDLs), so that "same bytes as the library" is not about one file
    gsub = os.path.join(root, "gen")
    os.makedirs(gsub)
    gcases = g.gen_cases(seed * 4242 + 1, 4 if tier == "quick" else 40, gsub, "genwsdl") + g.gen_cases(seed * 4242 + 2, 4 if tier == "quick" else 40, os.path.join(root, "gen2"), "gencyc")
    for i, cs in enumerate(gcases):
        files = {f: open(os.path.join(cs["in"], f)).read() for f in os.listdir(cs["in"])}
        inputs[f"generated-{i}"] = (files, cs["start"], True)
    # "same-size": stale bytes of exactly the length the new output will have (a size comparison cannot tell them apart)
    OLD = {"absent": None, "shorter": "// old\n", "longer": "// old output that is longer than anything\n" * 4000, "same-size": "same-size"}
    fails = []
    n = 0
    kinds = {}
    samples = []
    for iname, (files, start, should_succeed) in inputs.items():
        # the library's bytes for the same file contents (only what the CLI registers: start + *.xsd siblings)
        lib_dir = os.path.join(root, "lib", iname)
        write_files(lib_dir, {k: v for k, v in files.items() if (k == start or k.endswith(".xsd")) and not (isinstance(v, bytes) and k != start)}, follow_links=True)
        rcl, lout, _ = sh([ZV, "gen", lib_dir, start, os.path.join(root, "lib", iname + ".rs")])
        lib_ok = lout.strip().startswith("ok")
        lib_bytes = open(os.path.join(root, "lib", iname + ".rs"), "rb").read() if lib_ok else None
        if lib_ok != should_succeed and not iname.startswith("generated"):
            # the scenario table itself is wrong about this input (machinery, not the property)
            c.notes.append(f"scenario {iname}: library outcome {lout.strip()} differs from the table's expectation")
        spellings = ["absolute", "relative-dir", "dot-slash", "bare", "dotdot"]
        if tier == "quick" and iname.startswith("generated"):
            spellings = ["bare", "relative-dir"]
        for spelling in spellings:
            outmodes = ["default", "explicit"]
            if spelling in ("bare", "absolute") and not iname.startswith("generated"):
                # `--output` is taken literally: whatever its extension, or none
                outmodes += ["explicit:result.inc", "explicit:bindings", "explicit:orders.rs.in"]
            for outmode in outmodes:
                for oldname, oldtext in OLD.items():
                    if tier == "quick" and oldname == "shorter" and spelling not in ("bare", "absolute"):
                        continue
                    n += 1
                    work = os.path.join(root, "w", f"{n}")
                    proj = os.path.join(work, "proj")
                    write_files(proj, files)
                    if spelling == "absolute":
                        cwd, ipath = work, os.path.join(proj, start)
                    elif spelling == "relative-dir":
                        cwd, ipath = work, os.path.join("proj", start)
                    elif spelling == "dot-slash":
                        cwd, ipath = proj, "./" + start
                    elif spelling == "bare":
                        cwd, ipath = proj, start
                    else:
                        cwd, ipath = proj, os.path.join("..", "proj", start)
                    if outmode.startswith("explicit"):
                        opath_abs = os.path.join(work, "out", outmode.partition(":")[2] or "result.rs")
                        os.makedirs(os.path.dirname(opath_abs), exist_ok=True)
                        args = ["--input", ipath, "--output", opath_abs if spelling == "absolute" else os.path.relpath(opath_abs, cwd)]
                    else:
                        opath_abs = os.path.join(proj, os.path.splitext(start)[0] + ".rs")
                        args = ["--input", ipath]
                    if oldname == "same-size":
                        oldtext = ("/" * len(lib_bytes)) if lib_bytes else "// stale\n"
                    if oldtext is not None:
                        open(opath_abs, "w").write(oldtext)
                    before_listing = sorted(os.listdir(proj)) + (sorted(os.listdir(os.path.dirname(opath_abs))) if os.path.isdir(os.path.dirname(opath_abs)) else [])
                    def snapshot():
                        snap = {}
                        for f in os.listdir(proj):
                            fp = os.path.join(proj, f)
                            if os.path.isfile(fp) and os.path.abspath(fp) != os.path.abspath(opath_abs):
                                snap[f] = open(fp, "rb").read()
                        return snap
                    before_bytes = snapshot()
                    try:
                        p = subprocess.run([BIN] + args, cwd=cwd, capture_output=True, text=True, timeout=120)
                        code = p.returncode
                    except subprocess.TimeoutExpired:
                        code = "timeout"
                    after = open(opath_abs, "rb").read() if os.path.exists(opath_abs) else None
                    kinds[(lib_ok, code == 0)] = kinds.get((lib_ok, code == 0), 0) + 1
                    desc = f"input={iname} spelling={spelling} output={outmode} old={oldname} exit={code}"
                    if len(samples) < 3:
                        samples.append(desc)
                    problem = None
                    if lib_ok:
                        if code != 0:
                            problem = f"the library accepts these files but the tool exited with {code}: {(p.stderr or '')[-200:]}"
                        elif after != lib_bytes:
                            problem = f"output differs from the library's bytes ({None if after is None else len(after)} vs {len(lib_bytes)} bytes)"
                        else:
                            # nothing else appears next to the output (e.g. the bytes written under another name)
                            now = sorted(os.listdir(proj)) + (sorted(os.listdir(os.path.dirname(opath_abs))) if os.path.isdir(os.path.dirname(opath_abs)) else [])
                            extra_files = [f for f in now if f not in before_listing and f != os.path.basename(opath_abs)]
                            if extra_files:
                                problem = f"the run created {extra_files} next to the requested output"
                            elif snapshot() != before_bytes:
                                problem = "the run changed a file other than the requested output"
                    else:
                        if code == 0:
                            problem = "generation fails in the library but the tool exited with status 0"
                        elif (oldtext is None and after is not None and len(after) >= 0 and after != b"" and False) or (oldtext is not None and after != oldtext.encode()):
                            problem = f"a pre-existing output file was changed by a failing run ({len(oldtext)} -> {None if after is None else len(after)} bytes)"
                    if problem:
                        fails.append((desc, problem, files, start, args, os.path.relpath(cwd, work)))
                    shutil.rmtree(work, ignore_errors=True)
    c.cov.update({
        "evaluations": n,
        "distinct_nontrivial": n,
        "rule": "the built zeep binary in scratch directories: inputs {valid schema set with import, with unrelated/malformed/non-schema siblings, missing file, malformed XML, malformed imported file, unresolved import, "
                "import without namespace, encoded binding, non-UTF-8 sibling, generated schema sets and WSDLs} x path spelling {absolute, dir/relative, ./file, bare file, ../dir/file} x output {default, --output} x "
                "pre-existing output {absent, shorter, longer, same size as the new output}; compared with the library's bytes for the same file contents; every combination is a distinct run",
        "samples": samples,
        "outcomes_lib_ok_x_exit0": {f"{k[0]}/{k[1]}": v for k, v in kinds.items()},
        "failures": len(fails),
    })
    c.assumptions += ["the OS file system and std::path (environment); failure while creating or writing the output file itself is outside the claim",
                      "Model.Cli abstracts the file system to the bytes at the output path"]
    if fails:
        desc, problem, files, start, args, cwdrel = fails[0]
        d = os.path.join(os.path.dirname(os.path.dirname(os.path.dirname(os.path.abspath(__file__)))), "replays", f"C17-{abs(hash(desc)) % 10**10}")
        shutil.rmtree(d, ignore_errors=True)
        write_files(os.path.join(d, "proj"), files)
        c.violation({"kind": "oracle", "what": problem, "scenario": desc, "count": len(fails), "case_dir": d,
                     "replay_cmd": f"cd {d}/{cwdrel if cwdrel != '.' else ''} && {BIN} {' '.join(args)}"})
    elif c.proof["errors"]:
        c.violation({"kind": "obligation", "no_longer_checks": [{"broken": "proof obligations of ZeepVerif.Props.C17 over the regenerated effect list of main", "errors": c.proof["errors"]}],
                     "searched": f"{n} runs of the binary, all conforming"}, no_input=True)
    g.cleanup(f"C17-{tier}-{seed}")
    return c.finish(checker_cmd=CHECKER)


def replay(payload):
    print(payload.get("replay_cmd"))
    return 0
