"""C01 — emitted Rust compiles against the documented dependencies only."""
import os
from . import structural as st
from . import gencorr as g
from . import compiled as cp
from . import gencrate

CHECKER = "cd /verif/lean && lake build ZeepVerif.Props.C01 && lake env lean ZeepVerif/Audit/C01.lean"


def oracle(case, obs, A, norm):
    if obs is None:
        return [("generation-failed", f"a well-formed schema set was not accepted: {case['impl']}")]
    if obs["parse"] and obs["parse"][0] != "ok":
        return [("output-does-not-parse", "the emitted file does not parse as Rust: " + " ".join(obs["parse"][1:])[:200])]
    out = []
    # nothing needs zeep: no `use`/path rooted at zeep
    for it in obs["items"]:
        if it[1] == "use" and ("zeep" in it[2]):
            out.append(("needs-zeep", f"the emitted file imports {it[2]}"))
    return out


def projection(obs, A, norm):
    # the whole item-level observation: names, paths, types, signatures
    if obs is None:
        return []
    return sorted(norm or []) + sorted(f"FN {f['owner']} {f['name']} {f['args']} {f['ret']}" for f in obs["fns"])


def rustc(c, cases):
    batch = [cs for cs in cases if cs["impl"].startswith("ok")]
    gen = [cs for cs in batch if cs.get("ref")]
    # repository inputs that lie inside the supported subset (the others, e.g. WSDLs with two bindings, are only used for the correspondence)
    repo = [cs for cs in batch if not cs.get("ref") and ((cs["meta"].get("source") or "").endswith(("hello.wsdl", "tempconverter.wsdl", "simple.xsd")) or cs["meta"].get("corpus"))]
    # a stratified sample: the profiles take turns, so every profile reaches rustc in the quick tier too
    by_profile = {}
    for cs in gen:
        by_profile.setdefault(os.path.basename(os.path.dirname(cs["dir"])), []).append(cs)
    limit = 72 if c.tier == "quick" else 1100
    picked = []
    k = 0
    while len(picked) < limit and any(k < len(v) for v in by_profile.values()):
        for v in by_profile.values():
            if k < len(v) and len(picked) < limit:
                picked.append(v[k])
        k += 1
    chosen = repo + picked
    fails = []
    n = 0
    for i in range(0, len(chosen), 64):
        ok, res, info = cp.compile_batch(chosen[i:i + 64], with_struct_asserts=False, with_send_asserts=False)
        n += info["modules"]
        for cs in ok:
            if res[id(cs)]["emitted"]:
                fails.append(("emitted-code-does-not-compile", "rustc (edition 2024, documented dependencies only): " + res[id(cs)]["emitted"][0][:300], cs))
        if info["rc"] != 0 and not any(any(v.values()) for v in res.values()):
            fails.append(("batch-build-failed", info["raw_tail"][-300:], chosen[i]))
    c.cov["rustc"] = {"programs_compiled": n, "rejected": len(fails), "crate_dependencies": "yaserde 0.12, yaserde_derive 0.12, xml-rs 0.8, log 0.4, reqwest 0.12, tokio 1 (harness/gc/gc*/Cargo.toml); no zeep"}
    gencrate.cleanup()
    return fails


def run(tier, seed):
    return st.run_structural(
        "C01", tier, seed, "ZeepVerif.Props.C01", "ZeepVerif/Audit/C01.lean",
        [("gen", 30, 500), ("genwsdl", 40, 700), ("gencollide", 10, 150), ("genwsdlcollide", 10, 150), ("gentopo", 40, 400)], oracle, projection, CHECKER, extra=rustc,
        note_assumptions=["rustc's acceptance of a program is the compiler's decision (environment): cargo check, edition 2024, in crates whose only dependencies are the documented six",
                          "names that shadow the fixed prelude (String, Vec, Option, Rc, ...) are outside NamesSeparated (DESIGN.md 2.2)"],
        rule_note="Every generated program of the batch and the repository corpus outputs are compiled by rustc.")


def replay(payload):
    return st.replay_case(payload, oracle)
