"""Structure-aware mutation of XSD/WSDL text (C13): element- and attribute-level edits through a DOM, and
text-level damage. Every choice comes from the given random.Random."""
import re
from xml.dom import minidom

QNAME_ATTRS = ("type", "base", "ref", "element", "message", "binding", "itemType", "memberTypes")


def _elements(doc):
    return [n for n in doc.getElementsByTagName("*")]


def mutate_dom(text, rng):
    """returns (new_text, op-name) or None when the text is not well-formed"""
    try:
        doc = minidom.parseString(text.encode("utf-8"))
    except Exception:
        return None
    els = _elements(doc)
    if len(els) < 2:
        return None
    op = rng.choice(["delete", "duplicate", "move", "dropattr", "alterattr", "retarget", "selfref", "rename-tag", "empty-enum",
                     "cyclic-base", "nest", "swap-name", "dup-def", "ref-loop", "strip-ns", "add-import"])
    e = rng.choice(els[1:])
    try:
        if op == "delete":
            e.parentNode.removeChild(e)
        elif op == "duplicate" or op == "dup-def":
            e.parentNode.insertBefore(e.cloneNode(True), e)
        elif op == "move":
            t = rng.choice(els)
            if t is not e and not _is_ancestor(e, t):
                e.parentNode.removeChild(e)
                t.appendChild(e)
        elif op == "dropattr":
            cands = [x for x in els if x.attributes and x.attributes.length]
            if cands:
                x = rng.choice(cands)
                x.removeAttribute(x.attributes.item(rng.randrange(x.attributes.length)).name)
        elif op == "alterattr":
            cands = [x for x in els if x.attributes and x.attributes.length]
            if cands:
                x = rng.choice(cands)
                a = x.attributes.item(rng.randrange(x.attributes.length))
                x.setAttribute(a.name, rng.choice(["", "0", "unbounded", "-1", "99999999999999999999", "a:b:c", ":", "x y", "é", "tns:", ":x",
                                                   a.value + a.value, a.value[::-1], "http://[bad", "literal", "encoded", "required", "xml:lang"]))
        elif op == "retarget":
            names = [x.getAttribute("name") for x in els if x.hasAttribute("name")]
            cands = [(x, a) for x in els for a in QNAME_ATTRS if x.hasAttribute(a)]
            if cands and names:
                x, a = rng.choice(cands)
                old = x.getAttribute(a)
                pfx = old.split(":")[0] + ":" if ":" in old else ""
                x.setAttribute(a, rng.choice([pfx, "", "zz:", "tns:"]) + rng.choice(names + ["nosuchthing"]))
        elif op == "selfref" or op == "ref-loop":
            cands = [x for x in els if x.hasAttribute("name")]
            if cands:
                x = rng.choice(cands)
                n = x.getAttribute("name")
                for y in x.getElementsByTagName("*"):
                    for a in ("type", "base", "ref"):
                        if y.hasAttribute(a) and rng.random() < 0.5:
                            old = y.getAttribute(a)
                            pfx = old.split(":")[0] + ":" if ":" in old else ""
                            y.setAttribute(a, pfx + n)
        elif op == "cyclic-base":
            exts = [x for x in els if x.localName == "extension" and x.hasAttribute("base")]
            if len(exts) >= 1:
                # make every extension point at the type that contains another extension
                owners = []
                for x in exts:
                    p = x
                    while p is not None and not (getattr(p, "hasAttribute", None) and p.hasAttribute("name")):
                        p = p.parentNode
                    owners.append(p.getAttribute("name") if p is not None else "x")
                for i, x in enumerate(exts):
                    old = x.getAttribute("base")
                    pfx = old.split(":")[0] + ":" if ":" in old else ""
                    x.setAttribute("base", pfx + owners[(i + 1) % len(owners)])
        elif op == "rename-tag":
            new = rng.choice(["sequence", "choice", "element", "attribute", "complexType", "simpleType", "extension", "restriction", "any", "all", "group",
                              "import", "schema", "part", "operation", "annotation", "documentation", "enumeration", "list", "union", "complexContent", "types"])
            pfx = e.tagName.split(":")[0] + ":" if ":" in e.tagName else ""
            e.tagName = pfx + new
            e.nodeName = pfx + new
        elif op == "empty-enum":
            rs = [x for x in els if x.localName == "restriction"]
            if rs:
                r = rng.choice(rs)
                pfx = r.tagName.split(":")[0] + ":" if ":" in r.tagName else ""
                r.appendChild(doc.createElement(pfx + "enumeration"))
        elif op == "nest":
            depth = rng.choice([3, 20, 150])
            pfx = e.tagName.split(":")[0] + ":" if ":" in e.tagName else ""
            parent = e.parentNode
            cur = doc.createElement(pfx + rng.choice(["sequence", "choice"]))
            top = cur
            for _ in range(depth):
                nxt = doc.createElement(pfx + rng.choice(["sequence", "choice", "sequence"]))
                cur.appendChild(nxt)
                cur = nxt
            parent.replaceChild(top, e)
            cur.appendChild(e)
        elif op == "swap-name":
            cands = [x for x in els if x.hasAttribute("name")]
            if len(cands) >= 2:
                a, b = rng.sample(cands, 2)
                na, nb = a.getAttribute("name"), b.getAttribute("name")
                a.setAttribute("name", nb)
                b.setAttribute("name", na if rng.random() < 0.5 else nb)
        elif op == "strip-ns":
            root = doc.documentElement
            names = [root.attributes.item(i).name for i in range(root.attributes.length)]
            xm = [n for n in names if n.startswith("xmlns:") and n not in ("xmlns:xs", "xmlns:xsd", "xmlns:wsdl", "xmlns:soap")]
            if xm:
                root.removeAttribute(rng.choice(xm))
        elif op == "add-import":
            root = doc.documentElement
            schemas = [x for x in els if x.localName == "schema"] or [root]
            s = rng.choice(schemas)
            pfx = s.tagName.split(":")[0] + ":" if ":" in s.tagName else ""
            imp = doc.createElement(pfx + "import")
            if rng.random() < 0.8:
                imp.setAttribute("namespace", rng.choice(["urn:x", "http://www.w3.org/2001/XMLSchema", ""]))
            if rng.random() < 0.8:
                imp.setAttribute("schemaLocation", rng.choice(["f0.xsd", "f1.xsd", "nosuch.xsd", "", "service.wsdl", "../x.xsd"]))
            s.insertBefore(imp, s.firstChild)
        out = doc.toxml()
        return out, op
    except Exception:
        return None


def _is_ancestor(a, b):
    p = b
    while p is not None:
        if p is a:
            return True
        p = p.parentNode
    return False


def mutate_text(text, rng):
    op = rng.choice(["truncate", "garbage", "nonxml", "drop-close", "bad-entity", "bom", "empty", "swap-chars", "unterminated-attr"])
    if op == "truncate":
        return text[: rng.randrange(0, max(1, len(text)))], op
    if op == "garbage":
        i = rng.randrange(0, max(1, len(text)))
        return text[:i] + "".join(rng.choice("<>&\"'/= \x00é�{}") for _ in range(rng.randrange(1, 12))) + text[i:], op
    if op == "nonxml":
        return rng.choice(["", "hello", "{\"a\": 1}", "<<<<", "<a>", "<?xml version='1.0'?>", "<!DOCTYPE x [<!ENTITY a \"&a;\">]><x>&a;</x>",
                           "<!DOCTYPE x [<!ENTITY a \"aaaaaaaaaa\"><!ENTITY b \"&a;&a;&a;&a;&a;&a;&a;&a;\"><!ENTITY c \"&b;&b;&b;&b;&b;&b;&b;&b;\">]><x>&c;&c;&c;</x>",
                           "<schema/>", "<definitions/>", "<definitions><types/></definitions>", "<schema><import/></schema>",
                           "<definitions><binding name='b' type='t'/></definitions>", "<definitions><service name='s'><port binding='b'/></service></definitions>"]), op
    if op == "drop-close":
        ms = list(re.finditer(r"</[^>]+>", text))
        if ms:
            m = rng.choice(ms)
            return text[: m.start()] + text[m.end():], op
        return text, op
    if op == "bad-entity":
        i = rng.randrange(0, max(1, len(text)))
        return text[:i] + "&nosuch;" + text[i:], op
    if op == "bom":
        return "﻿" + text, op
    if op == "empty":
        return "", op
    if op == "swap-chars":
        if len(text) > 2:
            i = rng.randrange(0, len(text) - 1)
            return text[:i] + text[i + 1] + text[i] + text[i + 2:], op
        return text, op
    i = text.find('="')
    return (text[: i + 2] + text[i + 3:].replace('"', "", 1), op) if i >= 0 else (text, op)
