"""Generated-input correspondence: Spec inhabitants (Lean generator) → real generator (zv batch) and
Lean model (zvdrv modelbatch); observation normalisation shared by the structural properties."""
import os
import re
import shutil
import subprocess
from .common import ZV, ZVDRV, ZVSPEC, sh, run_lines

SCRATCH = os.environ.get("ZV_SCRATCH", "/var/tmp/zv-work")


def scratch(name):
    d = os.path.join(SCRATCH, name)
    shutil.rmtree(d, ignore_errors=True)
    os.makedirs(d, exist_ok=True)
    return d


def cleanup(name):
    shutil.rmtree(os.path.join(SCRATCH, name), ignore_errors=True)


def gen_cases(seed, count, root, profile="gen"):
    rc, out, err = sh([ZVSPEC, profile, str(seed), str(count), root], timeout=3600)
    if rc != 0:
        # the generator itself died on some seed: regenerate one by one and skip that seed (reported on stderr)
        import sys
        for i in range(count):
            d = os.path.join(root, f"c{i}")
            if os.path.exists(os.path.join(d, "ref.obs")):
                continue
            shutil.rmtree(d, ignore_errors=True)
            tmp = os.path.join(root, f"_one{i}")
            r1, _, _ = sh([ZVSPEC, profile, str(seed + i), "1", tmp], timeout=300)
            if r1 == 0 and os.path.isdir(os.path.join(tmp, "c0")):
                os.rename(os.path.join(tmp, "c0"), d)
            else:
                print(f"generator failed on seed {seed + i} ({profile}); skipped", file=sys.stderr)
            shutil.rmtree(tmp, ignore_errors=True)
    cases = []
    for i in range(count):
        d = os.path.join(root, f"c{i}")
        if not os.path.isdir(d):
            continue
        meta = {}
        multi = {}
        for l in open(os.path.join(d, "meta.txt")).read().splitlines():
            if "=" in l:
                k, v = l.split("=", 1)
                if k in ("uri", "reachable"):
                    multi.setdefault(k, []).append(v)
                else:
                    meta[k] = v
        meta.update(multi)
        ref = []
        rp = os.path.join(d, "ref.obs")
        if os.path.exists(rp):
            ref = [l for l in open(rp).read().split("\n") if l]
        cases.append({"dir": d, "in": os.path.join(d, "in"), "start": meta.get("start", ""), "meta": meta, "ref": ref})
    return cases


def run_impl(cases, want_obs=True, want_dump=True):
    """real library, in-process batch; on a crash of the batch process, bisect case by case in child processes"""
    lines = []
    for c in cases:
        c["impl_rs"] = os.path.join(c["dir"], "impl.rs")
        c["dump"] = os.path.join(c["dir"], "tree.dump") if want_dump else "-"
        c["impl_obs_path"] = os.path.join(c["dir"], "impl.obs") if want_obs else "-"
        lines.append("\t".join([c["in"], c["start"], c["impl_rs"], c["dump"], c["impl_obs_path"]]))
    rc, replies, err = run_lines([ZV, "batch"], lines)
    if len(replies) != len(cases):
        # the batch died (stack overflow / abort): run each case in its own process
        replies = []
        for l in lines:
            try:
                p = subprocess.run([ZV, "batch"], input=l + "\n", capture_output=True, text=True, timeout=120)
                r = p.stdout.strip().split("\n")[-1] if p.stdout.strip() else ""
                if p.returncode != 0 or not r:
                    r = f"crash rc={p.returncode} {p.stderr.strip()[-200:]}"
            except subprocess.TimeoutExpired:
                r = "timeout"
            replies.append(r)
    for c, r in zip(cases, replies):
        c["impl"] = r
        c["impl_obs"] = []
        if want_obs and r.startswith("ok") and os.path.exists(c["impl_obs_path"]):
            c["impl_obs"] = [l for l in open(c["impl_obs_path"]).read().split("\n") if l]
    return cases


_IDENT_ATTR = re.compile(rb'(?:name|ref|type|base|element|message|binding|itemType|memberTypes)\s*=\s*(?:"([^"]*)"|\'([^\']*)\')')


def nonascii_identifier(case):
    """True when some input file carries a non-ASCII character in an attribute value that ends up in identifier position.
    Inflector's case conversion consults the Unicode tables there (is_alphanumeric / is_lowercase / is_uppercase); the Lean
    transcription is the ASCII one (documented approximation, DESIGN.md 9): such inputs are outside the byte correspondence,
    never outside a property's own oracle."""
    try:
        for f in os.listdir(case["in"]):
            data = open(os.path.join(case["in"], f), "rb").read()
            for m in _IDENT_ATTR.finditer(data):
                v = m.group(1) if m.group(1) is not None else m.group(2)
                if any(b > 127 for b in v):
                    return True
    except OSError:
        pass
    return False


def run_model(cases):
    lines = []
    for c in cases:
        c["model_rs"] = os.path.join(c["dir"], "model.rs")
        lines.append("\t".join([c["dump"], c["start"], c["model_rs"]]))
    rc, replies, err = run_lines([ZVDRV, "modelbatch"], lines)
    if len(replies) != len(cases):
        replies = (replies + ["model-crash"] * len(cases))[: len(cases)]
    for c, r in zip(cases, replies):
        c["model"] = r
        same = False
        if r == c.get("impl"):
            if r.startswith("ok"):
                try:
                    same = open(c["impl_rs"], "rb").read() == open(c["model_rs"], "rb").read()
                except OSError:
                    same = False
            else:
                same = True
        c["same_bytes"] = same
    return cases


def unesc(s):
    return s.replace("\\t", "\t").replace("\\n", "\n").replace("\\r", "\r").replace("\\\\", "\\")


def optv(tok):
    """'prefix=abc' -> 'abc', 'prefix-' -> None"""
    i = tok.find("=")
    return None if i < 0 else unesc(tok[i + 1:])


PRIMS = {"String", "i8", "i16", "i32", "i64", "u8", "u16", "u32", "u64", "f32", "f64", "bool"}


def parse_obs(lines):
    """structured view of `zv obs` output"""
    o = {"parse": None, "mods": [], "structs": [], "aliases": [], "fns": [], "conststr": [], "items": [], "checks": [], "impls": []}
    cur = {}
    for l in lines:
        f = l.split("\t")
        k = f[0]
        if k == "PARSE":
            o["parse"] = f[1:]
        elif k == "MOD":
            o["mods"].append(f[1])
        elif k == "STRUCT":
            s = {"mod": f[1], "name": f[2], "prefix": optv(f[3]), "rename": optv(f[4]), "derives": f[5][8:] if len(f) > 5 else "",
                 "ns": [], "fields": []}
            o["structs"].append(s)
            cur[(f[1], f[2])] = s
        elif k == "NSDECL":
            s = cur.get((f[1], f[2]))
            if s is not None:
                s["ns"].append((unesc(f[3]), unesc(f[4])))
        elif k == "FIELD":
            s = cur.get((f[1], f[2]))
            fld = {"idx": int(f[3]), "name": f[4], "wrapper": f[5], "leaf": f[6], "attr": f[7] == "attr=1", "text": f[8] == "text=1",
                   "flatten": f[9] == "flatten=1", "prefix": optv(f[10]), "rename": optv(f[11]), "pub": (f[12] == "vis=1") if len(f) > 12 else True}
            if s is not None:
                s["fields"].append(fld)
        elif k == "ALIAS":
            o["aliases"].append({"mod": f[1], "name": f[2], "leaf": f[3]})
        elif k == "FN":
            o["fns"].append({"owner": f[1], "name": f[2], "async": f[3] == "async=1", "args": f[4][5:], "ret": f[5][4:]})
        elif k == "CONSTSTR":
            o["conststr"].append((f[1], unesc(f[2])))
        elif k == "CHECK":
            o["checks"].append({"mod": f[1], "name": f[2], "body": unesc(f[3])})
        elif k == "IMPLFOR":
            o["impls"].append((f[1], f[2], f[3]))
        elif k == "ITEM":
            o["items"].append(tuple(f[1:]))
    return o


def assignment(o):
    """recover the namespace assignment A from the program itself: module -> uri, prefix -> uri, and
    every inconsistency found on the way (this is the C10 oracle)"""
    problems = []
    mod2uri, prefix2uri, uri2prefix, uri2mod = {}, {}, {}, {}
    for s in o["structs"]:
        decl = {}
        for p, u in s["ns"]:
            if p in decl and decl[p] != u:
                problems.append(f"struct {s['mod']}::{s['name']} declares prefix {p} twice with different URIs")
            decl[p] = u
            if p in prefix2uri and prefix2uri[p] != u:
                problems.append(f"prefix {p} is bound to {prefix2uri[p]} and to {u}")
            prefix2uri.setdefault(p, u)
            if u in uri2prefix and uri2prefix[u] != p:
                problems.append(f"namespace {u} has prefixes {uri2prefix[u]} and {p}")
            uri2prefix.setdefault(u, p)
        if s["mod"] != "-" and s["prefix"] is not None:
            u = decl.get(s["prefix"])
            if u is None:
                problems.append(f"struct {s['mod']}::{s['name']} uses undeclared prefix {s['prefix']}")
            else:
                if s["mod"] in mod2uri and mod2uri[s["mod"]] != u:
                    problems.append(f"module {s['mod']} holds components of {mod2uri[s['mod']]} and of {u}")
                mod2uri.setdefault(s["mod"], u)
                if u in uri2mod and uri2mod[u] != s["mod"]:
                    problems.append(f"namespace {u} is emitted in modules {uri2mod[u]} and {s['mod']}")
                uri2mod.setdefault(u, s["mod"])
        for f in s["fields"]:
            if f["prefix"] is not None and f["prefix"] not in decl:
                problems.append(f"field {s['mod']}::{s['name']}.{f['name']} uses prefix {f['prefix']} that its struct does not declare")
    seen = set()
    for m in o["mods"]:
        if m in seen:
            problems.append(f"module {m} is emitted twice")
        seen.add(m)
    return {"mod2uri": mod2uri, "prefix2uri": prefix2uri, "problems": problems}


def normalize_structs(o, A, include_root=False):
    """the implementation's structs in the reference format of Spec.Ref.structLines (modules and prefixes
    replaced by the URI they stand for); only items inside namespace modules"""
    out = []
    defined = {}
    for s in o["structs"]:
        defined.setdefault(s["mod"], set()).add(s["name"])
    for a in o["aliases"]:
        defined.setdefault(a["mod"], set()).add(a["name"])

    def leaf(mod, l):
        if "::" in l:
            m, n = l.rsplit("::", 1)
            u = A["mod2uri"].get(m)
            return "{" + (u if u is not None else "?" + m) + "}" + n
        if l in PRIMS and l not in defined.get(mod, set()):
            return l
        u = A["mod2uri"].get(mod)
        return "{" + (u if u is not None else "?" + mod) + "}" + l

    for s in o["structs"]:
        if (s["mod"] == "-" and not include_root) or "::" in s["mod"]:
            continue
        u = "(no module)" if s["mod"] == "-" else A["mod2uri"].get(s["mod"], "?" + s["mod"])
        out.append(f"STRUCT\t{u}\t{s['name']}\trename={s['rename'] if s['rename'] is not None else '-'}")
        fs = s["fields"]
        if len(fs) == 1 and fs[0]["name"] == "value" and (fs[0]["text"] or fs[0]["flatten"]):
            kind = "text" if fs[0]["text"] else "flatten"
            out.append(f"SIMPLE\t{u}\t{s['name']}\t{kind}\t{leaf(s['mod'], fs[0]['leaf'])}")
            continue
        decl = dict(s["ns"])
        for f in fs:
            ns = "-"
            if f["prefix"] is not None:
                ns = decl.get(f["prefix"], "?undeclared:" + f["prefix"])
            out.append(
                f"FIELD\t{u}\t{s['name']}\t{f['idx']}\t{f['name']}\t{f['wrapper']}\t{leaf(s['mod'], f['leaf'])}\tattr={1 if f['attr'] else 0}\tns={ns}\trename={f['rename'] if f['rename'] is not None else '-'}"
            )
    for a in o["aliases"]:
        if a["mod"] == "-" or "::" in a["mod"]:
            continue
        u = A["mod2uri"].get(a["mod"], "?" + a["mod"])
        out.append(f"ALIAS\t{u}\t{a['name']}\t{leaf(a['mod'], a['leaf'])}")
    return out


def diff_sets(ref, impl):
    rs, is_ = set(ref), set(impl)
    return sorted(rs - is_), sorted(is_ - rs)
