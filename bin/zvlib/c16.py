"""C16 — one POST per call; 4xx/5xx and unparsable replies are errors, never values."""
import re
from .common import Check, ZVH, ZVDRV, sh, run_lines

CHECKER = "cd /verif/lean && lake build ZeepVerif.Props.C16 && lake env lean ZeepVerif/Audit/C16.lean"
LINE = re.compile(r"^SCN (\S+) creds=(\d) status=(\S+) body=(\S+) close=(\S+) \| connections=(\d+) requests=(\d+) method=(\S+) path=(\S+) auth=(\S+) body_matches=(\d) result=(\S+) de_ok=(\d) value_matches=(\d)$")


def run(tier, seed):
    c = Check("C16", tier, seed)
    ok, err = c.build_harness()
    if not ok:
        c.violation({"kind": "harness-build", "error": err}, no_input=True)
        return c.finish(checker_cmd=CHECKER)
    c.extract()
    proved = c.prove("ZeepVerif.Props.C16", "ZeepVerif/Audit/C16.lean")
    if tier == "thorough" and proved:
        c.leanchecker(["ZeepVerif.Props.C16", "ZeepVerif.Generated.Send"])
    model_ok, model_err = c.lake_build(["zvdrv"])
    rounds = 1 if tier == "quick" else 8
    scns = []
    for r in range(rounds):
        rc, out, err = sh([ZVH, "c16", str(seed * 10 + r)], timeout=1200)
        for l in out.splitlines():
            m = LINE.match(l)
            if m:
                scns.append((l, m.groups()))
            elif l.startswith("SCN"):
                scns.append((l, None))
    oracle_fail, corr = [], []
    kinds = {}
    mlines = []
    for l, gr in scns:
        if gr is None:
            oracle_fail.append((l, "unparsable scenario line"))
            mlines.append("bad")
            continue
        name, creds, status, body, close, conns, reqs, method, path, auth, bmatch, result, de_ok, vmatch = gr
        conns, reqs = int(conns), int(reqs)
        kinds[result] = kinds.get(result, 0) + 1
        violating = name == "violating-request"
        # ---- the property, directly on the observation
        probs = []
        if violating:
            if result != "restriction" or conns != 0:
                probs.append(f"a request violating a facet gave result={result} with {conns} connection(s)")
        else:
            if close == "Refused":
                if result == "value":
                    probs.append("a refused connection returned a value")
            else:
                if conns != 1 or reqs != 1:
                    probs.append(f"{conns} connections / {reqs} requests for one call")
                if method != "POST" or path != "/soap/endpoint":
                    probs.append(f"request was {method} {path}")
                if bmatch != "1":
                    probs.append("request body is not the serialised envelope")
                if (creds == "1") != (auth == "ok") or auth in ("wrong", "missing"):
                    probs.append(f"credentials configured={creds} but Authorization header is {auth}")
            st = int(status) if status.isdigit() else None
            failed_exchange = close in ("Refused", "BeforeHeaders", "MidBody") or (st is not None and 400 <= st < 600) or de_ok != "1" or st == 204
            if failed_exchange and result == "value":
                probs.append("a failed exchange returned a value")
            if not failed_exchange and (result != "value" or vmatch != "1"):
                probs.append(f"a 2xx reply carrying the response envelope gave result={result} value_matches={vmatch}")
        for p in probs:
            oracle_fail.append((l, p))
        # ---- the model's prediction for the same environment
        tr = "refused" if close == "Refused" else ("closed" if close == "BeforeHeaders" else status)
        readable = "0" if close == "MidBody" else "1"
        eff_de = "0" if status == "204" else de_ok
        mlines.append(f"{0 if violating else 1} 1 {creds} {tr} {readable} {eff_de}")
    if model_ok:
        rcm, preds, _ = run_lines([ZVDRV, "http"], mlines)
        for (l, gr), pred in zip(scns, preds):
            if gr is None:
                continue
            name, creds, status, body, close, conns, reqs, method, path, auth, bmatch, result, de_ok, vmatch = gr
            pm = re.match(r"^(\S+) sends=(\d+) auth=(\d) post=(\d)$", pred)
            if not pm:
                corr.append((l, pred))
                continue
            exp_conn = 0 if close == "Refused" else int(pm.group(2))
            if pm.group(1) != result or exp_conn != int(conns) or (int(conns) == 1 and (pm.group(3) == "1") != (auth == "ok")):
                corr.append((l, pred))
    c.cov.update({
        "evaluations": len(scns),
        "distinct_nontrivial": len({g[0] + g[1] for _, g in scns if g}),
        "rule": "scripted loopback listener (std TcpListener) x the real helper compiled by path: statuses 200,201,204,400,401,403,404,500,503 x bodies {exact envelope, envelope with other prefixes, empty, non-XML, truncated, SOAP fault} "
                "x credentials {absent, present with ':' space and non-ASCII}, plus connection refused, closed before the response head, closed mid-body, and a request violating a facet; every scenario is distinct and non-trivial",
        "samples": [l for l, _ in scns[:3]],
        "result_classes": kinds,
        "property_failures": len(oracle_fail),
        "disagreements_checked": len(scns) if model_ok else 0,
        "model_vs_impl_disagreements": len(corr),
    })
    c.assumptions += ["reqwest 0.12: one request per send(), basic_auth adds the Authorization header, error_for_status_ref fails exactly for 4xx/5xx (environment, validated by these scenarios)",
                      "3xx replies are outside the claim; a 204 reply has no body (HTTP), so it cannot carry an envelope"]
    if oracle_fail:
        l, p = oracle_fail[0]
        c.violation({"kind": "oracle", "what": p, "scenario": l, "count": len(oracle_fail), "replay_cmd": f"{ZVH} c16 {seed * 10}"})
    elif c.proof["errors"] or not model_ok or corr:
        what = []
        if c.proof["errors"]:
            what.append({"broken": "proof obligations of ZeepVerif.Props.C16 over the regenerated helper body", "errors": c.proof["errors"]})
        if not model_ok:
            what.append({"broken": "model does not build", "errors": model_err[-2000:]})
        if corr:
            what.append({"broken": "correspondence helper model vs real helper", "count": len(corr), "first": corr[0]})
        c.violation({"kind": "obligation", "no_longer_checks": what, "searched": f"{len(scns)} scripted exchanges, all conforming"}, no_input=True)
    return c.finish(checker_cmd=CHECKER)


def replay(payload):
    rc, out, err = sh([ZVH, "c16", str(payload.get("seed", 1) * 10)], timeout=600)
    print(out[-3000:])
    return 0
