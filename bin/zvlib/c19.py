"""C19 — MultiRef<T> is transparent on the wire and for restriction checks."""
import re
from .common import Check, ZVH, sh

CHECKER = "cd /verif/lean && lake build ZeepVerif.Props.C19 && lake env lean ZeepVerif/Audit/C19.lean"


def run(tier, seed):
    c = Check("C19", tier, seed)
    ok, err = c.build_harness()
    if not ok:
        c.violation({"kind": "harness-build", "error": err}, no_input=True)
        return c.finish(checker_cmd=CHECKER)
    c.extract()
    proved = c.prove("ZeepVerif.Props.C19", "ZeepVerif/Audit/C19.lean")
    if tier == "thorough" and proved:
        c.leanchecker(["ZeepVerif.Props.C19", "ZeepVerif.Generated.Send"])
    n = 400 if tier == "quick" else 20000
    if not proved:
        n = max(n, 5000)
    rc, out, err = sh([ZVH, "c19", str(seed), str(n)], timeout=3000)
    diffs = [l for l in out.splitlines() if l.startswith("DIFF")]
    m = re.search(r"COMPARISONS (\d+) DIFFS (\d+)", out)
    comparisons = int(m.group(1)) if m else 0
    c.cov.update({
        "evaluations": comparisons,
        "distinct_nontrivial": comparisons,
        "rule": f"{n} seeded values of each probe type (text-only, attributes, nested with optional/repeated members and a second namespace, restricted, self-referential, and histories of checks with changing restriction sets on one shared value and a clone of it trees) x "
                "{root, field of a holder with scalar/repeated/optional positions} x {serialised text, deserialised Debug text, restriction verdict, Debug text, clone sharing (Arc::ptr_eq), Default}; bare vs wrapped, compared as strings",
        "samples": ["text-only root-ser: to_string(&v) == to_string(&MultiRef::new(v))", "attributes field-ser: holder with MultiRef<WithAttrs> vs holder with WithAttrs (exercises serialize_attributes)"],
        "differences": len(diffs),
        "disagreements_checked": comparisons,
    })
    c.assumptions += ["yaserde 0.12 derive semantics (environment): a struct-typed field merges the child's serialize_attributes into its start tag",
                      "the translator's classification of each forwarding impl body (cross-checked by these probes)"]
    if rc != 0 or not m:
        c.violation({"kind": "harness", "what": "probe run failed", "stderr": err[-1500:]}, no_input=True)
    elif diffs:
        c.violation({"kind": "oracle", "what": "a wrapped value is observably different from the bare value", "first": diffs[0], "count": len(diffs),
                     "replay_cmd": f"{ZVH} c19 {seed} {n}"})
    elif c.proof["errors"]:
        c.violation({"kind": "obligation", "no_longer_checks": [{"broken": "proof obligations of ZeepVerif.Props.C19 over the regenerated forwarding table", "errors": c.proof["errors"]}],
                     "searched": f"{comparisons} bare-vs-wrapped comparisons without a difference"}, no_input=True)
    return c.finish(checker_cmd=CHECKER)


def replay(payload):
    rc, out, err = sh([ZVH, "c19", str(payload.get("seed", 1)), "400"], timeout=600)
    print(out[-2000:])
    return 1 if "DIFF" in out else 0
