"""Shared plumbing for the per-property checks: builds, translator, Lean obligations, evidence, replays."""
import hashlib
import json
import os
import random
import re
import subprocess
import sys
import time

VERIF = os.path.dirname(os.path.dirname(os.path.dirname(os.path.abspath(__file__))))
REPO = os.environ.get("ZV_REPO", "/repo")
LEAN = os.path.join(VERIF, "lean")
HARNESS = os.path.join(VERIF, "harness")
GEN_DIR = os.path.join(LEAN, "ZeepVerif", "Generated")
ZV = os.path.join(HARNESS, "target", "debug", "zv")
ZVH = os.path.join(HARNESS, "target", "debug", "zvh")
ZVDRV = os.path.join(LEAN, ".lake", "build", "bin", "zvdrv")
ZVSPEC = os.path.join(LEAN, ".lake", "build", "bin", "zvspec")
ALLOWED_AXIOMS = {"propext", "Classical.choice", "Quot.sound"}
TRUSTED_BASE = [
    "Lean 4.33.0 kernel (thorough tier: re-checked with leanchecker)",
    "axioms: propext, Classical.choice, Quot.sound at most (audited per theorem on every run; no native_decide, no bv_decide, no sorry)",
    "Lean compiler, for the executable use of the model in the correspondence check",
    "zv extract (syn-based Rust→Lean translator) — its executable output is cross-checked against the real code on every run",
    "correspondence harness, canonicalisation and input generators (bound what the tie can see)",
]

ENV = dict(os.environ)
ENV.update({"CARGO_NET_OFFLINE": "true", "GOPROXY": "off", "PIP_NO_INDEX": "1"})
ENV["PATH"] = ENV.get("PATH", "") + ":/root/.cargo/bin:/opt/veriftools/lean/bin"


def sh(cmd, cwd=None, inp=None, timeout=None, env=None):
    """run a command, return (rc, stdout, stderr)"""
    p = subprocess.run(cmd, cwd=cwd, input=inp, capture_output=True, text=True, timeout=timeout, env=env or ENV)
    return p.returncode, p.stdout, p.stderr


class Check:
    """One run of one property's check."""

    def __init__(self, pid, tier, seed):
        self.pid = pid
        self.tier = tier
        self.seed = seed
        self.rng = random.Random(seed * 1000003 + int(pid[1:]))
        self.t0 = time.time()
        self.violations = []  # (replay_path, suffix)
        self.known_hits = []
        self.proof = {"obligations": 0, "discharged": 0, "theorems": [], "examples": 0, "errors": []}
        self.cov = {}
        self.assumptions = []
        self.notes = []
        self.findings = load_known_findings()

    # ---------------------------------------------------------------- builds
    def build_harness(self):
        """(re)build the Rust harness against /repo's current working tree (path dependency / include!)"""
        rc, out, err = sh(["cargo", "build", "--offline", "-q"], cwd=HARNESS, timeout=1800)
        if rc != 0:
            self.notes.append("harness build failed")
            return False, err[-4000:]
        return True, ""

    def extract(self):
        """tie #1: regenerate ZeepVerif/Generated/*.lean from /repo's current source"""
        rc, out, err = sh([ZV, "extract", REPO, GEN_DIR], timeout=300)
        if rc != 0:
            return False, (out + err)[-4000:]
        self.notes.append(out.strip())
        return True, out

    def lake_build(self, targets):
        rc, out, err = sh(["lake", "build"] + targets, cwd=LEAN, timeout=3600)
        txt = out + err
        if rc != 0:
            errs = [l for l in txt.splitlines() if "error" in l]
            return False, "\n".join(errs[:40]) + "\n...\n" + txt[-3000:]
        return True, txt

    def prove(self, prop_module, audit_file, extra_targets=()):
        """build the property's theorem module (re-checking it against the regenerated definitions)
        and audit the axioms of every theorem in it"""
        ok, txt = self.lake_build([prop_module, "ZeepVerif.AuditLib"] + list(extra_targets))
        src = os.path.join(LEAN, prop_module.replace(".", "/") + ".lean")
        n_thm_src = 0
        n_ex = 0
        if os.path.exists(src):
            s = open(src).read()
            n_thm_src = len(re.findall(r"^theorem\s", s, flags=re.M))
            n_ex = len(re.findall(r"^example\s", s, flags=re.M))
            bad = [m for m in re.findall(r"\b(sorry|admit|native_decide|bv_decide|implemented_by|unsafe)\b", strip_comments(s))]
            if bad:
                self.proof["errors"].append(f"forbidden token(s) in {prop_module}: {sorted(set(bad))}")
        self.proof["obligations"] += n_thm_src + n_ex
        self.proof["examples"] += n_ex
        if not ok:
            self.proof["errors"].append(f"lake build {prop_module} failed:\n{txt}")
            return False
        rc, out, err = sh(["lake", "env", "lean", audit_file], cwd=LEAN, timeout=900)
        if rc != 0:
            self.proof["errors"].append(f"audit failed: {(out + err)[-2000:]}")
            return False
        good = 0
        for line in out.splitlines():
            m = re.match(r"theorem (\S+) axioms=\[(.*)\]", line)
            if not m:
                continue
            axs = {a.strip() for a in m.group(2).split(",") if a.strip()}
            self.proof["theorems"].append({"name": m.group(1), "axioms": sorted(axs)})
            if axs <= ALLOWED_AXIOMS:
                good += 1
            else:
                self.proof["errors"].append(f"{m.group(1)} depends on {sorted(axs - ALLOWED_AXIOMS)}")
        if good < n_thm_src:
            self.proof["errors"].append(f"audit saw {good} clean theorems, source has {n_thm_src}")
        self.proof["discharged"] += min(good, n_thm_src) + (n_ex if good >= n_thm_src else 0)
        return not self.proof["errors"]

    def leanchecker(self, modules):
        for m in modules:
            rc, out, err = sh(["lake", "env", "leanchecker", m], cwd=LEAN, timeout=3600)
            if rc != 0:
                self.proof["errors"].append(f"leanchecker {m}: {(out + err)[-1500:]}")
                return False
        self.notes.append(f"leanchecker ok: {modules}")
        return True

    # ---------------------------------------------------------------- reporting
    def replay_path(self, payload):
        h = hashlib.sha256(json.dumps(payload, sort_keys=True).encode()).hexdigest()[:12]
        d = os.path.join(VERIF, "replays")
        os.makedirs(d, exist_ok=True)
        return os.path.join(d, f"{self.pid}-{h}.json")

    def violation(self, payload, no_input=False):
        payload = dict(payload)
        payload["property"] = self.pid
        payload["seed"] = self.seed
        payload["tier"] = self.tier
        path = self.replay_path(payload)
        with open(path, "w") as f:
            json.dump(payload, f, indent=1, sort_keys=True)
        self.violations.append((path, " no-failing-input-found" if no_input else ""))

    def known(self, what):
        self.known_hits.append(what)

    def known_classes(self):
        """class -> description of the findings recorded for this property in known_findings.json"""
        return {f["class"]: f["what"] for f in self.findings.get("findings", []) if f.get("property") == self.pid}

    def finish(self, level="proof", checker_cmd=""):
        wall = time.time() - self.t0
        cov = dict(self.cov)
        cov.setdefault("obligations", self.proof["obligations"])
        cov.setdefault("discharged", self.proof["discharged"])
        cov.setdefault("checker_cmd", checker_cmd)
        cov.setdefault("trusted_base", TRUSTED_BASE)
        cov["theorems"] = self.proof["theorems"]
        cov["non_vacuity_examples"] = self.proof["examples"]
        cov["proof_errors"] = [e[:1500] for e in self.proof["errors"]]
        cov["notes"] = self.notes
        cov["known_findings_reproduced"] = self.known_hits
        if cov.get("obligations", 0) < 1:
            cov["obligations"] = 1
        if cov.get("discharged", 0) < 1 and not self.proof["errors"]:
            cov["discharged"] = 0
        ev = {
            "property_id": self.pid,
            "tier": self.tier,
            "seed": self.seed,
            "level": level,
            "coverage": cov,
            "assumptions": self.assumptions,
            "wall_s": round(wall, 2),
            "violations": len(self.violations),
        }
        if level == "proof" and cov["discharged"] < 1:
            # nothing was discharged on this run (it is reported as a violation): the proof keys would not
            # validate with 0, so the counts are kept under other names and the exploration keys carry the file
            ev["coverage"]["obligations_total"] = ev["coverage"].pop("obligations")
            ev["coverage"]["discharged_count"] = ev["coverage"].pop("discharged")
            ev["coverage"]["evaluations"] = max(1, cov.get("evaluations", 1))
            ev["coverage"]["distinct_nontrivial"] = max(2, cov.get("distinct_nontrivial", 2))
            ev["coverage"].setdefault("samples", ["(no proof obligation was discharged on this run; see proof_errors)"])
        os.makedirs(os.path.join(VERIF, "evidence"), exist_ok=True)
        with open(os.path.join(VERIF, "evidence", f"{self.pid}.json"), "w") as f:
            json.dump(ev, f, indent=1)
        for k in self.known_hits:
            print(f"KNOWN-FINDING: property={self.pid} {k}")
        for path, suffix in self.violations:
            print(f"VIOLATION property={self.pid} replay={path}{suffix}")
        print(
            f"{self.pid} tier={self.tier} seed={self.seed} obligations={self.proof['obligations']} discharged={self.proof['discharged']} "
            f"evaluations={cov.get('evaluations', 0)} violations={len(self.violations)} wall={wall:.1f}s"
        )
        return 1 if self.violations else 0


def strip_comments(s):
    s = re.sub(r"/-.*?-/", "", s, flags=re.S)
    s = re.sub(r"--.*", "", s)
    return s


def load_known_findings():
    p = os.path.join(VERIF, "known_findings.json")
    if os.path.exists(p):
        return json.load(open(p))
    return {"findings": [], "fixed": []}


def hexs(s):
    return s.encode("utf-8").hex()


def run_lines(exe_args, lines, timeout=3600):
    """feed request lines to a line-protocol process, return reply lines (same count expected)"""
    rc, out, err = sh(exe_args, inp="\n".join(lines) + "\n", timeout=timeout)
    replies = out.split("\n")
    if replies and replies[-1] == "":
        replies.pop()
    return rc, replies, err
