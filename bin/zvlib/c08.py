"""C08 — a derived type carries its base type's members first, then its own."""
from . import structural as st
from . import gencorr as g

CHECKER = "cd /verif/lean && lake build ZeepVerif.Props.C08 && lake env lean ZeepVerif/Audit/C08.lean"


def derived_keys(case):
    return {tuple(l.split("\t")[1:3]) for l in case["ref"] if l.startswith("DERIVED")}


def oracle(case, obs, A, norm):
    if obs is None:
        return [("generation-failed", f"a well-formed schema set was not accepted: {case['impl']}")]
    keys = derived_keys(case)
    pick = lambda lines: [l for l in lines if l.split("\t")[0] in ("FIELD", "STRUCT") and tuple(l.split("\t")[1:3]) in keys]
    miss, extra = g.diff_sets(pick(case["ref"]), pick(norm))
    if miss or extra:
        return [("derived-members-differ", "reference: " + (miss[0].replace("\t", " ") if miss else "-") + " | emitted: " +
                 (extra[0].replace("\t", " ") if extra else "-") + f" ({len(miss)} missing, {len(extra)} unexpected)")]
    return []


def projection(obs, A, norm):
    return sorted(l for l in (norm or []) if l.startswith("FIELD") or l.startswith("STRUCT"))


def run(tier, seed):
    return st.run_structural(
        "C08", tier, seed, "ZeepVerif.Props.C08", "ZeepVerif/Audit/C08.lean",
        [("gen", 300, 8000), ("gencollide", 40, 1000), ("gentopo", 150, 3000)], oracle, projection, CHECKER, extra_props=[("ZeepVerif.Props.C08Read", "ZeepVerif/Audit/C08Read.lean"), ("ZeepVerif.Props.C08All", "ZeepVerif/Audit/C08All.lean"), ("ZeepVerif.Props.CpxAll", "ZeepVerif/Audit/CpxAll.lean"), ("ZeepVerif.Props.C08Denote", "ZeepVerif/Audit/C08Denote.lean")],
        note_assumptions=["derivation chains of the generator: depth up to the number of complex types, bases before/after/in another file (DAG imports)",
                          "the reference order Spec.Ref.members (c08_ref_order)"],
        rule_note="The oracle looks at the derived structs only: ordered member list incl. namespaces (members of the base first, own elements, own attributes).")


def replay(payload):
    return st.replay_case(payload, oracle)
