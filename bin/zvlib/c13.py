"""C13 — the library never panics, overflows or hangs, whatever the input."""
import collections
import os
import random
import shutil
import subprocess
from . import structural as st
from . import gencorr as g
from . import mutate
from .common import Check, ZV, VERIF

CHECKER = "cd /verif/lean && lake build ZeepVerif.Props.C13 && lake env lean ZeepVerif/Audit/C13.lean"


def deep_doc(n):
    open_, close = [], []
    for _ in range(n):
        open_.append("<xs:sequence>")
        close.append("</xs:sequence>")
    return ('<xs:schema xmlns:xs="http://www.w3.org/2001/XMLSchema" targetNamespace="urn:d"><xs:complexType name="T">' + "".join(open_)
            + '<xs:element name="x" type="xs:string"/>' + "".join(close) + "</xs:complexType></xs:schema>")


def scale_cases(root):
    """inputs that grow one dimension far beyond what the mutants reach; each runs in its own process under a time limit"""
    out = []

    def add(name, files, start):
        d = os.path.join(root, "scale", name, "in")
        os.makedirs(d)
        for n, t in files.items():
            open(os.path.join(d, n), "w").write(t)
        out.append({"dir": os.path.dirname(d), "in": d, "start": start, "meta": {"features": "scale " + name}, "ref": None})

    head = '<xs:schema xmlns:xs="http://www.w3.org/2001/XMLSchema" {x} targetNamespace="{u}" elementFormDefault="qualified">\n'
    ct = '  <xs:complexType name="{n}"><xs:sequence><xs:element name="v" type="xs:string"/></xs:sequence></xs:complexType>\n'
    for n in (12, 40, 150):
        # n namespaces whose natural abbreviation is the same, each in its own imported file
        files = {}
        imports = ""
        for i in range(n):
            u = f"http://example.com/api/v{i}/types"
            files[f"f{i}.xsd"] = head.format(x=f'xmlns:tns="{u}"', u=u) + ct.format(n=f"T{i}") + "</xs:schema>\n"
            imports += f'  <xs:import namespace="{u}" schemaLocation="f{i}.xsd"/>\n'
        files["main.xsd"] = head.format(x='xmlns:tns="http://example.com/api/main/types"', u="http://example.com/api/main/types") + imports + ct.format(n="Main") + "</xs:schema>\n"
        add(f"colliding-namespaces-{n}", files, "main.xsd")
        # the same n namespaces only bound as prefixes on one root element
        x = " ".join(f'xmlns:p{i}="http://example.com/api/v{i}/types"' for i in range(n))
        add(f"colliding-prefixes-{n}", {"main.xsd": head.format(x=x, u="http://example.com/api/main/types") + ct.format(n="Main") + "</xs:schema>\n"}, "main.xsd")
    # a derivation chain declared in reverse order (every base is a forward reference)
    for depth in (12, 60):
        body = ""
        for i in reversed(range(depth)):
            if i == 0:
                body += ct.format(n="T0")
            else:
                body += (f'  <xs:complexType name="T{i}"><xs:complexContent><xs:extension base="tns:T{i-1}"><xs:sequence><xs:element name="m{i}" type="xs:string"/></xs:sequence>'
                         "</xs:extension></xs:complexContent></xs:complexType>\n")
        add(f"forward-extension-chain-{depth}", {"main.xsd": head.format(x='xmlns:tns="urn:scale:chain"', u="urn:scale:chain") + body + "</xs:schema>\n"}, "main.xsd")
    add("components-3000", {"main.xsd": head.format(x='xmlns:tns="urn:scale:many"', u="urn:scale:many") + "".join(ct.format(n=f"T{i}") for i in range(3000)) + "</xs:schema>\n"}, "main.xsd")
    enum = "".join(f'<xs:enumeration value="v{i}"/>' for i in range(5000))
    add("enumeration-5000", {"main.xsd": head.format(x='xmlns:tns="urn:scale:enum"', u="urn:scale:enum") + f'<xs:simpleType name="E"><xs:restriction base="xs:string">{enum}</xs:restriction></xs:simpleType></xs:schema>\n'}, "main.xsd")
    # a DOCTYPE with an internal entity referred to tens of thousands of times in one text node (expansion must not be quadratic;
    # rejecting the DTD outright is an acceptable answer)
    ent = '<?xml version="1.0"?>\n<!DOCTYPE xs:schema [ <!ENTITY e "0123456789abcdef0123456789abcdef"> ]>\n'
    add("doctype-entity-references-160000", {"main.xsd": ent + head.format(x='xmlns:tns="urn:scale:dtd"', u="urn:scale:dtd") + '<xs:annotation><xs:documentation>' + "&e;" * 160000
        + "</xs:documentation></xs:annotation>" + ct.format(n="T") + "</xs:schema>\n"}, "main.xsd")
    add("name-20000-chars", {"main.xsd": head.format(x='xmlns:tns="urn:scale:name"', u="urn:scale:name") + ct.format(n="N" + "a" * 20000) + "</xs:schema>\n"}, "main.xsd")
    return out


XH = '<xs:schema xmlns:xs="http://www.w3.org/2001/XMLSchema" xmlns:tns="urn:c" targetNamespace="urn:c" elementFormDefault="qualified">\n'
XF = "</xs:schema>\n"


def group_chain(depth, fan):
    """`depth` model groups declared before the groups they refer to (forward references), each referring `fan` times to the next"""
    s = XH
    for i in range(depth):
        refs = "".join(f'<xs:group ref="tns:G{i+1}"/>' for _ in range(fan)) if i < depth - 1 else '<xs:element name="x" type="xs:string"/>'
        s += f'<xs:group name="G{i}"><xs:sequence>{refs}</xs:sequence></xs:group>\n'
    return s + '<xs:complexType name="T"><xs:sequence><xs:group ref="tns:G0"/></xs:sequence></xs:complexType>\n' + XF


def group_dag_backward(layers):
    """model groups in `layers` layers of two, every group referring to both groups of the layer below, each group declared BEFORE
    the groups that refer to it (no forward reference): a lower layer is reachable along 2^k paths, read once when found again"""
    s = XH
    for i in range(layers - 1, -1, -1):
        for side in ("L", "R"):
            body = f'<xs:element name="x{side}{i}" type="xs:string"/>' if i == layers - 1 else f'<xs:group ref="tns:L{i+1}"/><xs:group ref="tns:R{i+1}"/>'
            s += f'<xs:group name="{side}{i}"><xs:sequence>{body}</xs:sequence></xs:group>\n'
    return s + '<xs:complexType name="T"><xs:sequence><xs:group ref="tns:L0"/></xs:sequence></xs:complexType>\n' + XF


def wsdl_parts(inbody, outbody, inhdr="", outhdr=""):
    return f'''<?xml version="1.0"?>
<wsdl:definitions xmlns:wsdl="http://schemas.xmlsoap.org/wsdl/" xmlns:soap="http://schemas.xmlsoap.org/wsdl/soap/" xmlns:xs="http://www.w3.org/2001/XMLSchema" xmlns:tns="urn:w" targetNamespace="urn:w">
<wsdl:types><xs:schema targetNamespace="urn:w" elementFormDefault="qualified">
<xs:element name="Req"><xs:complexType><xs:sequence><xs:element name="a" type="xs:string"/></xs:sequence></xs:complexType></xs:element>
<xs:element name="Resp"><xs:complexType><xs:sequence><xs:element name="b" type="xs:string"/></xs:sequence></xs:complexType></xs:element>
<xs:element name="Hdr"><xs:complexType><xs:sequence><xs:element name="h" type="xs:string"/></xs:sequence></xs:complexType></xs:element>
</xs:schema></wsdl:types>
<wsdl:message name="In"><wsdl:part name="parameters" element="tns:Req"/><wsdl:part name="hdr" element="tns:Hdr"/></wsdl:message>
<wsdl:message name="Out"><wsdl:part name="parameters" element="tns:Resp"/><wsdl:part name="hdr" element="tns:Hdr"/></wsdl:message>
<wsdl:portType name="PT"><wsdl:operation name="Op"><wsdl:input message="tns:In"/><wsdl:output message="tns:Out"/></wsdl:operation></wsdl:portType>
<wsdl:binding name="B" type="tns:PT"><soap:binding style="document" transport="http://schemas.xmlsoap.org/soap/http"/>
<wsdl:operation name="Op"><soap:operation soapAction="urn:w/Op"/>
<wsdl:input>{inhdr}<soap:body use="literal"{inbody}/></wsdl:input>
<wsdl:output>{outhdr}<soap:body use="literal"{outbody}/></wsdl:output></wsdl:operation></wsdl:binding>
<wsdl:service name="S"><wsdl:port name="P" binding="tns:B"><soap:address location="http://localhost:1/s"/></wsdl:port></wsdl:service>
</wsdl:definitions>
'''


def reference_cases(root):
    """legal but unusual reference shapes, each in its own process: references of every kind that lead back to the component being
    read (model groups, attribute groups, a type and a group sharing one name), and `soap:body parts=` edge cases"""
    out = []

    def add(name, text, ext="xsd", more=None):
        d = os.path.join(root, "refs", name, "in")
        os.makedirs(d)
        open(os.path.join(d, f"main.{ext}"), "w").write(text)
        for fn, ft in (more or {}).items():
            open(os.path.join(d, fn), "w").write(ft)
        out.append({"dir": os.path.dirname(d), "in": d, "start": f"main.{ext}", "meta": {"features": "refs " + name}, "ref": None})

    # import cycles among files that declare no target namespace and bind no prefix of their own (nothing is "known" when the
    # nested read starts), with and without a namespace attribute on the import
    nons = '<xs:schema xmlns:xs="http://www.w3.org/2001/XMLSchema" elementFormDefault="unqualified">\n  <xs:import namespace="{ns}" schemaLocation="{loc}"/>\n  <xs:complexType name="{t}"><xs:sequence><xs:element name="v" type="xs:string"/><xs:element name="o" type="{o}" minOccurs="0"/></xs:sequence></xs:complexType>\n</xs:schema>\n'
    add("no-namespace-mutual-import", nons.format(ns="urn:x:b", loc="b.xsd", t="A", o="B"), more={"b.xsd": nons.format(ns="urn:x:a", loc="main.xsd", t="B", o="A")})
    add("no-namespace-self-import", nons.format(ns="urn:x:self", loc="main.xsd", t="A", o="A"))
    add("no-namespace-three-cycle", nons.format(ns="urn:x:b", loc="b.xsd", t="A", o="C"),
        more={"b.xsd": nons.format(ns="urn:x:c", loc="c.xsd", t="B", o="A"), "c.xsd": nons.format(ns="urn:x:a", loc="main.xsd", t="C", o="B")})
    add("mixed-namespace-cycle", XH + '  <xs:import namespace="urn:x:b" schemaLocation="b.xsd"/>\n<xs:complexType name="T"><xs:sequence><xs:element name="x" type="xs:string"/></xs:sequence></xs:complexType>\n' + XF,
        more={"b.xsd": nons.format(ns="urn:c", loc="main.xsd", t="B", o="B")})

    el = '<xs:element name="x" type="xs:string"/>'
    add("type-and-group-share-a-name", XH + f'<xs:complexType name="T"><xs:sequence><xs:group ref="tns:T"/></xs:sequence></xs:complexType>\n<xs:group name="T"><xs:sequence>{el}</xs:sequence></xs:group>\n' + XF)
    add("group-cycle", XH + '<xs:group name="G1"><xs:sequence><xs:group ref="tns:G2"/></xs:sequence></xs:group>\n<xs:group name="G2"><xs:sequence><xs:group ref="tns:G1"/></xs:sequence></xs:group>\n'
        '<xs:complexType name="T"><xs:sequence><xs:group ref="tns:G1"/></xs:sequence></xs:complexType>\n' + XF)
    add("group-refers-to-itself", XH + f'<xs:complexType name="T"><xs:sequence><xs:group ref="tns:G"/></xs:sequence></xs:complexType>\n<xs:group name="G"><xs:sequence><xs:group ref="tns:G"/>{el}</xs:sequence></xs:group>\n' + XF)
    add("attribute-group-refers-to-itself", XH + f'<xs:complexType name="T"><xs:sequence>{el}</xs:sequence><xs:attributeGroup ref="tns:A"/></xs:complexType>\n'
        '<xs:attributeGroup name="A"><xs:attributeGroup ref="tns:A"/><xs:attribute name="a" type="xs:string"/></xs:attributeGroup>\n' + XF)
    add("attribute-reference", XH + '<xs:complexType name="T"><xs:attribute ref="tns:a"/></xs:complexType>\n<xs:attribute name="a" type="xs:string"/>\n' + XF)
    add("elements-with-anonymous-types-refer-to-each-other", XH + '<xs:element name="E"><xs:complexType><xs:sequence><xs:element ref="tns:F"/></xs:sequence></xs:complexType></xs:element>\n'
        '<xs:element name="F"><xs:complexType><xs:sequence><xs:element ref="tns:E"/></xs:sequence></xs:complexType></xs:element>\n' + XF)
    add("type-group-cycle-through-extension", XH + '<xs:complexType name="T"><xs:complexContent><xs:extension base="tns:U"><xs:sequence><xs:group ref="tns:G"/></xs:sequence></xs:extension></xs:complexContent></xs:complexType>\n'
        '<xs:group name="G"><xs:sequence><xs:element name="t" type="tns:T"/><xs:group ref="tns:T"/></xs:sequence></xs:group>\n<xs:complexType name="U"><xs:sequence><xs:group ref="tns:G"/></xs:sequence></xs:complexType>\n' + XF)
    add("forward-group-chain-12-fan-2", group_chain(12, 2))
    add("backward-group-dag-32-layers", group_dag_backward(32))
    # import locations as they are written in the wild: percent signs (escapes, complete or not, before a multi-byte character),
    # query strings, directory parts, characters outside ASCII; the named file may or may not be among the siblings
    other = '<xs:schema xmlns:xs="http://www.w3.org/2001/XMLSchema" targetNamespace="urn:x:b"><xs:complexType name="B"><xs:sequence><xs:element name="v" type="xs:string"/></xs:sequence></xs:complexType></xs:schema>\n'
    for k, loc in enumerate(["common.xsd?coverage=100%", "remise-10%\u20ac.xsd", "%", "a%2", "%zz.xsd", "My%20Types.xsd", "%41.xsd", "dir/sub/../b.xsd", "./b.xsd", "b.xsd#frag", "b.xsd ", "\u00e9t\u00e9.xsd", "file:///b.xsd", "http://example.com/b.xsd", ""]):
        esc = loc.replace("&", "&amp;").replace('"', "&quot;").replace("<", "&lt;")
        add(f"import-location-{k}", XH + f'  <xs:import namespace="urn:x:b" schemaLocation="{esc}"/>\n<xs:complexType name="T"><xs:sequence><xs:element name="x" type="xs:string"/></xs:sequence></xs:complexType>\n' + XF,
            more={"b.xsd": other, "My Types.xsd": other, "A.xsd": other})
    hin = '<soap:header message="tns:In" part="hdr" use="literal"/>'
    hout = '<soap:header message="tns:Out" part="hdr" use="literal"/>'
    for name, args in (("parts-empty-input", (' parts=""', "")), ("parts-empty-output", ("", ' parts=""')), ("parts-only-a-header-part-input", (' parts="hdr"', "", hin)),
                       ("parts-only-a-header-part-output", ("", ' parts="hdr"', "", hout)), ("parts-list", (' parts="parameters hdr"', "")), ("parts-unknown", (' parts="nope"', "")),
                       ("parts-blank", (' parts=" "', ' parts=" parameters "'))):
        add(name, wsdl_parts(*args), "wsdl")
    return out


def run_scale(cases, limit=30):
    for cs in cases:
        try:
            p = subprocess.run([ZV, "gen", cs["in"], cs["start"], "-"], capture_output=True, text=True, timeout=limit)
            cs["impl"] = p.stdout.strip().split("\n")[-1] if p.returncode == 0 and p.stdout.strip() else f"crash rc={p.returncode}"
        except subprocess.TimeoutExpired:
            cs["impl"] = f"timeout after {limit}s"
    return cases


def build_mutants(cases, root, per_case, rng):
    out = []
    k = 0
    for cs in cases:
        files = sorted(os.listdir(cs["in"]))
        for _ in range(per_case):
            d = os.path.join(root, f"m{k}")
            k += 1
            os.makedirs(os.path.join(d, "in"))
            target = rng.choice(files) if rng.random() < 0.35 else cs["start"]
            ops = []
            for f in files:
                text = open(os.path.join(cs["in"], f), encoding="utf-8", errors="replace").read()
                if f == target and len(text) < 400000:
                    n_edits = 1 if rng.random() < 0.6 else rng.randrange(2, 5)
                    for _ in range(n_edits):
                        r = mutate.mutate_dom(text, rng) if rng.random() < 0.85 else mutate.mutate_text(text, rng)
                        if r is None:
                            r = mutate.mutate_text(text, rng)
                        text, op = r
                        ops.append(op)
                open(os.path.join(d, "in", f), "w", encoding="utf-8").write(text)
            out.append({"dir": d, "in": os.path.join(d, "in"), "start": cs["start"], "meta": {"features": "mutant " + "+".join(ops), "base": cs["meta"].get("source") or cs["meta"].get("seed")}, "ref": None})
    return out


def klass(outcome):
    w = outcome.split(" ")
    if w[0] == "ok":
        return "ok"
    return " ".join(w[:2])


def run(tier, seed):
    c = Check("C13", tier, seed)
    ok, err = c.build_harness()
    if not ok:
        c.violation({"kind": "harness-build", "error": err}, no_input=True)
        return c.finish(checker_cmd=CHECKER)
    c.extract()
    c.lake_build(["zvspec"])
    proved = c.prove("ZeepVerif.Props.C13", "ZeepVerif/Audit/C13.lean")
    proved = c.prove("ZeepVerif.Props.C13All", "ZeepVerif/Audit/C13All.lean") and proved
    if tier == "thorough" and proved:
        c.leanchecker(["ZeepVerif.Props.C13", "ZeepVerif.Props.C13All"])
    model_ok, model_err = c.lake_build(["zvdrv"])
    rng = random.Random(seed * 31337 + 13)
    root = g.scratch(f"C13-{tier}-{seed}")
    bases = st.repo_corpus_cases(root, large=False)
    for profile, nq, nt in (("gen", 40, 600), ("genwsdl", 40, 600), ("gencyc", 20, 300)):
        n = nq if tier == "quick" else nt
        sub = os.path.join(root, profile)
        os.makedirs(sub, exist_ok=True)
        bases += g.gen_cases(seed * 65537 + 5, n, sub, profile)
    per = 6 if tier == "quick" else 20
    if not proved:
        per *= 2
    mroot = os.path.join(root, "mut")
    os.makedirs(mroot)
    cases = build_mutants(bases, mroot, per, rng)
    g.run_impl(cases, want_obs=False)
    if model_ok:
        g.run_model(cases)
    bad, corr, outside_inflector = [], [], []
    outcomes = collections.Counter()
    ops = collections.Counter()
    for cs in cases:
        k = klass(cs["impl"])
        outcomes[k] += 1
        for o in cs["meta"]["features"].split(" ", 1)[1].split("+"):
            ops[o] += 1
        if cs["impl"].startswith(("panic", "crash", "timeout")) or not cs["impl"]:
            bad.append(cs)
        if model_ok and not cs.get("same_bytes"):
            # same outcome class, other bytes, and a non-ASCII name: outside the ASCII transcription of Inflector
            if cs["impl"].startswith("ok") and (cs.get("model") or "").startswith("ok") and g.nonascii_identifier(cs):
                outside_inflector.append(cs)
            else:
                corr.append(cs)
    # one dimension scaled up (namespaces with one abbreviation, forward-reference chains, thousands of components)
    scale = run_scale(scale_cases(root))
    for cs in scale:
        outcomes["scale: " + klass(cs["impl"])] += 1
        if cs["impl"].startswith(("panic", "crash", "timeout")) or not cs["impl"]:
            bad.append(cs)
    # ... and the hand-written corpus (shapes the generator does not produce), each in its own process: read AND write must return
    refs = run_scale(reference_cases(root) + [dict(cs, meta={"features": "corpus " + cs["meta"]["corpus"]}) for cs in st.verif_corpus_cases(os.path.join(root, "vc"))], limit=20)
    for cs in refs:
        outcomes["refs: " + klass(cs["impl"])] += 1
        if cs["impl"].startswith(("panic", "crash", "timeout")) or not cs["impl"]:
            bad.append(cs)
    # the hypothesis of the termination theorem (Props/C13All.tableOKB) on the real parse of the mutants, and the theorem's
    # conclusion on the executed model: where it holds the model must not have run out of fuel
    if model_ok:
        from .common import ZVDRV, run_lines
        todo = [cs for cs in cases if os.path.exists(cs.get("dump", "") or "")]
        rc, rep, err = run_lines([ZVDRV, "plainfile"], [cs["dump"] + "\t" + cs["start"] for cs in todo])
        tok = sum(1 for r in rep if r.endswith("tok=1"))
        contradicted = [cs for cs, r in zip(todo, rep) if r.endswith("tok=1") and "OutOfFuel" in (cs.get("model") or "")]
        c.cov["termination_theorem"] = {"inputs_with_a_parse": len(todo), "hypothesis_tableOKB_holds": tok, "model_out_of_fuel_where_it_holds": len(contradicted)}
        if contradicted:
            c.proof["errors"].append("the model ran out of fuel on an input that meets the hypothesis of c13_reader_terminates: " + contradicted[0]["in"])
    # the recorded finding: exponential time on forward references with fan-out (no memoisation of the fallback lookup)
    listed = c.known_classes()
    gdir = os.path.join(root, "fanout", "in")
    os.makedirs(gdir)
    open(os.path.join(gdir, "g.xsd"), "w").write(group_chain(26, 2))
    import time as _t
    t0 = _t.time()
    try:
        p = subprocess.run([ZV, "gen", gdir, "g.xsd", "-"], capture_output=True, text=True, timeout=8)
        fan_outcome = (p.stdout.strip().split("\n")[-1] if p.returncode == 0 and p.stdout.strip() else f"crash rc={p.returncode}") + f" in {_t.time() - t0:.1f}s"
    except subprocess.TimeoutExpired:
        fan_outcome = "timeout after 8s"
    if fan_outcome.startswith(("timeout", "crash")):
        if "forward-reference-fanout-exponential" in listed and fan_outcome.startswith("timeout"):
            c.known("forward-reference-fanout-exponential: 26 model groups, each declared before the group it refers to twice (a 2.6 kB schema): " + fan_outcome + "; 12 such groups take milliseconds, every two more quadruple the time")
        else:
            bad.append({"dir": os.path.join(root, "fanout"), "in": gdir, "start": "g.xsd", "impl": fan_outcome, "meta": {"features": "forward group chain 26 fan-out 2"}})
    # the recorded finding: very deep nesting, in a child process
    known_ok = None
    ddir = os.path.join(root, "deep", "in")
    os.makedirs(ddir)
    open(os.path.join(ddir, "d.xsd"), "w").write(deep_doc(60000))
    try:
        p = subprocess.run([ZV, "gen", ddir, "d.xsd", "-"], capture_output=True, text=True, timeout=120)
        deep_outcome = p.stdout.strip() if p.returncode == 0 else f"crash rc={p.returncode}"
    except subprocess.TimeoutExpired:
        deep_outcome = "timeout"
    shallow_dir = os.path.join(root, "shallow", "in")
    os.makedirs(shallow_dir)
    open(os.path.join(shallow_dir, "d.xsd"), "w").write(deep_doc(300))
    p = subprocess.run([ZV, "gen", shallow_dir, "d.xsd", "-"], capture_output=True, text=True, timeout=120)
    shallow_outcome = p.stdout.strip() if p.returncode == 0 else f"crash rc={p.returncode}"
    if deep_outcome.startswith(("crash", "timeout")):
        if "deep-nesting-stack-overflow" in listed:
            c.known(f"deep-nesting-stack-overflow: 60000 nested <xs:sequence> elements: {deep_outcome} (stack overflow inside roxmltree::Document::parse)")
        else:
            bad.append({"dir": os.path.join(root, "deep"), "in": ddir, "start": "d.xsd", "impl": deep_outcome, "meta": {"features": "nesting depth 60000"}})
    if shallow_outcome.startswith(("crash", "timeout", "panic")):
        bad.append({"dir": os.path.join(root, "shallow"), "in": shallow_dir, "start": "d.xsd", "impl": shallow_outcome, "meta": {"features": "nesting depth 300"}})
    c.cov.update({
        "evaluations": len(cases) + 2,
        "distinct_nontrivial": len({st.input_hash(cs) for cs in cases}),
        "rule": f"{per} mutants of each of {len(bases)} base inputs (repository schemas and generated valid schema sets/WSDLs): 1-4 edits each, DOM-level (delete/duplicate/move element, drop/alter attribute, "
                "retarget QName, self- and mutually-referential definitions, cyclic bases, tag renaming, enumeration without value, nesting up to 150, name swaps, stripped xmlns, added imports) or text-level "
                "(truncation, garbage, non-XML, entity bombs, BOM); plus a scale family (12/40/150 namespaces sharing one abbreviation as imports and as prefixes, forward-reference extension chains of depth 12 and 60, "
                "3000 components, 5000 enumeration values, a 20000-character name), each in its own process under a 30 s limit; run in-process under catch_unwind, re-run in a child process with a time limit when the batch dies; distinct = distinct file contents",
        "samples": [{"mutations": cs["meta"]["features"], "base": cs["meta"]["base"], "impl": cs["impl"], "model": cs.get("model")} for cs in cases[:4]],
        "impl_outcome_classes": dict(outcomes),
        "mutation_operators": dict(ops),
        "panics_crashes_timeouts": len(bad),
        "disagreements_checked": len(cases) if model_ok else 0,
        "model_vs_impl_disagreements": len(corr),
        "outside_inflector_transcription": len(outside_inflector),
        "scale_family": {cs["meta"]["features"]: cs["impl"][:60] for cs in scale},
        "reference_family": {cs["meta"]["features"]: cs["impl"][:60] for cs in refs},
        "fanout_probe": fan_outcome,
        "deep_nesting_probe": {"depth_60000": deep_outcome, "depth_300": shallow_outcome},
    })
    c.assumptions += ["stack size and wall-clock are the runtime's: the theorems bound recursion structurally (memberSites) and by construction (no panic site in the library); the differential run observes the real process",
                      "roxmltree's own behaviour is not modelled (both sides start from its tree); its stack use on deep nesting is the recorded finding"]
    if bad:
        cs = min(bad, key=lambda t: sum(os.path.getsize(os.path.join(t["in"], f)) for f in os.listdir(t["in"])))
        c.violation(st.save_replay(c, cs, f"the library did not return: {cs['impl']} ({cs['meta']['features']})", {"count": len(bad)}))
    elif c.proof["errors"] or not model_ok or corr:
        what = []
        if c.proof["errors"]:
            what.append({"broken": "proof obligations of ZeepVerif.Props.C13 (incl. the panic-site inventory)", "errors": c.proof["errors"]})
        if not model_ok:
            what.append({"broken": "model does not build", "errors": model_err[-2000:]})
        if corr:
            rp = st.save_replay(c, corr[0], "model and implementation disagree on the outcome")
            what.append({"broken": "correspondence model vs implementation (outcome class / bytes)", "count": len(corr), "impl": corr[0]["impl"], "model": corr[0].get("model"), "input": rp["case_dir"]})
        c.violation({"kind": "obligation", "no_longer_checks": what, "searched": f"{len(cases)} mutants without a panic, crash or timeout"}, no_input=True)
    g.cleanup(f"C13-{tier}-{seed}")
    return c.finish(checker_cmd=CHECKER)


def replay(payload):
    d = payload.get("case_dir")
    if not d:
        print(payload)
        return 1
    try:
        p = subprocess.run([ZV, "gen", os.path.join(d, "in"), payload["start"], "-"], capture_output=True, text=True, timeout=120)
        out = p.stdout.strip() if p.returncode == 0 else f"crash rc={p.returncode}"
    except subprocess.TimeoutExpired:
        out = "timeout"
    print(out)
    return 1 if out.startswith(("panic", "crash", "timeout")) else 0
