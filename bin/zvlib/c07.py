"""C07 — declared facets are enforced at every depth and before anything is sent."""
import re
from . import rtcheck
from .common import ZVH, sh
from . import gencorr as g
from . import genclient

CHECKER = "cd /verif/lean && lake build ZeepVerif.Props.C07 && lake env lean ZeepVerif/Audit/C07.lean"


def pick(v):
    if v.startswith("restriction check says"):
        return "facet-verdict-differs"
    return None


def transmission(c, cases, mine):
    """the transmission half: a violating request must not open a connection (loopback listener, real helper)"""
    rc, out, err = sh([ZVH, "c16", str(c.seed)], timeout=600)
    lines = [l for l in out.splitlines() if l.startswith("SCN violating-request")]
    # the same through the service methods of a generated client (the emitted method bodies decide what is called)
    root = g.scratch(f"C07-client-{c.seed}")
    glines, gproblem = genclient.run(root)
    g.cleanup(f"C07-client-{c.seed}")
    lines += [l for l in glines if l.startswith("SCN violating-request")]
    if gproblem:
        c.violation({"kind": "oracle", "what": "generated client: " + gproblem})
    bad = [l for l in lines if "connections=0" not in l or "result=restriction" not in l]
    c.cov["transmission_half"] = {"violating_requests_sent_to_a_loopback_listener": len(lines), "connections_opened_or_wrong_error": len(bad)}
    if bad or not lines:
        c.violation({"kind": "oracle", "what": "a request that violates a facet reached the network or did not return the restriction error", "scenario": (bad or ["no scenario ran"])[0]})


def run(tier, seed):
    return rtcheck.run_rt(
        "C07", tier, seed, "ZeepVerif.Props.C07", "ZeepVerif/Audit/C07.lean", CHECKER,
        [("gen", 40, 700), ("gencollide", 8, 100), ("genwsdl", 8, 100)], "inst7.txt", pick, True,
        ["values are placed by deserialising instance documents in which the independent generator put facet-violating or boundary values at every position where a restricted simple type occurs (attributes, nested, optional, repeated members, derived simple types); "
         "the expected verdict is computed by the specification's evaluator (Spec.Facets over the effective facets of the derivation chain), never by zeep",
         "numeric facets on integer-based simple types are carried as text (value: String) and checked on the parsed number",
         "the envelope level (header/body delegation) is covered by the emitted-check theorems and the helper scenarios; the round trips check the types below the envelope"],
        "instances from Spec.Inst with a 60% chance of a violating value at each restricted position: check_restrictions(None) on the compiled emitted value must fail exactly when the specification says some value violates its effective facets; plus the helper's violating-request scenarios on a loopback listener",
        extra_after=transmission, extra_props=[("ZeepVerif.Props.C07Tree", "ZeepVerif/Audit/C07Tree.lean")])


def replay(payload):
    print(payload.get("instance"))
    return 0
