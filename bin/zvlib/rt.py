"""Round-trip batches (C03, C04, C07): instance documents from the independent generator (Spec.Inst) are
deserialised into the *compiled emitted types*, checked, serialised again; the resulting text is compared
with the instance as XML infosets."""
import os
import xml.etree.ElementTree as ET
from . import gencorr as g
from . import gencrate as gc

DRIVER_PRELUDE = r'''
mod drv {
    use std::fmt::Write as _;
    pub fn hex(s: &str) -> String {
        let mut o = String::with_capacity(s.len() * 2);
        for b in s.bytes() { let _ = write!(o, "{b:02x}"); }
        o
    }
    /// run one round trip on its own thread: a panic or a hang of the XML runtime must not take the batch down
    pub fn with_timeout<F: FnOnce() -> String + Send + 'static>(f: F) -> String {
        let (tx, rx) = std::sync::mpsc::channel();
        std::thread::Builder::new().stack_size(16 << 20).spawn(move || {
            let r = std::panic::catch_unwind(std::panic::AssertUnwindSafe(f));
            let _ = tx.send(r.unwrap_or_else(|_| "panic".to_string()));
        }).ok();
        match rx.recv_timeout(std::time::Duration::from_millis(800)) {
            Ok(s) => s,
            Err(_) => "hang".to_string(),
        }
    }
}
'''


def reference_module(case):
    """Rust source of reference structs written from the reference observation (Spec.Ref) only: one module
    per namespace, yaserde attributes straight from the documented wire form"""
    uris = []
    for l in case["ref"]:
        f = l.split("\t")
        if f[0] in ("STRUCT", "ALIAS") and f[1] not in uris:
            uris.append(f[1])
    for l in case["ref"]:
        f = l.split("\t")
        if f[0] == "FIELD":
            for u in (f[6][1:].split("}")[0] if f[6].startswith("{") else None, f[8][3:] if f[8] != "ns=-" else None):
                if u and u not in uris:
                    uris.append(u)
    idx = {u: i for i, u in enumerate(uris)}
    nsmap = ", ".join(f'"n{i}" = {rust_str(u)}' for u, i in idx.items())

    def ty(leaf):
        if leaf.startswith("{"):
            u, n = leaf[1:].split("}", 1)
            return f"super::n{idx.get(u, 0)}::{n}"
        return leaf

    mods = {u: [] for u in uris}
    fields = {}
    simple = {}
    renames = {}
    for l in case["ref"]:
        f = l.split("\t")
        if f[0] == "STRUCT":
            renames[(f[1], f[2])] = f[3][7:]
            fields.setdefault((f[1], f[2]), [])
        elif f[0] == "FIELD":
            fields.setdefault((f[1], f[2]), []).append((int(f[3]), f[5], f[6], f[7] == "attr=1", f[8][3:], f[9][7:]))
        elif f[0] == "SIMPLE":
            simple[(f[1], f[2])] = (f[3], f[4])
        elif f[0] == "ALIAS":
            mods[f[1]].append(f"    pub type {f[2]} = {ty(f[3])};\n")
    for (u, name), fs in fields.items():
        head = f'    #[derive(Debug, Default, YaSerialize, YaDeserialize)]\n    #[yaserde(prefix = "n{idx[u]}", namespaces = {{{nsmap}}}, rename = {rust_str(renames[(u, name)])})]\n    pub struct {name} {{\n'
        body = ""
        if (u, name) in simple:
            kind, leaf = simple[(u, name)]
            body = f"        #[yaserde({kind} = true)]\n        pub value: {ty(leaf)},\n"
        else:
            for i, w, leaf, attr, ns, xmlname in sorted(fs):
                t = ty(leaf)
                full = {"T": t, "Option": f"Option<{t}>", "Vec": f"Vec<{t}>"}[w]
                if attr:
                    body += f"        #[yaserde(rename = {rust_str(xmlname)}, attribute = true)]\n        pub f{i}: {full},\n"
                else:
                    pfx = f'prefix = "n{idx[ns]}", ' if ns in idx else ""
                    body += f"        #[yaserde({pfx}rename = {rust_str(xmlname)})]\n        pub f{i}: {full},\n"
        mods[u].append(head + body + "    }\n")
    out = ["use yaserde_derive::{YaDeserialize, YaSerialize};\n"]
    for u in uris:
        out.append(f"pub mod n{idx[u]} {{\n    use super::*;\n" + "".join(mods[u]) + "}\n")
    return "".join(out), idx


def rust_str(s):
    return '"' + s.replace("\\", "\\\\").replace('"', '\\"') + '"'



def rt_fn(k):
    return f'''
fn rt_g{k}<T>(id: &str, path: &str)
where T: yaserde::YaDeserialize + yaserde::YaSerialize + crate::g{k}::restrictions::CheckRestrictions + std::fmt::Debug + 'static,
{{
    let xml = std::fs::read_to_string(path).unwrap_or_default();
    let r = drv::with_timeout(move || {{
        match yaserde::de::from_str::<T>(&xml) {{
            Err(e) => format!("de-err {{}}", drv::hex(&e)),
            Ok(v) => {{
                let chk = match crate::g{k}::restrictions::CheckRestrictions::check_restrictions(&v, None) {{ Ok(()) => "ok".to_string(), Err(e) => format!("err:{{}}", drv::hex(&e.to_string())) }};
                match yaserde::ser::to_string(&v) {{
                    Err(e) => format!("ser-err {{}}", drv::hex(&e)),
                    Ok(s) => {{
                        let again = yaserde::de::from_str::<T>(&s).and_then(|w| yaserde::ser::to_string(&w));
                        let fix = match &again {{ Ok(s2) => if *s2 == s {{ "same" }} else {{ "differs" }}, Err(_) => "error" }};
                        format!("ok check={{chk}} fix={{fix}} xml={{}}", drv::hex(&s))
                    }}
                }}
            }}
        }}
    }});
    println!("RT {{id}} {{r}}");
}}
'''


def rtr_fn():
    """the same round trip for the reference structs (no restriction check: they have none)"""
    return '''
fn rt_ref<T>(id: &str, path: &str)
where T: yaserde::YaDeserialize + yaserde::YaSerialize + std::fmt::Debug + 'static,
{
    let xml = std::fs::read_to_string(path).unwrap_or_default();
    let r = drv::with_timeout(move || {
        match yaserde::de::from_str::<T>(&xml) {
            Err(e) => format!("de-err {}", drv::hex(&e)),
            Ok(v) => match yaserde::ser::to_string(&v) {
                Err(e) => format!("ser-err {}", drv::hex(&e)),
                Ok(s) => {
                    let again = yaserde::de::from_str::<T>(&s).and_then(|w| yaserde::ser::to_string(&w));
                    let fix = match &again { Ok(s2) => if *s2 == s { "same" } else { "differs" }, Err(_) => "error" };
                    format!("ok check=ok fix={fix} xml={}", drv::hex(&s))
                }
            },
        }
    });
    println!("REF {id} {r}");
}
'''


def load_instances(case, fname):
    out = []
    p = os.path.join(case["dir"], fname)
    if not os.path.exists(p):
        return out
    for l in open(p).read().split("\n"):
        f = l.split("\t")
        if len(f) == 6 and f[0] == "INST":
            out.append({"idx": int(f[1]), "uri": f[2], "type": f[3], "valid": f[4] == "valid=1", "xml": bytes.fromhex(f[5]).decode("utf-8")})
    return out


def canon(elem):
    """canonical infoset of an ElementTree element: (tag, sorted attributes, text-or-children)"""
    kids = list(elem)
    attrs = tuple(sorted(elem.attrib.items()))
    if kids:
        return (elem.tag, attrs, tuple(canon(k) for k in kids))
    return (elem.tag, attrs, elem.text or "")


def infoset(text):
    try:
        return canon(ET.fromstring(text.encode("utf-8"))), None
    except ET.ParseError as e:
        return None, str(e)


def first_diff(a, b, path=""):
    if a is None or b is None:
        return f"{path}: one side missing"
    if a[0] != b[0]:
        return f"{path}: element {a[0]} vs {b[0]}"
    if a[1] != b[1]:
        return f"{path}/{a[0]}: attributes {dict(a[1])} vs {dict(b[1])}"
    if isinstance(a[2], tuple) != isinstance(b[2], tuple):
        return f"{path}/{a[0]}: children vs text ({a[2]!r} vs {b[2]!r})"[:300]
    if isinstance(a[2], tuple):
        if len(a[2]) != len(b[2]):
            return f"{path}/{a[0]}: {len(a[2])} children {[k[0] for k in a[2]]} vs {len(b[2])} children {[k[0] for k in b[2]]}"[:400]
        for x, y in zip(a[2], b[2]):
            d = first_diff(x, y, path + "/" + a[0])
            if d:
                return d
        return None
    if a[2] != b[2]:
        return f"{path}/{a[0]}: text {a[2]!r} vs {b[2]!r}"
    return None


def run_roundtrips(cases, inst_file="inst.txt", max_per_case=60):
    """cases need impl_rs / impl_obs. Returns list of result dicts (one per instance) and build info."""
    ok = [c for c in cases if c["impl"].startswith("ok")]
    per = (len(ok) + gc.NCRATES - 1) // gc.NCRATES or 1
    plan = {}
    for i in range(gc.NCRATES):
        mods, calls, fns, files = [], [], [], {}
        for k, c in enumerate(ok[i * per:(i + 1) * per]):
            obs = g.parse_obs(c["impl_obs"])
            A = g.assignment(obs)
            uri2mod = {u: m for m, u in A["mod2uri"].items()}
            mods.append((f"g{k}", c["impl_rs"]))
            fns.append(rt_fn(k))
            rtext, ridx = reference_module(c)
            mods.append((f"r{k}", ("text", rtext)))
            insts = load_instances(c, inst_file)[:max_per_case]
            defined = {(s["mod"], s["name"]) for s in obs["structs"]}
            for ins in insts:
                m = uri2mod.get(ins["uri"])
                rid = f"{i}.{k}.{ins['idx']}"
                plan[rid] = (c, ins)
                if m is None or (m, ins["type"]) not in defined:
                    plan[rid] = (c, dict(ins, missing_type=True))
                    continue
                fn = f"inst_{k}_{ins['idx']}.xml"
                files[fn] = ins["xml"]
                path = os.path.join(gc.gen_dir(i), fn)
                calls.append(f'    rt_g{k}::<crate::g{k}::{m}::{ins["type"]}>("{rid}", {path!r});\n'.replace("'", '"'))
                if ins["uri"] in ridx:
                    calls.append(f'    rt_ref::<crate::r{k}::n{ridx[ins["uri"]]}::{ins["type"]}>("{rid}", {path!r});\n'.replace("'", '"'))
        driver = DRIVER_PRELUDE + "".join(fns) + rtr_fn() + "fn main() {\n" + "".join(calls) + "    std::process::exit(0);\n}\n"
        gc.write_crate(i, mods, driver=driver, extra_files=files)
    rc, out = gc.cargo("build", range(gc.NCRATES))
    errs, other = gc.errors_by_module(out)
    results = []
    info = {"rc": rc, "build_errors": {f"{k[0]}:{k[1]}": v[:2] for k, v in list(errs.items())[:5]}, "other": other[:5], "tail": out[-1200:] if rc != 0 else ""}
    if rc != 0:
        return results, info
    seen = set()
    for i in range(gc.NCRATES):
        rcx, o, e = gc.run_bin(i, timeout=90)
        for l in o.splitlines():
            f = l.split(" ")
            if len(f) < 3 or f[0] not in ("RT", "REF"):
                continue
            rid = f[1]
            if rid not in plan:
                continue
            c, ins = plan[rid]
            r = {"case": c, "inst": ins, "status": f[2], "check": None, "fix": None, "out": None, "detail": "", "rid": rid, "side": "impl" if f[0] == "RT" else "ref"}
            if f[0] == "RT":
                seen.add(rid)
            if f[2] == "ok":
                kv = dict(x.split("=", 1) for x in f[3:] if "=" in x)
                r["check"] = kv.get("check", "")
                r["fix"] = kv.get("fix")
                try:
                    r["out"] = bytes.fromhex(kv.get("xml", "")).decode("utf-8")
                except ValueError:
                    r["out"] = None
            elif len(f) > 3:
                try:
                    r["detail"] = bytes.fromhex(f[3]).decode("utf-8", "replace")
                except ValueError:
                    r["detail"] = f[3]
            results.append(r)
        if rcx != 0:
            info.setdefault("crashed", []).append(i)
    for rid, (c, ins) in plan.items():
        if rid not in seen:
            results.append({"case": c, "inst": ins, "status": "missing-type" if ins.get("missing_type") else "not-run", "check": None, "fix": None, "out": None, "detail": "", "rid": rid, "side": "impl"})
    return results, info


def verdict(r, check_restrictions=False):
    """None when the round trip meets C03/C04 (and C07 when asked), else a short description of the problem"""
    if r["status"] != "ok":
        return r["status"] + " " + (r["detail"] or "")[:160]
    a, ea = infoset(r["inst"]["xml"])
    b, eb = infoset(r["out"] or "")
    if eb:
        return "output is not namespace-well-formed XML: " + eb
    d = first_diff(a, b)
    if d:
        return "infoset differs: " + d
    if r["fix"] != "same":
        return "serialize-deserialize-serialize is not a fixpoint: " + str(r["fix"])
    if check_restrictions and r["side"] == "impl" and (r["check"] == "ok") != r["inst"]["valid"]:
        return f"restriction check says {r['check'][:60]} but the instance is {'valid' if r['inst']['valid'] else 'facet-violating'}"
    return None


def classify(results, check_restrictions=False):
    """pairs every instance's verdict on the emitted types with the verdict on the reference structs:
    returns (violations, excluded, passed) — excluded = the reference structs fail the identical check too"""
    by = {}
    for r in results:
        by.setdefault(r["rid"], {})[r["side"]] = r
    violations, excluded, passed = [], [], []
    for rid, d in by.items():
        ri = d.get("impl")
        if ri is None:
            continue
        vi = verdict(ri, check_restrictions)
        if vi is None:
            passed.append(ri)
            continue
        rr = d.get("ref")
        vr = verdict(rr, False) if rr is not None else "reference not run"
        # the restriction verdict has no counterpart on reference structs: never excluded
        structural = not vi.startswith("restriction check says")
        if structural and vr is not None and rr is not None:
            excluded.append((ri, vi, vr))
        else:
            violations.append((ri, vi))
    return violations, excluded, passed
