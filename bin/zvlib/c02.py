"""C02 — generated structs mirror the schema: members, occurrence, types, names."""
from . import structural as st
from . import gencorr as g

CHECKER = "cd /verif/lean && lake build ZeepVerif.Props.C02 && lake env lean ZeepVerif/Audit/C02.lean"


def ref_lines(case):
    return [l for l in case["ref"] if not l.startswith("DERIVED")]


def oracle(case, obs, A, norm):
    if obs is None:
        return [("generation-failed", f"a well-formed schema set was not accepted: {case['impl']}")]
    if obs["parse"] and obs["parse"][0] != "ok":
        return [("output-does-not-parse", "the emitted file does not parse as Rust: " + " ".join(obs["parse"][1:])[:200])]
    out = []
    miss, extra = g.diff_sets(ref_lines(case), norm)
    # every struct exactly once
    names = [l for l in norm if l.startswith("STRUCT")]
    if len(names) != len(set(names)):
        dup = sorted({n for n in names if names.count(n) > 1})
        out.append(("duplicate-struct", "struct emitted more than once: " + dup[0].replace("\t", " ")))
    if miss or extra:
        kind = "declared-member-dropped" if miss and not extra else ("undeclared-member-added" if extra and not miss else "member-differs")
        out.append((kind, "reference: " + (miss[0].replace("\t", " ") if miss else "-") + " | emitted: " + (extra[0].replace("\t", " ") if extra else "-")
                    + f" ({len(miss)} missing, {len(extra)} unexpected)"))
    for s in obs["structs"]:
        if s["mod"] != "-" and any(not f["pub"] for f in s["fields"]):
            out.append(("non-public-field", f"{s['mod']}::{s['name']} has a private field"))
    return out


def projection(obs, A, norm):
    return sorted(norm or [])


def run(tier, seed):
    return st.run_structural(
        "C02", tier, seed, "ZeepVerif.Props.C02", "ZeepVerif/Audit/C02.lean",
        [("gen", 250, 6000), ("gencollide", 60, 1500)], oracle, projection, CHECKER,
        note_assumptions=[
            "Inflector 0.11.4 to_pascal_case/to_snake_case transcribed in Lean for ASCII names (validated by the byte comparison on every run)",
            "the reference mapping Spec.Ref (DESIGN.md 2.3) is the statement's 'documented Rust counterpart'",
            "NamesSeparated and the DAG-shaped lookup references of the main generator profile (DESIGN.md 2.2)",
        ],
        rule_note="The oracle compares, per schema set, the set of (struct, ordered members: name, wrapper, leaf type, attribute flag, namespace) "
                  "computed by Spec.Ref from the grammar value with what syn reads from the implementation's output.")


def replay(payload):
    return st.replay_case(payload, oracle)
