"""C02 — generated structs mirror the schema: members, occurrence, types, names."""
from . import structural as st
from . import gencorr as g

CHECKER = "cd /verif/lean && lake build ZeepVerif.Props.C02 && lake env lean ZeepVerif/Audit/C02.lean"


def ref_lines(case):
    return [l for l in case["ref"] if not l.startswith("DERIVED")]


def oracle(case, obs, A, norm):
    if obs is None:
        return [("generation-failed", f"a well-formed schema set was not accepted: {case['impl']}")]
    if obs["parse"] and obs["parse"][0] != "ok":
        return [("output-does-not-parse", "the emitted file does not parse as Rust: " + " ".join(obs["parse"][1:])[:200])]
    out = []
    miss, extra = g.diff_sets(ref_lines(case), norm)
    # every struct exactly once
    names = [l for l in norm if l.startswith("STRUCT")]
    if len(names) != len(set(names)):
        dup = sorted({n for n in names if names.count(n) > 1})
        out.append(("duplicate-struct", "struct emitted more than once: " + dup[0].replace("\t", " ")))
    if miss or extra:
        kind = "declared-member-dropped" if miss and not extra else ("undeclared-member-added" if extra and not miss else "member-differs")
        out.append((kind, "reference: " + (miss[0].replace("\t", " ") if miss else "-") + " | emitted: " + (extra[0].replace("\t", " ") if extra else "-")
                    + f" ({len(miss)} missing, {len(extra)} unexpected)"))
    for s in obs["structs"]:
        if s["mod"] != "-" and any(not f["pub"] for f in s["fields"]):
            out.append(("non-public-field", f"{s['mod']}::{s['name']} has a private field"))
    return out


def projection(obs, A, norm):
    return sorted(norm or [])


def typed_driver(c, cases):
    """the property's own observation: rustc decides field names and exact field types against assertions
    synthesized from the reference mapping (complete destructuring pattern + one typed borrow per field)"""
    from . import compiled as cp
    gen = [cs for cs in cases if cs.get("ref")]
    batch = gen[: (48 if c.tier == "quick" else 400)]
    fails = []
    total = {"struct_asserts": 0, "modules": 0}
    for i in range(0, len(batch), 64):
        ok, res, info = cp.compile_batch(batch[i:i + 64], with_struct_asserts=True, with_send_asserts=False)
        total["struct_asserts"] += info["struct_asserts"]
        total["modules"] += info["modules"]
        for cs in ok:
            r = res[id(cs)]
            if r["structs"]:
                fails.append(("typed-driver-rejected", "rustc rejects the reference struct assertion: " + r["structs"][0][:300], cs))
            elif r["emitted"]:
                fails.append(("emitted-code-does-not-compile", r["emitted"][0][:300], cs))
        if info["rc"] != 0 and not any(any(v.values()) for v in res.values()):
            fails.append(("batch-build-failed", info["raw_tail"][-300:], batch[i]))
    c.cov["typed_driver"] = {"programs_compiled": total["modules"], "struct_assertions": total["struct_asserts"], "rejected": len(fails)}
    # the trees the theorems speak about (Spec.toX) are the trees the real parser yields for the printed text
    from .common import ZVDRV, sh
    import os
    mism = 0
    compared = 0
    for cs in gen:
        sp = os.path.join(cs["dir"], "shapes.txt")
        if not os.path.exists(sp) or not os.path.exists(cs.get("dump", "")):
            continue
        rc, out, err = sh([ZVDRV, "shapes", cs["dump"]])
        want = sorted(l for l in open(sp).read().split("\n") if l)
        have = sorted(l for l in out.split("\n") if l)
        compared += len(want)
        if want != have:
            mism += 1
            if mism == 1:
                c.proof["errors"].append("Spec.toX differs from the parse of the rendered text for " + cs["dir"] + ": " + str((set(want) ^ set(have)))[:300])
    c.cov["tree_rendering_check"] = {"content_models_compared": compared, "schema_sets_with_a_difference": mism}
    # the hypotheses of the file-level refinement theorem (Props/C02Read.c02_file_read), evaluated on the tree the real
    # parser produced, and the closed form it states, executed
    from .common import run_lines
    single = [cs for cs in cases if cs.get("ref") is not None and os.path.exists(cs.get("dump", "")) and len(os.listdir(cs["in"])) == 1]
    rc, out, err = run_lines([ZVDRV, "plainfile"], [cs["dump"] + "\t" + cs["start"] for cs in single])
    import collections
    tally = collections.Counter(out)
    c.cov["file_level_refinement_theorem"] = {"single_file_inputs": len(single), "hypothesis_holds_on_the_real_parse": sum(v for k, v in tally.items() if k.startswith("plain=1")),
                                               "of_these_only_complex_types": tally.get("plain=1 closed=ok files=1", 0), "of_these_with_derivation": tally.get("plain=1 closed=ok files=1 derivation", 0), "closed_form_equals_model_result": sum(v for k, v in tally.items() if "closed=ok" in k), "closed_form_differs": sum(v for k, v in tally.items() if "closed=differs" in k)}
    if any("closed=differs" in k for k in tally) or len(out) != len(single):
        c.proof["errors"].append("zvdrv plainfile: the closed form of c02_file_read differs from the reader model's result (or the driver failed): " + str(dict(tally))[:300] + err[-200:])
    from . import gencrate
    gencrate.cleanup()
    return fails


def run(tier, seed):
    return st.run_structural(
        "C02", tier, seed, "ZeepVerif.Props.C02", "ZeepVerif/Audit/C02.lean",
        [("gen", 250, 6000), ("gencollide", 60, 1500), ("gentopo", 60, 1500), ("genplain", 60, 1500)], oracle, projection, CHECKER, extra=typed_driver,
        extra_props=[("ZeepVerif.Props.C02Read", "ZeepVerif/Audit/C02Read.lean"), ("ZeepVerif.Props.C02All", "ZeepVerif/Audit/C02All.lean"), ("ZeepVerif.Props.CpxAll", "ZeepVerif/Audit/CpxAll.lean"), ("ZeepVerif.Props.DocAll", "ZeepVerif/Audit/DocAll.lean"), ("ZeepVerif.Props.C02Field", "ZeepVerif/Audit/C02Field.lean")],
        note_assumptions=[
            "Inflector 0.11.4 to_pascal_case/to_snake_case transcribed in Lean for ASCII names (validated by the byte comparison on every run)",
            "the reference mapping Spec.Ref (DESIGN.md 2.3) is the statement's 'documented Rust counterpart'",
            "NamesSeparated and the DAG-shaped lookup references of the main generator profile (DESIGN.md 2.2)",
        ],
        rule_note="The oracle compares, per schema set, the set of (struct, ordered members: name, wrapper, leaf type, attribute flag, namespace) "
                  "computed by Spec.Ref from the grammar value with what syn reads from the implementation's output.")


def replay(payload):
    return st.replay_case(payload, oracle)
