"""C10 — namespace to prefix/module assignment is injective and stable within one output."""
import re
from . import structural as st
from . import gencorr as g

CHECKER = "cd /verif/lean && lake build ZeepVerif.Props.C10 && lake env lean ZeepVerif/Audit/C10.lean"
NCNAME = re.compile(r"^[A-Za-z_][A-Za-z0-9_.\-]*$")
IDENT = re.compile(r"^[A-Za-z_][A-Za-z0-9_]*$")


def oracle(case, obs, A, norm):
    if obs is None:
        return [("generation-failed", f"a well-formed schema set was not accepted: {case['impl']}")]
    out = [("assignment-not-injective", p) for p in A["problems"]]
    for p in A["prefix2uri"]:
        if not NCNAME.match(p) or p.lower().startswith("xml"):
            out.append(("illegal-prefix", f"prefix {p!r} (for {A['prefix2uri'][p]}) is not a usable XML prefix"))
    for m in obs["mods"]:
        if not IDENT.match(m):
            out.append(("illegal-module-name", f"module {m!r} is not a Rust identifier"))
    # every component of a target namespace is in that namespace's single module
    ref_mod = {}
    for l in case["ref"]:
        f = l.split("\t")
        if f[0] in ("STRUCT", "ALIAS"):
            ref_mod[(f[2])] = f[1]
    uri2mods = {}
    for m, u in A["mod2uri"].items():
        uri2mods.setdefault(u, set()).add(m)
    for u, ms in uri2mods.items():
        if len(ms) > 1:
            out.append(("assignment-not-injective", f"namespace {u} is spread over modules {sorted(ms)}"))
    for l in norm:
        f = l.split("\t")
        if f[0] == "STRUCT" and f[1].startswith("?"):
            out.append(("module-without-namespace", f"struct {f[2]} sits in module {f[1][1:]} whose namespace cannot be determined"))
    want = {l.split("\t")[1] for l in case["ref"] if l.split("\t")[0] == "STRUCT"}
    have = {l.split("\t")[1] for l in norm if l.split("\t")[0] == "STRUCT"}
    if want - have:
        out.append(("namespace-without-module", f"no module holds the components of {sorted(want - have)[0]}"))
    return out


SOAPENV = "http://schemas.xmlsoap.org/soap/envelope/"


def corpus_assignment(c, cases):
    """the assignment recovered from the output of the hand-written corpus inputs (which have no generated reference): bijectivity,
    legal names, declared prefixes. One recorded finding is recognised by its input class: the SOAP 1.1 envelope namespace as the
    target namespace of imported components gets the envelope writer's fixed prefix and an assigned one."""
    fails = []
    listed = c.known_classes()
    n = 0
    said = set()
    for cs in cases:
        if not cs["meta"].get("corpus") or not cs["impl"].startswith("ok"):
            continue
        n += 1
        obs = g.parse_obs(cs["impl_obs"])
        A = g.assignment(obs)
        for pb in A["problems"]:
            if pb.startswith(f"namespace {SOAPENV} has prefixes") and "soapenv" in pb and "soap-envelope-namespace-two-prefixes" in listed:
                if pb not in said:
                    said.add(pb)
                    c.known(f"soap-envelope-namespace-two-prefixes: corpus/{cs['meta']['corpus']}: {pb}")
            else:
                fails.append(("assignment-not-injective", f"corpus/{cs['meta']['corpus']}: {pb}", cs))
        for pfx in A["prefix2uri"]:
            if not NCNAME.match(pfx) or pfx.lower().startswith("xml"):
                fails.append(("illegal-prefix", f"corpus/{cs['meta']['corpus']}: prefix {pfx!r} is not a usable XML prefix", cs))
        for m in obs["mods"]:
            if not IDENT.match(m):
                fails.append(("illegal-module-name", f"corpus/{cs['meta']['corpus']}: module {m!r} is not a Rust identifier", cs))
    c.cov["corpus_assignments_checked"] = n
    return fails + st.refinement_coverage(c, cases)


def projection(obs, A, norm):
    if obs is None:
        return []
    return sorted([f"MOD {m} {A['mod2uri'].get(m)}" for m in obs["mods"]] + [f"PFX {p} {u}" for p, u in A["prefix2uri"].items()])


def run(tier, seed):
    return st.run_structural(
        "C10", tier, seed, "ZeepVerif.Props.C10", "ZeepVerif/Audit/C10.lean",
        [("gen", 250, 6000), ("gencyc", 100, 3000), ("gencollide", 30, 500), ("gentopo", 200, 4000)], oracle, projection, CHECKER, extra_props=[('ZeepVerif.Props.C10Read', 'ZeepVerif/Audit/C10Read.lean'), ('ZeepVerif.Props.C10Graph', 'ZeepVerif/Audit/C10Graph.lean'), ('ZeepVerif.Props.C10All', 'ZeepVerif/Audit/C10All.lean')], extra=corpus_assignment,
        note_assumptions=["the adversarial URI pool of Spec.Gen.uriPool (equal last segments, equal three-letter abbreviations, trailing slash, dots, "
                          "dashes, digits, URNs, query and fragment), 1-4 namespaces per set, declared at the root, by targetNamespace only, and in imported files, in every import order the graph generator produces"],
        rule_note="The oracle recovers the assignment module<->URI<->prefix from the program itself (module headers, struct prefix and namespaces attributes) and checks that it is a bijection, "
                  "that prefixes/modules are legal names, that every used prefix is declared with the same URI, and that each namespace's components sit in one module.")


def replay(payload):
    return st.replay_case(payload, oracle)
