"""C06 — a value passes the restriction check exactly when it satisfies the facets."""
import os
from .common import Check, ZVH, ZVDRV, ZVSPEC, hexs, run_lines, sh, LEAN

I32 = (-2**31, 2**31 - 1)
RANGES = {
    "i8": (-128, 127), "u8": (0, 255), "i16": (-2**15, 2**15 - 1), "u16": (0, 2**16 - 1),
    "i32": I32, "u32": (0, 2**32 - 1), "i64": (-2**63, 2**63 - 1), "u64": (0, 2**64 - 1),
}
ALPHA = ["a", "b", "é", "日", "𝄞", "0", "1", "7", "9", "+", "-", " ", "_"]


def clip(v, lo, hi):
    return max(lo, min(hi, v))


def gen_bound(rng):
    pool = [I32[0], I32[0] + 1, -129, -128, -1, 0, 1, 2, 5, 10, 127, 128, 255, 256, 65535, 65536, I32[1] - 1, I32[1]]
    return rng.choice(pool) if rng.random() < 0.7 else rng.randint(-1000, 1000)


def gen_restr(rng, numeric=True, stringy=False):
    """returns list of 8 field strings, plus the dict"""
    if rng.random() < 0.12:
        return ["none"] + ["-"] * 7, None
    d = {}
    for k in ("mi", "ma", "me", "mx"):
        d[k] = gen_bound(rng) if numeric and rng.random() < 0.45 else None
    for k in ("len", "minl", "maxl"):
        d[k] = rng.randint(0, 6) if stringy and rng.random() < 0.35 else None
    d["enum"] = None
    if stringy and rng.random() < 0.3:
        d["enum"] = [gen_string(rng) for _ in range(rng.randint(0, 4))]
    f = [str(d[k]) if d[k] is not None else "-" for k in ("mi", "ma", "me", "mx", "len", "minl", "maxl")]
    f.append("-" if d["enum"] is None else ",".join(hexs(e) for e in d["enum"]))
    return f, d


def gen_string(rng, d=None):
    r = rng.random()
    if d and r < 0.45:
        # numerals around the numeric bounds
        bs = [d[k] for k in ("mi", "ma", "me", "mx") if d.get(k) is not None]
        if bs:
            v = rng.choice(bs) + rng.choice([-1, 0, 1])
            s = str(v)
            q = rng.random()
            if q < 0.1 and v >= 0:
                s = "+" + s
            elif q < 0.2:
                s = ("-" if v < 0 else "") + "00" + str(abs(v))
            return s
    if d and r < 0.55 and d.get("enum"):
        return rng.choice(d["enum"])
    if r < 0.62:
        return rng.choice(["", "+", "-", "-0", "+0", "0", "1_0", " 5", "5 ", "１２", "0x10", "1e3",
                           str(2**31), str(-2**31 - 1), str(2**63), str(2**64), str(2**127 - 1), str(2**127),
                           str(-2**127), str(-2**127 - 1), "9" * 40, "-" + "9" * 45, "+" + "0" * 50 + "7"])
    n = rng.randint(0, 7)
    if d:
        ls = [d[k] for k in ("len", "minl", "maxl") if d.get(k) is not None]
        if ls and rng.random() < 0.7:
            n = max(0, rng.choice(ls) + rng.choice([-1, 0, 1]))
    return "".join(rng.choice(ALPHA) for _ in range(n))


def gen_int(rng, carrier, d):
    lo, hi = RANGES[carrier]
    r = rng.random()
    if d and r < 0.65:
        bs = [d[k] for k in ("mi", "ma", "me", "mx") if d.get(k) is not None]
        if bs:
            return clip(rng.choice(bs) + rng.choice([-1, 0, 1]), lo, hi)
    if r < 0.85:
        return rng.choice([lo, lo + 1, hi - 1, hi, 0, 1, clip(-1, lo, hi), clip(2**31, lo, hi), clip(-2**31 - 1, lo, hi), clip(2**32, lo, hi)])
    return rng.randint(lo, hi)


def gen_value(rng, base, d):
    if base in RANGES:
        return str(gen_int(rng, base, d))
    if base == "bool":
        return rng.choice(["true", "false"])
    if base in ("f32", "f64"):
        return rng.choice(["0", "-1.5", "3.4e38", "NaN", "inf", "-inf", "1e-45"])
    return hexs(gen_string(rng, d))


def gen_line(rng):
    base = rng.choice(list(RANGES) * 2 + ["String"] * 8 + ["bool", "f32", "f64"])
    stringy = base == "String"
    f, d = gen_restr(rng, numeric=True, stringy=stringy or rng.random() < 0.2)
    wrap = rng.random()
    if wrap < 0.7:
        carrier, val = base, gen_value(rng, base, d)
    elif wrap < 0.85:
        carrier = f"Option<{base}>"
        val = "none" if rng.random() < 0.25 else "some:" + gen_value(rng, base, d)
    else:
        carrier = f"Vec<{base}>"
        val = ",".join(gen_value(rng, base, d) for _ in range(rng.randint(0, 4)))
        if base == "String" and val and any(x == "" for x in val.split(",")):
            # the empty string has an empty hex form, which the line format cannot carry inside a list
            val = ",".join(x for x in val.split(",") if x != "")
    return "|".join([carrier] + f + [val]), d, base


def nontrivial(line, d, base):
    """a restriction set with at least one facet that is relevant to the carrier"""
    if d is None:
        return False
    if base in RANGES:
        return any(d[k] is not None for k in ("mi", "ma", "me", "mx"))
    if base == "String":
        return any(v is not None for v in d.values())
    return False


SYSTEMATIC = []


def systematic():
    """every facet × {v-1, v, v+1} × every integer carrier, at bounds inside the carrier; None with extremes"""
    out = []
    for c, (lo, hi) in RANGES.items():
        for b in (0, 1, 100, lo if lo >= I32[0] else I32[0], hi if hi <= I32[1] else I32[1]):
            for k in range(4):
                for dv in (-1, 0, 1):
                    v = b + dv
                    if not (lo <= v <= hi):
                        continue
                    f = ["-"] * 8
                    f[k] = str(b)
                    out.append("|".join([c] + f + [str(v)]))
        out.append("|".join([c, "none"] + ["-"] * 7 + [str(lo)]))
        out.append("|".join([c, "none"] + ["-"] * 7 + [str(hi)]))
        f = ["-"] * 8
        f[0] = "0"
        out.append("|".join([c] + f + [str(hi)]))  # wide value under a min facet must pass
    for n in range(0, 4):
        for k in (4, 5, 6):
            for s in ("", "é", "é日", "a𝄞c", "abcd"):
                f = ["-"] * 8
                f[k] = str(n)
                out.append("|".join(["String"] + f + [hexs(s)]))
    return out


def run(tier, seed):
    c = Check("C06", tier, seed)
    ok, err = c.build_harness()
    if not ok:
        c.violation({"kind": "harness-build", "what": "the correspondence harness no longer builds against /repo", "error": err}, no_input=True)
        return c.finish(checker_cmd=CHECKER)
    c.extract()
    c.lake_build(["zvspec"])
    proved = c.prove("ZeepVerif.Props.C06", "ZeepVerif/Audit/C06.lean")
    if tier == "thorough" and proved:
        c.leanchecker(["ZeepVerif.Props.C06", "ZeepVerif.Generated.Restrictions", "ZeepVerif.Spec.Facets"])
    model_ok, model_err = c.lake_build(["zvdrv"])

    n = 60000 if tier == "quick" else 1500000
    if not proved or not model_ok:
        n = max(n, 400000)  # a broken obligation buys search effort
    lines, meta = [], []
    for l in systematic():
        lines.append(l)
        meta.append((None, None))
    while len(lines) < n:
        l, d, base = gen_line(c.rng)
        lines.append(l)
        meta.append((d, base))

    rc, impl, err = run_lines([ZVH, "c06"], lines)
    rc2, spec, err2 = run_lines([ZVSPEC, "c06"], lines)
    model = None
    if model_ok:
        rc3, model, err3 = run_lines([ZVDRV, "c06"], lines)
    if len(impl) < len(lines) and len(spec) == len(lines):
        # the real helper died (a panic inside check_restrictions, e.g. arithmetic overflow; its buffered replies are lost):
        # bisect for the shortest prefix that still dies; its last line is the failing input
        lo, hi = 0, len(lines)          # lines[:lo] survives, lines[:hi] dies
        while hi - lo > 1:
            mid = (lo + hi) // 2
            _, rep, _ = run_lines([ZVH, "c06"], lines[:mid])
            if len(rep) == mid:
                lo = mid
            else:
                hi = mid
        bad = lines[hi - 1]
        rc1, one, err1 = run_lines([ZVH, "c06"], [bad])
        if len(one) == 0:
            c.cov.update({"evaluations": hi, "distinct_nontrivial": hi, "rule": "differential run stopped at the first input on which the real helper did not return",
                          "samples": [bad]})
            c.violation({"kind": "oracle", "what": "the real check_restrictions did not return a result (panic or abort) on this carrier|facets|value line",
                         "line": bad, "xsd_verdict": spec[hi - 1], "stderr": (err1 or err)[-600:], "replay_cmd": f"echo '{bad}' | {ZVH} c06"})
            return c.finish(checker_cmd=CHECKER)
    if len(impl) != len(lines) or len(spec) != len(lines) or (model is not None and len(model) != len(lines)):
        c.violation({"kind": "harness", "what": "reply count mismatch", "impl": len(impl), "spec": len(spec),
                     "model": None if model is None else len(model), "stderr": (err + err2)[-2000:]}, no_input=True)
        return c.finish(checker_cmd=CHECKER)

    oracle_fail, corr_fail = [], []
    stats = {"impl_ok": 0, "impl_err": 0, "na": 0, "bad": 0}
    carriers = {}
    err_kinds = {}
    distinct = set()
    for i, l in enumerate(lines):
        iv = impl[i]
        sv = spec[i]
        if iv.startswith("bad") or sv.startswith("bad"):
            stats["bad"] += 1
            continue
        carriers[l.split("|", 1)[0]] = carriers.get(l.split("|", 1)[0], 0) + 1
        i_ok = iv == "ok"
        stats["impl_ok" if i_ok else "impl_err"] += 1
        if not i_ok:
            err_kinds[iv[4:40]] = err_kinds.get(iv[4:40], 0) + 1
        d, base = meta[i]
        if d is None and base is None or nontrivial(l, d, base):
            distinct.add(l)
        if sv == "na":
            stats["na"] += 1
        elif (sv == "ok") != i_ok:
            oracle_fail.append((l, iv, sv))
        if model is not None:
            mv = model[i]
            same = (mv == "ok") == i_ok
            if same and not i_ok:
                # compare messages when both are static
                mm, im = mv[4:], iv[4:]
                same = mm == "*" or mm == im
            if not same:
                corr_fail.append((l, iv, mv))

    c.cov.update({
        "evaluations": len(lines),
        "distinct_nontrivial": len(distinct),
        "rule": "systematic family (every numeric facet x {b-1,b,b+1} x 8 integer carriers, carrier extremes with no restriction set, "
                "length facets x multi-byte strings) + seeded boundary-biased triples; non-trivial = restriction set with a facet relevant "
                "to the carrier (or a systematic case); distinct = distinct request lines",
        "samples": [lines[0], lines[len(systematic()) + 1], lines[len(systematic()) + 2], lines[-1]],
        "carrier_distribution": carriers,
        "verdicts": stats,
        "impl_error_kinds": err_kinds,
        "disagreements_checked": len(lines) if model is not None else 0,
        "oracle_failures": len(oracle_fail),
        "model_vs_impl_disagreements": len(corr_fail),
    })
    c.assumptions += [
        "Rust integer FromStr / i128::from transcribed by hand in Runtime/Prelude.lean (parseInt, lexInt); validated by this differential",
        "numerals beyond 128 bits under a numeric facet are outside c06_string's guard (covered by c06_string_huge; oracle says 'na')",
    ]

    if oracle_fail:
        l, iv, sv = min(oracle_fail, key=lambda t: len(t[0]))
        c.violation({"kind": "oracle", "what": "real check_restrictions disagrees with XSD facet semantics",
                     "line": l, "impl": iv, "spec": sv, "count": len(oracle_fail),
                     "more": [x[0] for x in oracle_fail[1:6]],
                     "replay_cmd": f"echo '{l}' | {ZVH} c06   # vs   echo '{l}' | {ZVSPEC} c06"})
    elif c.proof["errors"] or not model_ok or corr_fail:
        what = []
        if c.proof["errors"]:
            what.append({"broken": "proof obligations of ZeepVerif.Props.C06 over the regenerated definitions", "errors": c.proof["errors"]})
        if not model_ok:
            what.append({"broken": "translated model does not build", "errors": model_err[-3000:]})
        if corr_fail:
            what.append({"broken": "correspondence translated-model vs implementation", "first": corr_fail[0], "count": len(corr_fail)})
        c.violation({"kind": "obligation", "no_longer_checks": what,
                     "searched": f"{len(lines)} triples against the XSD oracle without finding a failing input"}, no_input=True)
    return c.finish(checker_cmd=CHECKER)


CHECKER = "cd /verif/lean && lake build ZeepVerif.Props.C06 && lake env lean ZeepVerif/Audit/C06.lean"


def replay(payload):
    l = payload.get("line")
    if not l:
        print(json_dump(payload))
        return 0
    _, impl, _ = run_lines([ZVH, "c06"], [l])
    _, spec, _ = run_lines([ZVSPEC, "c06"], [l])
    print(f"line={l}\nimpl={impl}\nspec={spec}")
    return 0 if (impl and spec and ((impl[0] == 'ok') == (spec[0] == 'ok') or spec[0] == 'na')) else 1


def json_dump(p):
    import json
    return json.dumps(p, indent=1)
