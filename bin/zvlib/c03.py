"""C03 — serialized values are schema-conformant, namespace-well-formed XML."""
from . import rtcheck

CHECKER = "cd /verif/lean && lake build ZeepVerif.Props.C03 && lake env lean ZeepVerif/Audit/C03.lean"


def pick(v):
    if v.startswith("output is not namespace-well-formed"):
        return "not-namespace-well-formed"
    if v.startswith("infoset differs"):
        return "element-attribute-order-or-text-differs"
    if v.startswith("ser-err"):
        return "serialisation-fails"
    return None


def run(tier, seed):
    return rtcheck.run_rt(
        "C03", tier, seed, "ZeepVerif.Props.C03", "ZeepVerif/Audit/C03.lean", CHECKER,
        [("gen", 36, 600), ("gencollide", 10, 150), ("genwsdl", 10, 150)], "inst.txt", pick, False,
        ["yaserde 0.12 / xml-rs are the runtime (environment): the values are produced by deserialising instance documents of the independent generator Spec.Inst, "
         "so 'all values' means all values reachable from schema-valid instances (optional present/absent, 0..3 repetitions, numeric extremes per builtin, text needing escaping, members of other namespaces, inherited members)",
         "a round trip that fails identically on reference structs written from the documented wire form is a limit of the runtime and is excluded (counted in the evidence)",
         "repeating groups with several members are instantiated once (the flattened struct cannot keep interleaving; DESIGN.md section 6)"],
        "instances from Spec.Inst (3 prefix styles per type) deserialised into the compiled emitted types and serialised again; the serialised text must parse with a namespace-aware parser "
        "and have the infoset of the instance (element names and namespaces, unqualified attributes, order, omission of absent members, one element per item, lexical forms); distinct = distinct instance documents",
        extra_props=[("ZeepVerif.Props.C03Ya", "ZeepVerif/Audit/C03Ya.lean"), ("ZeepVerif.Props.C03End", "ZeepVerif/Audit/C03End.lean")], ya=True)


def replay(payload):
    print(payload.get("instance"))
    print(payload.get("reserialised"))
    return 0
