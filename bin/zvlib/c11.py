"""C11 — each reachable schema file is read exactly once; others never matter."""
from . import structural as st
from . import gencorr as g

CHECKER = "cd /verif/lean && lake build ZeepVerif.Props.C11 && lake env lean ZeepVerif/Audit/C11.lean"


def names(lines):
    return sorted(l.split("\t")[1] + " " + l.split("\t")[2] for l in lines if l.split("\t")[0] in ("STRUCT", "ALIAS"))


def oracle(case, obs, A, norm):
    if obs is None:
        cls = "does-not-terminate-or-crashes" if case["impl"].startswith(("crash", "timeout", "panic")) else "generation-failed"
        return [(cls, f"import graph {case['meta'].get('features')}: {case['impl']}")]
    want, have = names(case["ref"]), names(norm)
    if want != have:
        miss = [x for x in want if x not in have]
        extra = [x for x in have if have.count(x) > want.count(x)]
        return [("component-multiset-differs", f"components of the reachable files {case['meta'].get('reachable')}: missing {miss[:2]}, surplus {sorted(set(extra))[:2]}")]
    return []


def projection(obs, A, norm):
    return names(norm or [])


OTHER = ('<xs:schema xmlns:xs="http://www.w3.org/2001/XMLSchema" xmlns:u="urn:unrelated:sibling" targetNamespace="urn:unrelated:sibling">'
         '<xs:complexType name="UnrelatedSibling"><xs:sequence><xs:element name="x" type="xs:string"/></xs:sequence></xs:complexType></xs:schema>\n')


def swapcase_name(n):
    stem, dot, ext = n.rpartition(".")
    return (stem.swapcase() + dot + ext) if stem else n.swapcase()


def siblings(c, cases):
    """the third sentence of the property, tested directly: adding, removing or changing a file that is not reachable from the start file
    does not change the output (byte comparison). Added siblings: an unrelated valid schema, text that is not XML, files whose names differ
    from the start file / from a reachable file only in letter case (different content), a file with the extension in upper case."""
    import os
    import shutil
    base = [cs for cs in cases if cs.get("ref") is not None and cs["impl"].startswith("ok") and os.path.exists(cs.get("impl_rs", ""))]
    base = base[: (40 if c.tier == "quick" else 400)]
    variants = []
    for i, cs in enumerate(base):
        files = sorted(os.listdir(cs["in"]))
        reach = cs["meta"].get("reachable") or files
        plans = [("unrelated-valid-sibling", {"zz_unrelated.xsd": OTHER}, []), ("non-xml-sibling", {"00_notes.xsd": "this is not XML <<<"}, []),
                 ("case-variant-of-start-file", {swapcase_name(cs["start"]): OTHER}, []),
                 ("upper-case-extension-of-start-file", {cs["start"].rsplit(".", 1)[0] + "." + cs["start"].rsplit(".", 1)[-1].upper(): OTHER}, [])]
        # siblings the command-line tool cannot even read as text (its own directory scan meets them; the in-process harness is not given them)
        plans.append(("sibling-that-is-not-utf8-text", {"zz_draft.xsd": '<?xml version="1.0" encoding="UTF-16"?><draft/>'.encode("utf-16")}, []))
        plans.append(("sibling-whose-name-is-not-utf8", {b"zz_caf\xe9.xsd": OTHER}, []))
        others = [f for f in reach if f != cs["start"]]
        if others:
            plans.append(("case-variant-of-an-imported-file", {swapcase_name(others[0]): OTHER}, []))
        unreach = [f for f in files if f not in reach]
        if unreach:
            plans.append(("unreachable-file-removed", {}, [unreach[0]]))
            plans.append(("unreachable-file-changed", {unreach[0]: OTHER}, []))
        for k, (what, add, remove) in enumerate(plans):
            if any(n in files for n in add if what not in ("unreachable-file-changed",)):
                continue
            d = os.path.join(os.path.dirname(cs["dir"]), f"sib{i}_{k}")
            shutil.copytree(cs["in"], os.path.join(d, "in"))
            cli_only = False
            for n, t in add.items():
                if isinstance(n, bytes) or isinstance(t, bytes):
                    cli_only = True
                    pth = os.path.join(os.fsencode(os.path.join(d, "in")), n if isinstance(n, bytes) else os.fsencode(n))
                    open(pth, "wb").write(t if isinstance(t, bytes) else t.encode())
                else:
                    open(os.path.join(d, "in", n), "w").write(t)
            for n in remove:
                os.remove(os.path.join(d, "in", n))
            variants.append({"dir": d, "in": os.path.join(d, "in"), "start": cs["start"], "meta": {"features": "sibling " + what, "seed": cs["meta"].get("seed")}, "ref": None, "orig": cs, "what": what, "cli_only": cli_only})
    g.run_impl([v for v in variants if not v["cli_only"]], want_obs=False, want_dump=False)
    fails = []
    tally = {}
    for v in variants:
        tally[v["what"]] = tally.get(v["what"], 0) + 1
        if v["cli_only"]:
            continue
        same = v["impl"] == v["orig"]["impl"] and v["impl"].startswith("ok") and open(v["impl_rs"], "rb").read() == open(v["orig"]["impl_rs"], "rb").read()
        if not same:
            fails.append(("unreachable-sibling-changes-output", f"{v['what']}: output with the sibling differs from the output without it ({v['orig']['impl']} vs {v['impl']}); files {sorted(os.listdir(v['in']))}, start {v['start']}", v))
    # the same through the command-line tool, whose own code collects the siblings (utils.rs: the start file is registered first, then
    # the directory in the order the OS lists it) — the in-process harness registers files sorted by name
    from .common import sh, REPO
    from . import c17
    rc, out, err = sh(["cargo", "build", "--offline", "-q", "-p", "zeep", "--target-dir", c17.BIN_DIR], cwd=REPO, timeout=3000)
    cli = os.path.join(c17.BIN_DIR, "debug", "zeep")
    cli_runs = 0
    if rc == 0 and os.path.exists(cli):
        def run_cli(case):
            o = os.path.join(case["dir"], "cli_out.rs")
            r, so, se = sh([cli, "-i", os.path.join(case["in"], case["start"]), "-o", o], timeout=120)
            return (r, open(o, "rb").read() if r == 0 and os.path.exists(o) else b"")
        cache = {}
        for v in variants:
            oc = v["orig"]
            if id(oc) not in cache:
                cache[id(oc)] = run_cli(oc)
            cli_runs += 1
            if run_cli(v) != cache[id(oc)]:
                fails.append(("unreachable-sibling-changes-output", f"{v['what']} (command-line tool): output with the sibling differs from the output without it; files {sorted(os.listdir(os.fsencode(v['in'])))}, start {v['start']}", v))
    else:
        c.proof["errors"].append("the zeep binary does not build: " + (out + err)[-300:])
    c.cov["unreachable_siblings"] = {"base_inputs": len(base), "variants": tally, "cli_runs": cli_runs, "differing": len(fails)}
    return fails + st.refinement_coverage(c, cases)


def run(tier, seed):
    return st.run_structural(
        "C11", tier, seed, "ZeepVerif.Props.C11", "ZeepVerif/Audit/C11.lean",
        [("gencyc", 300, 8000), ("gen", 350, 4000), ("gentopo", 100, 2000)], oracle, projection, CHECKER, extra_props=[('ZeepVerif.Props.C11Read', 'ZeepVerif/Audit/C11Read.lean'), ('ZeepVerif.Props.C13All', 'ZeepVerif/Audit/C13All.lean'), ('ZeepVerif.Props.C11All', 'ZeepVerif/Audit/C11All.lean')], extra=siblings,
        note_assumptions=["the traversal theorems are about `visit`, the import skeleton of reader.rs (mark, then follow imports); its agreement with the "
                          "full model and the implementation is what the correspondence part checks on every graph",
                          "in the cyclic profile lookup references (ref=, base=) stay inside their file: a reference into a file that is still being read cannot be resolved by zeep's per-file documents (DESIGN.md section 6)"],
        rule_note="Import graphs: every directed graph on 1-4 files the seeded generator yields (self imports, mutual imports, cycles, diamonds, unreachable files). "
                  "The oracle compares the multiset of generated type names with the named components of the reachable files.")


def replay(payload):
    return st.replay_case(payload, oracle)
