"""C11 — each reachable schema file is read exactly once; others never matter."""
from . import structural as st
from . import gencorr as g

CHECKER = "cd /verif/lean && lake build ZeepVerif.Props.C11 && lake env lean ZeepVerif/Audit/C11.lean"


def names(lines):
    return sorted(l.split("\t")[1] + " " + l.split("\t")[2] for l in lines if l.split("\t")[0] in ("STRUCT", "ALIAS"))


def oracle(case, obs, A, norm):
    if obs is None:
        cls = "does-not-terminate-or-crashes" if case["impl"].startswith(("crash", "timeout", "panic")) else "generation-failed"
        return [(cls, f"import graph {case['meta'].get('features')}: {case['impl']}")]
    want, have = names(case["ref"]), names(norm)
    if want != have:
        miss = [x for x in want if x not in have]
        extra = [x for x in have if have.count(x) > want.count(x)]
        return [("component-multiset-differs", f"components of the reachable files {case['meta'].get('reachable')}: missing {miss[:2]}, surplus {sorted(set(extra))[:2]}")]
    return []


def projection(obs, A, norm):
    return names(norm or [])


def run(tier, seed):
    return st.run_structural(
        "C11", tier, seed, "ZeepVerif.Props.C11", "ZeepVerif/Audit/C11.lean",
        [("gencyc", 300, 8000), ("gen", 350, 4000), ("gentopo", 100, 2000)], oracle, projection, CHECKER, extra_props=[('ZeepVerif.Props.C11Read', 'ZeepVerif/Audit/C11Read.lean')], extra=st.refinement_coverage,
        note_assumptions=["the traversal theorems are about `visit`, the import skeleton of reader.rs (mark, then follow imports); its agreement with the "
                          "full model and the implementation is what the correspondence part checks on every graph",
                          "in the cyclic profile lookup references (ref=, base=) stay inside their file: a reference into a file that is still being read cannot be resolved by zeep's per-file documents (DESIGN.md section 6)"],
        rule_note="Import graphs: every directed graph on 1-4 files the seeded generator yields (self imports, mutual imports, cycles, diamonds, unreachable files). "
                  "The oracle compares the multiset of generated type names with the named components of the reachable files.")


def replay(payload):
    return st.replay_case(payload, oracle)
