"""C05 — every WSDL operation gets correct SOAP envelopes and one client method."""
import re
from . import structural as st
from . import gencorr as g

CHECKER = "cd /verif/lean && lake build ZeepVerif.Props.C05 && lake env lean ZeepVerif/Audit/C05.lean"
SOAPENV = "http://schemas.xmlsoap.org/soap/envelope/"
KINDS = ("ENVBODY", "ENVHEADER", "ENVELOPE", "METHOD", "SERVICE")


def impl_lines(obs, A):
    out = []
    problems = []
    structs = {s["name"]: s for s in obs["structs"] if s["mod"] == "-"}

    def leaf(l):
        if "::" in l:
            m, n = l.rsplit("::", 1)
            u = A["mod2uri"].get(m)
            return "{" + (u if u is not None else "?" + m) + "}" + n
        return l

    for name, s in structs.items():
        if not name.endswith(("InputEnvelope", "OutputEnvelope")):
            continue
        decl = dict(s["ns"])
        if s["prefix"] != "soapenv" or s["rename"] != "Envelope" or decl.get("soapenv") != SOAPENV:
            problems.append(f"{name} is not a soapenv:Envelope (prefix={s['prefix']}, rename={s['rename']}, soapenv={decl.get('soapenv')})")
        fs = s["fields"]
        has_header = any(f["name"] == "header" for f in fs)
        for f in fs:
            want = {"header": ("Header", name + "Header"), "body": ("Body", name + "Body")}.get(f["name"])
            if want is None or f["rename"] != want[0] or f["leaf"] != want[1] or f["prefix"] != "soapenv" or f["wrapper"] != "T":
                problems.append(f"{name}.{f['name']} is not the soapenv:{f['name'].capitalize()} child ({f})")
        if not any(f["name"] == "body" for f in fs):
            problems.append(f"{name} has no body")
        out.append(f"ENVELOPE\t{name}\theader={1 if has_header else 0}")
        b = structs.get(name + "Body")
        if b is None:
            problems.append(f"{name}Body is not defined")
        else:
            bdecl = dict(b["ns"])
            if len(b["fields"]) != 1:
                problems.append(f"{name}Body holds {len(b['fields'])} elements instead of exactly one")
            for f in b["fields"]:
                ns = bdecl.get(f["prefix"], "?undeclared:" + str(f["prefix"])) if f["prefix"] is not None else "-"
                out.append(f"ENVBODY\t{name}\t{leaf(f['leaf'])}\trename={f['rename']}\tns={ns}")
        h = structs.get(name + "Header")
        if has_header and h is None:
            problems.append(f"{name}Header is not defined")
        if h is not None:
            hdecl = dict(h["ns"])
            for f in h["fields"]:
                ns = hdecl.get(f["prefix"], "?undeclared:" + str(f["prefix"])) if f["prefix"] is not None else "-"
                out.append(f"ENVHEADER\t{name}\t{f['idx']}\t{f['name']}\t{f['wrapper']}\t{leaf(f['leaf'])}\trename={f['rename']}\tns={ns}")
    svc_names = {fn["owner"] for fn in obs["fns"] if fn["name"] == "new" and fn["owner"] != "-"}
    for fn in obs["fns"]:
        if fn["owner"] in svc_names and fn["name"] != "new":
            m = re.match(r"^error::SoapResult<(.*)>$", fn["ret"])
            args = fn["args"].split(";")
            if not fn["async"] or len(args) != 2 or args[0] != "&self" or not m:
                problems.append(f"method {fn['owner']}::{fn['name']} has an unexpected signature ({fn})")
                continue
            out.append(f"METHOD\t{fn['owner']}\t{fn['name']}\targ={args[1]}\tret={m.group(1)}")
    for owner, val in obs["conststr"]:
        o, _, fnn = owner.rpartition("::")
        if o in svc_names and fnn == "new":
            out.append(f"SERVICE\t{o}\tlocation={val}")
    return out, problems


def oracle(case, obs, A, norm):
    if obs is None:
        return [("generation-failed", f"a well-formed WSDL was not accepted: {case['impl']}")]
    if obs["parse"] and obs["parse"][0] != "ok":
        return [("output-does-not-parse", "the emitted file does not parse as Rust: " + " ".join(obs["parse"][1:])[:200])]
    ref = [l for l in case["ref"] if l.split("\t")[0] in KINDS]
    impl, problems = impl_lines(obs, A)
    out = [("envelope-shape", p) for p in problems]
    miss, extra = g.diff_sets(ref, impl)
    if miss or extra:
        k = (miss or extra)[0].split("\t")[0]
        cls = {"ENVBODY": "body-element", "ENVHEADER": "header-element", "ENVELOPE": "envelope-set", "METHOD": "client-method", "SERVICE": "service-address"}[k]
        out.append((cls, "reference: " + (miss[0].replace("\t", " ") if miss else "-") + " | emitted: " + (extra[0].replace("\t", " ") if extra else "-")
                    + f" ({len(miss)} missing, {len(extra)} unexpected)"))
    return out


def projection(obs, A, norm):
    if obs is None:
        return []
    l, p = impl_lines(obs, A)
    return sorted(l) + sorted(p)


def run(tier, seed):
    return st.run_structural(
        "C05", tier, seed, "ZeepVerif.Props.C05", "ZeepVerif/Audit/C05.lean",
        [("genwsdl", 250, 6000), ("genwsdlcollide", 50, 1000)], oracle, projection, CHECKER, extra_props=[("ZeepVerif.Props.C05Ya", "ZeepVerif/Audit/C05Ya.lean"), ("ZeepVerif.Props.C05All", "ZeepVerif/Audit/C05All.lean")],
        note_assumptions=["static half of C05 (which envelope types, which element under which QName, which methods, which address); the wire half "
                          "(serialised request, deserialised response, URL on a loopback listener) is exercised on compiled clients by the C03/C04/C16 checks",
                          "reqwest::Url normalisation of the address is an oracle table shipped with the generator's URL pool"],
        rule_note="WSDLs: 1-4 operations named in any case style (keywords included), input only or input+output, 0-3 header parts per direction, body with or "
                  "without an explicit parts attribute, part names equal to or different from element names, elements in the WSDL's or an imported namespace.")


def replay(payload):
    return st.replay_case(payload, oracle)
