"""C18 — client futures are Send and usable from a multi-threaded runtime."""
import os
from . import structural as st
from . import gencorr as g
from . import compiled as cp
from . import gencrate

CHECKER = "cd /verif/lean && lake build ZeepVerif.Props.C18 && lake env lean ZeepVerif/Audit/C18.lean"


def oracle(case, obs, A, norm):
    if obs is None:
        return [("generation-failed", f"a well-formed WSDL was not accepted: {case['impl']}")]
    return []


def projection(obs, A, norm):
    if obs is None:
        return []
    # what matters for auto traits: field types of the envelopes and the client struct, method signatures
    return sorted(f"{s['name']}.{f['name']}:{f['wrapper']}<{f['leaf']}>" for s in obs["structs"] for f in s["fields"]) + \
        sorted(f"FN {f['owner']} {f['name']} {f['args']} {f['ret']}" for f in obs["fns"])


def rustc(c, cases):
    batch = [cs for cs in cases if cs["impl"].startswith("ok") and (cs.get("ref") or (cs["meta"].get("source") or "").endswith(("hello.wsdl", "tempconverter.wsdl")) or (cs["meta"].get("corpus") and cs["start"].endswith(".wsdl")))]
    # the hand-written WSDLs of the targeted corpus first (several ports, URN soapActions, headers), then the generated ones
    batch.sort(key=lambda cs: 0 if cs["meta"].get("corpus") else 1)
    chosen = batch[: (64 if c.tier == "quick" else 900)]
    fails = []
    n = 0
    asserts = 0
    for i in range(0, len(chosen), 64):
        ok, res, info = cp.compile_batch(chosen[i:i + 64], with_struct_asserts=False, with_send_asserts=True)
        n += info["modules"]
        asserts += info["send_asserts"]
        for cs in ok:
            r = res[id(cs)]
            if r["send"]:
                fails.append(("future-or-envelope-not-send", "rustc rejects the Send/Sync assertion: " + r["send"][0][:300], cs))
            elif r["emitted"]:
                fails.append(("emitted-code-does-not-compile", r["emitted"][0][:300], cs))
        if info["rc"] != 0 and not any(any(v.values()) for v in res.values()):
            fails.append(("batch-build-failed", info["raw_tail"][-300:], chosen[i]))
    c.cov["rustc"] = {"clients_compiled": n, "send_sync_assertions": asserts, "rejected": len(fails)}
    gencrate.cleanup()
    return fails


def run(tier, seed):
    return st.run_structural(
        "C18", tier, seed, "ZeepVerif.Props.C18", "ZeepVerif/Audit/C18.lean",
        [("genwsdl", 60, 800), ("genwsdlcollide", 10, 100)], oracle, projection, CHECKER, extra=rustc,
        note_assumptions=["rustc's auto-trait inference on the returned futures is the compiler's decision (environment); the theorem is about the liveness abstraction of the helper's body",
                          "assert_send(svc.op(req)), tokio multi-thread spawn of every method future, assert_send_sync::<Envelope>() for every envelope type, assert_send of every free operation function"],
        rule_note="Every operation shape the generator yields: with/without headers, with/without output.")


def replay(payload):
    return st.replay_case(payload, oracle)
