"""Batches of emitted code compiled (and run) against exactly the documented dependencies:
eight crates gc0..gc7 in the harness workspace, built in one cargo invocation (so in parallel)."""
import os
import re
import shutil
from .common import HARNESS, sh

NCRATES = 8
_LOCK = None


def _lock():
    """the eight crates are shared by every check that compiles emitted code: a check takes an exclusive lock at its first use of
    them and keeps it until its process ends, so that checks started at the same time queue up instead of overwriting each other's
    generated modules"""
    global _LOCK
    if _LOCK is None:
        import fcntl
        os.makedirs(os.path.join(HARNESS, "gc"), exist_ok=True)
        _LOCK = open(os.path.join(HARNESS, "gc", ".lock"), "w")
        fcntl.flock(_LOCK, fcntl.LOCK_EX)


def gen_dir(i):
    return os.path.join(HARNESS, "gc", f"gc{i}", "src", "gen")


def reset(i):
    _lock()
    d = gen_dir(i)
    shutil.rmtree(d, ignore_errors=True)
    os.makedirs(d)
    open(os.path.join(d, "root.rs"), "w").write("fn main() {}\n")


def write_crate(i, modules, driver="fn main() {}\n", extra_files=None):
    """modules: list of (module_name, path of emitted .rs or source text given as ('text', str))"""
    _lock()
    d = gen_dir(i)
    shutil.rmtree(d, ignore_errors=True)
    os.makedirs(d)
    root = ["#![allow(dead_code, unused_imports, unused_variables, non_snake_case, non_camel_case_types, clippy::all)]\n"]
    # `#![allow]` inside an include! is not allowed at a non-root position: use outer attributes per module instead
    root = []
    for name, src in modules:
        if isinstance(src, tuple):
            text = src[1]
        else:
            text = open(src, encoding="utf-8").read()
        open(os.path.join(d, f"{name}.rs"), "w", encoding="utf-8").write(text)
        root.append(f'#[allow(dead_code, unused_imports, unused_variables, non_snake_case, non_camel_case_types)]\n#[path = "{name}.rs"]\npub mod {name};\n')
    for fn, text in (extra_files or {}).items():
        open(os.path.join(d, fn), "w", encoding="utf-8").write(text)
    root.append(driver)
    open(os.path.join(d, "root.rs"), "w", encoding="utf-8").write("".join(root))


def cargo(cmd, crates, timeout=3000):
    _lock()
    args = ["cargo", cmd, "--offline", "--message-format=short"]
    for i in crates:
        args += ["-p", f"gc{i}"]
    rc, out, err = sh(args, cwd=HARNESS, timeout=timeout)
    return rc, out + err


ERR_RE = re.compile(r"^(gc/gc(\d+)/src/gen/([A-Za-z0-9_]+)\.rs):(\d+):(\d+): error(\[E\d+\])?: (.*)$")


def errors_by_module(text):
    """{(crate, module): [messages]} from --message-format=short output"""
    out = {}
    other = []
    for l in text.splitlines():
        m = ERR_RE.match(l.strip())
        if m:
            out.setdefault((int(m.group(2)), m.group(3)), []).append(f"{m.group(4)}:{m.group(5)} {m.group(6) or ''} {m.group(7)}")
        elif l.startswith("error") and "could not compile" not in l and "aborting due to" not in l:
            other.append(l)
    return out, other


def run_bin(i, args=(), inp=None, timeout=600):
    exe = os.path.join(HARNESS, "target", "debug", f"gc{i}")
    return sh([exe] + list(args), inp=inp, timeout=timeout)


def cleanup():
    for i in range(NCRATES):
        reset(i)
