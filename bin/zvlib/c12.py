"""C12 — generation is a deterministic function of the input files."""
import collections
import os
import subprocess
from concurrent.futures import ThreadPoolExecutor
from . import structural as st
from . import gencorr as g
from .common import Check, ZV, sh

CHECKER = "cd /verif/lean && lake build ZeepVerif.Props.C12 && lake env lean ZeepVerif/Audit/C12.lean"


def det_probe(case, seed):
    """three fresh processes (fresh hash seeds), each: 5 registration orders, a second thread, 3 repeated calls"""
    keys = []
    for p in range(3):
        try:
            r = subprocess.run([ZV, "det", case["in"], case["start"], str(seed + p)], capture_output=True, text=True, timeout=600)
            out = r.stdout
            if r.returncode != 0:
                out += f"process{p} crash rc={r.returncode}\n"
        except subprocess.TimeoutExpired:
            out = f"process{p} timeout\n"
        for l in out.splitlines():
            tag, _, key = l.partition(" ")
            keys.append((f"process{p}/{tag}", key))
    return keys


def xsd(uri, body, imports=""):
    return (f'<xs:schema xmlns:xs="http://www.w3.org/2001/XMLSchema" xmlns:tns="{uri}" targetNamespace="{uri}" elementFormDefault="qualified">\n'
            f'{imports}{body}</xs:schema>\n')


def name_cases(root):
    """sibling files whose *names* are nearly equal (case, extension case, white space, Unicode normal forms):
    which file an import denotes, and so the output, must not depend on the order of registration"""
    t = lambda n, m: f'  <xs:complexType name="{n}"><xs:sequence><xs:element name="{m}" type="xs:string"/></xs:sequence></xs:complexType>\n'
    fam = []
    for k, (wanted, others) in enumerate([
            ("common.xsd", ["Common.xsd", "COMMON.XSD"]), ("Types.xsd", ["types.xsd"]), ("a b.xsd", ["a  b.xsd", "ab.xsd"]),
            ("caf\u00e9.xsd", ["cafe\u0301.xsd"]), ("x.xsd", ["x.XSD", "X.xsd"])]):
        files = {"main.xsd": xsd("urn:names:main", t("Main", "m"), f'  <xs:import namespace="urn:names:wanted" schemaLocation="{wanted}"/>\n'),
                 wanted: xsd("urn:names:wanted", t("Wanted", "w"))}
        for j, o in enumerate(others):
            files[o] = xsd(f"urn:names:legacy{j}", t(f"Legacy{j}", "l"))
        d = os.path.join(root, f"names{k}")
        os.makedirs(os.path.join(d, "in"))
        for n, text in files.items():
            open(os.path.join(d, "in", n), "w", encoding="utf-8").write(text)
        fam.append({"dir": d, "in": os.path.join(d, "in"), "start": "main.xsd", "meta": {"features": "nearly-equal-file-names " + wanted}, "ref": None})
    return fam


def run(tier, seed):
    c = Check("C12", tier, seed)
    ok, err = c.build_harness()
    if not ok:
        c.violation({"kind": "harness-build", "error": err}, no_input=True)
        return c.finish(checker_cmd=CHECKER)
    c.extract()
    c.lake_build(["zvspec"])
    proved = c.prove("ZeepVerif.Props.C12", "ZeepVerif/Audit/C12.lean")
    if tier == "thorough" and proved:
        c.leanchecker(["ZeepVerif.Props.C12"])
    model_ok, model_err = c.lake_build(["zvdrv"])
    root = g.scratch(f"C12-{tier}-{seed}")
    cases = st.repo_corpus_cases(root, large=(tier == "thorough")) + st.verif_corpus_cases(root) + name_cases(root)
    for profile, nq, nt in (("genwsdl", 30, 500), ("genwsdlmulti", 20, 300), ("gencyc", 25, 400), ("genwsdlcollide", 10, 100)):
        n = nq if tier == "quick" else nt
        if not proved:
            n = max(n, nt // 2)
        sub = os.path.join(root, profile)
        os.makedirs(sub, exist_ok=True)
        cases += g.gen_cases(seed * 7919 + 3, n, sub, profile)
    g.run_impl(cases, want_obs=False)
    if model_ok:
        g.run_model(cases)
    with ThreadPoolExecutor(max_workers=12) as ex:
        probes = list(ex.map(lambda cs: det_probe(cs, seed), cases))
    fails, corr = [], []
    tags = collections.Counter()
    multi_op = 0
    for case, keys in zip(cases, probes):
        distinct = {k for _, k in keys}
        for t, _ in keys:
            tags[t.split("/")[1]] += 1
        feats = case["meta"].get("features") or ""
        if "ops=" in feats and "ops=1" not in feats:
            multi_op += 1
        if len(distinct) != 1 or len(keys) < 27:
            by = collections.defaultdict(list)
            for t, k in keys:
                by[k].append(t)
            fails.append((case, {k: v[:4] for k, v in by.items()}))
        if model_ok and not case.get("same_bytes"):
            corr.append(case)
    # history independence: the library is called for all inputs in ONE process (the batch above); the same in another process in
    # the reverse order, and each input alone after one other input, must give the same bytes for every input
    from .common import run_lines
    hist_fail = []
    okc = [cs for cs in cases if cs["impl"].startswith("ok") and os.path.exists(cs.get("impl_rs", ""))]
    lines = ["\t".join([cs["in"], cs["start"], os.path.join(cs["dir"], "impl_rev.rs"), "-", "-"]) for cs in reversed(okc)]
    rcb, rep, _ = run_lines([ZV, "batch"], lines)
    hist_runs = 0
    if len(rep) == len(okc):
        for cs, r in zip(reversed(okc), rep):
            hist_runs += 1
            pth = os.path.join(cs["dir"], "impl_rev.rs")
            if r != cs["impl"] or not os.path.exists(pth) or open(pth, "rb").read() != open(cs["impl_rs"], "rb").read():
                hist_fail.append((cs, {"first-run (inputs in generation order, one process)": [cs["impl"]], "second-run (reverse order, one process)": [r]}))
    for case, by in hist_fail:
        fails.append((case, by))
    c.cov["history_independence"] = {"inputs": len(okc), "runs_in_reverse_order": hist_runs, "differing": len(hist_fail)}
    dfails, dstats = dir_order_probe(c, [cs for cs in cases if cs["impl"].startswith("ok")], tier, seed)
    for case, by in dfails:
        fails.append((case, by))
    c.cov["directory_enumeration"] = dstats
    c.cov.update({
        "evaluations": sum(len(k) for k in probes) + dstats.get("cli_runs", 0),
        "distinct_nontrivial": sum(1 for cs in cases if cs["impl"].startswith("ok")),
        "rule": "per input: 3 fresh processes x (5 registration orders + 1 other thread + 3 repeated calls on one FilesToRead), all 27 outputs compared byte for byte (by hash); "
                "non-trivial = an input the generator accepts; inputs: repository corpus, generated WSDLs with 1-4 operations and 1-4 parts per message (also messages with parts bound neither as body nor as header), cyclic import graphs, and sets of sibling files whose names differ only in case / extension case / white space / Unicode normal form",
        "samples": [{"input": cs["meta"].get("source") or cs["meta"].get("features"), "probes": p[:3]} for cs, p in list(zip(cases, probes))[:2]],
        "probe_kinds": dict(tags),
        "inputs": len(cases),
        "inputs_with_several_operations": multi_op,
        "nondeterministic_inputs": len(fails),
        "disagreements_checked": len(cases) if model_ok else 0,
        "model_vs_impl_disagreements": len(corr),
    })
    c.assumptions += ["HashMap seeds differ between processes and threads (std RandomState); directory enumeration order is covered by the registration-order permutations",
                      "BTreeMap iteration is ordered by key (std)"]
    if fails:
        case, by = min(fails, key=lambda t: sum(os.path.getsize(os.path.join(t[0]["in"], f)) for f in os.listdir(t[0]["in"])))
        c.violation(st.save_replay(c, case, "the same input files produced different outputs", {"outputs": by, "count": len(fails),
                    "replay_cmd": f"for i in 1 2 3; do {ZV} det <case_dir>/in {case['start']} $i; done"}))
    elif c.proof["errors"] or not model_ok or corr:
        what = []
        if c.proof["errors"]:
            what.append({"broken": "proof obligations of ZeepVerif.Props.C12", "errors": c.proof["errors"]})
        if not model_ok:
            what.append({"broken": "model does not build", "errors": model_err[-2000:]})
        if corr:
            what.append({"broken": "correspondence model vs implementation (bytes)", "count": len(corr), "first": corr[0]["meta"]})
        c.violation({"kind": "obligation", "no_longer_checks": what, "searched": f"{len(cases)} inputs x 27 probes without finding two different outputs"}, no_input=True)
    g.cleanup(f"C12-{tier}-{seed}")
    return c.finish(checker_cmd=CHECKER)


def dir_order_probe(c, cases, tier, seed):
    """the command-line tool collects the sibling files itself, in the order the directory lists them. The same file contents are laid
    out in several creation orders on a file system that lists by creation order (tmpfs; elsewhere the listing order is the file
    system's own and the probe still compares runs), together with siblings nobody imports — one of them not UTF-8 text, created
    first / last / in the middle — and the tool's exit status and output bytes are compared across the layouts."""
    import hashlib
    import shutil
    import tempfile
    from .common import sh, REPO
    from . import c17
    rc, out, err = sh(["cargo", "build", "--offline", "-q", "-p", "zeep", "--target-dir", c17.BIN_DIR], cwd=REPO, timeout=3000)
    cli = os.path.join(c17.BIN_DIR, "debug", "zeep")
    if rc != 0 or not os.path.exists(cli):
        c.proof["errors"].append("the zeep binary does not build: " + (out + err)[-300:])
        return [], {"cli_runs": 0}
    multi = [cs for cs in cases if len(os.listdir(cs["in"])) > 1][: (12 if tier == "quick" else 150)]
    base = "/dev/shm" if os.path.isdir("/dev/shm") and os.access("/dev/shm", os.W_OK) else os.environ.get("ZV_SCRATCH", "/var/tmp")
    top = tempfile.mkdtemp(prefix="zv-c12-dir-", dir=base)
    fails, runs = [], 0
    extras = {"mm_unreadable.xsd": b"\xff\xfe<\x00x\x00/\x00>\x00", "mm_unrelated.xsd": b'<xs:schema xmlns:xs="http://www.w3.org/2001/XMLSchema" targetNamespace="urn:zv:unrelated"/>', "notes.txt": b"hello"}
    try:
        for k, cs in enumerate(multi):
            names = sorted(os.listdir(cs["in"]))
            content = {n: open(os.path.join(cs["in"], n), "rb").read() for n in names}
            content.update(extras)
            orders = {"extras-first": list(extras) + names, "extras-last": names + list(extras), "reversed": list(reversed(names + list(extras))),
                      "unreadable-in-the-middle": names[: len(names) // 2] + list(extras) + names[len(names) // 2:]}
            seen = {}
            for oname, order in orders.items():
                d = os.path.join(top, f"{k}-{oname}")
                os.makedirs(d)
                for n in order:
                    with open(os.path.join(d, n), "wb") as f:
                        f.write(content[n])
                o = os.path.join(top, f"{k}-{oname}.rs")
                r, so, se = sh([cli, "-i", os.path.join(d, cs["start"]), "-o", o], timeout=120)
                runs += 1
                key = (r, hashlib.sha256(open(o, "rb").read()).hexdigest()[:16] if r == 0 and os.path.exists(o) else "-")
                seen.setdefault(key, []).append("cli/dir-order/" + oname)
                shutil.rmtree(d, ignore_errors=True)
            if len(seen) != 1:
                fails.append((cs, {f"exit={k2[0]} {k2[1]}": v for k2, v in seen.items()}))
    finally:
        shutil.rmtree(top, ignore_errors=True)
    return fails, {"inputs": len(multi), "cli_runs": runs, "layouts": 4, "file_system": base, "differing": len(fails)}


def replay(payload):
    d = payload.get("case_dir")
    if not d:
        print(payload)
        return 1
    keys = det_probe({"in": os.path.join(d, "in"), "start": payload["start"]}, 1)
    distinct = {k for _, k in keys}
    print(f"{len(keys)} probes, {len(distinct)} distinct outputs")
    return 0 if len(distinct) == 1 else 1
