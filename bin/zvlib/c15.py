"""C15 — output-sink failures are reported: no panic, no false success."""
import os
import subprocess
from concurrent.futures import ThreadPoolExecutor
from . import structural as st
from . import gencorr as g
from .common import Check, ZV

CHECKER = "cd /verif/lean && lake build ZeepVerif.Props.C15 && lake env lean ZeepVerif/Audit/C15.lean"


def sink_probe(case, max_points, seed):
    try:
        r = subprocess.run([ZV, "sink", case["in"], case["start"], str(max_points), str(seed)], capture_output=True, text=True, timeout=3000)
        out = r.stdout
        if r.returncode != 0:
            out += f"CRASH rc={r.returncode} {r.stderr[-200:]}\n"
    except subprocess.TimeoutExpired:
        out = "CRASH timeout\n"
    res = {"n": 0, "bytes": 0, "tested": 0, "bad": [], "short": {}, "offsets": None, "other": []}
    for l in out.splitlines():
        f = l.split(" ")
        if f[0] == "N":
            res["n"], res["bytes"] = int(f[1]), int(f[2])
        elif f[0] == "OFFSETS":
            res["offsets"] = len(f[1].split(",")) if len(f) > 1 and f[1] else 0
        elif f[0] == "BAD":
            res["bad"].append(" ".join(f[1:]))
        elif f[0] == "TESTED":
            res["tested"] = int(f[1])
        elif f[0] == "SHORT":
            res["short"][f[1]] = f[2]
        else:
            res["other"].append(l)
    return res


def run(tier, seed):
    c = Check("C15", tier, seed)
    ok, err = c.build_harness()
    if not ok:
        c.violation({"kind": "harness-build", "error": err}, no_input=True)
        return c.finish(checker_cmd=CHECKER)
    c.extract()
    c.lake_build(["zvspec"])
    proved = c.prove("ZeepVerif.Props.C15", "ZeepVerif/Audit/C15.lean")
    if tier == "thorough" and proved:
        c.leanchecker(["ZeepVerif.Props.C15"])
    model_ok, model_err = c.lake_build(["zvdrv"])
    root = g.scratch(f"C15-{tier}-{seed}")
    cases = st.repo_corpus_cases(root, large=(tier == "thorough"))
    for profile, nq, nt in (("genwsdl", 12, 150), ("gen", 8, 100)):
        n = nq if tier == "quick" else nt
        if not proved:
            n = max(n, nt // 2)
        sub = os.path.join(root, profile)
        os.makedirs(sub, exist_ok=True)
        cases += g.gen_cases(seed * 104729 + 11, n, sub, profile)
    g.run_impl(cases, want_obs=False)
    if model_ok:
        g.run_model(cases)
    okcases = [cs for cs in cases if cs["impl"].startswith("ok")]
    maxp = 2500 if tier == "quick" else 40000
    with ThreadPoolExecutor(max_workers=14) as ex:
        res = list(ex.map(lambda cs: sink_probe(cs, maxp, seed), okcases))
    fails = []
    total_tested = 0
    exhaustive = 0
    for cs, r in zip(okcases, res):
        total_tested += r["tested"]
        if r["n"] and r["n"] <= maxp:
            exhaustive += 1
        problems = list(r["bad"]) + [f"short-write {k}: {v}" for k, v in r["short"].items() if v != "equal"] + r["other"]
        if len(r["short"]) < 4 and not r["other"]:
            problems.append("short-write probes missing")
        if problems:
            fails.append((cs, problems, r))
    corr = [cs for cs in cases if model_ok and not cs.get("same_bytes")]
    c.cov.update({
        "evaluations": total_tested,
        "distinct_nontrivial": total_tested,
        "rule": "per accepted document: a failure injected at write-call index k (every k when the document has at most max_points calls, else the first and last 50 and a seeded sample), "
                "error kinds Other (every k) and BrokenPipe/PermissionDenied/Ok(0)/Interrupted-once (every 7th k); plus 4 short-write sinks per document (1 byte, random prefixes <=7 and <=64, <=1000); "
                "every (document, k, kind) is distinct and non-trivial (the sink really fails there)",
        "samples": [{"input": cs["meta"].get("source") or cs["meta"].get("features"), "write_calls": r["n"], "bytes": r["bytes"], "failures_injected": r["tested"], "short": r["short"]} for cs, r in list(zip(okcases, res))[:3]],
        "documents": len(okcases),
        "documents_with_every_call_index_tested": exhaustive,
        "max_points": maxp,
        "bad_outcomes": sum(len(p) for _, p, _ in fails),
        "disagreements_checked": len(cases) if model_ok else 0,
        "model_vs_impl_disagreements": len(corr),
    })
    c.assumptions += ["io::Write::write_fmt/write_all retry semantics (std) as modelled in Model/Sink.lean",
                      "the failure index is a write-call index of the real sink; the model's chunks are coarser (one per macro call)"]
    if fails:
        cs, problems, r = min(fails, key=lambda t: t[2]["bytes"] or 10**12)
        c.violation(st.save_replay(c, cs, "a failing or short-writing sink was not handled: " + "; ".join(problems[:5]),
                                   {"count": len(fails), "replay_cmd": f"{ZV} sink <case_dir>/in {cs['start']} {maxp} {seed}   # lines: BAD <call index> <kind 0=Other 1=BrokenPipe 2=PermissionDenied 3=Ok(0) 4=Interrupted-once> <outcome>"}))
    elif c.proof["errors"] or not model_ok or corr:
        what = []
        if c.proof["errors"]:
            what.append({"broken": "proof obligations of ZeepVerif.Props.C15 (incl. c15_sites over the regenerated write-site inventory)", "errors": c.proof["errors"]})
        if not model_ok:
            what.append({"broken": "model does not build", "errors": model_err[-2000:]})
        if corr:
            what.append({"broken": "correspondence model vs implementation (bytes)", "count": len(corr)})
        c.violation({"kind": "obligation", "no_longer_checks": what, "searched": f"{total_tested} injected failures on {len(okcases)} documents, all reported as I/O errors"}, no_input=True)
    g.cleanup(f"C15-{tier}-{seed}")
    return c.finish(checker_cmd=CHECKER)


def replay(payload):
    d = payload.get("case_dir")
    if not d:
        print(payload)
        return 1
    r = sink_probe({"in": os.path.join(d, "in"), "start": payload["start"]}, 5000, payload.get("seed", 1))
    print(r["bad"][:10], r["short"])
    return 1 if r["bad"] or any(v != "equal" for v in r["short"].values()) else 0
