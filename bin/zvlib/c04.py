"""C04 — schema-valid instances deserialize losslessly and round-trip."""
from . import rtcheck

CHECKER = "cd /verif/lean && lake build ZeepVerif.Props.C04 && lake env lean ZeepVerif/Audit/C04.lean"


def pick(v):
    if v.startswith("de-err"):
        return "valid-instance-rejected"
    if v.startswith(("hang", "panic")):
        return "deserialisation-does-not-return"
    if v.startswith("infoset differs"):
        return "lossy-round-trip"
    if v.startswith("serialize-deserialize-serialize"):
        return "not-a-fixpoint"
    if v.startswith(("missing-type", "not-run")):
        return "type-missing"
    return None


def run(tier, seed):
    return rtcheck.run_rt(
        "C04", tier, seed, "ZeepVerif.Props.C04", "ZeepVerif/Audit/C04.lean", CHECKER,
        [("gen", 36, 600), ("gencollide", 10, 150), ("genwsdl", 10, 150)], "inst.txt", pick, False,
        ["yaserde 0.12 is the runtime (environment); shapes it cannot carry are identified by running the identical round trip on reference structs generated from Spec.Ref (never by looking at zeep's output) and are excluded",
         "instances stay inside the carrier of the documented mapping (the unbounded integer family is carried in 32 bits: DESIGN.md 5.C04 width note)",
         "canonical lexical forms (what Rust's Display prints) so that text can be compared literally; prefix renaming in three styles"],
        "instances from the independent generator Spec.Inst: from_str into the compiled emitted type must succeed, to_string of the result must have the instance's infoset, and ser(de(ser(v))) = ser(v); distinct = distinct instance documents",
        extra_props=[("ZeepVerif.Props.C04Ya", "ZeepVerif/Audit/C04Ya.lean")], ya=True)


def replay(payload):
    print(payload.get("instance"))
    print(payload.get("reserialised"))
    return 0
