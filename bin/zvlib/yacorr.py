"""Correspondence of the yaserde environment model `Ya` (lean/ZeepVerif/Ya/Model.lean) with the real crates:
for every round trip executed on the compiled emitted types (rt.run_roundtrips) the model is given the derive
input read off the *real* emitted file (zv obs: struct/field yaserde attributes and member types) and the same
instance document, and must predict the same outcome class and the same reserialised infoset."""
import xml.etree.ElementTree as ET
from . import gencorr as g
from . import rt
from .common import ZVDRV, run_lines

INTS = {"i8", "i16", "i32", "i64", "u8", "u16", "u32", "u64"}
WS = " \t\r\n"


def hx(s):
    return s.encode("utf-8").hex() if s != "" else "-"


def hx0(s):
    """hex, empty string stays empty-hex marker '' is not representable: use '-' only for absent"""
    return s.encode("utf-8").hex() or "-"


def struct_key(mod, name):
    return name if mod == "-" else f"{mod}::{name}"


def program_lines(obs):
    """S/F lines of the derive input; None when the program uses a shape the model does not cover
    (an alias of a primitive used as a member type is a struct for yaserde_derive and does not compile)"""
    defined = {struct_key(s["mod"], s["name"]) for s in obs["structs"] if "YaSerialize" in s["derives"]}
    alias = {struct_key(a["mod"], a["name"]): (a["mod"], a["leaf"]) for a in obs["aliases"]}

    def resolve(mod, leaf, depth=0):
        if depth > 8:
            return None
        if "::" in leaf:
            key = leaf
            kmod = leaf.rsplit("::", 1)[0]
        else:
            if leaf in g.PRIMS and struct_key(mod, leaf) not in defined and struct_key(mod, leaf) not in alias:
                if leaf == "String":
                    return "P:string"
                if leaf == "bool":
                    return "P:bool"
                if leaf in ("f32", "f64"):
                    return "P:float"
                return "P:int:" + leaf
            key = struct_key(mod, leaf)
            kmod = mod
        if key in defined:
            return "S:" + key.encode().hex()
        if key in alias:
            amod, aleaf = alias[key]
            r = resolve(amod, aleaf, depth + 1)
            # an alias of a primitive is a struct for the derive macro: outside the model
            return r if r is None or r.startswith("S:") else None
        return None

    out = []
    for s in obs["structs"]:
        if "YaSerialize" not in s["derives"]:
            continue          # the service client struct: not a wire type
        nss = ";".join(f"{p.encode().hex() or '-'}={u.encode().hex() or '-'}" for p, u in sorted(s["ns"])) or "-"
        rename = s["rename"] if s["rename"] is not None else s["name"]
        out.append("\t".join(["S", struct_key(s["mod"], s["name"]).encode().hex(), hx0(s["prefix"]) if s["prefix"] is not None else "-", hx0(rename), nss]))
        for f in sorted(s["fields"], key=lambda f: f["idx"]):
            leaf = resolve(s["mod"], f["leaf"])
            if leaf is None:
                return None
            kind = "attr" if f["attr"] else "text" if f["text"] else "flatten" if f["flatten"] else "elem"
            wrap = {"T": "one", "Option": "opt", "Vec": "vec"}.get(f["wrapper"])
            if wrap is None:
                return None
            rename = f["rename"] if f["rename"] is not None else f["name"]
            out.append("\t".join(["F", kind, hx0(f["prefix"]) if f["prefix"] is not None else "-", hx0(rename), wrap, leaf]))
    return out


def split_tag(tag):
    if tag.startswith("{"):
        u, l = tag[1:].split("}", 1)
        return u, l
    return None, tag


def trimmed(t):
    """what xml-rs delivers with trim_whitespace(true): no event for white space only"""
    if t is None:
        return None
    t = t.strip(WS)
    return t if t else None


def tree_lines(elem, depth=0):
    u, l = split_tag(elem.tag)
    kids = list(elem)
    text = trimmed(elem.text) if not kids else None
    attrs = []
    for k, v in elem.attrib.items():
        attrs += [hx0(split_tag(k)[1]), hx0(v)]
    out = ["\t".join(["N", str(depth), hx0(u) if u is not None else "-", hx0(l), hx0(text) if text is not None else "-", str(len(attrs) // 2)] + attrs)]
    for k in kids:
        out += tree_lines(k, depth + 1)
    return out


def unhx(s):
    return "" if s == "-" else bytes.fromhex(s).decode("utf-8")


def canon_from_lines(lines):
    """N-lines (pre-order with depth) -> the canonical infoset of rt.canon"""
    nodes = []
    for l in lines:
        f = l.split("\t")
        depth = int(f[1])
        tag = ("{" + unhx(f[2]) + "}" if f[2] != "-" else "") + unhx(f[3])
        text = unhx(f[4]) if f[4] != "-" else ""
        k = int(f[5])
        attrs = tuple(sorted((unhx(f[6 + 2 * i]), unhx(f[7 + 2 * i])) for i in range(k)))
        nodes.append([depth, tag, attrs, text, []])
    stack = []
    root = None
    for n in nodes:
        while stack and stack[-1][0] >= n[0]:
            stack.pop()
        if stack:
            stack[-1][4].append(n)
        else:
            root = n
        stack.append(n)

    def conv(n):
        if n[4]:
            return (n[1], n[2], tuple(conv(k) for k in n[4]))
        return (n[1], n[2], n[3])
    return conv(root) if root else None


def canon_local_attrs(c):
    """attribute names reduced to local names (the model's resolved trees carry local attribute names)"""
    if c is None:
        return None
    tag, attrs, rest = c
    attrs = tuple(sorted((split_tag(k)[1], v) for k, v in attrs))
    if isinstance(rest, tuple):
        return (tag, attrs, tuple(canon_local_attrs(k) for k in rest))
    return (tag, attrs, rest)


def check(results):
    """results: the dicts of rt.run_roundtrips (side 'impl'). Returns (compared, disagreements, skipped, classes)"""
    by_case = {}
    ref_status = {r["rid"]: r["status"] for r in results if r["side"] == "ref"}
    ref_out = {r["rid"]: r.get("out") for r in results if r["side"] == "ref"}

    def nested_in_itself(xml):
        """does some element occur inside an element of the same name (the shape on which yaserde's event loop loses track)"""
        try:
            root = ET.fromstring(xml.encode("utf-8"))
        except ET.ParseError:
            return False

        def walk(e, seen):
            if e.tag in seen:
                return True
            return any(walk(k, seen | {e.tag}) for k in e)
        if walk(root, frozenset()):
            return True
        # the same limit shows when a member name of an outer struct recurs as a member name further down (a value nested in a
        # value of the same recursive type under another element name): the same element name at two depths
        depths = {}

        def visit(e, d):
            depths.setdefault(e.tag, set()).add(d)
            for k in e:
                visit(k, d + 1)
        visit(root, 0)
        return any(len(v) > 1 for v in depths.values())
    def type_nested_in_itself(obs, mod, typ, xml):
        """does the document hold a value of some struct type inside a value of the same struct type (under whatever element
        names)? Decided from the derive input syn read from the emitted file: element -> member by its rename -> member's type."""
        try:
            root = ET.fromstring(xml.encode("utf-8"))
        except ET.ParseError:
            return False
        index = {(st["mod"], st["name"]): st for st in obs["structs"]}

        def target(m, leaf):
            if "::" in leaf:
                km, kn = leaf.rsplit("::", 1)
                return (km.split("::")[-1], kn)
            return (m, leaf)

        def local(tag):
            return tag.rsplit("}", 1)[-1]

        def walk(e, key, path, depth=0):
            st = index.get(key)
            if st is None or depth > 40:
                return False
            for k in e:
                ln = local(k.tag)
                for f in st["fields"]:
                    if f["attr"] or f["text"]:
                        continue
                    if (f["rename"] or f["name"]) == ln:
                        t = target(key[0], f["leaf"])
                        if t in index:
                            if t in path or t == key:
                                return True
                            if walk(k, t, path | {key}, depth + 1):
                                return True
                        break
            return False
        return walk(root, (mod, typ), frozenset())

    runtime_limits = 0
    for r in results:
        if r["side"] != "impl" or r["status"] in ("missing-type", "not-run"):
            continue
        by_case.setdefault(id(r["case"]), (r["case"], []))[1].append(r)
    lines = []
    plan = []
    skipped = 0
    case_obs, case_mod = {}, {}
    for cid, (case, rs) in by_case.items():
        obs = g.parse_obs(case["impl_obs"])
        prog = program_lines(obs)
        if prog is None:
            skipped += len(rs)
            continue
        A = g.assignment(obs)
        uri2mod = {u: m for m, u in A["mod2uri"].items()}
        case_obs[cid] = obs
        for r in rs:
            case_mod[r["rid"]] = uri2mod.get(r["inst"]["uri"]) or "-"
        lines.append("RESET")
        lines += prog
        for r in rs:
            m = uri2mod.get(r["inst"]["uri"])
            try:
                root = ET.fromstring(r["inst"]["xml"].encode("utf-8"))
            except ET.ParseError:
                skipped += 1
                continue
            if m is None:
                skipped += 1
                continue
            lines.append("\t".join(["T", r["rid"], struct_key(m, r["inst"]["type"]).encode().hex()]))
            lines += tree_lines(root)
            lines.append("RUN")
            plan.append(r)
    if not plan:
        return 0, [], skipped, {}
    rc, out, err = run_lines([ZVDRV, "ya"], lines)
    # parse reply blocks
    replies = {}
    cur = None
    for l in out:
        if l.startswith("R\t"):
            f = l.split("\t")
            cur = {"rid": f[1], "status": f[2], "fix": (f[3][4:] if len(f) > 3 else None), "lines": [],
                   "flags": dict(x.split("=", 1) for x in f[4:] if "=" in x)}
            replies[f[1]] = cur
        elif l.startswith("N\t") and cur is not None:
            cur["lines"].append(l)
    dis = []
    classes = {}
    compared = 0
    hyp = {"declared": 0, "core": 0, "okval": 0, "core_and_okval": 0, "programs": set(), "declared_false": []}
    for r in plan:
        rep = replies.get(r["rid"])
        if rep is not None and rep["status"] == "ok":
            fl = rep.get("flags", {})
            hyp["declared"] += fl.get("declared") == "1"
            hyp["core"] += fl.get("core") == "1"
            hyp["okval"] += fl.get("okval") == "1"
            hyp["core_and_okval"] += fl.get("core") == "1" and fl.get("okval") == "1"
            if fl.get("declared") == "0":
                hyp["declared_false"].append(r)
        if rep is None:
            dis.append((r, "the model driver gave no reply"))
            continue
        compared += 1
        real = r["status"]
        classes[real] = classes.get(real, 0) + 1
        mstat = {"undeclared-prefix": "ok"}.get(rep["status"], rep["status"])
        if real in ("hang", "panic", "de-err") and mstat == "ok" and ref_status.get(r["rid"]) == real:
            # the runtime's event loop loses track of the depth on elements nested in an element of the same
            # (recursive) type; hand-written reference structs fail the same way. Outside the tree-level model.
            runtime_limits += 1
            continue
        if mstat != real:
            dis.append((r, f"outcome: real {real} ({r['detail'][:80]}), model {rep['status']}"))
            continue
        if real == "ok":
            b, eb = rt.infoset(r["out"] or "")
            if rep["status"] == "undeclared-prefix":
                if eb is None:
                    dis.append((r, "model: a used prefix is undeclared; real output is namespace-well-formed"))
                continue
            if eb:
                dis.append((r, "real output is not namespace-well-formed (" + eb + "); the model resolved every prefix"))
                continue
            mc = canon_from_lines(rep["lines"])
            d = rt.first_diff(canon_local_attrs(b), mc)
            if d:
                # same shape, milder symptom: the runtime returns a value but has mixed up the nested elements; the hand-written
                # reference structs come back with the very same document, so this is the runtime's limit, not the generator's
                rb, reb = rt.infoset(ref_out.get(r["rid"]) or "")
                recursive_shape = nested_in_itself(r["inst"]["xml"]) or type_nested_in_itself(case_obs.get(id(r["case"]), {"structs": []}), case_mod.get(r["rid"], "-"), r["inst"]["type"], r["inst"]["xml"])
                if recursive_shape and ref_status.get(r["rid"]) == "ok" and reb is None and not rt.first_diff(canon_local_attrs(b), canon_local_attrs(rb)):
                    runtime_limits += 1
                    continue
                dis.append((r, "reserialised infoset: real vs model: " + d))
                continue
            if rep["fix"] != r["fix"]:
                dis.append((r, f"fixpoint: real {r['fix']}, model {rep['fix']}"))
    classes["runtime-limit-excluded"] = runtime_limits
    classes["hypotheses"] = {"instances_ok": sum(1 for r in plan if (replies.get(r["rid"]) or {}).get("status") == "ok"),
                             "program_declared": hyp["declared"], "program_core": hyp["core"], "value_ok": hyp["okval"],
                             "roundtrip_theorem_applies": hyp["core_and_okval"], "program_not_declared": len(hyp["declared_false"])}
    classes["_not_declared"] = hyp["declared_false"][:3]
    return compared, dis, skipped, classes


def check_progof(cases, limit=60):
    """`Ya.progOf` of the model's document against the derive input syn reads from the real emitted file:
    every struct of a namespace module must be the same (attributes, members, member types)"""
    from .common import sh
    n = 0
    dis = []
    for c in cases:
        if n >= limit:
            break
        if not c["impl"].startswith("ok") or not c.get("dump") or c["dump"] == "-":
            continue
        obs = g.parse_obs(c["impl_obs"])
        prog = program_lines(obs)
        if prog is None:
            continue
        rc, out, err = sh([ZVDRV, "progof", c["dump"], c["start"]], timeout=300)
        if rc != 0 or out.startswith("read-err"):
            dis.append((c, f"progof failed: {out[:100]} {err[-200:]}"))
            continue
        n += 1

        def blocks(lines):
            b = {}
            cur = None
            for l in lines:
                f = l.split("\t")
                if f[0] == "S":
                    cur = bytes.fromhex(f[1]).decode()
                    b[cur] = [l]
                elif f[0] == "F" and cur is not None:
                    b[cur].append(l)
            return b
        mb = blocks([l for l in out.split("\n") if l])
        ib = blocks(prog)
        in_modules = {k for k in ib if "::" in k}
        for k in sorted(set(mb) | in_modules):
            if mb.get(k) != ib.get(k):
                dis.append((c, f"struct {k}: model {mb.get(k)} vs emitted {ib.get(k)}"[:600]))
                break
    return n, dis
