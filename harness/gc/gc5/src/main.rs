// The body of this crate is written by the checks (bin/zvlib/gencrate.py) into src/gen/: emitted
// modules, reference modules and a synthesized driver.
include!("gen/root.rs");
