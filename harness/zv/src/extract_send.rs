//! Translator, part 4: the client helper `helpers::send_soap_request_using_client` and the `MultiRef`
//! forwarding impls of helpers_content.rs -> Generated/Send.lean
//!   sendSteps     the calls of the helper body in evaluation order, with `await` and `?` markers (C07 C16 C18)
//!   sendBindings  every binding (parameters and lets) with the step index where it starts to live and a
//!                 class of its initializer: "notsend" when it mentions Rc / RefCell / Cell / a lock guard (C18)
//!   multiRefForwarding  per trait method of `impl .. for MultiRef<T>`: how the body forwards (C19)
use quote::ToTokens;
use syn::{Expr, FnArg, ImplItem, Item, Pat, Stmt};

fn lean_str(s: &str) -> String {
    format!("{:?}", s)
}

fn flat<T: ToTokens>(t: &T) -> String {
    t.to_token_stream().to_string().split_whitespace().collect::<Vec<_>>().join(" ")
}

fn class_of_init(tokens: &str) -> &'static str {
    let t: String = tokens.split_whitespace().collect();
    if t.contains("Rc::") || t.contains("Rc<") || t.contains("RefCell") || t.contains("Cell<") || t.contains(".lock()") || t.contains(".borrow") {
        "notsend"
    } else {
        "send"
    }
}

struct Walk {
    steps: Vec<String>,
    bindings: Vec<(String, String, usize)>,
}

impl Walk {
    fn expr(&mut self, e: &Expr) {
        match e {
            Expr::Try(t) => {
                self.expr(&t.expr);
                self.steps.push("try".into());
            }
            Expr::Await(a) => {
                self.expr(&a.base);
                self.steps.push("await".into());
            }
            Expr::MethodCall(m) => {
                self.expr(&m.receiver);
                for a in &m.args {
                    self.expr(a);
                }
                let name = m.method.to_string();
                // closures passed to map_err and conversions are not steps of the protocol
                if !matches!(name.as_str(), "map_err" | "to_string" | "clone" | "as_ref" | "into") || name == "to_string" && false {
                    self.steps.push(format!("call:{name}"));
                }
            }
            Expr::Call(c) => {
                for a in &c.args {
                    self.expr(a);
                }
                let f = flat(&c.func).replace(' ', "");
                let last = f.rsplit("::").next().unwrap_or("").to_string();
                if matches!(last.as_str(), "Ok" | "Some" | "Err") {
                    if last == "Ok" {
                        self.steps.push("ret-ok".into());
                    }
                } else {
                    self.steps.push(format!("call:{last}"));
                }
            }
            Expr::Assign(a) => {
                self.expr(&a.right);
            }
            Expr::If(i) => {
                let cond = flat(&i.cond);
                self.steps.push(format!("if:{}", if cond.contains("credentials") { "credentials" } else { "other" }));
                if let Expr::Let(l) = &*i.cond {
                    self.pat(&l.pat, &flat(&l.expr));
                }
                self.block(&i.then_branch);
                if let Some((_, eb)) = &i.else_branch {
                    self.steps.push("else".into());
                    self.expr(eb);
                }
                self.steps.push("endif".into());
            }
            Expr::Block(b) => self.block(&b.block),
            Expr::Paren(p) => self.expr(&p.expr),
            Expr::Reference(r) => self.expr(&r.expr),
            Expr::Return(r) => {
                if let Some(v) = &r.expr {
                    self.expr(v);
                }
                self.steps.push("return".into());
            }
            Expr::Closure(_) | Expr::Path(_) | Expr::Lit(_) | Expr::Field(_) => {}
            other => self.steps.push(format!("other:{}", flat(other).chars().take(40).collect::<String>())),
        }
    }
    fn pat(&mut self, p: &Pat, init: &str) {
        match p {
            Pat::Ident(i) => self.bindings.push((i.ident.to_string(), class_of_init(init).into(), self.steps.len())),
            Pat::Tuple(t) => t.elems.iter().for_each(|e| self.pat(e, init)),
            Pat::TupleStruct(t) => t.elems.iter().for_each(|e| self.pat(e, init)),
            Pat::Type(t) => self.pat(&t.pat, init),
            _ => {}
        }
    }
    fn block(&mut self, b: &syn::Block) {
        for st in &b.stmts {
            match st {
                Stmt::Local(l) => {
                    let init = l.init.as_ref().map(|i| flat(&i.expr)).unwrap_or_default();
                    if let Some(i) = &l.init {
                        self.expr(&i.expr);
                    }
                    self.pat(&l.pat, &init);
                }
                Stmt::Expr(e, _) => self.expr(e),
                Stmt::Macro(m) => self.steps.push(format!("macro:{}", flat(&m.mac.path))),
                Stmt::Item(_) => {}
            }
        }
    }
}

pub fn extract(src: &str) -> String {
    let mut lean = String::from(
        "/- GENERATED by `zv extract` from helpers_content.rs (client helper body, MultiRef forwarding). Regenerated on every check run; do not edit. -/\nnamespace ZeepVerif.Generated.Send\n\n",
    );
    let file = syn::parse_file(src).ok();
    let mut steps: Vec<String> = vec!["unsupported: helper not found".into()];
    let mut bindings = vec![];
    let mut fwd: Vec<(String, String, String)> = vec![];
    if let Some(f) = &file {
        for it in &f.items {
            if let Item::Mod(m) = it {
                if let Some((_, items)) = &m.content {
                    for it2 in items {
                        match it2 {
                            Item::Fn(func) if m.ident == "helpers" && func.sig.ident == "send_soap_request_using_client" => {
                                let mut w = Walk { steps: vec![], bindings: vec![] };
                                for a in &func.sig.inputs {
                                    if let FnArg::Typed(pt) = a {
                                        w.pat(&pt.pat, &flat(&pt.ty));
                                    }
                                }
                                w.block(&func.block);
                                steps = w.steps;
                                bindings = w.bindings;
                            }
                            Item::Impl(imp) if m.ident == "multi_ref" => {
                                let self_ty = flat(&imp.self_ty).replace(' ', "");
                                if !self_ty.starts_with("MultiRef<") {
                                    continue;
                                }
                                let tr = imp.trait_.as_ref().map(|(_, p, _)| flat(p).replace(' ', "")).unwrap_or_else(|| "-".into());
                                for ii in &imp.items {
                                    if let ImplItem::Fn(func) = ii {
                                        let body = flat(&func.block).replace(' ', "");
                                        let name = func.sig.ident.to_string();
                                        // classification of the forwarding shape
                                        let args: Vec<String> = func
                                            .sig
                                            .inputs
                                            .iter()
                                            .filter_map(|a| match a {
                                                FnArg::Typed(pt) => Some(flat(&pt.pat).replace(' ', "")),
                                                FnArg::Receiver(_) => None,
                                            })
                                            .collect();
                                        let fwd_same = format!("self.inner.{name}({})", args.join(","));
                                        let cls = if body == format!("{{{fwd_same}}}") || body == format!("{{{fwd_same}?;Ok(())}}") {
                                            "forward-same-args"
                                        } else if body == format!("{{letinner=T::{name}({})?;Ok(Self{{inner:Arc::new(inner)}})}}", args.join(",")) {
                                            "wrap-result-in-arc"
                                        } else if body == "{Self{inner:Arc::new(inner)}}" {
                                            "wrap-arg-in-arc"
                                        } else if body == "{Self{inner:self.inner.clone(),}}" || body == "{Self{inner:self.inner.clone()}}" {
                                            "clone-arc"
                                        } else if body == "{Self{inner:Arc::default()}}" {
                                            "default-arc"
                                        } else if body == "{&self.inner}" {
                                            "deref-inner"
                                        } else {
                                            "other"
                                        };
                                        fwd.push((tr.clone(), name, cls.to_string()));
                                    }
                                }
                            }
                            _ => {}
                        }
                    }
                }
            }
        }
    }
    lean.push_str("/-- the helper's calls in evaluation order -/\ndef sendSteps : List String := [\n");
    lean.push_str(&steps.iter().map(|s| format!("  {}", lean_str(s))).collect::<Vec<_>>().join(",\n"));
    lean.push_str("\n]\n\n/-- (name, initializer class, index of the first step after the binding) -/\ndef sendBindings : List (String × String × Nat) := [\n");
    lean.push_str(&bindings.iter().map(|(a, b, c)| format!("  ({}, {}, {c})", lean_str(a), lean_str(b))).collect::<Vec<_>>().join(",\n"));
    lean.push_str("\n]\n\n/-- (trait, method, forwarding shape) of every method of `impl .. for MultiRef<T>` -/\ndef multiRefForwarding : List (String × String × String) := [\n");
    lean.push_str(&fwd.iter().map(|(a, b, c)| format!("  ({}, {}, {})", lean_str(a), lean_str(b), lean_str(c))).collect::<Vec<_>>().join(",\n"));
    lean.push_str("\n]\n\nend ZeepVerif.Generated.Send\n");
    lean
}
