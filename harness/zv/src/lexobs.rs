//! `zv lex <file.rs> <marker>`: where does a marker string occur in the *token stream* of an emitted file?
//!   LEX ok|error <msg>
//!   TOK ident <text>            an identifier containing the marker
//!   TOK str <hex of the literal's value>     a string literal whose value contains the marker
//!   TOK doc <hex of the text>   a doc comment (`#[doc = ".."]` after lexing) containing the marker
//!   TOK other <kind> <text>     anything else containing the marker (a violation of C14)
//! Ordinary (non-doc) comments are dropped by the lexer: text there is not code by construction.
use proc_macro2::{TokenStream, TokenTree};
use std::str::FromStr;

fn hex(s: &str) -> String {
    s.bytes().map(|b| format!("{b:02x}")).collect()
}

fn walk(ts: TokenStream, marker: &str, out: &mut Vec<String>, prev_doc: &mut bool) {
    let toks: Vec<TokenTree> = ts.into_iter().collect();
    let mut i = 0;
    while i < toks.len() {
        match &toks[i] {
            TokenTree::Ident(id) => {
                let s = id.to_string();
                *prev_doc = s == "doc";
                if s.to_lowercase().contains(&marker.to_lowercase()) {
                    out.push(format!("TOK ident {s}"));
                }
            }
            TokenTree::Literal(l) => {
                let raw = l.to_string();
                match syn::parse_str::<syn::Lit>(&raw) {
                    Ok(syn::Lit::Str(s)) => {
                        let v = s.value();
                        if v.contains(marker) {
                            out.push(format!("TOK {} {}", if *prev_doc { "doc" } else { "str" }, hex(&v)));
                        }
                    }
                    _ => {
                        if raw.contains(marker) {
                            out.push(format!("TOK other literal {}", hex(&raw)));
                        }
                    }
                }
                *prev_doc = false;
            }
            TokenTree::Punct(p) => {
                if p.as_char() != '=' {
                    *prev_doc = false;
                }
            }
            TokenTree::Group(g) => {
                // `#[doc = "…"]`: the group holds `doc = "…"`
                let mut pd = false;
                walk(g.stream(), marker, out, &mut pd);
                *prev_doc = false;
            }
        }
        i += 1;
    }
}

pub fn lex(src: &str, marker: &str) -> String {
    let mut out = vec![];
    match TokenStream::from_str(src) {
        Err(e) => return format!("LEX error {e}\n"),
        Ok(ts) => {
            let mut pd = false;
            walk(ts, marker, &mut out, &mut pd);
        }
    }
    let parse = match syn::parse_file(src) {
        Ok(_) => "LEX ok".to_string(),
        Err(e) => format!("LEX error {e}"),
    };
    format!("{parse}\n{}\n", out.join("\n"))
}
