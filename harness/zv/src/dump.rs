//! `zv dump`: parse input files with the same roxmltree the generator uses and print the trees in a
//! line format for the Lean model (which does not model XML parsing).
//!
//!   F <hexname>                      file header
//!   P                                the file does not parse (roxmltree error)
//!   E <depth> <hextag> <hextext|->   element: local tag name; text() of the element (first child text)
//!   A <hexname> <hexns|-> <hexval>   attribute of the preceding element
//!   N <hexprefix|-> <hexuri>         in-scope namespace of the preceding element, in roxmltree's order
//!   O <depth> <hextext|->            non-element node (text / comment / pi)
//!   U <hexraw> <hexnormalized|!>     oracle: reqwest::Url parse + Display of an attribute value
//!   X                                end of file
use std::fmt::Write as _;

pub fn hex(s: &str) -> String {
    let mut o = String::with_capacity(s.len() * 2);
    for b in s.bytes() {
        let _ = write!(o, "{b:02x}");
    }
    o
}

fn hex_or_dash(s: Option<&str>) -> String {
    match s {
        Some(s) if !s.is_empty() => hex(s),
        Some(_) => "".to_string(),
        None => "-".to_string(),
    }
}

fn walk(node: roxmltree::Node, depth: usize, out: &mut String, urls: &mut Vec<String>) {
    if node.is_element() {
        let text = node.text();
        let _ = writeln!(
            out,
            "E {depth} {} {}",
            hex(node.tag_name().name()),
            match text {
                Some(t) => format!("={}", hex(t)),
                None => "-".to_string(),
            }
        );
        for a in node.attributes() {
            let _ = writeln!(
                out,
                "A {} {} ={}",
                hex(a.name()),
                match a.namespace() {
                    Some(n) => format!("={}", hex(n)),
                    None => "-".to_string(),
                },
                hex(a.value())
            );
            if a.namespace().is_none() && (a.name() == "location" || a.name() == "soapAction") {
                urls.push(a.value().to_string());
            }
        }
        for ns in node.namespaces() {
            let _ = writeln!(
                out,
                "N {} ={}",
                match ns.name() {
                    Some(n) => format!("={}", hex(n)),
                    None => "-".to_string(),
                },
                hex(ns.uri())
            );
        }
        for c in node.children() {
            walk(c, depth + 1, out, urls);
        }
    } else {
        let _ = writeln!(
            out,
            "O {depth} {}",
            match node.text() {
                Some(t) if node.is_text() => format!("={}", hex(t)),
                _ => "-".to_string(),
            }
        );
    }
}

pub fn dump_file(name: &str, xml: &str) -> String {
    let mut out = String::new();
    let _ = writeln!(out, "F ={}", hex(name));
    match roxmltree::Document::parse(xml) {
        Err(_) => {
            let _ = writeln!(out, "P");
        }
        Ok(doc) => {
            let mut urls = vec![];
            for c in doc.root().children() {
                walk(c, 0, &mut out, &mut urls);
            }
            urls.sort();
            urls.dedup();
            for u in urls {
                let norm = match u.parse::<reqwest::Url>() {
                    Ok(p) => format!("={}", hex(&p.to_string())),
                    Err(_) => "!".to_string(),
                };
                let _ = writeln!(out, "U ={} {}", hex(&u), norm);
            }
        }
    }
    let _ = writeln!(out, "X");
    let _ = hex_or_dash(None);
    out
}
