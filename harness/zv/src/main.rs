//! zv — harness front door: translator (`extract`), tree dump (`dump`), real-library runs (`gen`, ...).
mod dump;
mod extract_cli;
mod extract_restr;
mod extract_send;
mod extract_sites;
mod extract_tables;
mod lexobs;
mod obs;
mod run;
mod rs2lean;

use std::{fs, path::Path, process::ExitCode};

fn write_if_changed(path: &Path, content: &str) -> bool {
    if let Ok(old) = fs::read_to_string(path) {
        if old == content {
            return false;
        }
    }
    if let Some(p) = path.parent() {
        let _ = fs::create_dir_all(p);
    }
    fs::write(path, content).expect("write generated file");
    true
}

fn cmd_extract(repo: &str, out: &str) -> ExitCode {
    let repo = Path::new(repo);
    let out = Path::new(out);
    let helpers = fs::read_to_string(repo.join("zeep-lib/src/model/helpers_content.rs")).unwrap_or_default();
    let mut changed = vec![];
    if write_if_changed(&out.join("Restrictions.lean"), &extract_restr::extract(&helpers)) {
        changed.push("Restrictions.lean");
    }
    let main_src = fs::read_to_string(repo.join("zeep/src/main.rs")).unwrap_or_default();
    let utils_src = fs::read_to_string(repo.join("zeep-lib/src/utils.rs")).unwrap_or_default();
    if write_if_changed(&out.join("Cli.lean"), &extract_cli::extract(&main_src, &utils_src)) {
        changed.push("Cli.lean");
    }
    if write_if_changed(&out.join("Send.lean"), &extract_send::extract(&helpers)) {
        changed.push("Send.lean");
    }
    if write_if_changed(&out.join("Sites.lean"), &extract_sites::extract(repo)) {
        changed.push("Sites.lean");
    }
    if write_if_changed(&out.join("Tables.lean"), &extract_tables::extract(repo)) {
        changed.push("Tables.lean");
    }
    println!("extract: changed={changed:?}");
    ExitCode::SUCCESS
}

fn main() -> ExitCode {
    let args: Vec<String> = std::env::args().collect();
    match args.get(1).map(String::as_str) {
        Some("extract") if args.len() == 4 => cmd_extract(&args[2], &args[3]),
        Some("gen") if args.len() == 5 => {
            println!("{}", run::cmd_gen(&args[2], &args[3], &args[4]));
            ExitCode::SUCCESS
        }
        Some("parseonly") if args.len() == 3 => {
            let src = fs::read_to_string(&args[2]).unwrap_or_default();
            match roxmltree::Document::parse(&src) {
                Ok(d) => println!("parsed {} nodes", d.descendants().count()),
                Err(e) => println!("parse-error {e}"),
            }
            ExitCode::SUCCESS
        }
        Some("det") if args.len() == 5 => {
            print!("{}", run::cmd_det(&args[2], &args[3], args[4].parse().unwrap_or(1)));
            ExitCode::SUCCESS
        }
        Some("sink") if args.len() == 6 => {
            print!("{}", run::cmd_sink(&args[2], &args[3], args[4].parse().unwrap_or(2000), args[5].parse().unwrap_or(1)));
            ExitCode::SUCCESS
        }
        Some("lex") if args.len() == 4 => {
            let src = fs::read_to_string(&args[2]).unwrap_or_default();
            let cut = src.find("pub mod error {").unwrap_or(src.len());
            print!("{}", lexobs::lex(&src[..cut], &args[3]));
            ExitCode::SUCCESS
        }
        Some("obs") if args.len() == 3 => {
            let src = fs::read_to_string(&args[2]).unwrap_or_default();
            print!("{}", obs::observe(&src));
            ExitCode::SUCCESS
        }
        Some("dump") if args.len() == 4 => {
            println!("{}", run::cmd_dump(&args[2], &args[3]));
            ExitCode::SUCCESS
        }
        Some("batch") => {
            // stdin lines: <dir> <start> <out-rs|-> <out-dump|-> <out-obs|->
            use std::io::BufRead;
            for line in std::io::stdin().lock().lines().map_while(Result::ok) {
                let f: Vec<&str> = line.split('\t').collect();
                if f.len() != 5 {
                    println!("bad-line");
                    continue;
                }
                if f[3] != "-" {
                    run::cmd_dump(f[0], f[3]);
                }
                let r = run::cmd_gen(f[0], f[1], f[2]);
                if f[4] != "-" && r.starts_with("ok") {
                    let src = fs::read_to_string(f[2]).unwrap_or_default();
                    // observe the generated part only (the appended runtime is fixed text)
                    let cut = src.find("pub mod error {").unwrap_or(src.len());
                    let _ = fs::write(f[4], obs::observe(&src[..cut]));
                }
                println!("{r}");
            }
            ExitCode::SUCCESS
        }
        Some("docbatch") => {
            // stdin lines: <dir> <start> <out-docdump>
            use std::io::BufRead;
            for line in std::io::stdin().lock().lines().map_while(Result::ok) {
                let f: Vec<&str> = line.split('\t').collect();
                if f.len() != 3 {
                    println!("bad-line");
                    continue;
                }
                println!("{}", run::cmd_docdump(f[0], f[1], f[2]));
            }
            ExitCode::SUCCESS
        }
        _ => {
            eprintln!("usage: zv extract <repo> <outdir>");
            ExitCode::from(2)
        }
    }
}
