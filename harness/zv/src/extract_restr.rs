//! Translator, part 1: the `restrictions` module of helpers_content.rs -> Generated/Restrictions.lean

use crate::rs2lean::{self, Env};
use proc_macro2::{TokenStream, TokenTree};
use quote::ToTokens;
use syn::{FnArg, ImplItem, Item, ItemImpl, Pat, Type};

fn lean_ty(t: &Type) -> String {
    let s = t.to_token_stream().to_string().replace(' ', "");
    lean_ty_str(&s)
}

fn lean_ty_str(s: &str) -> String {
    let s = s.trim_start_matches('&');
    match s {
        "i8" | "u8" | "i16" | "u16" | "i32" | "u32" | "i64" | "u64" | "i128" | "u128" | "usize" | "isize" => "Int".into(),
        "String" | "str" => "String".into(),
        "bool" => "Bool".into(),
        "f32" | "f64" => "Float".into(),
        "Restrictions" => "Restrictions".into(),
        _ => {
            for (w, l) in [("Option<", "Option"), ("Vec<", "List"), ("Rc<", ""), ("Arc<", ""), ("Box<", "")] {
                if let Some(rest) = s.strip_prefix(w) {
                    if let Some(inner) = rest.strip_suffix('>') {
                        let i = lean_ty_str(inner);
                        return if l.is_empty() { i } else { format!("({l} {i})") };
                    }
                }
            }
            if s.len() == 1 && s.chars().all(|c| c.is_ascii_uppercase()) {
                return s.to_string(); // generic parameter
            }
            rs2lean::unsupported(&format!("type {s}"))
        }
    }
}

fn rust_ty_name(t: &Type) -> String {
    t.to_token_stream().to_string().replace(' ', "")
}

/// substitute `$name` by `with` in a macro transcriber body
fn subst(ts: TokenStream, name: &str, with: &TokenStream) -> TokenStream {
    let mut out = TokenStream::new();
    let mut it = ts.into_iter().peekable();
    while let Some(tt) = it.next() {
        match tt {
            TokenTree::Punct(ref p) if p.as_char() == '$' => {
                if let Some(TokenTree::Ident(i)) = it.peek() {
                    if i == name {
                        it.next();
                        out.extend(with.clone());
                        continue;
                    }
                }
                out.extend([tt]);
            }
            TokenTree::Group(g) => {
                let inner = subst(g.stream(), name, with);
                let mut ng = proc_macro2::Group::new(g.delimiter(), inner);
                ng.set_span(g.span());
                out.extend([TokenTree::Group(ng)]);
            }
            other => out.extend([other]),
        }
    }
    out
}

/// `macro_rules! m { ($($t:ty),*) => { $( BODY )* } }` -> BODY token stream and the metavariable name
fn macro_body(def: &syn::ItemMacro) -> Option<(TokenStream, String)> {
    let toks: Vec<TokenTree> = def.mac.tokens.clone().into_iter().collect();
    // matcher group, '=', '>', transcriber group
    let matcher = match toks.first()? {
        TokenTree::Group(g) => g.stream(),
        _ => return None,
    };
    // find metavariable name: first `$` `(`? ident
    let mut var = None;
    fn find_var(ts: TokenStream, var: &mut Option<String>) {
        let v: Vec<TokenTree> = ts.into_iter().collect();
        for (i, t) in v.iter().enumerate() {
            match t {
                TokenTree::Punct(p) if p.as_char() == '$' => {
                    if let Some(TokenTree::Ident(id)) = v.get(i + 1) {
                        if var.is_none() {
                            *var = Some(id.to_string());
                        }
                    }
                }
                TokenTree::Group(g) => find_var(g.stream(), var),
                _ => {}
            }
        }
    }
    find_var(matcher, &mut var);
    let transcriber = toks.iter().rev().find_map(|t| match t {
        TokenTree::Group(g) => Some(g.stream()),
        _ => None,
    })?;
    // transcriber: `$ ( BODY ) *`
    let tv: Vec<TokenTree> = transcriber.into_iter().collect();
    for (i, t) in tv.iter().enumerate() {
        if let TokenTree::Punct(p) = t {
            if p.as_char() == '$' {
                if let Some(TokenTree::Group(g)) = tv.get(i + 1) {
                    return Some((g.stream(), var?));
                }
            }
        }
    }
    None
}

struct FnOut {
    name: String,
    text: String,
}

fn translate_impl(imp: &ItemImpl, out: &mut Vec<FnOut>, notes: &mut Vec<String>) {
    let Some((_, tr, _)) = &imp.trait_ else { return };
    if tr.segments.last().map(|s| s.ident.to_string()).as_deref() != Some("CheckRestrictions") {
        return;
    }
    let self_ty = rust_ty_name(&imp.self_ty);
    let generics: Vec<String> = imp
        .generics
        .type_params()
        .map(|p| p.ident.to_string())
        .collect();
    for it in &imp.items {
        let ImplItem::Fn(f) = it else { continue };
        if f.sig.ident != "check_restrictions" {
            continue;
        }
        let mut env = Env::default();
        env.types.insert("self".into(), self_ty.clone());
        let mut rparam = "restrictions".to_string();
        for a in &f.sig.inputs {
            if let FnArg::Typed(pt) = a {
                if let Pat::Ident(pi) = &*pt.pat {
                    rparam = pi.ident.to_string();
                    env.types.insert(rparam.clone(), rust_ty_name(&pt.ty));
                }
            }
        }
        let mut params = String::new();
        for g in &generics {
            env.generic_check.insert(g.clone(), format!("check{g}"));
            params.push_str(&format!("{{{g} : Type}} (check{g} : Option Restrictions → {g} → Res) "));
        }
        let head = match self_ty.as_str() {
            s if s.starts_with("Vec<") => "Vec".to_string(),
            s if s.starts_with("Option<") => "Option".to_string(),
            s => s.to_string(),
        };
        let name = format!("check_{head}");
        let body = rs2lean::block(&f.block, &env);
        let text = format!(
            "def {name} {params}({} : Option Restrictions) (self : {}) : Res :=\n  Flow.run {body}\n",
            rs2lean::ident_ok(&rparam),
            lean_ty(&imp.self_ty)
        );
        notes.push(format!("impl CheckRestrictions for {self_ty} -> {name}"));
        out.push(FnOut { name, text });
    }
}

pub fn extract(src: &str) -> String {
    let mut lean = String::new();
    lean.push_str("/- GENERATED by `zv extract` from zeep-lib/src/model/helpers_content.rs (mod restrictions).\n   Regenerated on every check run; do not edit. -/\n");
    lean.push_str("import ZeepVerif.Runtime.Prelude\n\nnamespace ZeepVerif.Generated.Restr\nopen ZeepVerif.Runtime\nset_option linter.unusedVariables false\n\n");
    let file = match syn::parse_file(src) {
        Ok(f) => f,
        Err(e) => {
            lean.push_str(&format!("def parseFailure := {}\n", rs2lean::unsupported(&format!("syn: {e}"))));
            return lean;
        }
    };
    let Some(items) = file.items.iter().find_map(|i| match i {
        Item::Mod(m) if m.ident == "restrictions" => m.content.as_ref().map(|c| &c.1),
        _ => None,
    }) else {
        lean.push_str(&format!("def noModule := {}\n", rs2lean::unsupported("mod restrictions not found")));
        return lean;
    };

    // the Restrictions struct
    let mut struct_done = false;
    for it in items {
        if let Item::Struct(s) = it {
            if s.ident == "Restrictions" {
                lean.push_str("structure Restrictions where\n");
                for f in &s.fields {
                    let n = f.ident.as_ref().map(|i| i.to_string()).unwrap_or_default();
                    lean.push_str(&format!("  {} : {} := none\n", rs2lean::ident_ok(&n), lean_ty(&f.ty)));
                }
                lean.push_str("deriving Repr, DecidableEq, Inhabited\n\n");
                struct_done = true;
            }
        }
    }
    if !struct_done {
        lean.push_str(&format!("def noStruct := {}\n", rs2lean::unsupported("struct Restrictions not found")));
    }

    let mut outs: Vec<FnOut> = vec![];
    let mut notes = vec![];

    // free functions first (helpers shared by the impls)
    for it in items {
        if let Item::Fn(f) = it {
            let mut env = Env::default();
            let mut params = String::new();
            for a in &f.sig.inputs {
                if let FnArg::Typed(pt) = a {
                    if let Pat::Ident(pi) = &*pt.pat {
                        let n = pi.ident.to_string();
                        env.types.insert(n.clone(), rust_ty_name(&pt.ty));
                        params.push_str(&format!("({} : {}) ", rs2lean::ident_ok(&n), lean_ty(&pt.ty)));
                    }
                }
            }
            let name = rs2lean::ident_ok(&f.sig.ident.to_string());
            let body = rs2lean::block(&f.block, &env);
            notes.push(format!("fn {name}"));
            outs.push(FnOut {
                name: name.clone(),
                text: format!("def {name} {params}: Res :=\n  Flow.run {body}\n"),
            });
        }
    }

    // impls in source order; macro invocations expanded where they stand
    let macro_defs: Vec<&syn::ItemMacro> = items
        .iter()
        .filter_map(|i| match i {
            Item::Macro(m) if m.ident.is_some() => Some(m),
            _ => None,
        })
        .collect();
    for it in items {
        match it {
            Item::Impl(imp) => translate_impl(imp, &mut outs, &mut notes),
            Item::Macro(m) if m.ident.is_none() => {
                let mname = m.mac.path.segments.last().map(|s| s.ident.to_string()).unwrap_or_default();
                let Some(def) = macro_defs.iter().find(|d| d.ident.as_ref().is_some_and(|i| *i == mname)) else {
                    continue;
                };
                let Some((body, var)) = macro_body(def) else {
                    outs.push(FnOut {
                        name: format!("macro_{mname}"),
                        text: format!("def macro_{mname} := {}\n", rs2lean::unsupported("macro shape")),
                    });
                    continue;
                };
                // arguments: comma separated types
                let args: Vec<TokenStream> = {
                    let mut v = vec![];
                    let mut cur = TokenStream::new();
                    for tt in m.mac.tokens.clone() {
                        match tt {
                            TokenTree::Punct(ref p) if p.as_char() == ',' => {
                                v.push(std::mem::take(&mut cur));
                            }
                            other => cur.extend([other]),
                        }
                    }
                    if !cur.is_empty() {
                        v.push(cur);
                    }
                    v
                };
                for a in args {
                    let inst = subst(body.clone(), &var, &a);
                    match syn::parse2::<ItemImpl>(inst) {
                        Ok(imp) => translate_impl(&imp, &mut outs, &mut notes),
                        Err(e) => outs.push(FnOut {
                            name: format!("macro_inst_{a}"),
                            text: format!(
                                "def macro_inst_{} := {}\n",
                                a.to_string().replace(' ', ""),
                                rs2lean::unsupported(&format!("macro instance: {e}"))
                            ),
                        }),
                    }
                }
            }
            _ => {}
        }
    }

    let mut seen = std::collections::HashSet::new();
    for o in &outs {
        if !seen.insert(o.name.clone()) {
            lean.push_str(&format!(
                "def duplicate_{} := {}\n",
                o.name,
                rs2lean::unsupported("duplicate definition")
            ));
            continue;
        }
        lean.push_str(&o.text);
        lean.push('\n');
    }
    lean.push_str("/-- what the translator saw, in order -/\ndef translated : List String := [\n");
    for (i, n) in notes.iter().enumerate() {
        lean.push_str(&format!("  {:?}{}\n", n, if i + 1 < notes.len() { "," } else { "" }));
    }
    lean.push_str("]\n\nend ZeepVerif.Generated.Restr\n");
    lean
}
