//! Translator, part 3: call-site inventories over all non-test generator code -> Generated/Sites.lean
//!   writeSites     every `write!`/`writeln!` with how its Result is handled        (C15)
//!   panicSites     every unwrap/expect/panic!/assert!/unreachable!/indexing site   (C13)
//!   hashFields     struct fields and locals of HashMap/HashSet type                (C12)
//!   hashIterSites  every iteration over such a container, with a classification    (C12)
//! Sites are keyed by file, enclosing function and a token snippet — not by line number, so moving
//! code around does not disturb the obligations.
use quote::ToTokens;
use std::path::Path;
use syn::visit::{self, Visit};
use syn::{Expr, ExprMacro, ImplItemFn, Item, ItemFn, ItemMod};

fn lean_str(s: &str) -> String {
    let mut o = String::from("\"");
    for c in s.chars() {
        match c {
            '"' => o.push_str("\\\""),
            '\\' => o.push_str("\\\\"),
            '\n' => o.push_str("\\n"),
            '\r' => o.push_str("\\r"),
            '\t' => o.push_str("\\t"),
            c => o.push(c),
        }
    }
    o.push('"');
    o
}

fn snip<T: ToTokens>(t: &T) -> String {
    let s = t.to_token_stream().to_string();
    let s: String = s.split_whitespace().collect::<Vec<_>>().join(" ");
    s.chars().take(70).collect()
}

fn is_cfg_test(attrs: &[syn::Attribute]) -> bool {
    attrs.iter().any(|a| a.path().is_ident("cfg") && a.meta.to_token_stream().to_string().contains("test"))
}

fn macro_name(m: &ExprMacro) -> String {
    m.mac.path.segments.last().map(|s| s.ident.to_string()).unwrap_or_default()
}

fn is_write_macro(e: &Expr) -> bool {
    matches!(e, Expr::Macro(m) if matches!(macro_name(m).as_str(), "write" | "writeln"))
}

#[derive(Default)]
struct Sites {
    file: String,
    fns: Vec<String>,
    write_sites: Vec<(String, String, String)>,
    panic_sites: Vec<(String, String, String, String)>,
    hash_fields: Vec<(String, String, String, String)>,
    hash_names: Vec<String>,
    hash_iter: Vec<(String, String, String, String)>,
}

impl Sites {
    fn cur_fn(&self) -> String {
        self.fns.last().cloned().unwrap_or_else(|| "-".into())
    }
    fn mentions_hash(&self, e: &Expr) -> bool {
        let s = e.to_token_stream().to_string();
        let toks: Vec<&str> = s.split(|c: char| !c.is_alphanumeric() && c != '_').collect();
        self.hash_names.iter().any(|n| toks.contains(&n.as_str()))
    }
    fn classify_body(body: &syn::Block) -> String {
        // order-insensitive shapes: every statement stores a constant, or inserts-if-absent by key
        let mut all_ok = !body.stmts.is_empty();
        let mut kind = "other";
        for st in &body.stmts {
            let s = st.to_token_stream().to_string();
            let s: String = s.split_whitespace().collect();
            if s.contains(".store(false,") || s.contains(".store(true,") {
                kind = "store-const";
            } else if s.contains(".entry(") && s.contains(").or_insert(") {
                kind = "entry-or-insert";
            } else {
                all_ok = false;
            }
        }
        if all_ok { kind.to_string() } else { "other".to_string() }
    }
}

impl<'a> Visit<'a> for Sites {
    fn visit_item_mod(&mut self, m: &'a ItemMod) {
        if is_cfg_test(&m.attrs) {
            return;
        }
        visit::visit_item_mod(self, m);
    }
    fn visit_item_fn(&mut self, f: &'a ItemFn) {
        if is_cfg_test(&f.attrs) {
            return;
        }
        self.fns.push(f.sig.ident.to_string());
        visit::visit_item_fn(self, f);
        self.fns.pop();
    }
    fn visit_impl_item_fn(&mut self, f: &'a ImplItemFn) {
        if is_cfg_test(&f.attrs) {
            return;
        }
        self.fns.push(f.sig.ident.to_string());
        visit::visit_impl_item_fn(self, f);
        self.fns.pop();
    }
    fn visit_item_struct(&mut self, s: &'a syn::ItemStruct) {
        for f in &s.fields {
            let ty = f.ty.to_token_stream().to_string().replace(' ', "");
            if ty.contains("HashMap<") || ty.contains("HashSet<") {
                let name = f.ident.as_ref().map(|i| i.to_string()).unwrap_or_default();
                self.hash_fields.push((self.file.clone(), s.ident.to_string(), name.clone(), ty));
                if !self.hash_names.contains(&name) {
                    self.hash_names.push(name);
                }
            }
        }
        visit::visit_item_struct(self, s);
    }
    fn visit_expr(&mut self, e: &'a Expr) {
        match e {
            Expr::Try(t) if is_write_macro(&t.expr) => {
                self.write_sites.push((self.file.clone(), self.cur_fn(), "propagate".into()));
                return;
            }
            Expr::MethodCall(m) if is_write_macro(&m.receiver) => {
                self.write_sites.push((self.file.clone(), self.cur_fn(), format!("method:{}", m.method)));
                if matches!(m.method.to_string().as_str(), "unwrap" | "expect") {
                    self.panic_sites.push((self.file.clone(), self.cur_fn(), m.method.to_string(), "write!(..)".into()));
                }
                return;
            }
            Expr::Macro(m) => {
                let n = macro_name(m);
                if n == "write" || n == "writeln" {
                    // the value of the macro is the value of an arm / block: it is handed on, not dropped
                    self.write_sites.push((self.file.clone(), self.cur_fn(), "returned".into()));
                }
                if matches!(
                    n.as_str(),
                    "panic" | "unreachable" | "todo" | "unimplemented" | "assert" | "assert_eq" | "assert_ne" | "debug_assert" | "debug_assert_eq" | "debug_assert_ne"
                ) {
                    self.panic_sites.push((self.file.clone(), self.cur_fn(), n, snip(&m.mac.tokens)));
                }
            }
            Expr::MethodCall(m) => {
                let name = m.method.to_string();
                if matches!(name.as_str(), "unwrap" | "expect" | "unwrap_unchecked") {
                    self.panic_sites.push((self.file.clone(), self.cur_fn(), name.clone(), snip(&m.receiver)));
                }
                if matches!(name.as_str(), "iter" | "iter_mut" | "values" | "values_mut" | "keys" | "into_iter" | "drain" | "into_values" | "into_keys")
                    && self.mentions_hash(&m.receiver)
                {
                    // an iteration started by a method call; a `for` over it is recorded by visit_expr_for_loop
                    self.hash_iter.push((self.file.clone(), self.cur_fn(), snip(e), "method-iteration".into()));
                }
            }
            Expr::Index(i) => {
                self.panic_sites.push((self.file.clone(), self.cur_fn(), "index".into(), snip(i)));
            }
            _ => {}
        }
        visit::visit_expr(self, e);
    }
    fn visit_stmt(&mut self, st: &'a syn::Stmt) {
        match st {
            // `writeln!(w, ..);` — the Result is dropped on the floor
            syn::Stmt::Macro(m) => {
                let n = m.mac.path.segments.last().map(|s| s.ident.to_string()).unwrap_or_default();
                if n == "write" || n == "writeln" {
                    self.write_sites.push((self.file.clone(), self.cur_fn(), "discarded".into()));
                }
                if matches!(
                    n.as_str(),
                    "panic" | "unreachable" | "todo" | "unimplemented" | "assert" | "assert_eq" | "assert_ne" | "debug_assert" | "debug_assert_eq" | "debug_assert_ne"
                ) {
                    self.panic_sites.push((self.file.clone(), self.cur_fn(), n, snip(&m.mac.tokens)));
                }
            }
            syn::Stmt::Expr(e, Some(_)) if is_write_macro(e) => {
                self.write_sites.push((self.file.clone(), self.cur_fn(), "discarded".into()));
            }
            syn::Stmt::Local(l) if l.init.as_ref().is_some_and(|i| is_write_macro(&i.expr)) => {
                self.write_sites.push((self.file.clone(), self.cur_fn(), "discarded".into()));
            }
            _ => visit::visit_stmt(self, st),
        }
    }
    fn visit_expr_for_loop(&mut self, f: &'a syn::ExprForLoop) {
        if self.mentions_hash(&f.expr) {
            let cls = Sites::classify_body(&f.body);
            // drop the generic record of the same iteration made for the method call, keep the classified one
            let key = snip(&*f.expr);
            self.hash_iter.retain(|(_, _, s, c)| !(c == "method-iteration" && *s == key));
            self.hash_iter.push((self.file.clone(), self.cur_fn(), key, cls));
            // visit the body only (the iterable has been accounted for)
            self.visit_block(&f.body);
            return;
        }
        visit::visit_expr_for_loop(self, f);
    }
    fn visit_local(&mut self, l: &'a syn::Local) {
        // `let Files { map, .. } = self;` style destructuring keeps the field name; typed locals:
        if let syn::Pat::Type(pt) = &l.pat {
            let ty = pt.ty.to_token_stream().to_string();
            if ty.contains("HashMap") || ty.contains("HashSet") {
                if let syn::Pat::Ident(i) = &*pt.pat {
                    let n = i.ident.to_string();
                    if !self.hash_names.contains(&n) {
                        self.hash_names.push(n);
                    }
                }
            }
        }
        visit::visit_local(self, l);
    }
}

fn rs_files(dir: &Path, out: &mut Vec<std::path::PathBuf>) {
    if let Ok(rd) = std::fs::read_dir(dir) {
        let mut entries: Vec<_> = rd.flatten().map(|e| e.path()).collect();
        entries.sort();
        for p in entries {
            if p.is_dir() {
                rs_files(&p, out);
            } else if p.extension().is_some_and(|e| e == "rs") {
                out.push(p);
            }
        }
    }
}

pub fn extract(repo: &Path) -> String {
    let mut files = vec![];
    rs_files(&repo.join("zeep-lib/src"), &mut files);
    rs_files(&repo.join("zeep/src"), &mut files);
    let mut all = Sites::default();
    // two passes: container fields first, so that uses in files that sort earlier are recognised
    let mut parsed = vec![];
    for f in &files {
        let rel = f.strip_prefix(repo).unwrap_or(f).to_string_lossy().to_string();
        // the appended runtime is emitted text, not generator code; test-only files are skipped
        if rel.ends_with("helpers_content.rs") || rel.ends_with("helpers_test.rs") || rel.contains("yaserde_tests") {
            continue;
        }
        if let Ok(src) = std::fs::read_to_string(f) {
            if let Ok(ast) = syn::parse_file(&src) {
                parsed.push((rel, ast));
            } else {
                all.panic_sites.push((rel.clone(), "-".into(), "unparsable-file".into(), String::new()));
            }
        }
    }
    // modules that are only compiled for tests or with the verification guard (`#[cfg(test)] mod x;`, `#[cfg(zeep_verif)] mod x;`)
    // are not generator code: their files are left out of the inventories
    let mut excluded: Vec<String> = vec![];
    for (rel, ast) in &parsed {
        let dir = Path::new(rel).parent().map(|p| p.to_string_lossy().to_string()).unwrap_or_default();
        let stem = Path::new(rel).file_stem().map(|p| p.to_string_lossy().to_string()).unwrap_or_default();
        let base = if stem == "mod" || stem == "lib" || stem == "main" { dir.clone() } else { format!("{dir}/{stem}") };
        for it in &ast.items {
            if let Item::Mod(m) = it {
                let guarded = m.attrs.iter().any(|a| {
                    a.path().is_ident("cfg") && {
                        let t = a.meta.to_token_stream().to_string();
                        t.contains("zeep_verif") || t.contains("test")
                    }
                });
                if guarded && m.content.is_none() {
                    excluded.push(format!("{base}/{}.rs", m.ident));
                    excluded.push(format!("{base}/{}/", m.ident));
                }
            }
        }
    }
    parsed.retain(|(rel, _)| !excluded.iter().any(|e| rel == e || (e.ends_with('/') && rel.starts_with(e.as_str()))));
    for (rel, ast) in &parsed {
        all.file = rel.clone();
        for it in &ast.items {
            if let Item::Struct(s) = it {
                all.visit_item_struct(s);
            }
        }
    }
    let fields = std::mem::take(&mut all.hash_fields);
    for (rel, ast) in &parsed {
        all.file = rel.clone();
        all.visit_file(ast);
    }
    all.hash_fields = fields;

    let mut lean = String::from(
        "/- GENERATED by `zv extract` (call-site inventories of the generator's non-test code). Regenerated on every check run; do not edit. -/\nnamespace ZeepVerif.Generated.Sites\n\n",
    );
    lean.push_str("/-- (file, function, handling) of every `write!`/`writeln!` -/\ndef writeSites : List (String × String × String) := [\n");
    lean.push_str(
        &all.write_sites
            .iter()
            .map(|(a, b, c)| format!("  ({}, {}, {})", lean_str(a), lean_str(b), lean_str(c)))
            .collect::<Vec<_>>()
            .join(",\n"),
    );
    lean.push_str("\n]\n\n/-- (file, function, kind, snippet) of every site that can panic -/\ndef panicSites : List (String × String × String × String) := [\n");
    lean.push_str(
        &all.panic_sites
            .iter()
            .map(|(a, b, c, d)| format!("  ({}, {}, {}, {})", lean_str(a), lean_str(b), lean_str(c), lean_str(d)))
            .collect::<Vec<_>>()
            .join(",\n"),
    );
    lean.push_str("\n]\n\n/-- (file, struct, field, type) of every hash container field -/\ndef hashFields : List (String × String × String × String) := [\n");
    lean.push_str(
        &all.hash_fields
            .iter()
            .map(|(a, b, c, d)| format!("  ({}, {}, {}, {})", lean_str(a), lean_str(b), lean_str(c), lean_str(d)))
            .collect::<Vec<_>>()
            .join(",\n"),
    );
    lean.push_str("\n]\n\n/-- (file, function, iterated expression, classification) of every iteration over a hash container -/\ndef hashIterSites : List (String × String × String × String) := [\n");
    lean.push_str(
        &all.hash_iter
            .iter()
            .map(|(a, b, c, d)| format!("  ({}, {}, {}, {})", lean_str(a), lean_str(b), lean_str(c), lean_str(d)))
            .collect::<Vec<_>>()
            .join(",\n"),
    );
    lean.push_str("\n]\n\nend ZeepVerif.Generated.Sites\n");
    lean
}
