//! `zv obs <file.rs>`: parse an emitted file with syn and print canonical observation lines
//! (one fact per line, tab separated), so that properties can be decided on the *structure* of the
//! output and a change of white space or of an unrelated item does not disturb them.
//!
//!   PARSE   ok|error <msg>
//!   MOD     <module>
//!   STRUCT  <module|-> <Name> prefix=<p|-> rename=<r|-> derives=<..>
//!   NSDECL  <module|-> <Name> <prefix> <uri>
//!   FIELD   <module|-> <Struct> <idx> <rust_name> <wrapper> <leaf> attr=<0|1> text=<0|1> flatten=<0|1> prefix=<p|-> rename=<r|->
//!   ALIAS   <module|-> <Name> <leaf>
//!   CHECK   <module|-> <Name> <normalised body tokens>
//!   FN      <owner|-> <name> async=<0|1> args=<types> ret=<type>
//!   IMPLFOR <module|-> <Trait> <Type>
//!   CONSTSTR <fn-or-owner> <literal value>      string literals inside service/impl fns (location, url)
//!   ITEM    <module|-> <kind> <name>            every other item, so nothing emitted goes unseen
use quote::ToTokens;
use std::fmt::Write as _;
use syn::{Fields, Item, Lit, Meta, Type};

fn toks<T: ToTokens>(t: &T) -> String {
    t.to_token_stream().to_string().replace(' ', "")
}

fn esc(s: &str) -> String {
    s.replace('\\', "\\\\").replace('\t', "\\t").replace('\n', "\\n").replace('\r', "\\r")
}

#[derive(Default)]
struct YaAttr {
    prefix: Option<String>,
    rename: Option<String>,
    attribute: bool,
    text: bool,
    flatten: bool,
    namespaces: Vec<(String, String)>,
}

fn parse_yaserde(attrs: &[syn::Attribute]) -> YaAttr {
    let mut y = YaAttr::default();
    for a in attrs {
        if !a.path().is_ident("yaserde") {
            continue;
        }
        if let Meta::List(l) = &a.meta {
            // tokens: key = value , key = { "a" = "b", ... } , ...
            let tv: Vec<proc_macro2::TokenTree> = l.tokens.clone().into_iter().collect();
            let mut i = 0;
            while i < tv.len() {
                let key = match &tv[i] {
                    proc_macro2::TokenTree::Ident(id) => id.to_string(),
                    _ => {
                        i += 1;
                        continue;
                    }
                };
                // expect '='
                let val = tv.get(i + 2);
                let lit_of = |t: Option<&proc_macro2::TokenTree>| -> Option<String> {
                    match t {
                        Some(proc_macro2::TokenTree::Literal(l)) => syn::parse_str::<Lit>(&l.to_string()).ok().and_then(|l| match l {
                            Lit::Str(s) => Some(s.value()),
                            Lit::Bool(b) => Some(b.value.to_string()),
                            _ => None,
                        }),
                        Some(proc_macro2::TokenTree::Ident(id)) => Some(id.to_string()),
                        _ => None,
                    }
                };
                match key.as_str() {
                    "prefix" => y.prefix = lit_of(val),
                    "rename" => y.rename = lit_of(val),
                    "attribute" => y.attribute = lit_of(val).as_deref() == Some("true"),
                    "text" => y.text = lit_of(val).as_deref() == Some("true"),
                    "flatten" => y.flatten = lit_of(val).as_deref() == Some("true"),
                    "namespaces" => {
                        if let Some(proc_macro2::TokenTree::Group(g)) = val {
                            let gv: Vec<proc_macro2::TokenTree> = g.stream().into_iter().collect();
                            let mut j = 0;
                            while j + 2 < gv.len() + 0 {
                                let k = lit_of(gv.get(j));
                                let v = lit_of(gv.get(j + 2));
                                if let (Some(k), Some(v)) = (k, v) {
                                    y.namespaces.push((k, v));
                                }
                                j += 4; // "k" = "v" ,
                            }
                        }
                    }
                    _ => {}
                }
                // advance to after next top-level comma
                i += 1;
                while i < tv.len() {
                    if let proc_macro2::TokenTree::Punct(p) = &tv[i] {
                        if p.as_char() == ',' {
                            i += 1;
                            break;
                        }
                    }
                    i += 1;
                }
            }
        }
    }
    y
}

/// (wrapper, leaf): Vec<T> / Option<T> / T, leaf as a path string
fn wrapper_leaf(t: &Type) -> (String, String) {
    if let Type::Path(p) = t {
        if let Some(last) = p.path.segments.last() {
            let id = last.ident.to_string();
            if (id == "Vec" || id == "Option") && p.path.segments.len() == 1 {
                if let syn::PathArguments::AngleBracketed(a) = &last.arguments {
                    if let Some(syn::GenericArgument::Type(inner)) = a.args.first() {
                        return (id, toks(inner));
                    }
                }
            }
        }
    }
    ("T".to_string(), toks(t))
}

fn opt(s: &Option<String>) -> String {
    match s {
        Some(s) => format!("={}", esc(s)),
        None => "-".to_string(),
    }
}

struct StrLits(Vec<String>);
impl<'a> syn::visit::Visit<'a> for StrLits {
    fn visit_lit_str(&mut self, l: &'a syn::LitStr) {
        self.0.push(l.value());
    }
}

fn items(module: &str, its: &[Item], out: &mut String) {
    for it in its {
        match it {
            Item::Mod(m) => {
                let name = m.ident.to_string();
                let _ = writeln!(out, "MOD\t{name}");
                if let Some((_, inner)) = &m.content {
                    let path = if module == "-" { name.clone() } else { format!("{module}::{name}") };
                    items(&path, inner, out);
                }
            }
            Item::Struct(s) => {
                let y = parse_yaserde(&s.attrs);
                let mut derives = vec![];
                for a in &s.attrs {
                    if a.path().is_ident("derive") {
                        if let Meta::List(l) = &a.meta {
                            derives.push(l.tokens.to_string().replace(' ', ""));
                        }
                    }
                }
                let name = s.ident.to_string();
                let _ = writeln!(
                    out,
                    "STRUCT\t{module}\t{name}\tprefix{}\trename{}\tderives={}",
                    opt(&y.prefix),
                    opt(&y.rename),
                    derives.join("+")
                );
                for (k, v) in &y.namespaces {
                    let _ = writeln!(out, "NSDECL\t{module}\t{name}\t{}\t{}", esc(k), esc(v));
                }
                if let Fields::Named(nf) = &s.fields {
                    for (i, f) in nf.named.iter().enumerate() {
                        let fy = parse_yaserde(&f.attrs);
                        let (w, leaf) = wrapper_leaf(&f.ty);
                        let fname = f.ident.as_ref().map(|i| i.to_string()).unwrap_or_default();
                        let _ = writeln!(
                            out,
                            "FIELD\t{module}\t{name}\t{i}\t{fname}\t{w}\t{leaf}\tattr={}\ttext={}\tflatten={}\tprefix{}\trename{}\tvis={}",
                            fy.attribute as u8,
                            fy.text as u8,
                            fy.flatten as u8,
                            opt(&fy.prefix),
                            opt(&fy.rename),
                            matches!(f.vis, syn::Visibility::Public(_)) as u8
                        );
                    }
                }
            }
            Item::Type(t) => {
                let _ = writeln!(out, "ALIAS\t{module}\t{}\t{}", t.ident, toks(&*t.ty));
            }
            Item::Impl(imp) => {
                let self_ty = toks(&*imp.self_ty);
                if let Some((_, tr, _)) = &imp.trait_ {
                    let trn = tr.segments.last().map(|s| s.ident.to_string()).unwrap_or_default();
                    let _ = writeln!(out, "IMPLFOR\t{module}\t{trn}\t{self_ty}");
                    if trn == "CheckRestrictions" {
                        for ii in &imp.items {
                            if let syn::ImplItem::Fn(f) = ii {
                                let _ = writeln!(out, "CHECK\t{module}\t{self_ty}\t{}", esc(&toks(&f.block)));
                            }
                        }
                    }
                } else {
                    for ii in &imp.items {
                        if let syn::ImplItem::Fn(f) = ii {
                            fn_line(&self_ty, &f.sig, &f.block, out);
                        }
                    }
                }
            }
            Item::Fn(f) => fn_line(module, &f.sig, &f.block, out),
            Item::Use(u) => {
                let _ = writeln!(out, "ITEM\t{module}\tuse\t{}", toks(&u.tree));
            }
            Item::Const(c) => {
                let _ = writeln!(out, "ITEM\t{module}\tconst\t{}", c.ident);
            }
            Item::Macro(m) => {
                let _ = writeln!(out, "ITEM\t{module}\tmacro\t{}", toks(&m.mac.path));
            }
            Item::Trait(t) => {
                let _ = writeln!(out, "ITEM\t{module}\ttrait\t{}", t.ident);
            }
            Item::Enum(e) => {
                let _ = writeln!(out, "ITEM\t{module}\tenum\t{}", e.ident);
            }
            other => {
                let _ = writeln!(out, "ITEM\t{module}\tother\t{}", esc(&toks(other)).chars().take(60).collect::<String>());
            }
        }
    }
}

fn fn_line(owner: &str, sig: &syn::Signature, block: &syn::Block, out: &mut String) {
    let args: Vec<String> = sig
        .inputs
        .iter()
        .map(|a| match a {
            syn::FnArg::Receiver(r) => toks(r),
            syn::FnArg::Typed(t) => toks(&*t.ty),
        })
        .collect();
    let ret = match &sig.output {
        syn::ReturnType::Default => "()".to_string(),
        syn::ReturnType::Type(_, t) => toks(&**t),
    };
    let _ = writeln!(
        out,
        "FN\t{owner}\t{}\tasync={}\targs={}\tret={}",
        sig.ident,
        sig.asyncness.is_some() as u8,
        args.join(";"),
        ret
    );
    let mut v = StrLits(vec![]);
    syn::visit::Visit::visit_block(&mut v, block);
    for l in v.0 {
        let _ = writeln!(out, "CONSTSTR\t{owner}::{}\t{}", sig.ident, esc(&l));
    }
}

/// observation of the generated part only: everything before the appended runtime (`pub mod error {`)
pub fn observe(src: &str) -> String {
    let mut out = String::new();
    match syn::parse_file(src) {
        Err(e) => {
            let _ = writeln!(out, "PARSE\terror\t{}", esc(&e.to_string()));
        }
        Ok(f) => {
            let _ = writeln!(out, "PARSE\tok");
            items("-", &f.items, &mut out);
        }
    }
    out
}
