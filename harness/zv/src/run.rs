//! Runs of the real library, in-process: `gen` (one case), `batch` (many cases, one line of result each).
use std::{
    fs,
    io::Write,
    panic::{catch_unwind, AssertUnwindSafe},
    path::Path,
};
use zeep_lib::reader::{Files, FilesToRead, WriteXml, XmlReader};

/// all regular files of a directory, sorted by name: (name, content)
pub fn read_dir_files(dir: &Path) -> Vec<(String, String)> {
    let mut v = vec![];
    if let Ok(rd) = fs::read_dir(dir) {
        for e in rd.flatten() {
            let p = e.path();
            if p.is_file() {
                if let (Some(n), Ok(bytes)) = (p.file_name().and_then(|n| n.to_str()), fs::read(&p)) {
                    // zeep reads files as UTF-8 strings; the harness does the same (lossy for robustness streams)
                    v.push((n.to_string(), String::from_utf8_lossy(&bytes).into_owned()));
                }
            }
        }
    }
    v.sort();
    v
}

pub fn build_files(files: &[(String, String)], start: &str, order: &[usize]) -> FilesToRead {
    // registration order is part of what C12 varies
    let mut it = order.iter();
    let first = *it.next().expect("at least one file");
    let mut fs_ = Files::new(&files[first].0, &files[first].1);
    for &i in it {
        fs_.add(&files[i].0, &files[i].1);
    }
    FilesToRead::new(start, fs_)
}

pub enum Outcome {
    Ok(Vec<u8>),
    ReadErr(String),
    WriteErr(String),
    Panic(String),
}

fn class_of(dbg: &str) -> String {
    let end = dbg.find(|c: char| c == '(' || c == ' ' || c == '{').unwrap_or(dbg.len());
    dbg[..end].to_string()
}

pub fn generate(ftr: &FilesToRead) -> Outcome {
    let r = catch_unwind(AssertUnwindSafe(|| {
        let doc = match XmlReader::read_xml(ftr) {
            Ok(d) => d,
            Err(e) => return Outcome::ReadErr(class_of(&format!("{e:?}"))),
        };
        let mut out = Vec::new();
        match doc.write_xml(&mut out) {
            Ok(()) => Outcome::Ok(out),
            Err(e) => Outcome::WriteErr(class_of(&format!("{e:?}"))),
        }
    }));
    match r {
        Ok(o) => o,
        Err(p) => {
            let msg = p
                .downcast_ref::<String>()
                .cloned()
                .or_else(|| p.downcast_ref::<&str>().map(|s| s.to_string()))
                .unwrap_or_default();
            Outcome::Panic(msg.lines().next().unwrap_or("").chars().take(120).collect())
        }
    }
}

pub fn describe(o: &Outcome) -> String {
    match o {
        Outcome::Ok(b) => format!("ok {}", b.len()),
        Outcome::ReadErr(c) => format!("read-err {c}"),
        Outcome::WriteErr(c) => format!("write-err {c}"),
        Outcome::Panic(m) => format!("panic {m}"),
    }
}

/// `zv gen <dir> <start> <out>`: generate from the files of <dir>; write the text to <out> when ok
pub fn cmd_gen(dir: &str, start: &str, out: &str) -> String {
    let files = read_dir_files(Path::new(dir));
    if files.is_empty() {
        return "no-files".into();
    }
    let order: Vec<usize> = (0..files.len()).collect();
    let ftr = build_files(&files, start, &order);
    let o = generate(&ftr);
    if let Outcome::Ok(b) = &o {
        if out != "-" {
            let _ = fs::File::create(out).and_then(|mut f| f.write_all(b));
        }
    }
    describe(&o)
}

/// `zv docbatch` line: read the files of <dir> with the real reader and write the canonical dump of the `RustDocument`
/// (the cfg-guarded hook `RustDocument::verif_dump` in zeep-lib) to <out>
#[cfg(zeep_verif)]
pub fn cmd_docdump(dir: &str, start: &str, out: &str) -> String {
    let files = read_dir_files(Path::new(dir));
    if files.is_empty() {
        return "no-files".into();
    }
    let order: Vec<usize> = (0..files.len()).collect();
    let ftr = build_files(&files, start, &order);
    let r = catch_unwind(AssertUnwindSafe(|| match XmlReader::read_xml(&ftr) {
        Ok(d) => Ok(d.verif_dump()),
        Err(e) => Err(class_of(&format!("{e:?}"))),
    }));
    match r {
        Ok(Ok(text)) => {
            let _ = fs::write(out, text);
            "ok".into()
        }
        Ok(Err(c)) => format!("read-err {c}"),
        Err(_) => "panic".into(),
    }
}
#[cfg(not(zeep_verif))]
pub fn cmd_docdump(_dir: &str, _start: &str, _out: &str) -> String {
    "hook-disabled".into()
}

/// `zv dump <dir> <out>`: tree dump of every file in <dir>
pub fn cmd_dump(dir: &str, out: &str) -> String {
    let files = read_dir_files(Path::new(dir));
    let mut s = String::new();
    for (n, x) in &files {
        s.push_str(&crate::dump::dump_file(n, x));
    }
    let _ = fs::write(out, s);
    format!("dumped {}", files.len())
}

// ---------------------------------------------------------------------------------------------
// C12: determinism probes

fn sha(bytes: &[u8]) -> String {
    // FNV-1a 64 (twice, different offsets): enough to compare outputs; no extra crates
    let mut h1: u64 = 0xcbf29ce484222325;
    let mut h2: u64 = 0x84222325cbf29ce4;
    for &b in bytes {
        h1 = (h1 ^ u64::from(b)).wrapping_mul(0x100000001b3);
        h2 = (h2 ^ u64::from(b)).wrapping_mul(0x100000001b3).rotate_left(7);
    }
    format!("{h1:016x}{h2:016x}")
}

fn outcome_key(o: &Outcome) -> String {
    match o {
        Outcome::Ok(b) => format!("ok:{}:{}", b.len(), sha(b)),
        other => describe(other),
    }
}

/// `zv det <dir> <start> <seed>`: one line per probe `<tag> <outcome-key>`:
/// registration orders (identity, reversed, seeded shuffles), a second thread, and call histories of
/// length 3 on one `FilesToRead`
pub fn cmd_det(dir: &str, start: &str, seed: u64) -> String {
    let files = read_dir_files(Path::new(dir));
    if files.is_empty() {
        return "no-files\n".into();
    }
    let n = files.len();
    let mut out = String::new();
    let mut orders: Vec<(String, Vec<usize>)> = vec![("order-identity".into(), (0..n).collect()), ("order-reversed".into(), (0..n).rev().collect())];
    let mut s = seed.wrapping_mul(6364136223846793005).wrapping_add(1442695040888963407);
    for k in 0..3 {
        let mut o: Vec<usize> = (0..n).collect();
        for i in (1..n).rev() {
            s = s.wrapping_mul(6364136223846793005).wrapping_add(1442695040888963407);
            let j = (s >> 33) as usize % (i + 1);
            o.swap(i, j);
        }
        orders.push((format!("order-shuffle{k}"), o));
    }
    for (tag, o) in &orders {
        let ftr = build_files(&files, start, o);
        out.push_str(&format!("{tag} {}\n", outcome_key(&generate(&ftr))));
    }
    // another thread (its own HashMap seeds)
    {
        let files2 = files.clone();
        let start2 = start.to_string();
        let r = std::thread::spawn(move || {
            let o: Vec<usize> = (0..files2.len()).collect();
            let ftr = build_files(&files2, &start2, &o);
            outcome_key(&generate(&ftr))
        })
        .join()
        .unwrap_or_else(|_| "panic thread".into());
        out.push_str(&format!("thread {r}\n"));
    }
    // repeated calls on the same object
    {
        let o: Vec<usize> = (0..n).collect();
        let ftr = build_files(&files, start, &o);
        for k in 0..3 {
            out.push_str(&format!("call{k} {}\n", outcome_key(&generate(&ftr))));
        }
    }
    out
}

// ---------------------------------------------------------------------------------------------
// C15: failing and short-writing sinks

struct Sink {
    calls: usize,
    bytes: Vec<u8>,
    fail_at: Option<usize>,
    kind: u8,
    /// for short writes: accept at most this many bytes per call (0 = everything); `pattern` varies it
    max_accept: usize,
    pattern: u64,
    offsets: Vec<usize>,
    interrupted_once: bool,
}

impl Sink {
    fn new() -> Self {
        Sink { calls: 0, bytes: vec![], fail_at: None, kind: 0, max_accept: 0, pattern: 0, offsets: vec![], interrupted_once: false }
    }
}

impl Write for Sink {
    fn write(&mut self, buf: &[u8]) -> std::io::Result<usize> {
        let k = self.calls;
        if Some(k) == self.fail_at {
            match self.kind {
                0 => {
                    self.calls += 1;
                    return Err(std::io::Error::other("injected"));
                }
                1 => {
                    self.calls += 1;
                    return Err(std::io::Error::from(std::io::ErrorKind::BrokenPipe));
                }
                2 => {
                    self.calls += 1;
                    return Err(std::io::Error::from(std::io::ErrorKind::PermissionDenied));
                }
                3 => {
                    // Ok(0): write_all turns it into WriteZero
                    self.calls += 1;
                    return Ok(0);
                }
                _ => {
                    // Interrupted once: write_all must retry and the output must be complete
                    if !self.interrupted_once {
                        self.interrupted_once = true;
                        return Err(std::io::Error::from(std::io::ErrorKind::Interrupted));
                    }
                }
            }
        }
        self.calls += 1;
        self.offsets.push(self.bytes.len());
        let mut n = buf.len();
        if self.max_accept > 0 {
            let lim = if self.pattern == 0 {
                self.max_accept
            } else {
                self.pattern = self.pattern.wrapping_mul(6364136223846793005).wrapping_add(1442695040888963407);
                1 + (self.pattern >> 33) as usize % self.max_accept
            };
            n = n.min(lim).max(usize::from(!buf.is_empty()));
        }
        self.bytes.extend_from_slice(&buf[..n]);
        Ok(n)
    }
    fn flush(&mut self) -> std::io::Result<()> {
        Ok(())
    }
}

/// `zv sink <dir> <start> <max-points> <seed>`:
///   N <calls> <bytes> <sha>
///   OFFSETS <comma separated cumulative offsets at the start of every write call>   (only when small)
///   BAD <k> <kind> <outcome>            for every injected failure that did not end as an I/O error
///   TESTED <n>
///   SHORT <pattern> <equal|differs|outcome>
pub fn cmd_sink(dir: &str, start: &str, max_points: usize, seed: u64) -> String {
    let files = read_dir_files(Path::new(dir));
    if files.is_empty() {
        return "no-files\n".into();
    }
    let order: Vec<usize> = (0..files.len()).collect();
    let ftr = build_files(&files, start, &order);
    let doc = match catch_unwind(AssertUnwindSafe(|| XmlReader::read_xml(&ftr))) {
        Ok(Ok(d)) => d,
        Ok(Err(e)) => return format!("read-err {}\n", class_of(&format!("{e:?}"))),
        Err(_) => return "panic read\n".into(),
    };
    let mut out = String::new();
    let mut reference = Sink::new();
    match catch_unwind(AssertUnwindSafe(|| doc.write_xml(&mut reference))) {
        Ok(Ok(())) => {}
        Ok(Err(e)) => return format!("write-err {}\n", class_of(&format!("{e:?}"))),
        Err(_) => return "panic write\n".into(),
    }
    let n = reference.calls;
    out.push_str(&format!("N {n} {} {}\n", reference.bytes.len(), sha(&reference.bytes)));
    if n <= 20000 {
        out.push_str("OFFSETS ");
        out.push_str(&reference.offsets.iter().map(ToString::to_string).collect::<Vec<_>>().join(","));
        out.push('\n');
    }
    // failure points: all when few, else a seeded sample plus the first and last 50
    let mut points: Vec<usize> = if n <= max_points {
        (0..n).collect()
    } else {
        let mut v: Vec<usize> = (0..50.min(n)).chain(n.saturating_sub(50)..n).collect();
        let mut s = seed | 1;
        while v.len() < max_points {
            s = s.wrapping_mul(6364136223846793005).wrapping_add(1442695040888963407);
            v.push((s >> 33) as usize % n);
        }
        v.sort_unstable();
        v.dedup();
        v
    };
    points.dedup();
    let mut tested = 0usize;
    for &k in &points {
        for kind in 0..5u8 {
            // the rarer kinds are tried on every 7th point only
            if kind >= 1 && k % 7 != 0 {
                continue;
            }
            let mut s = Sink::new();
            s.fail_at = Some(k);
            s.kind = kind;
            let r = catch_unwind(AssertUnwindSafe(|| doc.write_xml(&mut s)));
            tested += 1;
            let outcome = match r {
                Ok(Ok(())) => "ok".to_string(),
                Ok(Err(e)) => {
                    let c = class_of(&format!("{e:?}"));
                    if c == "Io" { "io-err".to_string() } else { format!("err-{c}") }
                }
                Err(_) => "panic".to_string(),
            };
            let expect = if kind == 4 { "ok" } else { "io-err" };
            let complete = kind != 4 || s.bytes == reference.bytes;
            if outcome != expect || !complete {
                out.push_str(&format!("BAD {k} {kind} {outcome}{}\n", if complete { "" } else { " incomplete-output" }));
            }
        }
    }
    out.push_str(&format!("TESTED {tested}\n"));
    for (name, max_accept, pattern) in [("one-byte", 1usize, 0u64), ("random-prefix-7", 7, seed | 1), ("random-prefix-64", 64, seed.wrapping_add(99) | 1), ("half-1000", 1000, 0)] {
        let mut s = Sink::new();
        s.max_accept = max_accept;
        s.pattern = pattern;
        let r = catch_unwind(AssertUnwindSafe(|| doc.write_xml(&mut s)));
        let verdict = match r {
            Ok(Ok(())) => {
                if s.bytes == reference.bytes { "equal".to_string() } else { "differs".to_string() }
            }
            Ok(Err(e)) => format!("err-{}", class_of(&format!("{e:?}"))),
            Err(_) => "panic".to_string(),
        };
        out.push_str(&format!("SHORT {name} {verdict}\n"));
    }
    out
}
