//! Runs of the real library, in-process: `gen` (one case), `batch` (many cases, one line of result each).
use std::{
    fs,
    io::Write,
    panic::{catch_unwind, AssertUnwindSafe},
    path::Path,
};
use zeep_lib::reader::{Files, FilesToRead, WriteXml, XmlReader};

/// all regular files of a directory, sorted by name: (name, content)
pub fn read_dir_files(dir: &Path) -> Vec<(String, String)> {
    let mut v = vec![];
    if let Ok(rd) = fs::read_dir(dir) {
        for e in rd.flatten() {
            let p = e.path();
            if p.is_file() {
                if let (Some(n), Ok(bytes)) = (p.file_name().and_then(|n| n.to_str()), fs::read(&p)) {
                    // zeep reads files as UTF-8 strings; the harness does the same (lossy for robustness streams)
                    v.push((n.to_string(), String::from_utf8_lossy(&bytes).into_owned()));
                }
            }
        }
    }
    v.sort();
    v
}

pub fn build_files(files: &[(String, String)], start: &str, order: &[usize]) -> FilesToRead {
    // registration order is part of what C12 varies
    let mut it = order.iter();
    let first = *it.next().expect("at least one file");
    let mut fs_ = Files::new(&files[first].0, &files[first].1);
    for &i in it {
        fs_.add(&files[i].0, &files[i].1);
    }
    FilesToRead::new(start, fs_)
}

pub enum Outcome {
    Ok(Vec<u8>),
    ReadErr(String),
    WriteErr(String),
    Panic(String),
}

fn class_of(dbg: &str) -> String {
    let end = dbg.find(|c: char| c == '(' || c == ' ' || c == '{').unwrap_or(dbg.len());
    dbg[..end].to_string()
}

pub fn generate(ftr: &FilesToRead) -> Outcome {
    let r = catch_unwind(AssertUnwindSafe(|| {
        let doc = match XmlReader::read_xml(ftr) {
            Ok(d) => d,
            Err(e) => return Outcome::ReadErr(class_of(&format!("{e:?}"))),
        };
        let mut out = Vec::new();
        match doc.write_xml(&mut out) {
            Ok(()) => Outcome::Ok(out),
            Err(e) => Outcome::WriteErr(class_of(&format!("{e:?}"))),
        }
    }));
    match r {
        Ok(o) => o,
        Err(p) => {
            let msg = p
                .downcast_ref::<String>()
                .cloned()
                .or_else(|| p.downcast_ref::<&str>().map(|s| s.to_string()))
                .unwrap_or_default();
            Outcome::Panic(msg.lines().next().unwrap_or("").chars().take(120).collect())
        }
    }
}

pub fn describe(o: &Outcome) -> String {
    match o {
        Outcome::Ok(b) => format!("ok {}", b.len()),
        Outcome::ReadErr(c) => format!("read-err {c}"),
        Outcome::WriteErr(c) => format!("write-err {c}"),
        Outcome::Panic(m) => format!("panic {m}"),
    }
}

/// `zv gen <dir> <start> <out>`: generate from the files of <dir>; write the text to <out> when ok
pub fn cmd_gen(dir: &str, start: &str, out: &str) -> String {
    let files = read_dir_files(Path::new(dir));
    if files.is_empty() {
        return "no-files".into();
    }
    let order: Vec<usize> = (0..files.len()).collect();
    let ftr = build_files(&files, start, &order);
    let o = generate(&ftr);
    if let Outcome::Ok(b) = &o {
        if out != "-" {
            let _ = fs::File::create(out).and_then(|mut f| f.write_all(b));
        }
    }
    describe(&o)
}

/// `zv dump <dir> <out>`: tree dump of every file in <dir>
pub fn cmd_dump(dir: &str, out: &str) -> String {
    let files = read_dir_files(Path::new(dir));
    let mut s = String::new();
    for (n, x) in &files {
        s.push_str(&crate::dump::dump_file(n, x));
    }
    let _ = fs::write(out, s);
    format!("dumped {}", files.len())
}
