//! A small translator from a statement subset of Rust (syn AST) to shallow Lean 4 definitions.
//!
//! Target calculus (see lean/ZeepVerif/Runtime/Prelude.lean):
//!   Res  := ok | err msg                       (a `SoapResult<()>`)
//!   Flow := cont | ret (r : Res)               (statement outcome: fall through / return)
//!   Flow.seq a b, Flow.run f, forEach xs f
//! Every construct outside the subset becomes the undefined Lean identifier
//! `unsupported_construct "<what>"`, so the dependent proof obligations stop elaborating
//! instead of silently meaning something else.

use std::collections::HashMap;
use syn::{BinOp, Block, Expr, Lit, Pat, Stmt, UnOp};

#[derive(Clone, Default)]
pub struct Env {
    /// variable -> Rust type name (last path segment, or generic parameter name)
    pub types: HashMap<String, String>,
    /// generic element-type parameter name (e.g. "C") -> lean function used to check it
    pub generic_check: HashMap<String, String>,
}

pub fn unsupported(what: &str) -> String {
    let clean: String = what
        .chars()
        .map(|c| if c == '"' || c == '\\' || c == '\n' { ' ' } else { c })
        .take(120)
        .collect();
    format!("(unsupported_construct \"{clean}\")")
}

fn tokens<T: quote::ToTokens>(t: &T) -> String {
    t.to_token_stream().to_string()
}

pub fn ident_ok(s: &str) -> String {
    // Lean keywords that may collide with Rust identifiers
    match s {
        "end" | "at" | "from" | "have" | "show" | "then" | "do" | "fun" | "open" | "def" | "theorem" | "instance" | "class"
        | "structure" | "inductive" | "where" | "with" | "in" | "let" | "if" | "else" | "match" | "return" | "by"
        | "namespace" | "section" | "variable" | "universe" | "import" | "example" | "axiom" | "abbrev" | "mutual"
        | "private" | "protected" | "deriving" | "extends" | "for" | "unless" | "try" | "catch" | "finally" | "mut"
        | "macro" | "syntax" | "notation" | "infix" | "prefix" | "postfix" | "attribute" | "set_option" | "using"
        | "Type" | "Prop" | "Sort" | "value" => format!("{s}_"),
        _ => s.to_string(),
    }
}

fn path_last(p: &syn::Path) -> String {
    p.segments.last().map(|s| s.ident.to_string()).unwrap_or_default()
}

fn path_first(p: &syn::Path) -> String {
    p.segments.first().map(|s| s.ident.to_string()).unwrap_or_default()
}

/// strip `*e`, `&e`, `(e)`, `e.clone()`, `e.as_ref()`, `e.as_deref()`, `e.to_string()` wrappers that do
/// not change the value at the level of the model
fn strip(e: &Expr) -> &Expr {
    match e {
        Expr::Paren(p) => strip(&p.expr),
        Expr::Group(g) => strip(&g.expr),
        Expr::Reference(r) => strip(&r.expr),
        Expr::Unary(u) if matches!(u.op, UnOp::Deref(_)) => strip(&u.expr),
        Expr::MethodCall(m)
            if m.args.is_empty()
                && matches!(
                    m.method.to_string().as_str(),
                    "clone" | "as_ref" | "as_deref" | "as_str" | "to_owned" | "iter"
                ) =>
        {
            strip(&m.receiver)
        }
        _ => e,
    }
}

fn type_of(e: &Expr, env: &Env) -> Option<String> {
    match strip(e) {
        Expr::Path(p) if p.path.segments.len() == 1 => env.types.get(&path_last(&p.path)).cloned(),
        Expr::Field(f) => {
            // self.inner of MultiRef etc.: not needed in the restrictions module
            let _ = f;
            None
        }
        _ => None,
    }
}

fn int_ty(s: &str) -> bool {
    matches!(s, "i8" | "u8" | "i16" | "u16" | "i32" | "u32" | "i64" | "u64" | "i128" | "u128" | "usize" | "isize")
}

/// value-level expression (ints, strings, options) -> Lean term
pub fn expr(e: &Expr, env: &Env) -> String {
    let e = strip(e);
    match e {
        Expr::Path(p) => {
            if p.path.segments.len() == 1 {
                let n = path_last(&p.path);
                if n == "None" {
                    return "none".into();
                }
                ident_ok(&n)
            } else {
                // e.g. i32::MAX
                let f = path_first(&p.path);
                let l = path_last(&p.path);
                if int_ty(&f) && (l == "MAX" || l == "MIN") {
                    format!("(intBound \"{f}\" \"{l}\")")
                } else {
                    unsupported(&format!("path {}", tokens(p)))
                }
            }
        }
        Expr::Lit(l) => match &l.lit {
            Lit::Int(i) => format!("({} : Int)", i.base10_digits()),
            Lit::Str(s) => format!("{:?}", s.value()),
            Lit::Bool(b) => format!("{}", b.value),
            _ => unsupported(&format!("literal {}", tokens(l))),
        },
        Expr::Field(f) => {
            let base = expr(&f.base, env);
            match &f.member {
                syn::Member::Named(n) => format!("{base}.{}", ident_ok(&n.to_string())),
                syn::Member::Unnamed(i) => format!("{base}.{}", i.index + 1),
            }
        }
        Expr::Call(c) => {
            // T::try_from(x), T::from(x), Some(x), free function f(a, b)
            if let Expr::Path(p) = &*c.func {
                let first = path_first(&p.path);
                let last = path_last(&p.path);
                let args: Vec<String> = c.args.iter().map(|a| expr(a, env)).collect();
                if p.path.segments.len() == 2 && int_ty(&first) && last == "try_from" && args.len() == 1 {
                    return format!("(intTryFrom \"{first}\" {})", args[0]);
                }
                if p.path.segments.len() == 2 && int_ty(&first) && last == "from" && args.len() == 1 {
                    return args[0].clone();
                }
                if p.path.segments.len() == 1 && last == "Some" && args.len() == 1 {
                    return format!("(some {})", args[0]);
                }
                if p.path.segments.len() == 1 && last == "Ok" && args.len() == 1 {
                    return format!("(Except.ok {})", args[0]);
                }
                if p.path.segments.len() == 1 {
                    return format!("({} {})", ident_ok(&last), args.join(" "));
                }
            }
            unsupported(&format!("call {}", tokens(c)))
        }
        Expr::MethodCall(m) => {
            let name = m.method.to_string();
            match name.as_str() {
                "map_err" => expr(&m.receiver, env),
                "count" => {
                    // self.chars().count()
                    if let Expr::MethodCall(inner) = strip(&m.receiver) {
                        if inner.method == "chars" {
                            return format!("(Int.ofNat (String.length {}))", expr(&inner.receiver, env));
                        }
                    }
                    unsupported(&format!("count on {}", tokens(&m.receiver)))
                }
                "len" => format!("(Int.ofNat (List.length {}))", expr(&m.receiver, env)),
                "parse" => {
                    let ty = m
                        .turbofish
                        .as_ref()
                        .and_then(|t| t.args.first())
                        .map(tokens)
                        .unwrap_or_else(|| "?".into());
                    if int_ty(&ty) {
                        format!("(parseInt \"{ty}\" {})", expr(&m.receiver, env))
                    } else {
                        unsupported(&format!("parse::<{ty}>"))
                    }
                }
                "unwrap_or" if m.args.len() == 1 => {
                    format!("(Option.getD {} {})", expr(&m.receiver, env), expr(&m.args[0], env))
                }
                "check_restrictions" if m.args.len() == 1 => {
                    // value-level use (as tail expression or under `?`): a Res
                    check_call(&m.receiver, &m.args[0], env)
                }
                _ => unsupported(&format!("method {}", tokens(m))),
            }
        }
        Expr::Binary(b) => {
            let l = expr(&b.left, env);
            let r = expr(&b.right, env);
            match b.op {
                BinOp::Add(_) => format!("({l} + {r})"),
                BinOp::Sub(_) => format!("({l} - {r})"),
                _ => unsupported(&format!("value binop {}", tokens(b))),
            }
        }
        Expr::Unary(u) if matches!(u.op, UnOp::Neg(_)) => format!("(- {})", expr(&u.expr, env)),
        Expr::Cast(c) => expr(&c.expr, env),
        _ => unsupported(&format!("expr {}", tokens(e))),
    }
}

fn check_call(recv: &Expr, arg: &Expr, env: &Env) -> String {
    let a = expr(arg, env);
    let r = expr(recv, env);
    // receiver `self.inner` style is handled by the MultiRef extractor, not here
    let ty = type_of(recv, env);
    match ty {
        Some(t) => {
            if let Some(f) = env.generic_check.get(&t) {
                format!("({f} {a} {r})")
            } else {
                format!("(check_{} {a} {r})", t)
            }
        }
        None => unsupported(&format!("check_restrictions on untyped receiver {}", tokens(recv))),
    }
}

/// boolean/propositional condition -> Lean Prop (decidable)
pub fn cond(e: &Expr, env: &Env) -> String {
    let e = match e {
        Expr::Paren(p) => &*p.expr,
        Expr::Group(g) => &*g.expr,
        _ => e,
    };
    match e {
        Expr::Binary(b) => {
            let op = match b.op {
                BinOp::Lt(_) => Some("<"),
                BinOp::Le(_) => Some("≤"),
                BinOp::Gt(_) => Some(">"),
                BinOp::Ge(_) => Some("≥"),
                BinOp::Eq(_) => Some("="),
                BinOp::Ne(_) => Some("≠"),
                _ => None,
            };
            if let Some(op) = op {
                return format!("({} {op} {})", expr(&b.left, env), expr(&b.right, env));
            }
            match b.op {
                BinOp::And(_) => format!("({} ∧ {})", cond(&b.left, env), cond(&b.right, env)),
                BinOp::Or(_) => format!("({} ∨ {})", cond(&b.left, env), cond(&b.right, env)),
                _ => unsupported(&format!("cond binop {}", tokens(b))),
            }
        }
        Expr::Unary(u) if matches!(u.op, UnOp::Not(_)) => format!("(¬ {})", cond(&u.expr, env)),
        Expr::MethodCall(m) => {
            let name = m.method.to_string();
            match name.as_str() {
                "is_none" => format!("({} = none)", expr(&m.receiver, env)),
                "is_some" => format!("({} ≠ none)", expr(&m.receiver, env)),
                "is_empty" => format!("({} = [])", expr(&m.receiver, env)),
                "contains" if m.args.len() == 1 => {
                    format!("({} ∈ {})", expr(&m.args[0], env), expr(&m.receiver, env))
                }
                _ => unsupported(&format!("cond method {}", tokens(m))),
            }
        }
        Expr::Lit(l) => match &l.lit {
            Lit::Bool(b) => if b.value { "True".into() } else { "False".into() },
            _ => unsupported("cond literal"),
        },
        _ => unsupported(&format!("cond {}", tokens(e))),
    }
}

/// `Ok(())`, `Err(SoapError::Restriction("..".to_string()))`, `x.check_restrictions(r)`, `f(a,b)` -> Res term
pub fn res_expr(e: &Expr, env: &Env) -> String {
    let e = match e {
        Expr::Paren(p) => &*p.expr,
        _ => e,
    };
    match e {
        Expr::Call(c) => {
            if let Expr::Path(p) = &*c.func {
                let last = path_last(&p.path);
                if p.path.segments.len() == 1 && last == "Ok" {
                    return "Res.ok".into();
                }
                if p.path.segments.len() == 1 && last == "Err" && c.args.len() == 1 {
                    return format!("(Res.err {})", err_msg(&c.args[0]));
                }
                if p.path.segments.len() == 1 {
                    let args: Vec<String> = c.args.iter().map(|a| expr(a, env)).collect();
                    return format!("({} {})", ident_ok(&last), args.join(" "));
                }
            }
            unsupported(&format!("res call {}", tokens(c)))
        }
        Expr::MethodCall(m) if m.method == "check_restrictions" && m.args.len() == 1 => {
            check_call(&m.receiver, &m.args[0], env)
        }
        _ => unsupported(&format!("res expr {}", tokens(e))),
    }
}

/// the message of `SoapError::Restriction(<msg>)`: a literal when it is one, "*" when computed
fn err_msg(e: &Expr) -> String {
    fn lit_of(e: &Expr) -> Option<String> {
        match e {
            Expr::Lit(l) => {
                if let Lit::Str(s) = &l.lit {
                    Some(s.value())
                } else {
                    None
                }
            }
            Expr::MethodCall(m) if matches!(m.method.to_string().as_str(), "to_string" | "into" | "to_owned") => {
                lit_of(&m.receiver)
            }
            Expr::Paren(p) => lit_of(&p.expr),
            Expr::Reference(r) => lit_of(&r.expr),
            _ => None,
        }
    }
    if let Expr::Call(c) = e {
        if let Some(a) = c.args.first() {
            return format!("{:?}", lit_of(a).unwrap_or_else(|| "*".into()));
        }
    }
    "\"*\"".into()
}

fn pat_some_binding(p: &Pat) -> Option<String> {
    // Some(x) | Some(ref x)
    if let Pat::TupleStruct(ts) = p {
        if path_last(&ts.path) == "Some" && ts.elems.len() == 1 {
            if let Pat::Ident(i) = &ts.elems[0] {
                return Some(i.ident.to_string());
            }
            if let Pat::Wild(_) = &ts.elems[0] {
                return Some("_".into());
            }
        }
    }
    None
}

fn binding_type(init: &Expr, env: &Env) -> Option<String> {
    // i32::try_from(..)..? / i128::from(..) / self.parse::<i32>()? / x.len()
    fn go(e: &Expr, env: &Env) -> Option<String> {
        match e {
            Expr::Try(t) => go(&t.expr, env),
            Expr::Paren(p) => go(&p.expr, env),
            Expr::MethodCall(m) => {
                if m.method == "map_err" {
                    return go(&m.receiver, env);
                }
                if m.method == "parse" {
                    return m.turbofish.as_ref().and_then(|t| t.args.first()).map(tokens);
                }
                if m.method == "count" || m.method == "len" {
                    return Some("usize".into());
                }
                if matches!(m.method.to_string().as_str(), "clone" | "as_ref" | "as_deref") {
                    return go(&m.receiver, env);
                }
                None
            }
            Expr::Call(c) => {
                if let Expr::Path(p) = &*c.func {
                    if p.path.segments.len() == 2 && int_ty(&path_first(&p.path)) {
                        return Some(path_first(&p.path));
                    }
                }
                None
            }
            Expr::Path(p) if p.path.segments.len() == 1 => env.types.get(&path_last(&p.path)).cloned(),
            Expr::Unary(u) => go(&u.expr, env),
            Expr::Reference(r) => go(&r.expr, env),
            _ => None,
        }
    }
    go(init, env)
}

/// element type of a container-typed variable: Option<C> / Vec<C> -> C
fn elem_type(t: &str) -> Option<String> {
    let t = t.replace(' ', "");
    for w in ["Option<", "Vec<"] {
        if let Some(rest) = t.strip_prefix(w) {
            if let Some(inner) = rest.strip_suffix('>') {
                return Some(inner.to_string());
            }
        }
    }
    None
}

/// a block as a Flow term
pub fn block(b: &Block, env: &Env) -> String {
    stmts(&b.stmts, env)
}

fn stmts(ss: &[Stmt], env: &Env) -> String {
    let Some((first, rest)) = ss.split_first() else {
        return "Flow.cont".into();
    };
    match first {
        Stmt::Local(l) => {
            let Some(init) = &l.init else {
                return unsupported("let without initializer");
            };
            // let Some(x) = E else { B };
            if let Some((_, div)) = &init.diverge {
                if let Some(x) = pat_some_binding(&l.pat) {
                    let mut env2 = env.clone();
                    if let Some(t) = binding_type(&init.expr, env).and_then(|t| elem_type(&t)) {
                        env2.types.insert(x.clone(), t);
                    }
                    let else_flow = match &**div {
                        Expr::Block(b) => block(&b.block, env),
                        other => unsupported(&format!("let-else diverge {}", tokens(other))),
                    };
                    return format!(
                        "(match {} with\n  | some {} => {}\n  | none => {})",
                        expr(&init.expr, env),
                        ident_ok(&x),
                        stmts(rest, &env2),
                        else_flow
                    );
                }
                return unsupported(&format!("let-else pattern {}", tokens(&l.pat)));
            }
            let name = match &l.pat {
                Pat::Ident(i) => i.ident.to_string(),
                Pat::Type(t) => match &*t.pat {
                    Pat::Ident(i) => i.ident.to_string(),
                    _ => return unsupported("let pattern"),
                },
                _ => return unsupported(&format!("let pattern {}", tokens(&l.pat))),
            };
            let mut env2 = env.clone();
            if let Some(t) = binding_type(&init.expr, env) {
                env2.types.insert(name.clone(), t);
            }
            // let x = E?;   (E : Except String α)
            if let Expr::Try(t) = &*init.expr {
                return format!(
                    "(match {} with\n  | Except.error _ => Flow.ret (Res.err \"*\")\n  | Except.ok {} => {})",
                    expr(&t.expr, env),
                    ident_ok(&name),
                    stmts(rest, &env2)
                );
            }
            format!("(let {} := {};\n  {})", ident_ok(&name), expr(&init.expr, env), stmts(rest, &env2))
        }
        Stmt::Expr(e, semi) => {
            let is_last = rest.is_empty();
            if is_last && semi.is_none() {
                // tail expression: the function's value
                return tail(e, env);
            }
            let this = stmt_expr(e, env);
            if rest.is_empty() {
                this
            } else {
                format!("(Flow.seq {}\n  {})", this, stmts(rest, env))
            }
        }
        Stmt::Item(_) => stmts(rest, env),
        Stmt::Macro(m) => unsupported(&format!("macro statement {}", tokens(m))),
    }
}

/// tail expression of a block whose value is the function result
fn tail(e: &Expr, env: &Env) -> String {
    match e {
        Expr::If(_) | Expr::Match(_) | Expr::ForLoop(_) | Expr::Block(_) => stmt_expr(e, env),
        _ => format!("(Flow.ret {})", res_expr(e, env)),
    }
}

/// an expression statement (if / if-let / for / return / `E?;`) as a Flow term
fn stmt_expr(e: &Expr, env: &Env) -> String {
    match e {
        Expr::Return(r) => match &r.expr {
            Some(v) => format!("(Flow.ret {})", res_expr(v, env)),
            None => unsupported("bare return"),
        },
        Expr::Try(t) => {
            // E?;  with E : Res
            format!("(Flow.ofRes {})", res_expr(&t.expr, env))
        }
        Expr::If(i) => {
            let else_flow = match &i.else_branch {
                None => "Flow.cont".to_string(),
                Some((_, eb)) => match &**eb {
                    Expr::Block(b) => block(&b.block, env),
                    Expr::If(_) => stmt_expr(eb, env),
                    other => unsupported(&format!("else {}", tokens(other))),
                },
            };
            if let Expr::Let(l) = &*i.cond {
                if let Some(x) = pat_some_binding(&l.pat) {
                    let mut env2 = env.clone();
                    let src_ty = binding_type(&l.expr, env).or_else(|| type_of(&l.expr, env));
                    if let Some(t) = src_ty.and_then(|t| elem_type(&t)) {
                        env2.types.insert(x.clone(), t);
                    }
                    return format!(
                        "(match {} with\n  | some {} => {}\n  | none => {})",
                        expr(&l.expr, env),
                        ident_ok(&x),
                        block(&i.then_branch, &env2),
                        else_flow
                    );
                }
                return unsupported(&format!("if-let pattern {}", tokens(&l.pat)));
            }
            format!(
                "(if {} then {} else {})",
                cond(&i.cond, env),
                block(&i.then_branch, env),
                else_flow
            )
        }
        Expr::ForLoop(f) => {
            let var = match &*f.pat {
                Pat::Ident(i) => i.ident.to_string(),
                _ => return unsupported("for pattern"),
            };
            let mut env2 = env.clone();
            if let Some(t) = type_of(&f.expr, env).and_then(|t| elem_type(&t)) {
                env2.types.insert(var.clone(), t);
            }
            format!(
                "(forEach {} (fun {} => {}))",
                expr(&f.expr, env),
                ident_ok(&var),
                block(&f.body, &env2)
            )
        }
        Expr::Block(b) => block(&b.block, env),
        Expr::Call(c) => {
            // drop(x);
            if let Expr::Path(p) = &*c.func {
                if path_last(&p.path) == "drop" {
                    return "Flow.cont".into();
                }
            }
            unsupported(&format!("call statement {}", tokens(c)))
        }
        _ => unsupported(&format!("statement {}", tokens(e))),
    }
}
