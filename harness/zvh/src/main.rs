//! zvh — drives the *unmodified* runtime that zeep appends to every generated file
//! (`/repo/zeep-lib/src/model/helpers_content.rs`, included by path) for the differential checks.
#![allow(dead_code, unused_imports)]

pub mod hc {
    include!("/repo/zeep-lib/src/model/helpers_content.rs");

    /// the only way to reach the `pub(super)` client helper from outside the included text
    pub async fn send_using_client<YI, YO>(
        client: &reqwest::Client,
        url: &str,
        credentials: Option<(String, String)>,
        req: YI,
    ) -> error::SoapResult<YO>
    where
        YI: yaserde::YaSerialize + restrictions::CheckRestrictions,
        // every envelope type the generator emits derives these; asking for them here keeps the harness compiling when the
        // helper starts to require more of the response type, so that such a change is judged by its behaviour
        YO: yaserde::YaDeserialize + Default + std::fmt::Debug + Clone,
    {
        helpers::send_soap_request_using_client(client, url, credentials, req).await
    }
}

mod c06;
pub mod listener;
mod c16;
mod c19;

fn main() -> std::process::ExitCode {
    let args: Vec<String> = std::env::args().collect();
    match args.get(1).map(String::as_str) {
        Some("c06") => c06::run(),
        Some("c16") => c16::run(args.get(2).and_then(|s| s.parse().ok()).unwrap_or(1)),
        Some("c19") => c19::run(args.get(2).and_then(|s| s.parse().ok()).unwrap_or(1), args.get(3).and_then(|s| s.parse().ok()).unwrap_or(200)),
        _ => {
            eprintln!("usage: zvh c06 < lines");
            std::process::ExitCode::from(2)
        }
    }
}
