//! A scripted loopback HTTP listener (std only), shared by `zvh c16` and by the drivers synthesized for
//! generated clients (included there by path).
use std::{
    io::{Read, Write},
    net::{TcpListener, TcpStream},
    sync::{Arc, Mutex},
    time::Duration,
};

#[derive(Clone, Debug, Default)]
pub struct Recorded {
    pub connections: usize,
    pub requests: Vec<(String, String, Vec<(String, String)>, Vec<u8>)>, // method, path, headers, body
}

#[derive(Clone, Copy, PartialEq, Debug)]
pub enum Close {
    Normal,
    BeforeHeaders,
    MidBody,
}

pub fn read_request(s: &mut TcpStream) -> Option<(String, String, Vec<(String, String)>, Vec<u8>)> {
    let _ = s.set_read_timeout(Some(Duration::from_secs(5)));
    let mut buf = vec![];
    let mut tmp = [0u8; 4096];
    let header_end;
    loop {
        let n = s.read(&mut tmp).ok()?;
        if n == 0 {
            return None;
        }
        buf.extend_from_slice(&tmp[..n]);
        if let Some(p) = buf.windows(4).position(|w| w == b"\r\n\r\n") {
            header_end = p + 4;
            break;
        }
    }
    let head = String::from_utf8_lossy(&buf[..header_end]).to_string();
    let mut lines = head.split("\r\n");
    let rl = lines.next()?;
    let mut parts = rl.split(' ');
    let method = parts.next()?.to_string();
    let path = parts.next()?.to_string();
    let headers: Vec<(String, String)> = lines
        .filter_map(|l| l.split_once(':').map(|(k, v)| (k.trim().to_ascii_lowercase(), v.trim().to_string())))
        .collect();
    let len: usize = headers.iter().find(|(k, _)| k == "content-length").and_then(|(_, v)| v.parse().ok()).unwrap_or(0);
    let mut body = buf[header_end..].to_vec();
    while body.len() < len {
        let n = s.read(&mut tmp).ok()?;
        if n == 0 {
            break;
        }
        body.extend_from_slice(&tmp[..n]);
    }
    Some((method, path, headers, body))
}

pub fn serve(listener: TcpListener, status: u16, body: Vec<u8>, close: Close, rec: Arc<Mutex<Recorded>>, stop: Arc<Mutex<bool>>) {
    let _ = listener.set_nonblocking(true);
    loop {
        if *stop.lock().unwrap() {
            return;
        }
        match listener.accept() {
            Ok((mut s, _)) => {
                let _ = s.set_nonblocking(false);
                rec.lock().unwrap().connections += 1;
                if close == Close::BeforeHeaders {
                    // read the request (so that the client has sent it), then close without an answer
                    if let Some(r) = read_request(&mut s) {
                        rec.lock().unwrap().requests.push(r);
                    }
                    drop(s);
                    continue;
                }
                if let Some(r) = read_request(&mut s) {
                    rec.lock().unwrap().requests.push(r);
                    let reason = match status {
                        200 => "OK", 201 => "Created", 204 => "No Content", 400 => "Bad Request", 401 => "Unauthorized", 403 => "Forbidden",
                        404 => "Not Found", 500 => "Internal Server Error", 503 => "Service Unavailable", _ => "Status",
                    };
                    let declared = if close == Close::MidBody { body.len() + 50 } else { body.len() };
                    let head = format!("HTTP/1.1 {status} {reason}\r\nContent-Type: text/xml; charset=utf-8\r\nContent-Length: {declared}\r\nConnection: close\r\n\r\n");
                    let _ = s.write_all(head.as_bytes());
                    let _ = s.write_all(&body);
                    let _ = s.flush();
                }
                drop(s);
            }
            Err(_) => std::thread::sleep(Duration::from_millis(2)),
        }
    }
}

pub fn b64(data: &[u8]) -> String {
    const T: &[u8; 64] = b"ABCDEFGHIJKLMNOPQRSTUVWXYZabcdefghijklmnopqrstuvwxyz0123456789+/";
    let mut o = String::new();
    for ch in data.chunks(3) {
        let b = [ch[0], *ch.get(1).unwrap_or(&0), *ch.get(2).unwrap_or(&0)];
        let n = (u32::from(b[0]) << 16) | (u32::from(b[1]) << 8) | u32::from(b[2]);
        o.push(T[(n >> 18) as usize & 63] as char);
        o.push(T[(n >> 12) as usize & 63] as char);
        o.push(if ch.len() > 1 { T[(n >> 6) as usize & 63] as char } else { '=' });
        o.push(if ch.len() > 2 { T[n as usize & 63] as char } else { '=' });
    }
    o
}

