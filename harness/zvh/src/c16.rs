//! C16 (and the transmission half of C07): the client helper against a scripted loopback HTTP listener.
//! One line per scenario:
//!   SCN <name> creds=<0|1> status=<n|-> body=<kind> close=<mode> | connections=<n> requests=<n> method=<M> path=<p>
//!       auth=<none|ok|wrong> body_matches=<0|1> result=<value|http|yaserde|restriction> de_ok=<0|1> value_matches=<0|1>
use crate::hc::{
    self,
    error::{SoapError, SoapResult},
    restrictions::{CheckRestrictions, Restrictions},
};
use std::{
    net::TcpListener,
    rc::Rc,
    sync::{Arc, Mutex},
    time::Duration,
};
use yaserde_derive::{YaDeserialize, YaSerialize};

#[derive(Debug, Default, Clone, PartialEq, YaSerialize, YaDeserialize)]
#[yaserde(prefix = "tns", namespaces = {"tns" = "urn:c16"}, rename = "Ask")]
pub struct Ask {
    #[yaserde(prefix = "tns", rename = "text")]
    pub text: String,
    #[yaserde(prefix = "tns", rename = "n")]
    pub n: i32,
}
impl CheckRestrictions for Ask {
    fn check_restrictions(&self, r: Option<Rc<Restrictions>>) -> SoapResult<()> {
        self.text.check_restrictions(r)?;
        self.n.check_restrictions(Some(Rc::new(Restrictions { max_inclusive: Some(100), ..Default::default() })))
    }
}
#[derive(Debug, Default, Clone, PartialEq, YaSerialize, YaDeserialize)]
#[yaserde(prefix = "soapenv", namespaces = {"soapenv" = "http://schemas.xmlsoap.org/soap/envelope/", "tns" = "urn:c16"}, rename = "Envelope")]
pub struct AskEnvelope {
    #[yaserde(prefix = "soapenv", rename = "Body")]
    pub body: AskBody,
}
#[derive(Debug, Default, Clone, PartialEq, YaSerialize, YaDeserialize)]
#[yaserde(prefix = "soapenv", namespaces = {"soapenv" = "http://schemas.xmlsoap.org/soap/envelope/", "tns" = "urn:c16"})]
pub struct AskBody {
    #[yaserde(prefix = "tns", rename = "Ask")]
    pub ask: Ask,
}
impl CheckRestrictions for AskBody {
    fn check_restrictions(&self, r: Option<Rc<Restrictions>>) -> SoapResult<()> {
        self.ask.check_restrictions(r)
    }
}
impl CheckRestrictions for AskEnvelope {
    fn check_restrictions(&self, r: Option<Rc<Restrictions>>) -> SoapResult<()> {
        self.body.check_restrictions(r)
    }
}
#[derive(Debug, Default, Clone, PartialEq, YaSerialize, YaDeserialize)]
#[yaserde(prefix = "tns", namespaces = {"tns" = "urn:c16"}, rename = "Answer")]
pub struct Answer {
    #[yaserde(prefix = "tns", rename = "text")]
    pub text: String,
}
#[derive(Debug, Default, Clone, PartialEq, YaSerialize, YaDeserialize)]
#[yaserde(prefix = "soapenv", namespaces = {"soapenv" = "http://schemas.xmlsoap.org/soap/envelope/", "tns" = "urn:c16"})]
pub struct AnswerBody {
    #[yaserde(prefix = "tns", rename = "Answer")]
    pub answer: Answer,
}
#[derive(Debug, Default, Clone, PartialEq, YaSerialize, YaDeserialize)]
#[yaserde(prefix = "soapenv", namespaces = {"soapenv" = "http://schemas.xmlsoap.org/soap/envelope/", "tns" = "urn:c16"}, rename = "Envelope")]
pub struct AnswerEnvelope {
    #[yaserde(prefix = "soapenv", rename = "Body")]
    pub body: AnswerBody,
}

use crate::listener::{b64, serve, Close, Recorded};

pub fn run(seed: u64) -> std::process::ExitCode {
    let rt = tokio::runtime::Builder::new_current_thread().enable_all().build().unwrap();
    let answer = AnswerEnvelope { body: AnswerBody { answer: Answer { text: "fine & <ok>".into() } } };
    let exact = yaserde::ser::to_string(&answer).unwrap();
    let other_prefixes = "<?xml version=\"1.0\" encoding=\"utf-8\"?><S:Envelope xmlns:S=\"http://schemas.xmlsoap.org/soap/envelope/\"><S:Body><x:Answer xmlns:x=\"urn:c16\"><x:text>fine &amp; &lt;ok&gt;</x:text></x:Answer></S:Body></S:Envelope>".to_string();
    let fault = "<?xml version=\"1.0\"?><soapenv:Envelope xmlns:soapenv=\"http://schemas.xmlsoap.org/soap/envelope/\"><soapenv:Body><soapenv:Fault><faultcode>soapenv:Server</faultcode><faultstring>boom</faultstring></soapenv:Fault></soapenv:Body></soapenv:Envelope>".to_string();
    let bodies: Vec<(&str, String)> = vec![
        ("exact", exact.clone()),
        ("other-prefixes", other_prefixes),
        ("empty", String::new()),
        ("non-xml", "this is not xml {".to_string()),
        ("truncated", exact[..exact.len() / 2].to_string()),
        ("fault", fault),
    ];
    let statuses = [200u16, 201, 204, 400, 401, 403, 404, 500, 503];
    let pw = format!("p:ss wörd{seed}");
    let creds_opts: Vec<Option<(String, String)>> = vec![None, Some(("user".into(), pw))];
    let mut scenarios: Vec<(String, u16, usize, Close)> = vec![];
    for (si, st) in statuses.iter().enumerate() {
        for (bi, (bn, _)) in bodies.iter().enumerate() {
            // the full product is small: 9 x 6
            let _ = si;
            scenarios.push((format!("{st}-{bn}"), *st, bi, Close::Normal));
        }
    }
    scenarios.push(("closed-before-headers".into(), 200, 0, Close::BeforeHeaders));
    scenarios.push(("closed-mid-body".into(), 200, 0, Close::MidBody));
    let good = AskEnvelope { body: AskBody { ask: Ask { text: format!("hello <{seed}> & \"you\""), n: 7 } } };
    let bad = AskEnvelope { body: AskBody { ask: Ask { text: "too big".into(), n: 101 } } };
    let expected_body = yaserde::ser::to_string(&good).unwrap();
    // the address of a service is an arbitrary URL: query strings and path segments may hold `@`, `:` and escapes
    const PATHS: [&str; 5] = ["/soap/endpoint", "/soap/endpoint?notify=ops@example.com", "/tenants/@acme/soap", "/soap/endpoint?a=1&b=%40x:y", "/user:pw@host/soap"];
    let mut scn_index = 0usize;
    for creds in &creds_opts {
        for (name, status, bi, close) in &scenarios {
            scn_index += 1;
            let url_path = PATHS[scn_index % PATHS.len()];
            let listener = TcpListener::bind("127.0.0.1:0").unwrap();
            let port = listener.local_addr().unwrap().port();
            let rec = Arc::new(Mutex::new(Recorded::default()));
            let stop = Arc::new(Mutex::new(false));
            let (r2, s2, body) = (rec.clone(), stop.clone(), bodies[*bi].1.clone().into_bytes());
            let (st, cl) = (*status, *close);
            let th = std::thread::spawn(move || serve(listener, st, body, cl, r2, s2));
            let url = format!("http://127.0.0.1:{port}{url_path}");
            let client = reqwest::Client::builder().timeout(Duration::from_secs(10)).build().unwrap();
            let result: SoapResult<AnswerEnvelope> = rt.block_on(hc::send_using_client(&client, &url, creds.clone(), good.clone()));
            std::thread::sleep(Duration::from_millis(20));
            *stop.lock().unwrap() = true;
            let _ = th.join();
            let rec = rec.lock().unwrap().clone();
            let de_ok = yaserde::de::from_str::<AnswerEnvelope>(&bodies[*bi].1);
            let (rclass, vmatch) = match &result {
                Ok(v) => ("value", de_ok.as_ref().map(|d| d == v).unwrap_or(false)),
                Err(SoapError::Http(_)) => ("http", false),
                Err(SoapError::YaserdeError(_)) => ("yaserde", false),
                Err(SoapError::Restriction(_)) => ("restriction", false),
                #[allow(unreachable_patterns)]
                Err(_) => ("other-error", false),
            };
            let (method, path, auth, body_matches) = match rec.requests.first() {
                Some((m, p, h, b)) => {
                    let a = h.iter().find(|(k, _)| k == "authorization").map(|(_, v)| v.clone());
                    let want = creds.as_ref().map(|(u, p)| format!("Basic {}", b64(format!("{u}:{p}").as_bytes())));
                    let auth = match (&a, &want) {
                        (None, None) => "none",
                        (Some(x), Some(y)) if x == y => "ok",
                        (None, Some(_)) => "missing",
                        _ => "wrong",
                    };
                    // reported as the plain endpoint when the request line carries exactly the address's path and query
                    (m.clone(), if p == url_path { "/soap/endpoint".to_string() } else { p.clone() }, auth, b == expected_body.as_bytes())
                }
                None => ("-".into(), "-".into(), "none", false),
            };
            println!(
                "SCN {name} creds={} status={status} body={} close={close:?} | connections={} requests={} method={method} path={path} auth={auth} body_matches={} result={rclass} de_ok={} value_matches={}",
                u8::from(creds.is_some()), bodies[*bi].0, rec.connections, rec.requests.len(), u8::from(body_matches), u8::from(de_ok.is_ok()), u8::from(vmatch)
            );
        }
        // connection refused: a port nobody listens on
        let port = {
            let l = TcpListener::bind("127.0.0.1:0").unwrap();
            l.local_addr().unwrap().port()
        };
        let client = reqwest::Client::builder().timeout(Duration::from_secs(5)).build().unwrap();
        let result: SoapResult<AnswerEnvelope> = rt.block_on(hc::send_using_client(&client, &format!("http://127.0.0.1:{port}/x"), creds.clone(), good.clone()));
        let rclass = match &result { Ok(_) => "value", Err(SoapError::Http(_)) => "http", Err(SoapError::YaserdeError(_)) => "yaserde", Err(SoapError::Restriction(_)) => "restriction", #[allow(unreachable_patterns)] Err(_) => "other-error" };
        println!("SCN refused creds={} status=- body=- close=Refused | connections=0 requests=0 method=- path=- auth=none body_matches=0 result={rclass} de_ok=0 value_matches=0", u8::from(creds.is_some()));
        // a request that violates a facet: nothing may reach the listener
        let listener = TcpListener::bind("127.0.0.1:0").unwrap();
        let port = listener.local_addr().unwrap().port();
        let rec = Arc::new(Mutex::new(Recorded::default()));
        let stop = Arc::new(Mutex::new(false));
        let (r2, s2) = (rec.clone(), stop.clone());
        let body = exact.clone().into_bytes();
        let th = std::thread::spawn(move || serve(listener, 200, body, Close::Normal, r2, s2));
        let result: SoapResult<AnswerEnvelope> = rt.block_on(hc::send_using_client(&client, &format!("http://127.0.0.1:{port}/x"), creds.clone(), bad.clone()));
        std::thread::sleep(Duration::from_millis(30));
        *stop.lock().unwrap() = true;
        let _ = th.join();
        let rec = rec.lock().unwrap().clone();
        let rclass = match &result { Ok(_) => "value", Err(SoapError::Http(_)) => "http", Err(SoapError::YaserdeError(_)) => "yaserde", Err(SoapError::Restriction(_)) => "restriction", #[allow(unreachable_patterns)] Err(_) => "other-error" };
        println!("SCN violating-request creds={} status=200 body=exact close=Normal | connections={} requests={} method=- path=- auth=none body_matches=0 result={rclass} de_ok=1 value_matches=0", u8::from(creds.is_some()), rec.connections, rec.requests.len());
    }
    std::process::ExitCode::SUCCESS
}
