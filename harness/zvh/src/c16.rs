//! C16 (and the transmission half of C07): the client helper against a scripted loopback HTTP listener.
//! One line per scenario:
//!   SCN <name> creds=<0|1> status=<n|-> body=<kind> close=<mode> | connections=<n> requests=<n> method=<M> path=<p>
//!       auth=<none|ok|wrong> body_matches=<0|1> result=<value|http|yaserde|restriction> de_ok=<0|1> value_matches=<0|1>
use crate::hc::{
    self,
    error::{SoapError, SoapResult},
    restrictions::{CheckRestrictions, Restrictions},
};
use std::{
    io::{Read, Write},
    net::{TcpListener, TcpStream},
    rc::Rc,
    sync::{Arc, Mutex},
    time::Duration,
};
use yaserde_derive::{YaDeserialize, YaSerialize};

#[derive(Debug, Default, Clone, PartialEq, YaSerialize, YaDeserialize)]
#[yaserde(prefix = "tns", namespaces = {"tns" = "urn:c16"}, rename = "Ask")]
pub struct Ask {
    #[yaserde(prefix = "tns", rename = "text")]
    pub text: String,
    #[yaserde(prefix = "tns", rename = "n")]
    pub n: i32,
}
impl CheckRestrictions for Ask {
    fn check_restrictions(&self, r: Option<Rc<Restrictions>>) -> SoapResult<()> {
        self.text.check_restrictions(r)?;
        self.n.check_restrictions(Some(Rc::new(Restrictions { max_inclusive: Some(100), ..Default::default() })))
    }
}
#[derive(Debug, Default, Clone, PartialEq, YaSerialize, YaDeserialize)]
#[yaserde(prefix = "soapenv", namespaces = {"soapenv" = "http://schemas.xmlsoap.org/soap/envelope/", "tns" = "urn:c16"}, rename = "Envelope")]
pub struct AskEnvelope {
    #[yaserde(prefix = "soapenv", rename = "Body")]
    pub body: AskBody,
}
#[derive(Debug, Default, Clone, PartialEq, YaSerialize, YaDeserialize)]
#[yaserde(prefix = "soapenv", namespaces = {"soapenv" = "http://schemas.xmlsoap.org/soap/envelope/", "tns" = "urn:c16"})]
pub struct AskBody {
    #[yaserde(prefix = "tns", rename = "Ask")]
    pub ask: Ask,
}
impl CheckRestrictions for AskBody {
    fn check_restrictions(&self, r: Option<Rc<Restrictions>>) -> SoapResult<()> {
        self.ask.check_restrictions(r)
    }
}
impl CheckRestrictions for AskEnvelope {
    fn check_restrictions(&self, r: Option<Rc<Restrictions>>) -> SoapResult<()> {
        self.body.check_restrictions(r)
    }
}
#[derive(Debug, Default, Clone, PartialEq, YaSerialize, YaDeserialize)]
#[yaserde(prefix = "tns", namespaces = {"tns" = "urn:c16"}, rename = "Answer")]
pub struct Answer {
    #[yaserde(prefix = "tns", rename = "text")]
    pub text: String,
}
#[derive(Debug, Default, Clone, PartialEq, YaSerialize, YaDeserialize)]
#[yaserde(prefix = "soapenv", namespaces = {"soapenv" = "http://schemas.xmlsoap.org/soap/envelope/", "tns" = "urn:c16"})]
pub struct AnswerBody {
    #[yaserde(prefix = "tns", rename = "Answer")]
    pub answer: Answer,
}
#[derive(Debug, Default, Clone, PartialEq, YaSerialize, YaDeserialize)]
#[yaserde(prefix = "soapenv", namespaces = {"soapenv" = "http://schemas.xmlsoap.org/soap/envelope/", "tns" = "urn:c16"}, rename = "Envelope")]
pub struct AnswerEnvelope {
    #[yaserde(prefix = "soapenv", rename = "Body")]
    pub body: AnswerBody,
}

#[derive(Clone, Debug, Default)]
struct Recorded {
    connections: usize,
    requests: Vec<(String, String, Vec<(String, String)>, Vec<u8>)>, // method, path, headers, body
}

#[derive(Clone, Copy, PartialEq, Debug)]
enum Close {
    Normal,
    BeforeHeaders,
    MidBody,
}

fn read_request(s: &mut TcpStream) -> Option<(String, String, Vec<(String, String)>, Vec<u8>)> {
    let _ = s.set_read_timeout(Some(Duration::from_secs(5)));
    let mut buf = vec![];
    let mut tmp = [0u8; 4096];
    let header_end;
    loop {
        let n = s.read(&mut tmp).ok()?;
        if n == 0 {
            return None;
        }
        buf.extend_from_slice(&tmp[..n]);
        if let Some(p) = buf.windows(4).position(|w| w == b"\r\n\r\n") {
            header_end = p + 4;
            break;
        }
    }
    let head = String::from_utf8_lossy(&buf[..header_end]).to_string();
    let mut lines = head.split("\r\n");
    let rl = lines.next()?;
    let mut parts = rl.split(' ');
    let method = parts.next()?.to_string();
    let path = parts.next()?.to_string();
    let headers: Vec<(String, String)> = lines
        .filter_map(|l| l.split_once(':').map(|(k, v)| (k.trim().to_ascii_lowercase(), v.trim().to_string())))
        .collect();
    let len: usize = headers.iter().find(|(k, _)| k == "content-length").and_then(|(_, v)| v.parse().ok()).unwrap_or(0);
    let mut body = buf[header_end..].to_vec();
    while body.len() < len {
        let n = s.read(&mut tmp).ok()?;
        if n == 0 {
            break;
        }
        body.extend_from_slice(&tmp[..n]);
    }
    Some((method, path, headers, body))
}

fn serve(listener: TcpListener, status: u16, body: Vec<u8>, close: Close, rec: Arc<Mutex<Recorded>>, stop: Arc<Mutex<bool>>) {
    let _ = listener.set_nonblocking(true);
    loop {
        if *stop.lock().unwrap() {
            return;
        }
        match listener.accept() {
            Ok((mut s, _)) => {
                let _ = s.set_nonblocking(false);
                rec.lock().unwrap().connections += 1;
                if close == Close::BeforeHeaders {
                    // read the request (so that the client has sent it), then close without an answer
                    if let Some(r) = read_request(&mut s) {
                        rec.lock().unwrap().requests.push(r);
                    }
                    drop(s);
                    continue;
                }
                if let Some(r) = read_request(&mut s) {
                    rec.lock().unwrap().requests.push(r);
                    let reason = match status {
                        200 => "OK", 201 => "Created", 204 => "No Content", 400 => "Bad Request", 401 => "Unauthorized", 403 => "Forbidden",
                        404 => "Not Found", 500 => "Internal Server Error", 503 => "Service Unavailable", _ => "Status",
                    };
                    let declared = if close == Close::MidBody { body.len() + 50 } else { body.len() };
                    let head = format!("HTTP/1.1 {status} {reason}\r\nContent-Type: text/xml; charset=utf-8\r\nContent-Length: {declared}\r\nConnection: close\r\n\r\n");
                    let _ = s.write_all(head.as_bytes());
                    let _ = s.write_all(&body);
                    let _ = s.flush();
                }
                drop(s);
            }
            Err(_) => std::thread::sleep(Duration::from_millis(2)),
        }
    }
}

fn b64(data: &[u8]) -> String {
    const T: &[u8; 64] = b"ABCDEFGHIJKLMNOPQRSTUVWXYZabcdefghijklmnopqrstuvwxyz0123456789+/";
    let mut o = String::new();
    for ch in data.chunks(3) {
        let b = [ch[0], *ch.get(1).unwrap_or(&0), *ch.get(2).unwrap_or(&0)];
        let n = (u32::from(b[0]) << 16) | (u32::from(b[1]) << 8) | u32::from(b[2]);
        o.push(T[(n >> 18) as usize & 63] as char);
        o.push(T[(n >> 12) as usize & 63] as char);
        o.push(if ch.len() > 1 { T[(n >> 6) as usize & 63] as char } else { '=' });
        o.push(if ch.len() > 2 { T[n as usize & 63] as char } else { '=' });
    }
    o
}

pub fn run(seed: u64) -> std::process::ExitCode {
    let rt = tokio::runtime::Builder::new_current_thread().enable_all().build().unwrap();
    let answer = AnswerEnvelope { body: AnswerBody { answer: Answer { text: "fine & <ok>".into() } } };
    let exact = yaserde::ser::to_string(&answer).unwrap();
    let other_prefixes = "<?xml version=\"1.0\" encoding=\"utf-8\"?><S:Envelope xmlns:S=\"http://schemas.xmlsoap.org/soap/envelope/\"><S:Body><x:Answer xmlns:x=\"urn:c16\"><x:text>fine &amp; &lt;ok&gt;</x:text></x:Answer></S:Body></S:Envelope>".to_string();
    let fault = "<?xml version=\"1.0\"?><soapenv:Envelope xmlns:soapenv=\"http://schemas.xmlsoap.org/soap/envelope/\"><soapenv:Body><soapenv:Fault><faultcode>soapenv:Server</faultcode><faultstring>boom</faultstring></soapenv:Fault></soapenv:Body></soapenv:Envelope>".to_string();
    let bodies: Vec<(&str, String)> = vec![
        ("exact", exact.clone()),
        ("other-prefixes", other_prefixes),
        ("empty", String::new()),
        ("non-xml", "this is not xml {".to_string()),
        ("truncated", exact[..exact.len() / 2].to_string()),
        ("fault", fault),
    ];
    let statuses = [200u16, 201, 204, 400, 401, 403, 404, 500, 503];
    let pw = format!("p:ss wörd{seed}");
    let creds_opts: Vec<Option<(String, String)>> = vec![None, Some(("user".into(), pw))];
    let mut scenarios: Vec<(String, u16, usize, Close)> = vec![];
    for (si, st) in statuses.iter().enumerate() {
        for (bi, (bn, _)) in bodies.iter().enumerate() {
            // the full product is small: 9 x 6
            let _ = si;
            scenarios.push((format!("{st}-{bn}"), *st, bi, Close::Normal));
        }
    }
    scenarios.push(("closed-before-headers".into(), 200, 0, Close::BeforeHeaders));
    scenarios.push(("closed-mid-body".into(), 200, 0, Close::MidBody));
    let good = AskEnvelope { body: AskBody { ask: Ask { text: format!("hello <{seed}> & \"you\""), n: 7 } } };
    let bad = AskEnvelope { body: AskBody { ask: Ask { text: "too big".into(), n: 101 } } };
    let expected_body = yaserde::ser::to_string(&good).unwrap();
    for creds in &creds_opts {
        for (name, status, bi, close) in &scenarios {
            let listener = TcpListener::bind("127.0.0.1:0").unwrap();
            let port = listener.local_addr().unwrap().port();
            let rec = Arc::new(Mutex::new(Recorded::default()));
            let stop = Arc::new(Mutex::new(false));
            let (r2, s2, body) = (rec.clone(), stop.clone(), bodies[*bi].1.clone().into_bytes());
            let (st, cl) = (*status, *close);
            let th = std::thread::spawn(move || serve(listener, st, body, cl, r2, s2));
            let url = format!("http://127.0.0.1:{port}/soap/endpoint");
            let client = reqwest::Client::builder().timeout(Duration::from_secs(10)).build().unwrap();
            let result: SoapResult<AnswerEnvelope> = rt.block_on(hc::send_using_client(&client, &url, creds.clone(), good.clone()));
            std::thread::sleep(Duration::from_millis(20));
            *stop.lock().unwrap() = true;
            let _ = th.join();
            let rec = rec.lock().unwrap().clone();
            let de_ok = yaserde::de::from_str::<AnswerEnvelope>(&bodies[*bi].1);
            let (rclass, vmatch) = match &result {
                Ok(v) => ("value", de_ok.as_ref().map(|d| d == v).unwrap_or(false)),
                Err(SoapError::Http(_)) => ("http", false),
                Err(SoapError::YaserdeError(_)) => ("yaserde", false),
                Err(SoapError::Restriction(_)) => ("restriction", false),
            };
            let (method, path, auth, body_matches) = match rec.requests.first() {
                Some((m, p, h, b)) => {
                    let a = h.iter().find(|(k, _)| k == "authorization").map(|(_, v)| v.clone());
                    let want = creds.as_ref().map(|(u, p)| format!("Basic {}", b64(format!("{u}:{p}").as_bytes())));
                    let auth = match (&a, &want) {
                        (None, None) => "none",
                        (Some(x), Some(y)) if x == y => "ok",
                        (None, Some(_)) => "missing",
                        _ => "wrong",
                    };
                    (m.clone(), p.clone(), auth, b == expected_body.as_bytes())
                }
                None => ("-".into(), "-".into(), "none", false),
            };
            println!(
                "SCN {name} creds={} status={status} body={} close={close:?} | connections={} requests={} method={method} path={path} auth={auth} body_matches={} result={rclass} de_ok={} value_matches={}",
                u8::from(creds.is_some()), bodies[*bi].0, rec.connections, rec.requests.len(), u8::from(body_matches), u8::from(de_ok.is_ok()), u8::from(vmatch)
            );
        }
        // connection refused: a port nobody listens on
        let port = {
            let l = TcpListener::bind("127.0.0.1:0").unwrap();
            l.local_addr().unwrap().port()
        };
        let client = reqwest::Client::builder().timeout(Duration::from_secs(5)).build().unwrap();
        let result: SoapResult<AnswerEnvelope> = rt.block_on(hc::send_using_client(&client, &format!("http://127.0.0.1:{port}/x"), creds.clone(), good.clone()));
        let rclass = match &result { Ok(_) => "value", Err(SoapError::Http(_)) => "http", Err(SoapError::YaserdeError(_)) => "yaserde", Err(SoapError::Restriction(_)) => "restriction" };
        println!("SCN refused creds={} status=- body=- close=Refused | connections=0 requests=0 method=- path=- auth=none body_matches=0 result={rclass} de_ok=0 value_matches=0", u8::from(creds.is_some()));
        // a request that violates a facet: nothing may reach the listener
        let listener = TcpListener::bind("127.0.0.1:0").unwrap();
        let port = listener.local_addr().unwrap().port();
        let rec = Arc::new(Mutex::new(Recorded::default()));
        let stop = Arc::new(Mutex::new(false));
        let (r2, s2) = (rec.clone(), stop.clone());
        let body = exact.clone().into_bytes();
        let th = std::thread::spawn(move || serve(listener, 200, body, Close::Normal, r2, s2));
        let result: SoapResult<AnswerEnvelope> = rt.block_on(hc::send_using_client(&client, &format!("http://127.0.0.1:{port}/x"), creds.clone(), bad.clone()));
        std::thread::sleep(Duration::from_millis(30));
        *stop.lock().unwrap() = true;
        let _ = th.join();
        let rec = rec.lock().unwrap().clone();
        let rclass = match &result { Ok(_) => "value", Err(SoapError::Http(_)) => "http", Err(SoapError::YaserdeError(_)) => "yaserde", Err(SoapError::Restriction(_)) => "restriction" };
        println!("SCN violating-request creds={} status=200 body=exact close=Normal | connections={} requests={} method=- path=- auth=none body_matches=0 result={rclass} de_ok=1 value_matches=0", u8::from(creds.is_some()), rec.connections, rec.requests.len());
    }
    std::process::ExitCode::SUCCESS
}
