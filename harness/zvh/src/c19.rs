//! C19 probes: bare vs `MultiRef`-wrapped values of a family of probe types, at the root and as a
//! field: serialised text, deserialised Debug text, restriction verdict, clone sharing.
use crate::hc::{
    error::SoapResult,
    multi_ref::MultiRef,
    restrictions::{CheckRestrictions, Restrictions},
};
use std::rc::Rc;
use yaserde_derive::{YaDeserialize, YaSerialize};

#[derive(Debug, Default, Clone, PartialEq, YaSerialize, YaDeserialize)]
#[yaserde(prefix = "p", namespaces = {"p" = "urn:probe"}, rename = "TextOnly")]
pub struct TextOnly {
    #[yaserde(text = true)]
    pub value: String,
}
impl CheckRestrictions for TextOnly {
    fn check_restrictions(&self, _r: Option<Rc<Restrictions>>) -> SoapResult<()> {
        let restrictions = Some(Rc::new(Restrictions { max_length: Some(4), ..Default::default() }));
        self.value.check_restrictions(restrictions)
    }
}

#[derive(Debug, Default, Clone, PartialEq, YaSerialize, YaDeserialize)]
#[yaserde(prefix = "p", namespaces = {"p" = "urn:probe"}, rename = "WithAttrs")]
pub struct WithAttrs {
    #[yaserde(rename = "id", attribute = true)]
    pub id: String,
    #[yaserde(rename = "n", attribute = true)]
    pub n: Option<i32>,
    #[yaserde(prefix = "p", rename = "label")]
    pub label: String,
}
impl CheckRestrictions for WithAttrs {
    fn check_restrictions(&self, r: Option<Rc<Restrictions>>) -> SoapResult<()> {
        self.id.check_restrictions(r.clone())?;
        self.n.check_restrictions(Some(Rc::new(Restrictions { min_inclusive: Some(0), ..Default::default() })))?;
        self.label.check_restrictions(r)
    }
}

#[derive(Debug, Default, Clone, PartialEq, YaSerialize, YaDeserialize)]
#[yaserde(prefix = "p", namespaces = {"p" = "urn:probe", "q" = "urn:other"}, rename = "Nested")]
pub struct Nested {
    #[yaserde(prefix = "p", rename = "head")]
    pub head: WithAttrs,
    #[yaserde(prefix = "q", rename = "opt")]
    pub opt: Option<TextOnly>,
    #[yaserde(prefix = "p", rename = "many")]
    pub many: Vec<WithAttrs>,
    #[yaserde(prefix = "p", rename = "count")]
    pub count: i64,
}
impl CheckRestrictions for Nested {
    fn check_restrictions(&self, r: Option<Rc<Restrictions>>) -> SoapResult<()> {
        self.head.check_restrictions(r.clone())?;
        self.opt.check_restrictions(r.clone())?;
        self.many.check_restrictions(r.clone())?;
        self.count.check_restrictions(r)
    }
}

/// self-referential through the wrapper
#[derive(Debug, Default, Clone, YaSerialize, YaDeserialize)]
#[yaserde(prefix = "p", namespaces = {"p" = "urn:probe"}, rename = "Node")]
pub struct Node {
    #[yaserde(rename = "name", attribute = true)]
    pub name: String,
    #[yaserde(prefix = "p", rename = "child")]
    pub child: Vec<MultiRef<Node>>,
}
impl CheckRestrictions for Node {
    fn check_restrictions(&self, r: Option<Rc<Restrictions>>) -> SoapResult<()> {
        self.name.check_restrictions(Some(Rc::new(Restrictions { min_length: Some(1), ..Default::default() })))?;
        self.child.check_restrictions(r)
    }
}
#[derive(Debug, Default, Clone, YaSerialize, YaDeserialize)]
#[yaserde(prefix = "p", namespaces = {"p" = "urn:probe"}, rename = "Node")]
pub struct NodeBare {
    #[yaserde(rename = "name", attribute = true)]
    pub name: String,
    #[yaserde(prefix = "p", rename = "child")]
    pub child: Vec<NodeBare>,
}
impl CheckRestrictions for NodeBare {
    fn check_restrictions(&self, r: Option<Rc<Restrictions>>) -> SoapResult<()> {
        self.name.check_restrictions(Some(Rc::new(Restrictions { min_length: Some(1), ..Default::default() })))?;
        self.child.check_restrictions(r)
    }
}

macro_rules! holder {
    ($bare:ident, $wrapped:ident, $t:ty) => {
        #[derive(Debug, Default, YaSerialize, YaDeserialize)]
        #[yaserde(prefix = "p", namespaces = {"p" = "urn:probe", "q" = "urn:other"}, rename = "Holder")]
        pub struct $bare {
            #[yaserde(rename = "tag", attribute = true)]
            pub tag: String,
            #[yaserde(prefix = "p", rename = "item")]
            pub item: $t,
            #[yaserde(prefix = "p", rename = "more")]
            pub more: Vec<$t>,
            #[yaserde(prefix = "p", rename = "maybe")]
            pub maybe: Option<$t>,
        }
        #[derive(Debug, Default, YaSerialize, YaDeserialize)]
        #[yaserde(prefix = "p", namespaces = {"p" = "urn:probe", "q" = "urn:other"}, rename = "Holder")]
        pub struct $wrapped {
            #[yaserde(rename = "tag", attribute = true)]
            pub tag: String,
            #[yaserde(prefix = "p", rename = "item")]
            pub item: MultiRef<$t>,
            #[yaserde(prefix = "p", rename = "more")]
            pub more: Vec<MultiRef<$t>>,
            #[yaserde(prefix = "p", rename = "maybe")]
            pub maybe: Option<MultiRef<$t>>,
        }
        impl CheckRestrictions for $bare {
            fn check_restrictions(&self, r: Option<Rc<Restrictions>>) -> SoapResult<()> {
                self.item.check_restrictions(r.clone())?;
                self.more.check_restrictions(r.clone())?;
                self.maybe.check_restrictions(r)
            }
        }
        impl CheckRestrictions for $wrapped {
            fn check_restrictions(&self, r: Option<Rc<Restrictions>>) -> SoapResult<()> {
                self.item.check_restrictions(r.clone())?;
                self.more.check_restrictions(r.clone())?;
                self.maybe.check_restrictions(r)
            }
        }
    };
}
holder!(HoldTextB, HoldTextW, TextOnly);
holder!(HoldAttrsB, HoldAttrsW, WithAttrs);
holder!(HoldNestedB, HoldNestedW, Nested);

/// a flattened member: the derive merges the member's attributes into the holder's start tag through
/// `serialize_attributes`, and inlines its children
#[derive(Debug, Default, YaSerialize, YaDeserialize)]
#[yaserde(prefix = "p", namespaces = {"p" = "urn:probe"}, rename = "Flat")]
pub struct FlatB {
    #[yaserde(rename = "tag", attribute = true)]
    pub tag: String,
    #[yaserde(flatten = true)]
    pub item: WithAttrs,
}
#[derive(Debug, Default, YaSerialize, YaDeserialize)]
#[yaserde(prefix = "p", namespaces = {"p" = "urn:probe"}, rename = "Flat")]
pub struct FlatW {
    #[yaserde(rename = "tag", attribute = true)]
    pub tag: String,
    #[yaserde(flatten = true)]
    pub item: MultiRef<WithAttrs>,
}

/// a value of another namespace, flattened into a holder: its own namespace declarations must reach the holder's start tag
#[derive(Debug, Default, Clone, PartialEq, YaSerialize, YaDeserialize)]
#[yaserde(prefix = "q", namespaces = {"q" = "urn:other"}, rename = "Addr")]
pub struct Addr {
    #[yaserde(rename = "kind", attribute = true)]
    pub kind: String,
    #[yaserde(prefix = "q", rename = "street")]
    pub street: String,
}
impl CheckRestrictions for Addr {
    fn check_restrictions(&self, r: Option<Rc<Restrictions>>) -> SoapResult<()> {
        self.street.check_restrictions(r)
    }
}
#[derive(Debug, Default, YaSerialize, YaDeserialize)]
#[yaserde(prefix = "p", namespaces = {"p" = "urn:probe"}, rename = "Flat2")]
pub struct Flat2B {
    #[yaserde(rename = "tag", attribute = true)]
    pub tag: String,
    #[yaserde(flatten = true)]
    pub item: Addr,
}
#[derive(Debug, Default, YaSerialize, YaDeserialize)]
#[yaserde(prefix = "p", namespaces = {"p" = "urn:probe"}, rename = "Flat2")]
pub struct Flat2W {
    #[yaserde(rename = "tag", attribute = true)]
    pub tag: String,
    #[yaserde(flatten = true)]
    pub item: MultiRef<Addr>,
}

struct Rng(u64);
impl Rng {
    fn next(&mut self) -> u64 {
        self.0 = self.0.wrapping_mul(6364136223846793005).wrapping_add(1442695040888963407);
        self.0 >> 33
    }
    fn below(&mut self, n: u64) -> u64 {
        if n == 0 { 0 } else { self.next() % n }
    }
    fn string(&mut self) -> String {
        let alphabet = ["a", "B", "<", ">", "&", "\"", "'", " ", "é", "日", "7", "]]>", "x y", ""];
        let n = self.below(6);
        (0..n).map(|_| alphabet[self.below(alphabet.len() as u64) as usize]).collect()
    }
    fn text(&mut self) -> TextOnly {
        TextOnly { value: self.string() }
    }
    fn attrs(&mut self) -> WithAttrs {
        WithAttrs {
            id: self.string(),
            n: if self.below(3) == 0 { None } else { Some(self.below(2000) as i32 - 1000) },
            label: self.string(),
        }
    }
    fn nested(&mut self) -> Nested {
        Nested {
            head: self.attrs(),
            opt: if self.below(2) == 0 { None } else { Some(self.text()) },
            many: (0..self.below(4)).map(|_| self.attrs()).collect(),
            count: self.next() as i64 - (1 << 30),
        }
    }
}

fn res(r: SoapResult<()>) -> String {
    match r {
        Ok(()) => "ok".into(),
        Err(e) => format!("err {e}"),
    }
}

fn cmp(name: &str, case: u64, what: &str, a: String, b: String, out: &mut Vec<String>, n: &mut u64) {
    *n += 1;
    if a != b {
        out.push(format!("DIFF {name} case={case} {what} bare=[{}] wrapped=[{}]", a.chars().take(300).collect::<String>(), b.chars().take(300).collect::<String>()));
    }
}

/// the same document with attributes a peer may add to an element (xsi:nil in its lexical forms, an attribute nobody declares),
/// on each of the first three start tags: wrapped and bare must still read it to equal values (or fail alike)
fn decorated(xml: &str) -> Vec<String> {
    const EXTRA: [&str; 5] = [
        " xsi:nil=\"true\" xmlns:xsi=\"http://www.w3.org/2001/XMLSchema-instance\"",
        " xsi:nil=\"1\" xmlns:xsi=\"http://www.w3.org/2001/XMLSchema-instance\"",
        " xsi:nil=\"false\" xmlns:xsi=\"http://www.w3.org/2001/XMLSchema-instance\"",
        " nil=\" true \"",
        " zzUndeclared=\"v\"",
    ];
    let bytes = xml.as_bytes();
    let mut out = Vec::new();
    let mut tags = 0;
    let mut i = 0;
    while i + 1 < bytes.len() && tags < 3 {
        if bytes[i] == b'<' && (bytes[i + 1].is_ascii_alphabetic() || bytes[i + 1] == b'_') {
            let mut j = i + 1;
            while j < bytes.len() && !matches!(bytes[j], b' ' | b'>' | b'/' | b'\n' | b'\t') {
                j += 1;
            }
            for e in EXTRA {
                out.push(format!("{}{}{}", &xml[..j], e, &xml[j..]));
            }
            tags += 1;
        }
        i += 1;
    }
    out
}

/// a sink that accepts `left` bytes and then reports a broken pipe
struct FailAfter {
    left: usize,
}

impl std::io::Write for FailAfter {
    fn write(&mut self, buf: &[u8]) -> std::io::Result<usize> {
        if self.left == 0 {
            return Err(std::io::Error::new(std::io::ErrorKind::BrokenPipe, "sink closed"));
        }
        let n = buf.len().min(self.left);
        self.left -= n;
        Ok(n)
    }
    fn flush(&mut self) -> std::io::Result<()> {
        Ok(())
    }
}

macro_rules! probe {
    ($name:expr, $t:ty, $bare:ident, $wrapped:ident, $gen:expr, $rng:expr, $cases:expr, $out:expr, $n:expr) => {
        for case in 0..$cases {
            let v: $t = $gen;
            // at the root
            let w = MultiRef::new(v.clone());
            cmp($name, case, "root-ser", format!("{:?}", yaserde::ser::to_string(&v)), format!("{:?}", yaserde::ser::to_string(&w)), $out, $n);
            // a write that fails half-way (same outcome for both), and what is written by the next attempt on the same values
            let cut = $rng.below(60) as usize;
            let fa = yaserde::ser::serialize_with_writer(&v, FailAfter { left: cut }, &yaserde::ser::Config::default()).map(|_| ());
            let fb = yaserde::ser::serialize_with_writer(&w, FailAfter { left: cut }, &yaserde::ser::Config::default()).map(|_| ());
            cmp($name, case, "root-ser-failing-sink", format!("{:?}", fa.is_ok()), format!("{:?}", fb.is_ok()), $out, $n);
            cmp($name, case, "root-ser-after-failed-write", format!("{:?}", yaserde::ser::to_string(&v)), format!("{:?}", yaserde::ser::to_string(&w)), $out, $n);
            cmp($name, case, "root-check", res(v.check_restrictions(None)), res(w.check_restrictions(None)), $out, $n);
            cmp($name, case, "root-debug", format!("{v:?}"), format!("{w:?}"), $out, $n);
            if let Ok(xml) = yaserde::ser::to_string(&v) {
                let a = yaserde::de::from_str::<$t>(&xml).map(|x| format!("{x:?}"));
                let b = yaserde::de::from_str::<MultiRef<$t>>(&xml).map(|x| format!("{x:?}"));
                cmp($name, case, "root-de", format!("{a:?}"), format!("{b:?}"), $out, $n);
                for doc in decorated(&xml) {
                    let a = yaserde::de::from_str::<$t>(&doc).map(|x| format!("{x:?}"));
                    let b = yaserde::de::from_str::<MultiRef<$t>>(&doc).map(|x| format!("{x:?}"));
                    cmp($name, case, "root-de-decorated", format!("{a:?}"), format!("{b:?}"), $out, $n);
                }
            }
            // clones share
            let c = w.clone();
            *$n += 1;
            if !std::sync::Arc::ptr_eq(&*w, &*c) {
                $out.push(format!("DIFF {} case={case} clone does not share the value", $name));
            }
            // ... also when the clone is made through `clone_from` (directly, and as an element of a Vec / an Option that is overwritten)
            let mut c2 = MultiRef::new(<$t>::default());
            c2.clone_from(&w);
            *$n += 1;
            if !std::sync::Arc::ptr_eq(&*w, &*c2) {
                $out.push(format!("DIFF {} case={case} clone_from onto an unshared value does not share the source", $name));
            }
            let mut dst = vec![MultiRef::new(<$t>::default()), MultiRef::new(<$t>::default())];
            let src = vec![w.clone()];
            dst.clone_from(&src);
            *$n += 1;
            if dst.len() != 1 || !std::sync::Arc::ptr_eq(&*w, &*dst[0]) {
                $out.push(format!("DIFF {} case={case} Vec::clone_from does not share the values", $name));
            }
            let mut od = Some(MultiRef::new(<$t>::default()));
            od.clone_from(&Some(w.clone()));
            *$n += 1;
            if !od.as_ref().is_some_and(|x| std::sync::Arc::ptr_eq(&*w, &**x)) {
                $out.push(format!("DIFF {} case={case} Option::clone_from does not share the value", $name));
            }
            // as a field (scalar, repeated, optional)
            let more: Vec<$t> = (0..$rng.below(3)).map(|_| $gen).collect();
            let maybe: Option<$t> = if $rng.below(2) == 0 { None } else { Some($gen) };
            let hb = $bare { tag: $rng.string(), item: v.clone(), more: more.clone(), maybe: maybe.clone() };
            let hw = $wrapped {
                tag: hb.tag.clone(),
                item: MultiRef::new(v.clone()),
                more: more.iter().cloned().map(MultiRef::new).collect(),
                maybe: maybe.clone().map(MultiRef::new),
            };
            let sb = yaserde::ser::to_string(&hb);
            cmp($name, case, "field-ser", format!("{sb:?}"), format!("{:?}", yaserde::ser::to_string(&hw)), $out, $n);
            let cut = 20 + $rng.below(120) as usize;
            let _ = yaserde::ser::serialize_with_writer(&hb, FailAfter { left: cut }, &yaserde::ser::Config::default()).map(|_| ());
            let _ = yaserde::ser::serialize_with_writer(&hw, FailAfter { left: cut }, &yaserde::ser::Config::default()).map(|_| ());
            cmp($name, case, "field-ser-after-failed-write", format!("{:?}", yaserde::ser::to_string(&hb)), format!("{:?}", yaserde::ser::to_string(&hw)), $out, $n);
            cmp($name, case, "field-check", res(hb.check_restrictions(None)), res(hw.check_restrictions(None)), $out, $n);
            cmp($name, case, "field-debug", format!("{hb:?}").replace(stringify!($bare), "H"), format!("{hw:?}").replace(stringify!($wrapped), "H"), $out, $n);
            if let Ok(xml) = sb {
                let a = yaserde::de::from_str::<$bare>(&xml).map(|x| format!("{x:?}").replace(stringify!($bare), "H"));
                let b = yaserde::de::from_str::<$wrapped>(&xml).map(|x| format!("{x:?}").replace(stringify!($wrapped), "H"));
                cmp($name, case, "field-de", format!("{a:?}"), format!("{b:?}"), $out, $n);
                for doc in decorated(&xml) {
                    let a = yaserde::de::from_str::<$bare>(&doc).map(|x| format!("{x:?}").replace(stringify!($bare), "H"));
                    let b = yaserde::de::from_str::<$wrapped>(&doc).map(|x| format!("{x:?}").replace(stringify!($wrapped), "H"));
                    cmp($name, case, "field-de-decorated", format!("{a:?}"), format!("{b:?}"), $out, $n);
                }
            }
        }
    };
}

pub fn run(seed: u64, cases: u64) -> std::process::ExitCode {
    let mut rng = Rng(seed.wrapping_mul(0x9E3779B97F4A7C15) | 1);
    let mut out: Vec<String> = vec![];
    let mut n = 0u64;
    probe!("text-only", TextOnly, HoldTextB, HoldTextW, rng.text(), rng, cases, &mut out, &mut n);
    probe!("attributes", WithAttrs, HoldAttrsB, HoldAttrsW, rng.attrs(), rng, cases, &mut out, &mut n);
    probe!("nested", Nested, HoldNestedB, HoldNestedW, rng.nested(), rng, cases, &mut out, &mut n);
    // flattened member (serialize_attributes)
    for case in 0..cases {
        let v = rng.attrs();
        let tag = rng.string();
        let fb = FlatB { tag: tag.clone(), item: v.clone() };
        let fw = FlatW { tag, item: MultiRef::new(v) };
        let sb = yaserde::ser::to_string(&fb);
        cmp("flattened", case, "ser", format!("{sb:?}"), format!("{:?}", yaserde::ser::to_string(&fw)), &mut out, &mut n);
        if let Ok(xml) = sb {
            let a = yaserde::de::from_str::<FlatB>(&xml).map(|x| format!("{x:?}").replace("FlatB", "F"));
            let b = yaserde::de::from_str::<FlatW>(&xml).map(|x| format!("{x:?}").replace("FlatW", "F"));
            cmp("flattened", case, "de", format!("{a:?}"), format!("{b:?}"), &mut out, &mut n);
        }
    }
    // flattened member of another namespace (the member's namespace declarations travel through serialize_attributes)
    for case in 0..cases {
        let v = Addr { kind: rng.string(), street: rng.string() };
        let tag = rng.string();
        let fb = Flat2B { tag: tag.clone(), item: v.clone() };
        let fw = Flat2W { tag, item: MultiRef::new(v) };
        let sb = yaserde::ser::to_string(&fb);
        cmp("flattened-other-namespace", case, "ser", format!("{sb:?}"), format!("{:?}", yaserde::ser::to_string(&fw)), &mut out, &mut n);
        if let Ok(xml) = sb {
            let a = yaserde::de::from_str::<Flat2B>(&xml).map(|x| format!("{x:?}").replace("Flat2B", "F"));
            let b = yaserde::de::from_str::<Flat2W>(&xml).map(|x| format!("{x:?}").replace("Flat2W", "F"));
            cmp("flattened-other-namespace", case, "de", format!("{a:?}"), format!("{b:?}"), &mut out, &mut n);
        }
    }
    // self-referential trees
    for case in 0..cases {
        fn tree(rng: &mut Rng, depth: u64) -> (Node, NodeBare) {
            let name = rng.string();
            let k = if depth == 0 { 0 } else { rng.below(3) };
            let mut cw = vec![];
            let mut cb = vec![];
            for _ in 0..k {
                let (w, b) = tree(rng, depth - 1);
                cw.push(MultiRef::new(w));
                cb.push(b);
            }
            (Node { name: name.clone(), child: cw }, NodeBare { name, child: cb })
        }
        let (w, b) = tree(&mut rng, 3);
        let sb = yaserde::ser::to_string(&b);
        cmp("self-referential", case, "ser", format!("{sb:?}"), format!("{:?}", yaserde::ser::to_string(&w)), &mut out, &mut n);
        cmp("self-referential", case, "check", res(b.check_restrictions(None)), res(w.check_restrictions(None)), &mut out, &mut n);
        cmp("self-referential", case, "debug", format!("{b:?}").replace("NodeBare", "Node"), format!("{w:?}"), &mut out, &mut n);
        if let Ok(xml) = sb {
            let a = yaserde::de::from_str::<NodeBare>(&xml).map(|x| format!("{x:?}").replace("NodeBare", "Node"));
            let c = yaserde::de::from_str::<Node>(&xml).map(|x| format!("{x:?}"));
            cmp("self-referential", case, "de", format!("{a:?}"), format!("{c:?}"), &mut out, &mut n);
        }
    }
    // a long self-referential chain: a wrapped value is read from any document depth the bare value is read from
    for depth in [40usize, 70, 100, 150] {
        let mut w = Node { name: "leaf".into(), child: vec![] };
        let mut b = NodeBare { name: "leaf".into(), child: vec![] };
        for i in 0..depth {
            w = Node { name: format!("n{i}"), child: vec![MultiRef::new(w)] };
            b = NodeBare { name: format!("n{i}"), child: vec![b] };
        }
        let sb = yaserde::ser::to_string(&b);
        cmp("deep-chain", depth as u64, "ser", format!("{sb:?}"), format!("{:?}", yaserde::ser::to_string(&w)), &mut out, &mut n);
        if let Ok(xml) = sb {
            let a = yaserde::de::from_str::<NodeBare>(&xml).map(|x| format!("{x:?}").replace("NodeBare", "Node"));
            let c = yaserde::de::from_str::<Node>(&xml).map(|x| format!("{x:?}"));
            cmp("deep-chain", depth as u64, "de", format!("{a:?}"), format!("{c:?}"), &mut out, &mut n);
        }
    }
    // histories: the same shared value (and a clone of it) checked several times with changing restriction sets;
    // every answer must be the bare value's answer for that set, whatever was asked before
    for case in 0..cases {
        let text = rng.string();
        let num = (rng.below(41) as i32) - 20;
        let (ws, wn) = (MultiRef::new(text.clone()), MultiRef::new(num));
        let (cs, cn) = (ws.clone(), wn.clone());
        for step in 0..4 {
            let rs: Option<Rc<Restrictions>> = match rng.below(4) {
                0 => None,
                1 => Some(Rc::new(Restrictions { max_length: Some(rng.below(6) as usize), ..Default::default() })),
                2 => Some(Rc::new(Restrictions { min_length: Some(rng.below(6) as usize), ..Default::default() })),
                _ => Some(Rc::new(Restrictions { enumeration: Some(vec![text.clone(), "other".into()][(rng.below(2) as usize)..].to_vec()), ..Default::default() })),
            };
            let rn: Option<Rc<Restrictions>> = match rng.below(3) {
                0 => None,
                1 => Some(Rc::new(Restrictions { max_inclusive: Some((rng.below(41) as i32) - 20), ..Default::default() })),
                _ => Some(Rc::new(Restrictions { min_exclusive: Some((rng.below(41) as i32) - 20), ..Default::default() })),
            };
            let what = format!("history-step{step}");
            cmp("history-string", case, &what, res(text.check_restrictions(rs.clone())), res(ws.check_restrictions(rs.clone())), &mut out, &mut n);
            cmp("history-string-clone", case, &what, res(text.check_restrictions(rs.clone())), res(cs.check_restrictions(rs)), &mut out, &mut n);
            cmp("history-int", case, &what, res(num.check_restrictions(rn.clone())), res(wn.check_restrictions(rn.clone())), &mut out, &mut n);
            cmp("history-int-clone", case, &what, res(num.check_restrictions(rn.clone())), res(cn.check_restrictions(rn)), &mut out, &mut n);
        }
    }
    // Default
    n += 1;
    if format!("{:?}", MultiRef::<Nested>::default()) != format!("{:?}", Nested::default()) {
        out.push("DIFF default".into());
    }
    for l in &out {
        println!("{l}");
    }
    println!("COMPARISONS {n} DIFFS {}", out.len());
    std::process::ExitCode::SUCCESS
}
