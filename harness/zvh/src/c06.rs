//! C06 differential: one request per stdin line
//!   carrier|mi|ma|me|mx|len|minl|maxl|enum|value      ->   ok | err <message>
use crate::hc::{
    error::SoapError,
    restrictions::{CheckRestrictions, Restrictions},
};
use std::{io::BufRead, rc::Rc};

fn unhex(s: &str) -> Option<String> {
    if s.len() % 2 != 0 {
        return None;
    }
    let bytes: Option<Vec<u8>> = (0..s.len() / 2)
        .map(|i| u8::from_str_radix(&s[2 * i..2 * i + 2], 16).ok())
        .collect();
    String::from_utf8(bytes?).ok()
}

fn opt<T: std::str::FromStr>(s: &str) -> Option<Option<T>> {
    if s == "-" {
        Some(None)
    } else {
        s.parse::<T>().ok().map(Some)
    }
}

fn show(r: Result<(), SoapError>) -> String {
    match r {
        Ok(()) => "ok".to_string(),
        Err(SoapError::Restriction(m)) => format!("err {m}"),
        Err(e) => format!("err-other {e}"),
    }
}

fn check<T: CheckRestrictions>(v: &T, r: &Option<Rc<Restrictions>>) -> String {
    show(v.check_restrictions(r.clone()))
}

fn parse_base<T: std::str::FromStr>(val: &str) -> Option<T> {
    val.parse::<T>().ok()
}

macro_rules! carriers {
    ($carrier:expr, $val:expr, $r:expr, $($name:literal => $t:ty),*) => {
        match $carrier {
            $(
                $name => parse_base::<$t>($val).map(|v| check(&v, $r)),
                concat!("Option<", $name, ">") => {
                    if $val == "none" { Some(check(&None::<$t>, $r)) }
                    else { $val.strip_prefix("some:").and_then(parse_base::<$t>).map(|v| check(&Some(v), $r)) }
                }
                concat!("Vec<", $name, ">") => {
                    let items: Option<Vec<$t>> = if $val.is_empty() { Some(vec![]) } else { $val.split(',').map(parse_base::<$t>).collect() };
                    items.map(|v| check(&v, $r))
                }
            )*
            _ => None,
        }
    };
}

fn eval(line: &str) -> String {
    let f: Vec<&str> = line.trim_end_matches(['\n', '\r']).split('|').collect();
    if f.len() != 10 {
        return "bad-line".into();
    }
    let r: Option<Rc<Restrictions>> = if f[1] == "none" {
        None
    } else {
        let build = || -> Option<Restrictions> {
            Some(Restrictions {
                min_inclusive: opt(f[1])?,
                max_inclusive: opt(f[2])?,
                min_exclusive: opt(f[3])?,
                max_exclusive: opt(f[4])?,
                length: opt(f[5])?,
                min_length: opt(f[6])?,
                max_length: opt(f[7])?,
                enumeration: if f[8] == "-" {
                    None
                } else {
                    Some(f[8].split(',').map(unhex).collect::<Option<Vec<String>>>()?)
                },
            })
        };
        match build() {
            Some(r) => Some(Rc::new(r)),
            None => return "bad-restrictions".into(),
        }
    };
    let carrier = f[0];
    let val = f[9];
    // String-family carriers carry hex text
    let out = match carrier {
        "String" => unhex(val).map(|s| check(&s, &r)),
        "Option<String>" => {
            if val == "none" {
                Some(check(&None::<String>, &r))
            } else {
                val.strip_prefix("some:").and_then(unhex).map(|s| check(&Some(s), &r))
            }
        }
        "Vec<String>" => {
            let items: Option<Vec<String>> = if val.is_empty() {
                Some(vec![])
            } else {
                val.split(',').map(unhex).collect()
            };
            items.map(|v| check(&v, &r))
        }
        _ => carriers!(carrier, val, &r,
            "i8" => i8, "u8" => u8, "i16" => i16, "u16" => u16, "i32" => i32, "u32" => u32,
            "i64" => i64, "u64" => u64, "f32" => f32, "f64" => f64, "bool" => bool),
    };
    out.unwrap_or_else(|| "bad-value".into())
}

pub fn run() -> std::process::ExitCode {
    let stdin = std::io::stdin();
    let mut out = String::new();
    for line in stdin.lock().lines() {
        let Ok(line) = line else { break };
        out.push_str(&eval(&line));
        out.push('\n');
    }
    print!("{out}");
    std::process::ExitCode::SUCCESS
}
