import ZeepVerif.Driver.C06Spec

def main (args : List String) : IO UInt32 := do
  match args with
  | ["c06"] => ZeepVerif.Driver.C06Spec.main; return 0
  | _ => IO.eprintln "usage: zvspec c06 < lines"; return 2
