import ZeepVerif.Driver.C06Spec
import ZeepVerif.Driver.SpecGen

def main (args : List String) : IO UInt32 := do
  match args with
  | ["c06"] => ZeepVerif.Driver.C06Spec.main; return 0
  | ["gen", seed, count, root] => ZeepVerif.Driver.SpecGen.main seed.toNat! count.toNat! root
  | ["gencyc", seed, count, root] => ZeepVerif.Driver.SpecGen.main seed.toNat! count.toNat! root true
  | ["genwsdl", seed, count, root] => ZeepVerif.Driver.SpecGen.main seed.toNat! count.toNat! root false false true
  | ["genwsdlcollide", seed, count, root] => ZeepVerif.Driver.SpecGen.main seed.toNat! count.toNat! root false true true
  | ["genwsdlmulti", seed, count, root] => ZeepVerif.Driver.SpecGen.main seed.toNat! count.toNat! root false false true true
  | ["genplain", seed, count, root] => ZeepVerif.Driver.SpecGen.main seed.toNat! count.toNat! root false false false false false true
  | ["gentopo", seed, count, root] => ZeepVerif.Driver.SpecGen.main seed.toNat! count.toNat! root false false false false true
  | ["gencollide", seed, count, root] => ZeepVerif.Driver.SpecGen.main seed.toNat! count.toNat! root false true
  | _ => IO.eprintln "usage: zvspec c06 < lines"; return 2
