import ZeepVerif.Driver.C06

def main (args : List String) : IO UInt32 := do
  match args with
  | ["c06"] => ZeepVerif.Driver.C06.main; return 0
  | _ => IO.eprintln "usage: zvdrv c06 < lines"; return 2
