import ZeepVerif.Driver.C06
import ZeepVerif.Driver.Gen
import ZeepVerif.Driver.HttpDrv
import ZeepVerif.Driver.YaDrv
import ZeepVerif.Driver.ReadDrv
import ZeepVerif.Driver.DocDump

def main (args : List String) : IO UInt32 := do
  match args with
  | ["c06"] => ZeepVerif.Driver.C06.main; return 0
  | ["model", dump, start, out] => ZeepVerif.Driver.Gen.main dump start out
  | ["modelbatch"] => ZeepVerif.Driver.Gen.batch
  | ["shapes", dump] => ZeepVerif.Driver.Gen.shapes dump
  | ["progof", dump, start] => ZeepVerif.Driver.YaDrv.progofMain dump start
  | ["plainfile"] => ZeepVerif.Driver.ReadDrv.main
  | ["docdump"] => ZeepVerif.Driver.DocDump.main
  | ["ya"] => ZeepVerif.Driver.YaDrv.main; return 0
  | ["http"] => ZeepVerif.Driver.HttpDrv.main; return 0
  | _ => IO.eprintln "usage: zvdrv c06 < lines"; return 2
