import ZeepVerif.Runtime.Prelude
import ZeepVerif.Generated.Restrictions
