/-
`Ya`: an executable model of what `#[derive(YaSerialize, YaDeserialize)]` (yaserde 0.12 / yaserde_derive 0.12 /
xml-rs 0.8) does for the attribute shapes zeep emits — struct-level `prefix`/`namespaces`/`rename`, field-level
`prefix`/`rename`/`attribute`/`text`/`flatten`, member types `T`/`Option<T>`/`Vec<T>` — at the level of XML
trees (DESIGN.md appendix A is the review copy of the rules). This is an *environment* model: the crates are
not verified; on every run the model's prediction (deserialise an instance, serialise it again) is compared
with what the real crates do with the compiled emitted types on the same instance.

Imports nothing outside core, so the driver links.
-/
import ZeepVerif.Runtime.Prelude

namespace ZeepVerif.Ya
open ZeepVerif.Runtime

/-! ### programs: the derive input, abstractly -/

inductive PrimTy where
  | string | bool | int (ty : String) | float
deriving Repr, DecidableEq, Inhabited

/-- `FromStr` followed by `Display`: the text a primitive value is written back as; `none` when it does not
    parse. Floating point text is opaque here (instances keep floats in the form `Display` prints). -/
def PrimTy.norm : PrimTy → String → Option String
  | .string, s => some s
  | .bool, s =>
    if s == "true" || s == "1" then some "true" else if s == "false" || s == "0" then some "false" else none
  | .int ty, s =>
    match parseInt ty s with
    | .ok v => some (toString v)
    | .error _ => none
  | .float, s => some s

inductive Leaf where
  | prim (t : PrimTy)
  | struct (name : String)
deriving Repr, DecidableEq, Inhabited

inductive Wrap where
  | one | opt | vec
deriving Repr, DecidableEq, Inhabited

inductive Kind where
  | elem | attr | text | flatten
deriving Repr, DecidableEq, Inhabited

structure FieldD where
  kind : Kind
  pfx : Option String
  rename : String
  wrap : Wrap
  leaf : Leaf
deriving Repr, DecidableEq, Inhabited

structure StructD where
  name : String                        -- how other structs refer to it (module-qualified Rust path)
  pfx : Option String
  nss : List (String × String)         -- `namespaces = { prefix = uri }`, sorted by prefix (a BTreeMap)
  rename : String
  fields : List FieldD
deriving Repr, DecidableEq, Inhabited

abbrev Prog := List StructD

def Prog.find (P : Prog) (n : String) : Option StructD := List.find? (fun s => s.name == n) P

def nsLookup (nss : List (String × String)) (p : String) : Option String :=
  (nss.find? (fun kv => kv.1 == p)).map (·.2)

/-- the namespace a field's label denotes for its struct: `prefix_namespace`, `""` when there is none -/
def StructD.fieldNs (sd : StructD) (f : FieldD) : String :=
  match f.pfx with
  | some p => (nsLookup sd.nss p).getD ""
  | none => ""

/-! ### values -/

mutual
/-- a value of a leaf type: the text of a primitive, or a struct with one item list per field (in field
    order; a required member has one item, an `Option` at most one, a `Vec` any number) -/
inductive Val where
  | prim (s : String)
  | struct (name : String) (fs : FVals)
inductive FVals where
  | nil
  | cons (items : Vals) (rest : FVals)
inductive Vals where
  | nil
  | cons (v : Val) (rest : Vals)
end

instance : Inhabited Val := ⟨.prim ""⟩

mutual
/-- structural equality of values, as a Boolean (the mutual inductive has no derived `DecidableEq`) -/
def Val.beq : Val → Val → Bool
  | .prim a, .prim b => a == b
  | .struct n fs, .struct n' fs' => n == n' && fs.beq fs'
  | .prim _, .struct _ _ => false
  | .struct _ _, .prim _ => false
def FVals.beq : FVals → FVals → Bool
  | .nil, .nil => true
  | .cons a r, .cons b r' => a.beq b && r.beq r'
  | .nil, .cons _ _ => false
  | .cons _ _, .nil => false
def Vals.beq : Vals → Vals → Bool
  | .nil, .nil => true
  | .cons a r, .cons b r' => a.beq b && r.beq r'
  | .nil, .cons _ _ => false
  | .cons _ _, .nil => false
end

def Vals.ofList : List Val → Vals
  | [] => .nil
  | v :: vs => .cons v (Vals.ofList vs)

def Vals.toList : Vals → List Val
  | .nil => []
  | .cons v vs => v :: vs.toList

def FVals.ofList : List Vals → FVals
  | [] => .nil
  | v :: vs => .cons v (FVals.ofList vs)

def FVals.toList : FVals → List Vals
  | .nil => []
  | .cons v vs => v :: vs.toList

def Vals.append : Vals → Vals → Vals
  | .nil, b => b
  | .cons v a, b => .cons v (a.append b)

def Vals.last? : Vals → Option Val
  | .nil => none
  | .cons v .nil => some v
  | .cons _ r => r.last?

/-! ### XML trees -/

mutual
/-- the serialiser's output: prefixed names, the `xmlns:` declarations written on each element, attributes
    `(prefix?, local, value)`, character data (absent when empty: xml-rs writes no event for `""`), children -/
inductive PX where
  | elem (pfx : Option String) (lname : String) (decls : List (String × String))
      (attrs : List (Option String × String × String)) (text : Option String) (kids : PXs)
inductive PXs where
  | nil
  | cons (x : PX) (rest : PXs)
end

mutual
/-- what the deserialiser is given by the XML reader: namespace-resolved element names, attributes by local
    name, character data, children -/
inductive RX where
  | elem (ns : Option String) (lname : String) (attrs : List (String × String)) (text : Option String) (kids : RXs)
inductive RXs where
  | nil
  | cons (x : RX) (rest : RXs)
end

instance : Inhabited RX := ⟨.elem none "" [] none .nil⟩
instance : Inhabited PX := ⟨.elem none "" [] [] none .nil⟩

def PXs.append : PXs → PXs → PXs
  | .nil, b => b
  | .cons x a, b => .cons x (a.append b)

def RXs.append : RXs → RXs → RXs
  | .nil, b => b
  | .cons x a, b => .cons x (a.append b)

def RXs.toList : RXs → List RX
  | .nil => []
  | .cons x r => x :: r.toList

def RXs.ofList : List RX → RXs
  | [] => .nil
  | x :: r => .cons x (RXs.ofList r)

def PX.text : PX → Option String
  | .elem _ _ _ _ t _ => t

/-- the character data of each element of a list (`""` for none) -/
def PXs.texts : PXs → List String
  | .nil => []
  | .cons x r => (x.text.getD "") :: r.texts

def PXs.toList : PXs → List PX
  | .nil => []
  | .cons x r => x :: r.toList

def RX.ns : RX → Option String
  | .elem ns .. => ns
def RX.lname : RX → String
  | .elem _ l .. => l
def RX.attrs : RX → List (String × String)
  | .elem _ _ a .. => a
def RX.text : RX → Option String
  | .elem _ _ _ t _ => t
def RX.kids : RX → RXs
  | .elem _ _ _ _ k => k

/-- attribute-value normalisation: xml-rs writes tab, line feed and carriage return unescaped inside
    attribute values, and a reader turns each of them into a space -/
def attrNorm (s : String) : String :=
  String.ofList (s.toList.map fun c => if c == '\t' || c == '\n' || c == '\r' then ' ' else c)

/-- every prefixed attribute name uses a prefix that is in scope -/
def attrsBound (env : List (String × String)) (attrs : List (Option String × String × String)) : Bool :=
  attrs.all (fun a => match a.1 with | none => true | some p => (nsLookup env p).isSome)

/-! what an XML reader does with prefixes: `env` are the bindings in scope (nearest first); an element's own
    declarations come first. `none` = some prefix in use is not declared (not namespace-well-formed). -/
mutual
def resolve (env : List (String × String)) : PX → Option RX
  | .elem pfx l decls attrs text kids =>
    let env' := decls ++ env
    let ns? : Option (Option String) := match pfx with
      | none => some none
      | some p => (nsLookup env' p).map some
    match ns? with
    | none => none
    | some ns =>
      if attrsBound env' attrs then
        match resolveList env' kids with
        | some ks => some (.elem ns l (attrs.map (fun a => (a.2.1, attrNorm a.2.2))) text ks)
        | none => none
      else none
def resolveList (env : List (String × String)) : PXs → Option RXs
  | .nil => some .nil
  | .cons x r =>
    match resolve env x, resolveList env r with
    | some x', some r' => some (.cons x' r')
    | _, _ => none
end

/-! ### serialisation -/

def txt (s : String) : Option String := if s.isEmpty then none else some s

/-- the text items of an attribute or text member -/
def primTexts : Vals → Option (List String)
  | .nil => some []
  | .cons (.prim s) r => (primTexts r).map (s :: ·)
  | .cons (.struct ..) _ => none

structure Parts where
  attrs : List (Option String × String × String) := []
  text : Option String := none
  kids : PXs := .nil

def Parts.merge (a b : Parts) : Parts :=
  { attrs := a.attrs ++ b.attrs, text := (match a.text with | some t => some t | none => b.text), kids := a.kids.append b.kids }

mutual
/-- one element for one item of an element member, labelled by the parent (`label = (prefix?, local)`) -/
def serVal (P : Prog) (label : Option String × String) : Leaf → Val → Option PX
  | .prim _, .prim s => some (.elem label.1 label.2 [] [] (txt s) .nil)
  | .struct n, .struct n' fs =>
    if n == n' then
      match P.find n with
      | some sd =>
        match serFields P sd.fields fs with
        | some parts => some (.elem label.1 label.2 sd.nss parts.attrs parts.text parts.kids)
        | none => none
      | none => none
    else none
  | .prim _, .struct _ _ => none
  | .struct _, .prim _ => none
/-- attributes, character data and children contributed by the members of a struct, in field order -/
def serFields (P : Prog) : List FieldD → FVals → Option Parts
  | [], .nil => some {}
  | [], .cons _ _ => none
  | _ :: _, .nil => none
  | f :: fds, .cons items rest =>
    match serFields P fds rest with
    | none => none
    | some tail =>
      match f.kind with
      | .attr =>
        -- the field's prefix is kept on the attribute name; absent `Option` is omitted; a member whose type is
        -- a struct (a simple-type wrapper) is written as that struct's text content
        ((serItems P (none, "") f.leaf items).map PXs.texts).map fun ts => Parts.merge { attrs := ts.map (fun t => (f.pfx, f.rename, t)) } tail
      | .text =>
        ((serItems P (none, "") f.leaf items).map PXs.texts).map fun ts => Parts.merge { text := txt (String.join ts) } tail
      | .elem =>
        (serItems P (f.pfx, f.rename) f.leaf items).map fun ks => Parts.merge { kids := ks } tail
      | .flatten =>
        -- the wrapped struct's members inline. zeep flattens only simple-type wrappers (a `text` member, or a
        -- further flattened wrapper): what they contribute is their character data
        ((serItems P (none, "") f.leaf items).map PXs.texts).map fun ts => Parts.merge { text := txt (String.join ts) } tail
def serItems (P : Prog) (label : Option String × String) (leaf : Leaf) : Vals → Option PXs
  | .nil => some .nil
  | .cons v r =>
    match serVal P label leaf v, serItems P label leaf r with
    | some x, some xs => some (.cons x xs)
    | _, _ => none
end

/-- the `xmlns:` declarations an element of this leaf type carries itself -/
def declsOf (P : Prog) : Leaf → List (String × String)
  | .struct n => (match P.find n with | some sd => sd.nss | none => [])
  | .prim _ => []

/-- `yaserde::ser::to_string(&v)` for a value of struct `n`: the root element is `prefix:rename` -/
def serRoot (P : Prog) (n : String) (v : Val) : Option PX :=
  match P.find n with
  | some sd => serVal P (sd.pfx, sd.rename) (.struct n) v
  | none => none

/-! ### deserialisation -/

/-- the element members (not attribute, not flatten, not text) with their position -/
def elemKey (sd : StructD) (f : FieldD) : String × String := (sd.fieldNs f, f.rename)

def RX.key (x : RX) : String × String := (x.ns.getD "", x.lname)

/-- index of the first element member that claims a child with this key -/
def firstOwner (sd : StructD) (key : String × String) : List FieldD → Nat → Option Nat
  | [], _ => none
  | f :: fs, i => if f.kind == .elem && elemKey sd f == key then some i else firstOwner sd key fs (i + 1)

def wrapItems (w : Wrap) (items : Vals) : Option Vals :=
  match w with
  | .vec => some items
  | .opt => some (match items.last? with | some v => .cons v .nil | none => .nil)
  | .one => match items.last? with | some v => some (.cons v .nil) | none => none   -- "… is a required field of …"

/-- at document depth 0 an element that has a namespace must have the struct's own -/
def rootNsOk (sd : StructD) (ns : Option String) : Bool :=
  match ns with
  | none => true
  | some u => match sd.pfx with
    | some p => sd.nss.any (fun kv => kv.1 == p && kv.2 == u)
    | none => false

/-- attribute member: matched on the local name only; a value that does not parse is an error -/
def deAttr (f : FieldD) (attrs : List (String × String)) : Option Vals :=
  let raw := (attrs.filter (fun a => a.1 == f.rename)).map (·.2)
  match f.leaf with
  | .prim t =>
    raw.foldr (fun s acc => match acc, t.norm s with
      | some vs, some s' => some (Vals.cons (.prim s') vs)
      | _, _ => none) (some .nil)
  | .struct _ => none

/-- the items of an attribute member whose type is a wrapper struct: every attribute value is parsed (by `step`)
    as the content of that struct; one failure fails the whole -/
def foldAttrStruct (n : String) (step : String → Option FVals) (raw : List String) : Option Vals :=
  raw.foldr (fun s acc => match acc, step s with
    | some vs, some fs => some (Vals.cons (.struct n fs) vs)
    | _, _ => none) (some .nil)

/-- text member: the element's character data; none at all leaves the member unset -/
def deText (f : FieldD) (text : Option String) : Option Vals :=
  match f.leaf with
  | .prim t =>
    (match text with
     | none => some .nil
     | some s => match t.norm s with
       | some s' => some (.cons (.prim s') .nil)
       | none => none)
  | .struct _ => none

/-- the members of one struct from an element's attributes, character data and the children its element
    members claimed (`claimed`: owner position and value, in document order). A `flatten` member is re-parsed
    from the same element as the wrapped struct (with that struct's document-level namespace check); the
    wrapped struct sees no children here — zeep only flattens simple-type wrappers. `fuel` bounds the
    length of a chain of flattened wrappers. -/
def assemble (P : Prog) (ns : Option String) (attrs : List (String × String)) (text : Option String) :
    Nat → List FieldD → Nat → List (Nat × Val) → Option FVals
  | 0, _, _, _ => none
  | _ + 1, [], _, _ => some .nil
  | fuel + 1, f :: rest, i, claimed =>
    let items? : Option Vals :=
      match f.kind with
      | .attr =>
        (match f.leaf with
         | .prim _ => deAttr f attrs
         | .struct n =>
           -- the attribute value is parsed as the content of the wrapper struct (`visit_str`)
           match P.find n with
           | none => none
           | some inner =>
             foldAttrStruct n (fun s => assemble P none [] (txt s) fuel inner.fields 0 [])
               ((attrs.filter (fun a => a.1 == f.rename)).map (·.2)))
      | .text => deText f text
      | .elem => some (Vals.ofList ((claimed.filter (fun c => c.1 == i)).map (·.2)))
      | .flatten =>
        match f.leaf with
        | .struct n =>
          match P.find n with
          | none => none
          | some inner =>
            if rootNsOk inner ns then
              match assemble P ns attrs text fuel inner.fields 0 [] with
              | some fs => some (.cons (.struct n fs) .nil)
              | none => none
            else none
        | .prim _ => none
    match items? with
    | none => none
    | some items =>
      match wrapItems f.wrap items, assemble P ns attrs text (fuel + 1) rest (i + 1) claimed with
      | some its, some more => some (.cons its more)
      | _, _ => none

mutual
/-- deserialise one element as a value of `leaf`; `none` is the `Err(..)` of the real code.
    A primitive child without character data, or whose text does not parse, is *skipped* (result `some none`). -/
def deVal (P : Prog) (leaf : Leaf) : RX → Option (Option Val)
  | .elem ns _ attrs text kids =>
    match leaf with
    | .prim t =>
      match text with
      | none => some none
      | some s => match t.norm s with
        | some s' => some (some (.prim s'))
        | none => some none
    | .struct n =>
      match P.find n with
      | none => none
      | some sd =>
        match deKids P sd kids with
        | none => none
        | some claimed =>
          match assemble P ns attrs text (P.length + sd.fields.length + 2) sd.fields 0 claimed with
          | some fs => some (some (.struct n fs))
          | none => none
/-- the event loop over the children: each child is given to the first element member that claims its
    `(namespace, local name)`; a child nobody claims is skipped with its subtree -/
def deKids (P : Prog) (sd : StructD) : RXs → Option (List (Nat × Val))
  | .nil => some []
  | .cons k rest =>
    match deKids P sd rest with
    | none => none
    | some more =>
      match firstOwner sd (RX.key k) sd.fields 0 with
      | none => some more
      | some i =>
        match sd.fields[i]? with
        | none => some more
        | some f =>
          match deVal P f.leaf k with
          | none => none
          | some none => some more
          | some (some v) => some ((i, v) :: more)
end

/-- `yaserde::de::from_str::<T>` for struct `n` -/
def deRoot (P : Prog) (n : String) (x : RX) : Option Val :=
  match P.find n with
  | none => none
  | some sd =>
    if rootNsOk sd x.ns then
      match deVal P (.struct n) x with
      | some (some v) => some v
      | _ => none
    else none

end ZeepVerif.Ya
