/-
The derive input of the structs the binding writer emits for one direction of an operation (`write_soap_operation`):
`XEnvelope { header?, body }`, `XEnvelopeBody { <the bound body element> }`, `XEnvelopeHeader { <one optional member per
bound header part> }`.
-/
import ZeepVerif.Ya.OfDoc

namespace ZeepVerif.Ya
open ZeepVerif.Model

def soapenvUri : String := "http://schemas.xmlsoap.org/soap/envelope/"

/-- the `namespaces = { … }` every envelope struct declares: `soapenv` and every target namespace of the document -/
def soapNss (tns : List Ns) : List (String × String) :=
  ("soapenv", soapenvUri) :: tns.map (fun n => (n.abbreviation, n.uri))

def partLeaf (n : RNode) (xmlName : String) : Leaf :=
  .struct (qual (n.inNs.map (·.rustModName)) (xmlNameToRustName xmlName))

/-- `XEnvelopeBody` -/
def bodyStructOf (envelopeName : String) (env : Envelope) (tns : List Ns) : Option StructD :=
  env.body.rtype.xmlName.map fun xmlName =>
    { name := envelopeName ++ "Body",
      pfx := env.body.inNs.map (·.abbreviation),
      nss := soapNss tns,
      rename := (match env.body.inNs with | some _ => envelopeName ++ "Body" | none => "Envelope"),
      fields := [{ kind := .elem, pfx := env.body.inNs.map (·.abbreviation), rename := xmlName, wrap := .one,
                   leaf := partLeaf env.body xmlName }] }

/-- `XEnvelopeHeader` -/
def headerStructOf (envelopeName : String) (env : Envelope) (tns : List Ns) : Option StructD :=
  (env.headers.mapM fun (ph : String × RNode) =>
    ph.2.rtype.xmlName.map fun xmlName =>
      ({ kind := .elem, pfx := ph.2.inNs.map (·.abbreviation), rename := xmlName, wrap := .opt, leaf := partLeaf ph.2 xmlName } : FieldD)).map fun fs =>
    { name := envelopeName ++ "Header", pfx := some "soapenv", nss := soapNss tns, rename := envelopeName ++ "Header", fields := fs }

/-- `XEnvelope` -/
def envelopeStructOf (envelopeName : String) (env : Envelope) (tns : List Ns) : StructD :=
  { name := envelopeName, pfx := some "soapenv", nss := soapNss tns, rename := "Envelope",
    fields := (if env.headers.isEmpty then [] else
        [{ kind := .elem, pfx := some "soapenv", rename := "Header", wrap := .one, leaf := .struct (envelopeName ++ "Header") }]) ++
      [{ kind := .elem, pfx := some "soapenv", rename := "Body", wrap := .one, leaf := .struct (envelopeName ++ "Body") }] }

end ZeepVerif.Ya
