/-
From the generator's document (`Model.Doc`) to the derive input of the yaserde model (`Ya.Prog`): which struct
with which yaserde attributes the writer emits for every complex type, simple type and anonymous-typed
element. `spellField` / `spellStruct` say how such a derive input is spelled as `#[yaserde(..)]` text; the
theorems in `Lemmas/YaOfDoc.lean` show that the writer model writes exactly that spelling, and the harness
compares `progOf` of the model's document with what `syn` reads from the real emitted file.
-/
import ZeepVerif.Model.Emit
import ZeepVerif.Ya.Model

namespace ZeepVerif.Ya
open ZeepVerif.Model

def primOf : FType → Option PrimTy
  | .string => some .string
  | .bool => some .bool
  | .f32 => some .float
  | .f64 => some .float
  | .i8 => some (.int "i8") | .i16 => some (.int "i16") | .i32 => some (.int "i32") | .i64 => some (.int "i64")
  | .u8 => some (.int "u8") | .u16 => some (.int "u16") | .u32 => some (.int "u32") | .u64 => some (.int "u64")
  | .other .. => none

def qual (modName : Option String) (n : String) : String :=
  match modName with
  | some m => m ++ "::" ++ n
  | none => n

/-- the leaf of a member type written inside module `modName` -/
def leafOf (modName : Option String) (t : FType) : Leaf :=
  match primOf t with
  | some p => .prim p
  | none =>
    match t with
    | .other name (some m) => .struct (m ++ "::" ++ name)
    | .other name none => .struct (qual modName name)
    | _ => .prim .string

def wrapOf (f : Field) : Wrap := if f.isVec then .vec else if f.isOptional || f.isChoice then .opt else .one

/-- `impl WriteXml for Field` -/
def fieldOf (modName : Option String) (f : Field) : FieldD :=
  { kind := if f.isAttribute then .attr else .elem,
    pfx := if f.isAttribute then none else f.tns.map (·.abbreviation),
    rename := f.xmlName, wrap := wrapOf f, leaf := leafOf modName f.rustType }

/-- `write_complex_type` -/
def structOfComplex (modName : Option String) (p : CProps) : StructD :=
  { name := qual modName (xmlNameToRustName p.xmlName),
    pfx := p.tns.map (·.abbreviation),
    nss := (match p.tns with
      | some t => (usedNamespaces t p.fields).map (fun n => (n.abbreviation, n.uri))
      | none => []),
    rename := (match p.tns with | some _ => p.xmlName | none => xmlNameToRustName p.xmlName),
    fields := p.fields.map (fieldOf modName) }

/-- `write_type_alias` (the wrapper struct of a simple type) -/
def structOfSimple (modName : Option String) (p : SProps) : StructD :=
  let rustName := xmlNameToRustName p.xmlName
  { name := qual modName rustName,
    pfx := p.tns.map (·.abbreviation),
    nss := (match p.tns with | some t => [(t.abbreviation, t.uri)] | none => []),
    rename := (match p.tns with | some _ => p.xmlName | none => rustName),
    fields := [
      if p.rustType.isString then { kind := .text, pfx := none, rename := "value", wrap := .one, leaf := .prim .string }
      else if p.rustType.isOther then { kind := .flatten, pfx := none, rename := "value", wrap := .one, leaf := leafOf modName p.rustType }
      else { kind := .text, pfx := none, rename := "value", wrap := .one, leaf := .prim .string } ] }

/-- the structs a node contributes (`impl WriteXml for RustNode`) -/
def structsOfNode (n : RNode) : List StructD :=
  let m := n.inNs.map (·.rustModName)
  match n.rtype with
  | .complex p => [structOfComplex m p]
  | .simple p =>
    if aliasIsNoop p.rustType (xmlNameToRustName p.xmlName) && !inOtherModule p.rustType (p.tns.map (·.rustModName)) then []
    else [structOfSimple m p]
  | .element { etype := .complex cp, .. } => [structOfComplex m cp]
  | _ => []

/-- `pub type X = T;` items: alias name ↦ the leaf it stands for -/
def aliasesOfNode (n : RNode) : List (String × Leaf) :=
  let m := n.inNs.map (·.rustModName)
  match n.rtype with
  | .element { xmlName := xn, etype := .rustType t } =>
    let rustName := xmlNameToRustName xn
    if (writeNode n).isEmpty then [] else [(qual m rustName, leafOf m t)]
  | _ => []

def resolveAlias (aliases : List (String × Leaf)) : Nat → Leaf → Leaf
  | 0, l => l
  | fuel + 1, .struct n =>
    match aliases.find? (fun a => a.1 == n) with
    | some a => resolveAlias aliases fuel a.2
    | none => .struct n
  | _, l => l

/-- the derive input of every wire struct of the schema part of a document (SOAP envelopes are C05's) -/
def progOf (d : Doc) : Prog :=
  let aliases := d.nodes.flatMap aliasesOfNode
  (d.nodes.flatMap structsOfNode).map fun sd =>
    { sd with fields := sd.fields.map fun f => { f with leaf := resolveAlias aliases (aliases.length + 1) f.leaf } }

/-! ### spelling -/

/-- the `#[yaserde(..)]` line of a member -/
def spellField (f : FieldD) : String :=
  let attrHeader := if f.kind == .attr then ", attribute = true" else ""
  match f.pfx with
  | some p => "    #[yaserde(prefix = " ++ rustDebugStr p ++ ", rename = " ++ rustDebugStr f.rename ++ attrHeader ++ ")]\n"
  | none => "    #[yaserde(rename = " ++ rustDebugStr f.rename ++ attrHeader ++ ")]\n"

/-- the `#[yaserde(..)]` line of a struct that has a namespace -/
def spellStruct (sd : StructD) : String :=
  "#[yaserde(prefix = " ++ rustDebugStr (sd.pfx.getD "") ++ ", namespaces = {" ++
    ", ".intercalate (sd.nss.map (fun kv => rustDebugStr kv.1 ++ " = " ++ rustDebugStr kv.2)) ++ "}, rename = " ++
    rustDebugStr sd.rename ++ ")]\n"

end ZeepVerif.Ya
