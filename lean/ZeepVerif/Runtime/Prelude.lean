/-
Runtime prelude: the target calculus of the Rust→Lean translator (`zv extract`) and the
hand transcriptions of the few `std` functions the translated code calls.
Imports nothing outside core, so the driver can be linked as a `lean_exe`.
-/
namespace ZeepVerif.Runtime

/-- `SoapResult<()>`: `Ok(())` or `Err(SoapError::Restriction(msg))`; `"*"` = message computed at run time. -/
inductive Res where
  | ok
  | err (msg : String)
deriving Repr, DecidableEq, Inhabited

def Res.isOk : Res → Bool
  | .ok => true
  | .err _ => false

/-- Outcome of a statement: fall through to the next one, or return from the function. -/
inductive Flow where
  | cont
  | ret (r : Res)
deriving Repr, DecidableEq, Inhabited

def Flow.seq : Flow → Flow → Flow
  | .cont, b => b
  | .ret r, _ => .ret r

/-- `E?;` for `E : SoapResult<()>` -/
def Flow.ofRes : Res → Flow
  | .ok => .cont
  | .err m => .ret (.err m)

/-- A function body that falls off its end without a value cannot type-check in Rust
    (`SoapResult<()>` ≠ `()`); the translator never produces it for accepted code. We map it to an
    error so that it can never make a theorem true by accident. -/
def Flow.run : Flow → Res
  | .ret r => r
  | .cont => .err "<fell off the end>"

/-- `for x in xs { body }` where the body may return early -/
def forEach {α : Type} : List α → (α → Flow) → Flow
  | [], _ => .cont
  | x :: xs, f => Flow.seq (f x) (forEach xs f)

/-- inclusive range of a Rust integer type, by name -/
def intRange : String → Int × Int
  | "i8" => (-128, 127)
  | "u8" => (0, 255)
  | "i16" => (-32768, 32767)
  | "u16" => (0, 65535)
  | "i32" => (-2147483648, 2147483647)
  | "u32" => (0, 4294967295)
  | "i64" => (-9223372036854775808, 9223372036854775807)
  | "u64" => (0, 18446744073709551615)
  | "i128" => (-170141183460469231731687303715884105728, 170141183460469231731687303715884105727)
  | "u128" => (0, 340282366920938463463374607431768211455)
  | "usize" => (0, 18446744073709551615)
  | "isize" => (-9223372036854775808, 9223372036854775807)
  | _ => (0, -1)

def inRange (ty : String) (v : Int) : Prop := (intRange ty).1 ≤ v ∧ v ≤ (intRange ty).2

instance (ty : String) (v : Int) : Decidable (inRange ty v) := by unfold inRange; exact inferInstance

def intBound (ty : String) (which : String) : Int :=
  if which = "MAX" then (intRange ty).2 else (intRange ty).1

/-- `T::try_from(v)` for integer `T`: fails exactly outside `T`'s range -/
def intTryFrom (ty : String) (v : Int) : Except String Int :=
  if inRange ty v then .ok v else .error "out of range integral type conversion attempted"

def digitVal? (c : Char) : Option Nat :=
  if '0' ≤ c ∧ c ≤ '9' then some (c.toNat - '0'.toNat) else none

/-- value of a non-empty all-ASCII-digit list, `none` when empty or a non-digit occurs -/
def digitsVal? : List Char → Option Nat
  | [] => none
  | cs => cs.foldl (fun acc c => match acc, digitVal? c with
      | some a, some d => some (a * 10 + d)
      | _, _ => none) (some 0)

/-- value of `[+-]?[0-9]+` (the lexical space of XSD `integer`, and the grammar Rust's integer
    `FromStr` accepts for signed types); unbounded -/
def lexInt (s : String) : Option Int :=
  match s.toList with
  | [] => none
  | '+' :: ds => (digitsVal? ds).map Int.ofNat
  | '-' :: ds => (digitsVal? ds).map (fun n => - Int.ofNat n)
  | ds => (digitsVal? ds).map Int.ofNat

/-- `str::parse::<T>()` for a Rust integer type (core::num `from_str_radix`, radix 10):
    optional single `+` (any type) or `-` (signed types; for unsigned types `-` is an invalid digit),
    then at least one ASCII digit; error on overflow of `T`. Error kinds are not distinguished. -/
def parseInt (ty : String) (s : String) : Except String Int :=
  match lexInt s with
  | none => .error "invalid digit found in string"
  | some v =>
    if s.toList.head? = some '-' ∧ ¬ ((intRange ty).1 < 0) then .error "invalid digit found in string"
    else if inRange ty v then .ok v
    else .error "number too large or too small to fit in target type"

end ZeepVerif.Runtime
