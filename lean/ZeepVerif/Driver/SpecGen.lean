/- `zvspec gen <seed> <count> <outroot>`: write `count` generated schema sets (seed, seed+1, …) as
   directories `<outroot>/c<i>/` holding the XML files, `meta.txt` and the reference observation `ref.obs`. -/
import ZeepVerif.Spec.Gen

namespace ZeepVerif.Driver.SpecGen
open ZeepVerif.Spec

/-- member names of every struct pairwise distinct (the NamesSeparated clause the generator cannot
    guarantee by construction, because inherited members are only known after elaboration) -/
def namesSeparated (s : SchemaSet) : Bool :=
  let lines := Ref.structLines s
  let fields := lines.filterMap fun l =>
    match l.splitOn "\t" with
    | "FIELD" :: u :: st :: _ :: name :: _ => some (u ++ "\t" ++ st, name)
    | _ => none
  fields.all fun (k, n) => (fields.filter (fun x => x.1 == k && x.2 == n)).length == 1

partial def genWF (seed : Nat) (cyclic small : Bool) (tries : Nat) : SchemaSet × Nat :=
  let s := Gen.run (seed * 1000 + tries) cyclic small
  if namesSeparated s || tries > 50 then (s, tries) else genWF seed cyclic small (tries + 1)

def features (s : SchemaSet) : List String :=
  let comps := s.files.flatMap (·.comps)
  let hasExt := comps.any fun c => match c with
    | .complexType _ d _ => d.base.isSome
    | .elementAnon _ d => d.base.isSome
    | _ => false
  let selfImport := s.files.zipIdx.any fun (f, i) => f.imports.contains i
  let cyc := s.files.zipIdx.any fun (f, i) => f.imports.any fun j => j > i
  [s!"ns={s.uris.length}", s!"comps={comps.length}"] ++ (if hasExt then ["ext"] else []) ++
  (if selfImport then ["selfimport"] else []) ++ (if cyc then ["cycle"] else []) ++
  (if (Ref.reachable s).length < s.files.length then ["unreachable"] else [])

def writeCase (root : String) (idx : Nat) (seed : Nat) (cyclic small : Bool) : IO Unit := do
  let (s, tries) := genWF seed cyclic small 0
  let dir := s!"{root}/c{idx}"
  IO.FS.createDirAll s!"{dir}/in"
  for f in s.files do
    IO.FS.writeFile s!"{dir}/in/{f.fileName}" (renderFile s f)
  let startName := ((s.files[s.start]?).map (·.fileName)).getD ""
  IO.FS.writeFile s!"{dir}/meta.txt" (s!"start={startName}\nseed={seed}\ntries={tries}\nfeatures={" ".intercalate (features s)}\n" ++
    String.join (s.uris.map (fun u => s!"uri={u}\n")) ++
    String.join ((Ref.reachable s).map (fun i => s!"reachable={((s.files[i]?).map (·.fileName)).getD ""}\n")))
  IO.FS.writeFile s!"{dir}/ref.obs" (String.join ((Ref.structLines s).map (· ++ "\n")))

def main (seed count : Nat) (root : String) (cyclic : Bool := false) (small : Bool := false) : IO UInt32 := do
  for i in [0:count] do
    writeCase root i (seed + i) cyclic small
  return 0

end ZeepVerif.Driver.SpecGen
