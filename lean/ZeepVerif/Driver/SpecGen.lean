/- `zvspec gen <seed> <count> <outroot>`: write `count` generated schema sets (seed, seed+1, …) as
   directories `<outroot>/c<i>/` holding the XML files, `meta.txt` and the reference observation `ref.obs`. -/
import ZeepVerif.Spec.Gen
import ZeepVerif.Spec.Instance
import ZeepVerif.Spec.ToX
import ZeepVerif.Driver.Util

namespace ZeepVerif.Driver.SpecGen
open ZeepVerif.Spec

/-- member names of every struct pairwise distinct (the NamesSeparated clause the generator cannot
    guarantee by construction, because inherited members are only known after elaboration) -/
def namesSeparated (s : SchemaSet) : Bool :=
  let lines := Ref.structLines s
  let fields := lines.filterMap fun l =>
    match l.splitOn "\t" with
    | "FIELD" :: u :: st :: _ :: name :: _ => some (u ++ "\t" ++ st, name)
    | _ => none
  fields.all fun (k, n) => (fields.filter (fun x => x.1 == k && x.2 == n)).length == 1

partial def genWF (seed : Nat) (cyclic small : Bool) (tries : Nat) (wsdl : Bool := false) (multi : Bool := false) (topo : Bool := false) (plain : Bool := false) : SchemaSet × Nat :=
  let s := if plain then Gen.runPlain (seed * 1000 + tries) else if topo then Gen.runTopo (seed * 1000 + tries) else if wsdl then Gen.runWsdl (seed * 1000 + tries) small multi else Gen.run (seed * 1000 + tries) cyclic small
  if namesSeparated s || tries > 50 then (s, tries) else genWF seed cyclic small (tries + 1) wsdl multi topo plain

def features (s : SchemaSet) : List String :=
  let comps := s.files.flatMap (·.comps)
  let hasExt := comps.any fun c => match c with
    | .complexType _ d _ => d.base.isSome
    | .elementAnon _ d => d.base.isSome
    | _ => false
  let selfImport := s.files.zipIdx.any fun (f, i) => f.imports.contains i
  let cyc := s.files.zipIdx.any fun (f, i) => f.imports.any fun j => j > i
  [s!"ns={s.uris.length}", s!"comps={comps.length}"] ++
  (match s.wsdl with
   | some w => [s!"ops={w.ops.length}"] ++ (if w.ops.any (·.output.isNone) then ["oneway"] else []) ++
       (if w.ops.any (fun o => !o.input.headers.isEmpty) then ["headers"] else []) ++
       (if w.ops.any (fun o => o.input.bodyParts.isNone) then ["implicitbody"] else [])
   | none => []) ++ (if hasExt then ["ext"] else []) ++
  (if s.files.any (fun f => f.prefixes.any (fun p => p.2.isEmpty)) then ["defaultns"] else []) ++
  (if s.files.any (·.xsdDefault) then ["xsddefault"] else []) ++
  (if s.files.any (fun f => (s.files.filter (fun g => g.tns == f.tns)).length > 1) then ["splitnamespace"] else []) ++
  (if s.files.any (fun f => f.imports.any (fun j => !f.prefixes.any (fun p => p.1 == j))) then ["silentimport"] else []) ++
  (if selfImport then ["selfimport"] else []) ++ (if cyc then ["cycle"] else []) ++
  (if (Ref.reachable s).length < s.files.length then ["unreachable"] else [])

/-- the same document in another spelling that every XML parser reads to the same tree: white space around the `=` of attributes,
    a line break before a value, a space before `/>`. (Quotes inside values and text are escaped by `xmlEsc`, so `="` only ever
    occurs as attribute syntax.) The spelling is drawn from the seed; half of the inputs keep the plain one. -/
def syntaxStyle (seed : Nat) (text : String) : String :=
  match seed % 4 with
  | 2 => text.replace "=\"" " = \""
  | 3 => (text.replace "=\"" "=\n      \"").replace "/>" " />"
  | _ => text

def writeCase (root : String) (idx : Nat) (seed : Nat) (cyclic small : Bool) (wsdl : Bool := false) (multi : Bool := false) (topo : Bool := false) (plain : Bool := false) : IO Unit := do
  let (s, tries) := genWF seed cyclic small 0 wsdl multi topo plain
  let dir := s!"{root}/c{idx}"
  IO.FS.createDirAll s!"{dir}/in"
  for (f, i) in s.files.zipIdx do
    match s.wsdl with
    | some w => if i == w.schemaFile then IO.FS.writeFile s!"{dir}/in/{w.fileName}" (syntaxStyle (seed + i) (renderWsdl s w))
                else IO.FS.writeFile s!"{dir}/in/{f.fileName}" (syntaxStyle (seed + i) (renderFile s f))
    | none => IO.FS.writeFile s!"{dir}/in/{f.fileName}" (syntaxStyle (seed + i) (renderFile s f))
  let startName := match s.wsdl with
    | some w => w.fileName
    | none => ((s.files[s.start]?).map (fun (f : SchemaFile) => f.fileName)).getD ""
  IO.FS.writeFile s!"{dir}/meta.txt" (s!"start={startName}\nseed={seed}\ntries={tries}\nfeatures={" ".intercalate (features s)}\n" ++
    String.join (s.uris.map (fun u => s!"uri={u}\n")) ++
    String.join ((Ref.reachable s).map (fun i => s!"reachable={((s.files[i]?).map (·.fileName)).getD ""}\n")))
  -- instance documents: schema-valid ones (C03/C04) and ones with facet violations mixed in (C07)
  let instLines (violate : Nat) (per : Nat) (sd : Nat) : String :=
    let (is, _) := (Inst.instances { s := s, violatePct := violate } per).run { seed := seed * 7919 + sd }
    String.join (is.zipIdx.map fun (i, k) =>
      s!"INST\t{k}\t{i.uri}\t{i.typeName}\tvalid={if i.valid then 1 else 0}\t{ZeepVerif.Driver.hex i.xml}\n")
  IO.FS.writeFile s!"{dir}/inst.txt" (instLines 0 3 1)
  IO.FS.writeFile s!"{dir}/inst7.txt" (instLines 60 4 2)
  -- the XML trees the theorems speak about (Spec.toX), to be compared with the real parse of the printed text
  let shapeLines := s.files.flatMap fun f => f.comps.filterMap fun c =>
    let content (n : String) (d : ComplexDef) : Option String := d.content.map fun (o, ps) =>
      let fname := match s.wsdl with
        | some w => if (s.files[w.schemaFile]?).map (fun (g : SchemaFile) => g.fileName) == some f.fileName then w.fileName else f.fileName
        | none => f.fileName
      s!"SHAPE\t{fname}\t{n}\t{(XNode.elem "sequence" (occAttrs o) [] none (particlesToX f ps)).shape}"
    match c with
    | .complexType n d _ => content n d
    | .elementAnon n d => content n d
    | _ => none
  -- whole complex types without base and documentation (`ComplexDef.toX`, the tree of `c02_type_read_matches_reference`)
  let typeLines := s.files.flatMap fun f => f.comps.filterMap fun c =>
    let fname := match s.wsdl with
      | some w => if (s.files[w.schemaFile]?).map (fun (g : SchemaFile) => g.fileName) == some f.fileName then w.fileName else f.fileName
      | none => f.fileName
    match c with
    | .complexType n d none => if d.base.isNone then some s!"TSHAPE\t{fname}\t{n}\t{(d.toX f n []).shape}" else none
    | _ => none
  IO.FS.writeFile s!"{dir}/shapes.txt" (String.join ((shapeLines ++ typeLines).map (· ++ "\n")))
  IO.FS.writeFile s!"{dir}/ref.obs" (String.join ((Ref.structLines s ++ Ref.wsdlLines s).map (· ++ "\n")))

def main (seed count : Nat) (root : String) (cyclic : Bool := false) (small : Bool := false) (wsdl : Bool := false) (multi : Bool := false) (topo : Bool := false) (plain : Bool := false) : IO UInt32 := do
  for i in [0:count] do
    writeCase root i (seed + i) cyclic small wsdl multi topo plain
  return 0

end ZeepVerif.Driver.SpecGen
