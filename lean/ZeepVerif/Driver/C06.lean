/- Model driver for C06/C07: evaluates the *generated* restriction checks on request lines.
   line:  carrier|mi|ma|me|mx|len|minl|maxl|enum|value        reply: ok | err MSG                  -/
import ZeepVerif.Generated.Restrictions
import ZeepVerif.Driver.Util

namespace ZeepVerif.Driver.C06
open ZeepVerif.Runtime ZeepVerif.Generated ZeepVerif.Driver

def showRes : Res → String
  | .ok => "ok"
  | .err m => "err " ++ m

def parseRestr (fs : List String) : Option (Option Restr.Restrictions) :=
  match fs with
  | [mi, ma, me, mx, len, minl, maxl, en] =>
    if mi = "none" then some none else do
      let mi ← optInt? mi; let ma ← optInt? ma; let me ← optInt? me; let mx ← optInt? mx
      let len ← optInt? len; let minl ← optInt? minl; let maxl ← optInt? maxl
      let en ← if en = "-" then some none
               else ((en.splitOn ",").mapM (fun h => if h = "" then some "" else unhex? h)).map some
      pure (some { min_inclusive := mi, max_inclusive := ma, min_exclusive := me, max_exclusive := mx,
                   length := len, min_length := minl, max_length := maxl, enumeration := en })
  | _ => none

def evalBase (carrier : String) (r : Option Restr.Restrictions) (val : String) : Option Res :=
  match carrier with
  | "i8" => val.toInt?.map (Restr.check_i8 r)
  | "u8" => val.toInt?.map (Restr.check_u8 r)
  | "i16" => val.toInt?.map (Restr.check_i16 r)
  | "u16" => val.toInt?.map (Restr.check_u16 r)
  | "i32" => val.toInt?.map (Restr.check_i32 r)
  | "u32" => val.toInt?.map (Restr.check_u32 r)
  | "i64" => val.toInt?.map (Restr.check_i64 r)
  | "u64" => val.toInt?.map (Restr.check_u64 r)
  | "f32" => some (Restr.check_f32 r 0.0)
  | "f64" => some (Restr.check_f64 r 0.0)
  | "bool" => some (Restr.check_bool r (val = "true"))
  | "String" => (unhex? val).map (Restr.check_String r)
  | _ => none

def evalLine (line : String) : String :=
  match fields line with
  | carrier :: rest =>
    if rest.length ≠ 9 then "bad-line" else
    match parseRestr (rest.take 8) with
    | none => "bad-restrictions"
    | some r =>
      let val := rest.getD 8 ""
      let out : Option Res :=
        if carrier.startsWith "Option<" then
          let inner := ((carrier.drop 7).dropEnd 1).toString
          if val = "none" then
            some (Restr.check_Option (C := Unit) (fun _ _ => Res.ok) r none)
          else
            -- the generated Option impl applied to `some x`, with x's own (generated) check
            (evalBase inner r ((val.drop 5).toString)).map fun m =>
              Restr.check_Option (C := Unit) (fun _ _ => m) r (some ())
        else if carrier.startsWith "Vec<" then
          let inner := ((carrier.drop 4).dropEnd 1).toString
          let items := if val = "" then [] else val.splitOn ","
          -- the generated Vec impl run over the per-item (generated) verdicts, in order
          (items.mapM (evalBase inner r)).map fun rs => Restr.check_Vec (C := Res) (fun _ x => x) r rs
        else evalBase carrier r val
      match out with
      | some m => showRes m
      | none => "bad-value"
  | _ => "bad-line"

def main : IO Unit := do
  forLines (← IO.getStdin) fun line => IO.println (evalLine line)

end ZeepVerif.Driver.C06
