/- Oracle driver for C06: evaluates XSD facet semantics (`Spec.Facets`) only — it does not import any
   generated definition, so it still builds when the translation of the code does not.
   line:  carrier|mi|ma|me|mx|len|minl|maxl|enum|value        reply: ok | err | na                -/
import ZeepVerif.Spec.Facets
import ZeepVerif.Driver.Util

namespace ZeepVerif.Driver.C06Spec
open ZeepVerif.Runtime ZeepVerif.Spec ZeepVerif.Driver

/-- `none` = no restriction set at all -/
def parseFacets (fs : List String) : Option (Option Facets) :=
  match fs with
  | [mi, ma, me, mx, len, minl, maxl, en] =>
    if mi = "none" then some none else do
      let mi ← optInt? mi; let ma ← optInt? ma; let me ← optInt? me; let mx ← optInt? mx
      let len ← optInt? len; let minl ← optInt? minl; let maxl ← optInt? maxl
      let en ← if en = "-" then some none
               else ((en.splitOn ",").mapM (fun h => if h = "" then some "" else unhex? h)).map some
      pure (some { minInclusive := mi, maxInclusive := ma, minExclusive := me, maxExclusive := mx,
                   length := len, minLength := minl, maxLength := maxl, enumeration := en })
  | _ => none

def intCarriers : List String := ["i8", "u8", "i16", "u16", "i32", "u32", "i64", "u64"]

def specBase (carrier : String) (f : Option Facets) (val : String) : Option String :=
  if intCarriers.contains carrier then
    val.toInt?.map fun v => match f with
      | none => "ok"
      | some f => if f.satIntB v then "ok" else "err"
  else if carrier = "f32" || carrier = "f64" || carrier = "bool" then some "ok"
  else if carrier = "String" then
    (unhex? val).map fun s => match f with
      | none => "ok"
      | some f =>
        -- outside the guard of c06_string (numeral beyond 128 bits under a numeric facet): "na"
        match lexInt s with
        | some v => if f.hasNumericB && !(decide (inRange "i128" v)) then "na"
                    else if f.satStringB s then "ok" else "err"
        | none => if f.satStringB s then "ok" else "err"
  else none

def combine (rs : List String) : String :=
  if rs.any (· = "na") then "na" else if rs.all (· = "ok") then "ok" else "err"

def evalLine (line : String) : String :=
  match fields line with
  | carrier :: rest =>
    if rest.length ≠ 9 then "bad-line" else
    match parseFacets (rest.take 8) with
    | none => "bad-restrictions"
    | some f =>
      let val := rest.getD 8 ""
      let out : Option String :=
        if carrier.startsWith "Option<" then
          let inner := ((carrier.drop 7).dropEnd 1).toString
          if val = "none" then some "ok" else specBase inner f ((val.drop 5).toString)
        else if carrier.startsWith "Vec<" then
          let inner := ((carrier.drop 4).dropEnd 1).toString
          let items := if val = "" then [] else val.splitOn ","
          (items.mapM (specBase inner f)).map combine
        else specBase carrier f val
      out.getD "bad-value"
  | _ => "bad-line"

def main : IO Unit := do
  forLines (← IO.getStdin) fun line => IO.println (evalLine line)

end ZeepVerif.Driver.C06Spec
