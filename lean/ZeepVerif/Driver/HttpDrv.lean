/- `zvdrv http`: the helper model's verdict per scenario line
   `<checkOk 0|1> <serOk 0|1> <creds 0|1> <refused|closed|STATUS> <bodyReadable 0|1> <deOk 0|1>` →
   `<outcome> sends=<n> auth=<0|1> post=<0|1>` -/
import ZeepVerif.Model.Http
import ZeepVerif.Driver.Util

namespace ZeepVerif.Driver.HttpDrv
open ZeepVerif.Model.Http ZeepVerif.Driver

def outcomeName : Outcome → String
  | .value => "value" | .errRestriction => "restriction" | .errYaserde => "yaserde" | .errHttp => "http"
  | .unmodelled => "unmodelled" | .fellOff => "fell-off"

def evalLine (line : String) : String :=
  match fields line " " with
  | [ck, se, cr, tr, br, de] =>
    let t : Option Transport :=
      if tr = "refused" then some .refused else if tr = "closed" then some .closed
      else tr.toNat?.map (fun s => Transport.response s (br = "1"))
    match t with
    | none => "bad-line"
    | some t =>
      let (o, st) := call { checkOk := ck = "1", serOk := se = "1", creds := cr = "1", transport := t, deOk := de = "1" }
      s!"{outcomeName o} sends={st.sends} auth={if st.authSet then 1 else 0} post={if st.postBuilt then 1 else 0}"
  | _ => "bad-line"

def main : IO Unit := do
  forLines (← IO.getStdin) fun line => IO.println (evalLine line)

end ZeepVerif.Driver.HttpDrv
