/- `zvdrv plainfile`: stdin lines `<dump>\t<start>`; per line: does the start file meet the decidable hypothesis of
   `c02_file_read` (`plainFileB`), and — executed, as a cross-check of the closed form the theorem states — does the
   reader model's result equal that closed form. Output: `plain=<0|1|-> closed=<ok|differs|-> files=<n>`, then
   `tok=<0|1>`: the decidable hypothesis `tableOKB` of the termination theorem (`Props/C13All`) on the same parse. -/
import ZeepVerif.Lemmas.ReadDecide
import ZeepVerif.Lemmas.ReadDecideX
import ZeepVerif.Lemmas.ReadDecideG
import ZeepVerif.Lemmas.ReadGraph
import ZeepVerif.Lemmas.DepthFile
import ZeepVerif.Driver.Util

namespace ZeepVerif.Driver.ReadDrv
open ZeepVerif ZeepVerif.Model ZeepVerif.Lemmas.ReadFile ZeepVerif.Lemmas.ReadDecide ZeepVerif.Lemmas.ReadComp
open ZeepVerif.Lemmas.ReadExt ZeepVerif.Lemmas.ReadDecideX ZeepVerif.Lemmas.ReadImport ZeepVerif.Lemmas.ReadDecideG ZeepVerif.Lemmas.ReadGraph

def evalOne (files : List XFile) (start : String) : String :=
  match files with
  | [xf] =>
    if xf.name != start then s!"plain=- closed=- files=1"
    else if coveredFileXB xf then
      match xf.tops with
      | some [schema] =>
        let tns := (schema.attr? "targetNamespace").getD ""
        let d := fileDoc schema tns
        let expected := nodesFrom d [schema] schema.kids d.nodes
        match readXml [xf] xf.name with
        | .ok got =>
          if got.nodes == expected && got.lookup == d.lookup && got.namespaces == d.namespaces &&
             got.targetNamespaces == d.targetNamespaces && got.current == d.current then
            (if plainFileB xf then "plain=1 closed=ok files=1" else if coveredFileB xf then "plain=1 closed=ok files=1 general"
             else "plain=1 closed=ok files=1 derivation")
          else "plain=1 closed=differs files=1"
        | .error e => "plain=1 closed=differs:" ++ e.name ++ " files=1"
      | _ => "plain=1 closed=differs files=1"
    else "plain=0 closed=- files=1"
  | _ =>
    -- several registered files: the pure reader for import graphs (`c11_graph_read`), nesting depth up to 40
    match readFileG (fileTable files) 40 start [] [] { processed := [] } with
    | some (expected, _) =>
      let leaf := if startFileB files start then " one-level" else ""
      match readXml files start with
      | .ok got =>
        if got.nodes == expected.nodes && got.lookup == expected.lookup && got.namespaces == expected.namespaces &&
           got.targetNamespaces == expected.targetNamespaces && got.current == expected.current then
          s!"plain=1 closed=ok files={files.length} imports{leaf}"
        else s!"plain=1 closed=differs files={files.length} imports"
      | .error e => s!"plain=1 closed=differs:{e.name} files={files.length} imports"
    | none => s!"plain=0 closed=- files={files.length}"

def main : IO UInt32 := do
  forLines (← IO.getStdin) fun line => do
    match (line.dropEndWhile (· == '\n')).toString.splitOn "\t" with
    | [dump, start] =>
      let content ← IO.FS.readFile dump
      let (files, _) := Dump.parse content
      IO.println (evalOne files start ++ (if ZeepVerif.Lemmas.DepthFile.tableOKB files then " tok=1" else " tok=0"))
    | _ => IO.println "bad-line"
  return 0

end ZeepVerif.Driver.ReadDrv
