/- `zvdrv ya`: the yaserde environment model on programs and instance documents supplied by the harness.

   stdin (tab separated; texts hex-encoded UTF-8, `-` = absent):
     `S <name> <prefix|-> <rename> <p=uri;p=uri…  (each side hex)>`       start a struct
     `F <kind elem|attr|text|flatten> <prefix|-> <rename> <wrap one|opt|vec> <leaf>`   one member; leaf = `P:string` `P:bool`
                                                                          `P:float` `P:int:<ty>` `S:<struct name hex>`
     `T <id> <root struct name hex>`                                      start an instance tree
     `N <depth> <ns|-> <local> <text|-> <k> <attr-local> <attr-value> …`  its elements in document order
     `RUN`                                                                deserialise, serialise again, resolve
     `RESET`                                                              forget the program
   stdout, per `RUN`: `R <id> ok fix=<same|differs|error> declared=<0|1> core=<0|1> okval=<0|1>` followed by `N …` lines of
   the result and `END`, or `R <id> <error class>` and `END`. `declared` / `core` / `okval` are the decidable hypotheses
   of the theorems in Props/C03Ya, C04Ya evaluated on this program and on the deserialised value. -/
import ZeepVerif.Ya.Model
import ZeepVerif.Ya.OfDoc
import ZeepVerif.Lemmas.YaWf
import ZeepVerif.Lemmas.YaRt
import ZeepVerif.Driver.Util

namespace ZeepVerif.Driver.YaDrv
open ZeepVerif.Ya ZeepVerif.Driver

def un (s : String) : String := if s == "-" then "" else (unhex? s).getD ""
def unOpt (s : String) : Option String := if s == "-" then none else unhex? s

def parseLeaf (s : String) : Leaf :=
  match s.splitOn ":" with
  | ["P", "string"] => .prim .string
  | ["P", "bool"] => .prim .bool
  | ["P", "float"] => .prim .float
  | ["P", "int", ty] => .prim (.int ty)
  | ["S", n] => .struct (un n)
  | _ => .prim .string

def parseKind : String → Kind
  | "attr" => .attr | "text" => .text | "flatten" => .flatten | _ => .elem

def parseWrap : String → Wrap
  | "opt" => .opt | "vec" => .vec | _ => .one

def parseNss (s : String) : List (String × String) :=
  if s == "-" || s.isEmpty then [] else
  (s.splitOn ";").filterMap fun kv =>
    match kv.splitOn "=" with
    | [k, v] => some (un k, un v)
    | _ => none

/-- a flat element record of the instance, in document order with its depth -/
structure Flat where
  depth : Nat
  ns : Option String
  lname : String
  text : Option String
  attrs : List (String × String)

partial def pairs : List String → List (String × String)
  | a :: b :: r => (un a, un b) :: pairs r
  | _ => []

/-- rebuild the tree from the pre-order list: children of the element at `depth` are the following records
    of depth `depth + 1` up to the next record of depth ≤ `depth` -/
partial def build (depth : Nat) : List Flat → List RX × List Flat
  | [] => ([], [])
  | f :: rest =>
    if f.depth < depth then ([], f :: rest)
    else if f.depth > depth then ([], f :: rest)   -- malformed: stop
    else
      let (kids, rest') := build (depth + 1) rest
      let (sibs, rest'') := build depth rest'
      (RX.elem f.ns f.lname f.attrs f.text (RXs.ofList kids) :: sibs, rest'')

partial def emit (depth : Nat) : RX → List String
  | .elem ns l attrs text kids =>
    let h (s : String) := hex s
    ("N\t" ++ toString depth ++ "\t" ++ (match ns with | some u => h u | none => "-") ++ "\t" ++ h l ++ "\t" ++
      (match text with | some t => h t | none => "-") ++ "\t" ++ toString attrs.length ++
      String.join (attrs.map fun (k, v) => "\t" ++ h k ++ "\t" ++ h v)) ::
    kids.toList.flatMap (emit (depth + 1))

structure St where
  prog : List StructD := []
  cur : Option StructD := none
  tid : String := ""
  root : String := ""
  flats : List Flat := []

def flush (st : St) : St :=
  match st.cur with
  | some sd => { st with prog := st.prog ++ [sd], cur := none }
  | none => st

def runOne (st : St) : List String :=
  let P := st.prog
  match (build 0 st.flats).1 with
  | [x] =>
    match deRoot P st.root x with
    | none => ["R\t" ++ st.tid ++ "\tde-err", "END"]
    | some v =>
      match serRoot P st.root v with
      | none => ["R\t" ++ st.tid ++ "\tser-err", "END"]
      | some px =>
        match resolve [] px with
        | none => ["R\t" ++ st.tid ++ "\tundeclared-prefix", "END"]
        | some rx =>
          -- fixpoint: deserialise the result and serialise once more
          let fix := match deRoot P st.root rx with
            | some v2 => (match serRoot P st.root v2 with
              | some px2 => (match resolve [] px2 with
                | some rx2 => if emit 0 rx2 == emit 0 rx then "same" else "differs"
                | none => "error")
              | none => "error")
            | none => "error"
          let b (x : Bool) : String := if x then "1" else "0"
          ("R\t" ++ st.tid ++ "\tok\tfix=" ++ fix ++ "\tdeclared=" ++ b (ZeepVerif.Lemmas.YaWf.declared P) ++
            "\tcore=" ++ b (ZeepVerif.Lemmas.YaRt.core P) ++ "\tokval=" ++ b (ZeepVerif.Lemmas.YaRt.okVal P (.struct st.root) v)) ::
            emit 0 rx ++ ["END"]
  | _ => ["R\t" ++ st.tid ++ "\tbad-tree", "END"]

def step (st : St) (line : String) : St × List String :=
  match (line.dropEndWhile (· == '\n')).toString.splitOn "\t" with
  | ["S", name, pfx, rename, nss] =>
    let st := flush st
    ({ st with cur := some { name := un name, pfx := unOpt pfx, nss := parseNss nss, rename := un rename, fields := [] } }, [])
  | ["F", kind, pfx, rename, wrap, leaf] =>
    match st.cur with
    | some sd => ({ st with cur := some { sd with fields := sd.fields ++ [{ kind := parseKind kind, pfx := unOpt pfx, rename := un rename, wrap := parseWrap wrap, leaf := parseLeaf leaf }] } }, [])
    | none => (st, [])
  | ["T", tid, root] => ({ flush st with tid := tid, root := un root, flats := [] }, [])
  | "N" :: depth :: ns :: l :: text :: _k :: attrs =>
    ({ st with flats := st.flats ++ [{ depth := depth.toNat!, ns := unOpt ns, lname := un l, text := unOpt text, attrs := pairs attrs }] }, [])
  | ["RUN"] => (st, runOne st)
  | ["RESET"] => ({}, [])
  | _ => (st, [])

partial def loop (h : IO.FS.Stream) (st : St) : IO Unit := do
  let line ← h.getLine
  if line.isEmpty then return ()
  let (st', out) := step st line
  for o in out do IO.println o
  loop h st'

def main : IO Unit := do loop (← IO.getStdin) {}

end ZeepVerif.Driver.YaDrv

namespace ZeepVerif.Driver.YaDrv
open ZeepVerif ZeepVerif.Model ZeepVerif.Ya

def leafStr : Leaf → String
  | .prim .string => "P:string"
  | .prim .bool => "P:bool"
  | .prim .float => "P:float"
  | .prim (.int ty) => "P:int:" ++ ty
  | .struct n => "S:" ++ hex n

def hx0 (s : String) : String := if s.isEmpty then "-" else hex s

/-- `zvdrv progof <dump> <start>`: the derive input `Ya.progOf` of the model's document, in the S/F line format
    (namespaces sorted by prefix, as a BTreeMap prints them) -/
def progofMain (dump start : String) : IO UInt32 := do
  let content ← IO.FS.readFile dump
  let (files, _) := Dump.parse content
  match readXml files start with
  | .error e => IO.println ("read-err " ++ e.name); return 0
  | .ok d =>
    for sd in progOf d do
      let nss := sd.nss.toArray.qsort (fun a b => a.1 < b.1) |>.toList
      IO.println ("S\t" ++ hex sd.name ++ "\t" ++ (match sd.pfx with | some p => hx0 p | none => "-") ++ "\t" ++ hx0 sd.rename ++ "\t" ++
        (if nss.isEmpty then "-" else ";".intercalate (nss.map fun (p, u) => hx0 p ++ "=" ++ hx0 u)))
      for f in sd.fields do
        let kind := match f.kind with | .elem => "elem" | .attr => "attr" | .text => "text" | .flatten => "flatten"
        let wrap := match f.wrap with | .one => "one" | .opt => "opt" | .vec => "vec"
        IO.println ("F\t" ++ kind ++ "\t" ++ (match f.pfx with | some p => hx0 p | none => "-") ++ "\t" ++ hx0 f.rename ++ "\t" ++ wrap ++ "\t" ++ leafStr f.leaf)
    return 0

end ZeepVerif.Driver.YaDrv
