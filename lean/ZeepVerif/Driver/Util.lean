/- Driver utilities: line protocol helpers (core only). -/
namespace ZeepVerif.Driver

def hexVal? (c : Char) : Option Nat :=
  if '0' ≤ c ∧ c ≤ '9' then some (c.toNat - '0'.toNat)
  else if 'a' ≤ c ∧ c ≤ 'f' then some (c.toNat - 'a'.toNat + 10)
  else if 'A' ≤ c ∧ c ≤ 'F' then some (c.toNat - 'A'.toNat + 10)
  else none

def hexBytes? : List Char → Option (List UInt8)
  | [] => some []
  | a :: b :: rest => do
    let x ← hexVal? a
    let y ← hexVal? b
    let r ← hexBytes? rest
    pure (UInt8.ofNat (x * 16 + y) :: r)
  | _ => none

/-- hex-encoded UTF-8 → String (`-` alone is handled by callers) -/
def unhex? (s : String) : Option String := do
  let bs ← hexBytes? s.toList
  String.fromUTF8? (ByteArray.mk bs.toArray)

def hexDigit (n : Nat) : Char :=
  if n < 10 then Char.ofNat (n + '0'.toNat) else Char.ofNat (n - 10 + 'a'.toNat)

def hex (s : String) : String :=
  String.ofList (s.toUTF8.toList.flatMap (fun b => [hexDigit (b.toNat / 16), hexDigit (b.toNat % 16)]))

def fields (line : String) (sep : String := "|") : List String :=
  line.trimAscii.toString.splitOn sep

def optInt? (s : String) : Option (Option Int) :=
  if s = "-" then some none else (s.toInt?).map some

partial def forLines (h : IO.FS.Stream) (f : String → IO Unit) : IO Unit := do
  let line ← h.getLine
  if line.isEmpty then return ()
  f line
  forLines h f

end ZeepVerif.Driver
