/- `zvdrv docdump`: stdin lines `<tree-dump>\t<start>\t<out>`: run the reader model and write its `Doc` in the format of the
   cfg-guarded hook `RustDocument::verif_dump` of zeep-lib (one fact per line, strings hex-encoded, the prefix table sorted),
   so that model and implementation can be compared on the *document*, not only on the generated text. -/
import ZeepVerif.Model.Reader
import ZeepVerif.Driver.Util

namespace ZeepVerif.Driver.DocDump
open ZeepVerif ZeepVerif.Model ZeepVerif.Driver

def hx (s : String) : String := if s.isEmpty then "''" else hex s
def nsU (n : Option Ns) : String := match n with | some n => hx n.uri | none => "-"
def optS (s : Option String) : String := match s with | some s => hx s | none => "-"
def b01 (b : Bool) : String := if b then "1" else "0"

def fieldLine (owner : String) (j : Nat) (f : Field) : String :=
  "FIELD\t" ++ owner ++ "\t" ++ toString j ++ "\t" ++ hx f.xmlName ++ "\t" ++ hx f.rustName ++ "\t" ++ hx f.rustType.render ++ "\t" ++
    b01 f.isOptional ++ b01 f.isVec ++ b01 f.isAttribute ++ b01 f.isChoice ++ b01 f.isAny ++ "\t" ++ nsU f.tns

def enumFrom {α : Type} (xs : List α) : List (Nat × α) := (List.range xs.length).zip xs

def complexLines (owner : String) (p : CProps) : List String :=
  ("CPX\t" ++ owner ++ "\t" ++ hx p.xmlName ++ "\t" ++ nsU p.tns ++ "\t" ++ optS p.comment) ::
    (enumFrom p.fields).map (fun jf => fieldLine owner jf.1 jf.2)

def nodeName (n : RNode) : String := match n.rtype.xmlName with | some s => hx s | none => "-"

def restrText (r : Option Restr) : String :=
  match r with
  | none => "-"
  | some r =>
    String.intercalate "|" [optS r.minInclusive, optS r.maxInclusive, optS r.minExclusive, optS r.maxExclusive, optS r.length,
      optS r.minLength, optS r.maxLength,
      (match r.enumeration with | some e => String.intercalate "," (e.map hx) | none => "-")]

def nodeLines (owner : String) (n : RNode) : List String :=
  let kind := match n.rtype with | .ignore => "ignore" | .complex _ => "complex" | .simple _ => "simple" | .element _ => "element"
  ("NODE\t" ++ owner ++ "\t" ++ kind ++ "\t" ++ nodeName n ++ "\t" ++ nsU n.inNs) ::
  (match n.rtype with
   | .ignore => []
   | .complex p => complexLines owner p
   | .simple p => ["SIMPLE\t" ++ owner ++ "\t" ++ hx p.xmlName ++ "\t" ++ hx p.rustType.render ++ "\t" ++ nsU p.tns ++ "\t" ++ optS p.comment ++ "\t" ++ restrText p.restrictions]
   | .element p =>
     match p.etype with
     | .rustType t => ["ELEMENT\t" ++ owner ++ "\t" ++ hx p.xmlName ++ "\trust\t" ++ hx t.render]
     | .complex c => ("ELEMENT\t" ++ owner ++ "\t" ++ hx p.xmlName ++ "\tcomplex") :: complexLines owner c
     | .unsupported => ["ELEMENT\t" ++ owner ++ "\t" ++ hx p.xmlName ++ "\tunsupported"])

def envelopeText (e : Envelope) : String :=
  "body=" ++ nodeName e.body ++ " headers=" ++ String.intercalate "," (e.headers.map (fun h => hx h.1 ++ "=" ++ nodeName h.2))

/-- insertion sort by the UTF-8 bytes of the key (the order of Rust's `str::cmp`) -/
def insertBy (x : String × Ns) : List (String × Ns) → List (String × Ns)
  | [] => [x]
  | y :: ys => if x.1.toUTF8.toList ≤ y.1.toUTF8.toList then x :: y :: ys else y :: insertBy x ys

def docLines (d : Doc) : List String :=
  d.namespaces.map (fun n => "NS\t" ++ hx n.uri ++ "\t" ++ hx n.abbreviation ++ "\t" ++ hx n.rustModName) ++
  d.targetNamespaces.map (fun n => "TNS\t" ++ hx n.uri ++ "\t" ++ hx n.abbreviation) ++
  ["CUR\t" ++ nsU d.current, "DEF\t" ++ optS d.defaultNs] ++
  (d.lookup.foldl (fun acc x => insertBy x acc) []).map (fun kv => "LOOKUP\t" ++ hx kv.1 ++ "\t" ++ hx kv.2.uri ++ "\t" ++ hx kv.2.abbreviation) ++
  ["RESOLVING\t" ++ toString d.resolving.length] ++
  (enumFrom d.nodes).flatMap (fun i_n => nodeLines ("n" ++ toString i_n.1) i_n.2) ++
  ["KNOWN\t" ++ toString d.knownNodes.length] ++
  d.messages.map (fun m => "MSG\t" ++ hx m.xmlName ++ "\t" ++
    String.intercalate "," (m.parts.map (fun p => hx p.1 ++ "=" ++ nodeName p.2.1 ++ "@" ++ nsU p.2.2))) ++
  d.ports.map (fun p => "PORT\t" ++ hx p.xmlName ++ "\t" ++
    String.intercalate "," (p.ops.map (fun o => hx o.1 ++ ":" ++ hx o.2.input.xmlName ++ "/" ++ (match o.2.output with | some m => hx m.xmlName | none => "-")))) ++
  d.bindings.flatMap (fun b =>
    ("BINDING\t" ++ hx b.name ++ "\t" ++ String.intercalate "," (b.tns.map (fun n => hx n.uri))) ::
    b.ops.map (fun o => "OP\t" ++ hx b.name ++ "\t" ++ hx o.1 ++ "\t" ++ optS o.2.action ++ "\tin " ++ envelopeText o.2.input ++ "\tout " ++
      (match o.2.output with | some e => envelopeText e | none => "-"))) ++
  d.services.map (fun s => "SERVICE\t" ++ hx s.name ++ "\t" ++ hx s.binding.name ++ "\t" ++ hx s.location)

def main : IO UInt32 := do
  forLines (← IO.getStdin) fun line => do
    match (line.dropEndWhile (· == '\n')).toString.splitOn "\t" with
    | [dump, start, out] =>
      let content ← IO.FS.readFile dump
      let (files, bad) := Dump.parse content
      if bad > 0 then IO.println s!"bad-dump {bad}"
      else
        match readXml files start with
        | .ok d =>
          IO.FS.writeFile out (String.join ((docLines d).map (· ++ "\n")))
          IO.println "ok"
        | .error e => IO.println ("read-err " ++ e.name)
    | _ => IO.println "bad-line"
  return 0

end ZeepVerif.Driver.DocDump
