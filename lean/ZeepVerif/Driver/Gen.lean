/- `zvdrv model <dump> <start> <out|->`: run the model of the generator on a tree dump. -/
import ZeepVerif.Model.Emit

namespace ZeepVerif.Driver.Gen
open ZeepVerif ZeepVerif.Model

def outcome (files : List XFile) (start : String) : String × Option String :=
  match readXml files start with
  | .error e => ("read-err " ++ e.name, none)
  | .ok d =>
    match writeDoc d with
    | .error e => ("write-err " ++ e.name, none)
    | .ok chunks =>
      let text := String.join chunks
      (s!"ok {text.utf8ByteSize}", some text)

def main (dump start out : String) : IO UInt32 := do
  let content ← IO.FS.readFile dump
  let (files, bad) := Dump.parse content
  if bad > 0 then IO.eprintln s!"dump: {bad} bad lines"
  let (line, text) := outcome files start
  IO.println line
  if out != "-" then
    if let some t := text then IO.FS.writeFile out t
  return 0

/-- the first `sequence` below a named component (directly, or inside complexType / complexContent / extension) -/
partial def firstSequence (n : XNode) (depth : Nat) : Option XNode :=
  if depth == 0 then none else
  n.elemKids.findSome? fun k =>
    if k.tag == "sequence" then some k
    else if k.tag == "complexType" || k.tag == "complexContent" || k.tag == "extension" then firstSequence k (depth - 1)
    else none

partial def schemaNodes (n : XNode) : List XNode :=
  if n.tag == "schema" then [n] else n.elemKids.flatMap schemaNodes

/-- `zvdrv shapes <dump>`: the shape of the content sequence of every named global component, as parsed by roxmltree -/
def shapes (dump : String) : IO UInt32 := do
  let content ← IO.FS.readFile dump
  let (files, _) := Dump.parse content
  for f in files do
    for top in (f.tops.getD []) do
      for sch in schemaNodes top do
        for c in sch.elemKids do
          if c.tag == "complexType" || c.tag == "element" then
            match c.attr? "name", firstSequence c 4 with
            | some n, some sq => IO.println s!"SHAPE\t{f.name}\t{n}\t{sq.shape}"
            | _, _ => pure ()
          if c.tag == "complexType" && !(c.elemKids.any (fun k => k.tag == "complexContent" || k.tag == "annotation")) then
            match c.attr? "name" with
            | some n => IO.println s!"TSHAPE\t{f.name}\t{n}\t{c.shape}"
            | none => pure ()
  return 0

/-- stdin lines: `<dump>\t<start>\t<out|->`; one outcome line per request -/
def batch : IO UInt32 := do
  ZeepVerif.Driver.forLines (← IO.getStdin) fun line => do
    match (line.dropEndWhile (· == '\n')).toString.splitOn "\t" with
    | [dump, start, out] =>
      let content ← IO.FS.readFile dump
      let (files, bad) := Dump.parse content
      let (l, text) := outcome files start
      IO.println (if bad > 0 then s!"bad-dump {bad}" else l)
      if out != "-" then
        if let some t := text then IO.FS.writeFile out t
    | _ => IO.println "bad-line"
  return 0

end ZeepVerif.Driver.Gen
