/- `zvdrv model <dump> <start> <out|->`: run the model of the generator on a tree dump. -/
import ZeepVerif.Model.Emit

namespace ZeepVerif.Driver.Gen
open ZeepVerif ZeepVerif.Model

def outcome (files : List XFile) (start : String) : String × Option String :=
  match readXml files start with
  | .error e => ("read-err " ++ e.name, none)
  | .ok d =>
    match writeDoc d with
    | .error e => ("write-err " ++ e.name, none)
    | .ok chunks =>
      let text := String.join chunks
      (s!"ok {text.utf8ByteSize}", some text)

def main (dump start out : String) : IO UInt32 := do
  let content ← IO.FS.readFile dump
  let (files, bad) := Dump.parse content
  if bad > 0 then IO.eprintln s!"dump: {bad} bad lines"
  let (line, text) := outcome files start
  IO.println line
  if out != "-" then
    if let some t := text then IO.FS.writeFile out t
  return 0

/-- stdin lines: `<dump>\t<start>\t<out|->`; one outcome line per request -/
def batch : IO UInt32 := do
  ZeepVerif.Driver.forLines (← IO.getStdin) fun line => do
    match (line.dropEndWhile (· == '\n')).toString.splitOn "\t" with
    | [dump, start, out] =>
      let content ← IO.FS.readFile dump
      let (files, bad) := Dump.parse content
      let (l, text) := outcome files start
      IO.println (if bad > 0 then s!"bad-dump {bad}" else l)
      if out != "-" then
        if let some t := text then IO.FS.writeFile out t
    | _ => IO.println "bad-line"
  return 0

end ZeepVerif.Driver.Gen
