/-
The body and header parts a binding operation binds (binding/mod.rs `read_port_operation`, `read_body_port_message`,
`read_header_port_message`, `map_to_rust_node`), in closed form and for every binding node: `bindingEnvelope` is a
function of the `<wsdl:input>`/`<wsdl:output>` node and the port-type operation alone — it reads the document only to
split a QName — and returns exactly `envelopeOf`.
-/
import ZeepVerif.Lemmas.Keeps

namespace ZeepVerif.Lemmas.Envelope
open ZeepVerif ZeepVerif.Model Std.Do ZeepVerif.Lemmas.Keeps

set_option mvcgen.warning false

/-- the message of a direction -/
def msgOf (po : PortOp) (isInput : Bool) : Option Msg := if isInput then some po.input else po.output

/-- `map_to_rust_node`: the node of the part called `part` (prefix stripped) in the direction's message -/
def partNode (po : PortOp) (isInput : Bool) (part : String) : Except Err RNode :=
  match (msgOf po isInput).bind (fun m => bmGet m.parts (splitType part).1) with
  | some (rn, _) => .ok rn
  | none => .error .nodeNotFound

/-- the header entries: one per `soap:header` child, in document order -/
def headersOf (po : PortOp) (isInput : Bool) : List XNode → Except Err (List (String × RNode))
  | [] => .ok []
  | h :: rest =>
    match h.attr? "part" with
    | none => .error .attributeMissing
    | some part =>
      match partNode po isInput part with
      | .error e => .error e
      | .ok rn =>
        match headersOf po isInput rest with
        | .error e => .error e
        | .ok hs => .ok ((part, rn) :: hs)

/-- the body: the part named by `parts=`, else the first part of the message that no `soap:header` binds -/
def bodyOf (n : XNode) (po : PortOp) (isInput : Bool) : Except Err RNode :=
  match firstElemKid n "body" with
  | none => .error .nodeNotFound
  | some b =>
    match b.attr? "use" with
    | none => .error .attributeMissing
    | some enc =>
      if enc != "literal" then .error .unsupportedEncoding
      else match b.attr? "parts" with
        | some parts => partNode po isInput parts
        | none =>
          let headerParts := (elemKidsTagged n "header").filterMap (·.attr? "part")
          match (msgOf po isInput).bind (fun m => m.parts.find? (fun kv => !headerParts.contains kv.1)) with
          | some (_, (rn, _)) => .ok rn
          | none => .error .nodeNotFound

def envelopeOf (n : XNode) (po : PortOp) (isInput : Bool) : Except Err Envelope :=
  match bodyOf n po isInput with
  | .error e => .error e
  | .ok body =>
    match headersOf po isInput (elemKidsTagged n "header") with
    | .error e => .error e
    | .ok hs => .ok { headers := hs, body := body }

theorem mapToRustNode_spec (po : PortOp) (isInput : Bool) (parts : String) (d0 : Doc) :
    ⦃fun d => ⌜d = d0⌝⦄ mapToRustNode po isInput parts
    ⦃post⟨fun r d' => ⌜d' = d0 ∧ partNode po isInput parts = .ok r⌝, fun e d' => ⌜d' = d0 ∧ partNode po isInput parts = .error e⌝⟩⦄ := by
  mvcgen [mapToRustNode, getDoc]
  all_goals (try simp only [SPred.down_pure] at *)
  all_goals (try intros)
  all_goals simp_all [partNode, msgOf, resolveType]
  · rename_i hx
    simp (config := { zetaDelta := true }) only [] at hx
    rw [hx]
  · rename_i hx
    simp (config := { zetaDelta := true }) only [] at hx
    cases hm : (if isInput = true then some po.input else po.output) with
    | none => rfl
    | some m => simp [hx m hm]

theorem headersOf_append (po : PortOp) (isInput : Bool) (pre : List XNode) (h : XNode) (acc : List (String × RNode)) (part : String)
    (rn : RNode) (hpre : headersOf po isInput pre = .ok acc) (hp : h.attr? "part" = some part) (hn : partNode po isInput part = .ok rn) :
    headersOf po isInput (pre ++ [h]) = .ok (acc ++ [(part, rn)]) := by
  induction pre generalizing acc with
  | nil => simp [headersOf] at hpre; subst hpre; simp [headersOf, hp, hn]
  | cons x xs ih =>
    simp only [List.cons_append, headersOf] at hpre ⊢
    cases hx : x.attr? "part" with
    | none => simp [hx] at hpre
    | some px =>
      simp only [hx] at hpre ⊢
      cases hpx : partNode po isInput px with
      | error e => simp [hpx] at hpre
      | ok rx =>
        simp only [hpx] at hpre ⊢
        cases hr : headersOf po isInput xs with
        | error e => simp [hr] at hpre
        | ok hs =>
          simp only [hr, Except.ok.injEq] at hpre
          subst hpre
          simp [ih hs hr]

theorem headersOf_error_attr (po : PortOp) (isInput : Bool) (pre : List XNode) (h : XNode) (suf : List XNode) (acc : List (String × RNode))
    (hpre : headersOf po isInput pre = .ok acc) (hp : h.attr? "part" = none) :
    headersOf po isInput (pre ++ h :: suf) = .error .attributeMissing := by
  induction pre generalizing acc with
  | nil => simp [headersOf, hp]
  | cons x xs ih =>
    simp only [List.cons_append, headersOf] at hpre ⊢
    cases hx : x.attr? "part" with
    | none => simp [hx] at hpre
    | some px =>
      simp only [hx] at hpre ⊢
      cases hpx : partNode po isInput px with
      | error e => simp [hpx] at hpre
      | ok rx =>
        simp only [hpx] at hpre ⊢
        cases hr : headersOf po isInput xs with
        | error e => simp [hr] at hpre
        | ok hs => simp [ih hs hr]

theorem headersOf_error_part (po : PortOp) (isInput : Bool) (pre : List XNode) (h : XNode) (suf : List XNode) (acc : List (String × RNode))
    (part : String) (e : Err) (hpre : headersOf po isInput pre = .ok acc) (hp : h.attr? "part" = some part)
    (hn : partNode po isInput part = .error e) :
    headersOf po isInput (pre ++ h :: suf) = .error e := by
  induction pre generalizing acc with
  | nil => simp [headersOf, hp, hn]
  | cons x xs ih =>
    simp only [List.cons_append, headersOf] at hpre ⊢
    cases hx : x.attr? "part" with
    | none => simp [hx] at hpre
    | some px =>
      simp only [hx] at hpre ⊢
      cases hpx : partNode po isInput px with
      | error e => simp [hpx] at hpre
      | ok rx =>
        simp only [hpx] at hpre ⊢
        cases hr : headersOf po isInput xs with
        | error e => simp [hr] at hpre
        | ok hs => simp [ih hs hr]

/-- **`read_port_operation` in closed form**: for every `<wsdl:input>`/`<wsdl:output>` node and port-type operation the reader's
    envelope is `envelopeOf`, and the document is left as it was -/
theorem bindingEnvelope_spec (n : XNode) (po : PortOp) (isInput : Bool) (d0 : Doc) :
    ⦃fun d => ⌜d = d0⌝⦄ bindingEnvelope n po isInput
    ⦃post⟨fun r d' => ⌜d' = d0 ∧ envelopeOf n po isInput = .ok r⌝, fun e d' => ⌜d' = d0 ∧ envelopeOf n po isInput = .error e⌝⟩⦄ := by
  have hm := fun po i parts => mapToRustNode_spec po i parts d0
  mvcgen [bindingEnvelope, liftOpt, hm]
  case inv1 => exact post⟨fun (c, hs) d => ⌜d = d0 ∧ headersOf po isInput c.prefix = .ok hs⌝, fun e d => ⌜d = d0 ∧ envelopeOf n po isInput = .error e⌝⟩
  case inv2 => exact post⟨fun (c, hs) d => ⌜d = d0 ∧ headersOf po isInput c.prefix = .ok hs⌝, fun e d => ⌜d = d0 ∧ envelopeOf n po isInput = .error e⌝⟩
  all_goals (try simp only [SPred.down_pure] at *)
  all_goals (try intros)
  all_goals (try simp (config := { zetaDelta := true }) only [] at *)
  all_goals first
    | (simp_all [envelopeOf, bodyOf, msgOf, headersOf]; done)
    | (refine ⟨by simp_all, ?_⟩; apply headersOf_append <;> simp_all; done)
    | skip
  case vc6.step.h_1.post.except.handle =>
    rename_i _ _ dn hbody _ _ use huse _ hlit v hparts r _ _ hpn pref cur suff hsplit b _ hpre part hattr e s hs herr
    refine ⟨hs, ?_⟩
    have hb : bodyOf n po isInput = .ok r := by simp [bodyOf, hbody, huse, hlit, hparts, hpn.2]
    simp only [envelopeOf, hb, hsplit, headersOf_error_part po isInput pref cur suff b part e hpre.2 hattr herr]
  case vc7.step.h_2 =>
    rename_i _ _ dn hbody _ _ use huse _ hlit v hparts r _ _ hpn pref cur suff hsplit b s hpre hattr
    refine ⟨hpre.1, ?_⟩
    have hb : bodyOf n po isInput = .ok r := by simp [bodyOf, hbody, huse, hlit, hparts, hpn.2]
    simp only [envelopeOf, hb, hsplit, headersOf_error_attr po isInput pref cur suff b hpre.2 hattr]
  case vc14.step.h_1.post.except.handle =>
    rename_i _ _ dn hbody _ _ use huse _ hlit hparts _ fst rn snd hfind _ pref cur suff hsplit b _ hpre part hattr e s hs herr
    refine ⟨hs, ?_⟩
    have hb : bodyOf n po isInput = .ok rn := by
      unfold bodyOf
      simp only [hbody, huse, hparts, msgOf]
      rw [if_neg hlit]
      simp only [hfind]
    simp only [envelopeOf, hb, hsplit, headersOf_error_part po isInput pref cur suff b part e hpre.2 hattr herr]
  case vc15.step.h_2 =>
    rename_i _ _ dn hbody _ _ use huse _ hlit hparts _ fst rn snd hfind _ pref cur suff hsplit b s hpre hattr
    refine ⟨hpre.1, ?_⟩
    have hb : bodyOf n po isInput = .ok rn := by
      unfold bodyOf
      simp only [hbody, huse, hparts, msgOf]
      rw [if_neg hlit]
      simp only [hfind]
    simp only [envelopeOf, hb, hsplit, headersOf_error_attr po isInput pref cur suff b hpre.2 hattr]
  case vc19.h_2.h_1.isFalse.h_2.h_2 =>
    rename_i _ _ dn hbody s hs use huse _ hlit hparts _ hfind
    refine ⟨hs, ?_⟩
    have hb : bodyOf n po isInput = .error .nodeNotFound := by
      unfold bodyOf
      simp only [hbody, huse, hparts, msgOf]
      rw [if_neg hlit]
      simp only [hfind]
    simp only [envelopeOf, hb]

end ZeepVerif.Lemmas.Envelope
