/- `split_type` (QName → local name, prefix): the facts the reference-resolution theorems used to assume. -/
import ZeepVerif.Model.Reader

namespace ZeepVerif.Lemmas.SplitType
open ZeepVerif ZeepVerif.Model

theorem splitAtColon_prefixed : (p : List Char) → (l : List Char) → ':' ∉ p →
    splitAtColon (p ++ ':' :: l) = some (p, l)
  | [], l, _ => by simp [splitAtColon]
  | c :: cs, l, h => by
    have hc : c ≠ ':' := fun e => h (by simp [e])
    have hcs : ':' ∉ cs := fun e => h (by simp [e])
    simp [splitAtColon, hc, splitAtColon_prefixed cs l hcs]

theorem splitAtColon_none : (l : List Char) → ':' ∉ l → splitAtColon l = none
  | [], _ => rfl
  | c :: cs, h => by
    have hc : c ≠ ':' := fun e => h (by simp [e])
    have hcs : ':' ∉ cs := fun e => h (by simp [e])
    simp [splitAtColon, hc, splitAtColon_none cs hcs]

/-- `prefix:local`, with a prefix that contains no colon (every NCName), splits into exactly these two -/
theorem splitType_prefixed (pfx l : String) (h : ':' ∉ pfx.toList) : splitType (pfx ++ ":" ++ l) = (l, some pfx) := by
  unfold splitType
  have : (pfx ++ ":" ++ l).toList = pfx.toList ++ ':' :: l.toList := by
    simp [String.toList_append]
  rw [this, splitAtColon_prefixed _ _ h]
  simp

/-- a name without a colon is unprefixed: it goes through the empty prefix -/
theorem splitType_unprefixed (l : String) (h : ':' ∉ l.toList) : splitType l = (l, some "") := by
  unfold splitType
  rw [splitAtColon_none _ h]

end ZeepVerif.Lemmas.SplitType
