/- Decidable versions of the hypotheses of `readXml_plain_file`, so that the driver can evaluate them on the tree the
   real tool parsed, and their soundness. -/
import ZeepVerif.Lemmas.ReadFile

namespace ZeepVerif.Lemmas.ReadDecide
open ZeepVerif ZeepVerif.Model ZeepVerif.Lemmas.ReadField ZeepVerif.Lemmas.ReadFile

def plainDeclB (node : XNode) : Bool :=
  node.isElem && node.tag != "any" && (node.attr? "name").isSome && (node.attr? "ref").isNone &&
  (node.attr? "targetNamespace").isNone

theorem plainDeclB_sound (node : XNode) (h : plainDeclB node = true) : PlainDecl node := by
  simp only [plainDeclB, Bool.and_eq_true, bne_iff_ne, ne_eq, Option.isNone_iff_eq_none] at h
  obtain ⟨⟨⟨⟨a, b⟩, c⟩, d⟩, e⟩ := h
  exact ⟨a, b, c, d, e⟩

def plainChildB (anc : List XNode) (k : XNode) : Bool :=
  k.tag != "complexContent" && (k.tag != "sequence" || (memberSites k anc).all (fun s => plainDeclB s.1)) &&
  (k.tag != "attribute" || plainDeclB k)

theorem plainChildB_sound (anc : List XNode) (k : XNode) (h : plainChildB anc k = true) : PlainChild anc k := by
  simp only [plainChildB, Bool.and_eq_true, Bool.or_eq_true, bne_iff_ne, ne_eq] at h
  obtain ⟨⟨a, b⟩, c⟩ := h
  refine ⟨a, ?_, ?_⟩
  · intro hs s hsm
    rcases b with b | b
    · exact absurd hs b
    · exact plainDeclB_sound _ ((List.all_eq_true.mp b) s hsm)
  · intro ha
    rcases c with c | c
    · exact absurd ha c
    · exact plainDeclB_sound _ c

def plainKidB (schema : XNode) (k : XNode) : Bool :=
  !k.isElem || (k.tag == "complexType" && (k.attr? "targetNamespace").isNone && (k.attr? "name").isSome &&
    k.elemKids.all (plainChildB [k, schema]) && k.nss.all (fun pu => schema.nss.contains pu))

/-- the decidable form of `PlainFile`: evaluated by `zvdrv plainfile` on the tree the real parser produced -/
def plainFileB (xf : XFile) : Bool :=
  match xf.tops with
  | some [schema] =>
    schema.isElem && schema.tag == "schema" && (schema.attr? "targetNamespace").isSome && schema.kids.all (plainKidB schema)
  | _ => false

theorem plainFileB_sound (xf : XFile) (h : plainFileB xf = true) :
    ∃ schema tns, PlainFile xf schema tns := by
  unfold plainFileB at h
  match ht : xf.tops, h with
  | some [schema], h =>
    simp only [Bool.and_eq_true, beq_iff_eq] at h
    obtain ⟨⟨⟨he, htag⟩, htns⟩, hk⟩ := h
    cases hq : schema.attr? "targetNamespace" with
    | none => simp [hq] at htns
    | some tns =>
      refine ⟨schema, tns, ⟨ht, he, htag, hq, ?_⟩⟩
      intro k hkm
      have hkb := (List.all_eq_true.mp hk) k hkm
      cases k with
      | other => exact Or.inl rfl
      | elem t a n tx ks =>
        right
        simp only [plainKidB, XNode.isElem, Bool.not_true, Bool.false_or, Bool.and_eq_true, beq_iff_eq,
          Option.isNone_iff_eq_none] at hkb
        obtain ⟨⟨⟨⟨h1, h2⟩, h3⟩, h4⟩, h5⟩ := hkb
        cases hn : (XNode.elem t a n tx ks).attr? "name" with
        | none => simp [hn] at h3
        | some name =>
          refine ⟨name, rfl, h1, h2, rfl, ?_, ?_⟩
          · intro c hc
            exact plainChildB_sound _ c ((List.all_eq_true.mp h4) c hc)
          · intro pu hpu
            have := (List.all_eq_true.mp h5) pu hpu
            simpa using this

/-- **the file-level theorem in decidable form**: whenever `plainFileB` holds of a file — a Boolean the driver
    evaluates on the parse of every generated input — the reader's result is the closed form -/
theorem readXml_of_plainFileB (xf : XFile) (h : plainFileB xf = true) :
    ∃ schema tns, xf.tops = some [schema] ∧ readXml [xf] xf.name =
      .ok { fileDoc schema tns with
            nodes := (fileDoc schema tns).nodes ++ schema.kids.filterMap (nodeOf (fileDoc schema tns) [schema]) } := by
  obtain ⟨schema, tns, hp⟩ := plainFileB_sound xf h
  exact ⟨schema, tns, hp.tops, readXml_plain_file xf schema tns hp⟩

end ZeepVerif.Lemmas.ReadDecide
