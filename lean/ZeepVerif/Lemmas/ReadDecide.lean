/- Decidable versions of the hypotheses of `readXml_plain_file`, so that the driver can evaluate them on the tree the
   real tool parsed, and their soundness. -/
import ZeepVerif.Lemmas.ReadFile
import ZeepVerif.Lemmas.ReadComp

namespace ZeepVerif.Lemmas.ReadDecide
open ZeepVerif ZeepVerif.Model ZeepVerif.Lemmas.ReadField ZeepVerif.Lemmas.ReadFile ZeepVerif.Lemmas.ReadComp

def plainDeclB (node : XNode) : Bool :=
  node.isElem && node.tag != "any" && (node.attr? "name").isSome && (node.attr? "ref").isNone &&
  (node.attr? "targetNamespace").isNone

theorem plainDeclB_sound (node : XNode) (h : plainDeclB node = true) : PlainDecl node := by
  simp only [plainDeclB, Bool.and_eq_true, bne_iff_ne, ne_eq, Option.isNone_iff_eq_none] at h
  obtain ⟨⟨⟨⟨a, b⟩, c⟩, d⟩, e⟩ := h
  exact ⟨a, b, c, d, e⟩

def plainChildB (anc : List XNode) (k : XNode) : Bool :=
  k.tag != "complexContent" && (k.tag != "sequence" || (memberSites k anc).all (fun s => plainDeclB s.1)) &&
  (k.tag != "attribute" || plainDeclB k)

theorem plainChildB_sound (anc : List XNode) (k : XNode) (h : plainChildB anc k = true) : PlainChild anc k := by
  simp only [plainChildB, Bool.and_eq_true, Bool.or_eq_true, bne_iff_ne, ne_eq] at h
  obtain ⟨⟨a, b⟩, c⟩ := h
  refine ⟨a, ?_, ?_⟩
  · intro hs s hsm
    rcases b with b | b
    · exact absurd hs b
    · exact plainDeclB_sound _ ((List.all_eq_true.mp b) s hsm)
  · intro ha
    rcases c with c | c
    · exact absurd ha c
    · exact plainDeclB_sound _ c

def plainKidB (schema : XNode) (k : XNode) : Bool :=
  !k.isElem || (k.tag == "complexType" && (k.attr? "targetNamespace").isNone && (k.attr? "name").isSome &&
    k.elemKids.all (plainChildB [k, schema]) && k.nss.all (fun pu => schema.nss.contains pu))

/-- the decidable form of `PlainFile`: evaluated by `zvdrv plainfile` on the tree the real parser produced -/
def plainFileB (xf : XFile) : Bool :=
  match xf.tops with
  | some [schema] =>
    schema.isElem && schema.tag == "schema" && (schema.attr? "targetNamespace").isSome && schema.kids.all (plainKidB schema)
  | _ => false

theorem plainFileB_sound (xf : XFile) (h : plainFileB xf = true) :
    ∃ schema tns, PlainFile xf schema tns := by
  unfold plainFileB at h
  match ht : xf.tops, h with
  | some [schema], h =>
    simp only [Bool.and_eq_true, beq_iff_eq] at h
    obtain ⟨⟨⟨he, htag⟩, htns⟩, hk⟩ := h
    cases hq : schema.attr? "targetNamespace" with
    | none => simp [hq] at htns
    | some tns =>
      refine ⟨schema, tns, ⟨ht, he, htag, hq, ?_⟩⟩
      intro k hkm
      have hkb := (List.all_eq_true.mp hk) k hkm
      cases k with
      | other => exact Or.inl rfl
      | elem t a n tx ks =>
        right
        simp only [plainKidB, XNode.isElem, Bool.not_true, Bool.false_or, Bool.and_eq_true, beq_iff_eq,
          Option.isNone_iff_eq_none] at hkb
        obtain ⟨⟨⟨⟨h1, h2⟩, h3⟩, h4⟩, h5⟩ := hkb
        cases hn : (XNode.elem t a n tx ks).attr? "name" with
        | none => simp [hn] at h3
        | some name =>
          refine ⟨name, rfl, h1, h2, rfl, ?_, ?_⟩
          · intro c hc
            exact plainChildB_sound _ c ((List.all_eq_true.mp h4) c hc)
          · intro pu hpu
            have := (List.all_eq_true.mp h5) pu hpu
            simpa using this

/-- **the file-level theorem in decidable form**: whenever `plainFileB` holds of a file — a Boolean the driver
    evaluates on the parse of every generated input — the reader's result is the closed form -/
theorem readXml_of_plainFileB (xf : XFile) (h : plainFileB xf = true) :
    ∃ schema tns, xf.tops = some [schema] ∧ readXml [xf] xf.name =
      .ok { fileDoc schema tns with
            nodes := (fileDoc schema tns).nodes ++ schema.kids.filterMap (nodeOf (fileDoc schema tns) [schema]) } := by
  obtain ⟨schema, tns, hp⟩ := plainFileB_sound xf h
  exact ⟨schema, tns, hp.tops, readXml_plain_file xf schema tns hp⟩


/-! ### all covered component kinds -/

theorem compOf_isSome (d d' : Doc) (anc : List XNode) (k : XNode) : (compOf d anc k).isSome = (compOf d' anc k).isSome := by
  unfold compOf
  by_cases h1 : (k.tag == "complexType") = true
  · simp [h1, Option.isSome_map]
  · by_cases h2 : (k.tag == "simpleType") = true
    · simp only [h1, h2, if_true, Bool.false_eq_true, if_false]
      cases k.attr? "name" <;> cases k.kids.find? isRestriction <;> simp [Option.isSome_map]
    · by_cases h3 : (k.tag == "element") = true
      · simp only [h1, h2, h3, if_true, Bool.false_eq_true, if_false]
        cases k.attr? "name" <;> cases k.attr? "type" <;> cases k.elemKids.find? (fun n => n.tag == "complexType") <;> simp
      · simp [h1, h2, h3]

def coveredKidB (schema : XNode) (k : XNode) : Bool :=
  !k.isElem || (
    (k.attr? "targetNamespace").isNone && k.nss.all (fun pu => schema.nss.contains pu) && k.tag != "import" &&
    (compOf {} [schema] k).isSome &&
    (k.tag != "complexType" || k.elemKids.all (plainChildB [k, schema])) &&
    (k.tag != "element" || (k.attr? "type").isSome ||
      (match k.elemKids.find? (fun n => n.tag == "complexType") with
       | none => true
       | some ct => (ct.attr? "name").isNone && ct.nss.all (fun pu => schema.nss.contains pu) &&
           ct.elemKids.all (plainChildB [ct, k, schema]))))

/-- decidable form of `CoveredFile` -/
def coveredFileB (xf : XFile) : Bool :=
  match xf.tops with
  | some [schema] =>
    schema.isElem && schema.tag == "schema" && (schema.attr? "targetNamespace").isSome && schema.kids.all (coveredKidB schema)
  | _ => false

theorem coveredFileB_sound (xf : XFile) (h : coveredFileB xf = true) : ∃ schema tns, CoveredFile xf schema tns := by
  unfold coveredFileB at h
  match ht : xf.tops, h with
  | some [schema], h =>
    simp only [Bool.and_eq_true, beq_iff_eq] at h
    obtain ⟨⟨⟨he, htag⟩, htns⟩, hk⟩ := h
    cases hq : schema.attr? "targetNamespace" with
    | none => simp [hq] at htns
    | some tns =>
      have habs : ∀ (l : List (Option String × String)), l.all (fun pu => schema.nss.contains pu) = true →
          ∀ pu ∈ l, Absorbed (fileDoc schema tns) pu := by
        intro l hl pu hpu
        have := (List.all_eq_true.mp hl) pu hpu
        exact switch_absorbed _ tns pu (collectNamespaces_absorbs {} schema.nss pu (by simpa using this))
      refine ⟨schema, tns, ⟨ht, he, htag, hq, ?_, ?_⟩⟩
      · intro k hkm
        have hkb := (List.all_eq_true.mp hk) k hkm
        cases k with
        | other => exact Or.inl rfl
        | elem t a n tx ks =>
          right
          simp only [coveredKidB, XNode.isElem, Bool.not_true, Bool.false_or, Bool.and_eq_true, Option.isNone_iff_eq_none] at hkb
          obtain ⟨⟨⟨⟨⟨h1, h2⟩, _⟩, h4⟩, h5⟩, h6⟩ := hkb
          refine ⟨rfl, h1, habs _ h2, ?_, ?_, ?_⟩
          · rw [compOf_isSome _ {} ]; exact h4
          · intro htg c hc
            simp only [Bool.or_eq_true, bne_iff_ne, ne_eq] at h5
            rcases h5 with h5 | h5
            · exact absurd htg h5
            · exact plainChildB_sound _ c ((List.all_eq_true.mp h5) c hc)
          · intro htg hty ct hct
            simp only [Bool.or_eq_true, bne_iff_ne, ne_eq] at h6
            rcases h6 with (h6 | h6) | h6
            · exact absurd htg h6
            · simp [hty] at h6
            · rw [hct] at h6
              simp only [Bool.and_eq_true, Option.isNone_iff_eq_none] at h6
              obtain ⟨⟨g1, g2⟩, g3⟩ := h6
              exact ⟨g1, habs _ g2, fun c hc => plainChildB_sound _ c ((List.all_eq_true.mp g3) c hc)⟩
      · intro k hkm
        have hkb := (List.all_eq_true.mp hk) k hkm
        cases k with
        | other => simp [XNode.tag]
        | elem t a n tx ks =>
          simp only [coveredKidB, XNode.isElem, Bool.not_true, Bool.false_or, Bool.and_eq_true, bne_iff_ne, ne_eq] at hkb
          exact hkb.1.1.1.2

/-- **the general file-level theorem in decidable form** -/
theorem readXml_of_coveredFileB (xf : XFile) (h : coveredFileB xf = true) :
    ∃ schema tns, xf.tops = some [schema] ∧ readXml [xf] xf.name =
      .ok { fileDoc schema tns with
            nodes := (fileDoc schema tns).nodes ++ schema.kids.filterMap (nodeOfC (fileDoc schema tns) [schema]) } := by
  obtain ⟨schema, tns, hp⟩ := coveredFileB_sound xf h
  exact ⟨schema, tns, hp.tops, readXml_covered_file xf schema tns hp⟩

end ZeepVerif.Lemmas.ReadDecide
