/-
Lexical lemmas for C14: the `{:?}` rendering of any text is one string literal whose value is that
text; doc lines contain no line terminator; the operation comment text contains no comment delimiter.
-/
import ZeepVerif.RustLex
import ZeepVerif.Model.Text

namespace ZeepVerif.Lemmas.Literal
open ZeepVerif.RustLex ZeepVerif.Model.Text

/-! ### string literals -/

/-- hex digits with their value, read by the `\u{…}` state -/
theorem lex_hex_digits (ds : List Char) (hd : ∀ c ∈ ds, (hexVal? c).isSome) (v n : Nat) (acc tail : List Char) :
    lexStrBody (.hex v n) acc (ds ++ '}' :: tail) =
      lexStrBody (.hex (ds.foldl (fun a c => 16 * a + (hexVal? c).getD 0) v) (n + ds.length)) acc ('}' :: tail) := by
  induction ds generalizing v n with
  | nil => simp
  | cons c cs ih =>
    have hc := hd c (by simp)
    have hne : c ≠ '}' := by
      intro h; subst h; revert hc; decide
    obtain ⟨d, hdv⟩ := Option.isSome_iff_exists.mp hc
    have step : lexStrBody (.hex v n) acc (c :: (cs ++ '}' :: tail)) =
        lexStrBody (.hex (16 * v + d) (n + 1)) acc (cs ++ '}' :: tail) := by
      simp only [lexStrBody, hne, if_false, hdv]
    rw [List.cons_append, step, ih (fun c h => hd c (by simp [h]))]
    have : n + 1 + cs.length = n + (cs.length + 1) := by omega
    simp only [List.foldl_cons, hdv, Option.getD_some, List.length_cons, this]

/-- the facts about `Nat.toDigits 16` the escape needs, for every code point that is escaped -/
theorem hex_table : ∀ n : Fin 0xae,
    ((Nat.toDigits 16 n.val).all (fun c => (hexVal? c).isSome)
      && ((Nat.toDigits 16 n.val).foldl (fun a c => 16 * a + (hexVal? c).getD 0) 0 == n.val)
      && decide (0 < (Nat.toDigits 16 n.val).length) && decide ((Nat.toDigits 16 n.val).length ≤ 6)) = true := by
  decide +kernel

theorem lex_unicode_escape (c : Char) (hc : c.toNat < 0xae) (acc tail : List Char) :
    lexStrBody .norm acc (['\\', 'u', '{'] ++ Nat.toDigits 16 c.toNat ++ ['}'] ++ tail) = lexStrBody .norm (c :: acc) tail := by
  have ht := hex_table ⟨c.toNat, hc⟩
  simp only [Bool.and_eq_true, List.all_eq_true, beq_iff_eq, decide_eq_true_eq] at ht
  obtain ⟨⟨⟨h1, h2⟩, h3⟩, h4⟩ := ht
  have := lex_hex_digits (Nat.toDigits 16 c.toNat) h1 0 0 acc tail
  simp only [List.cons_append, List.nil_append, List.append_assoc, lexStrBody]
  simp only [show ('\\' : Char) ≠ '"' by decide, show ('u' : Char) ≠ 'n' by decide, show ('u' : Char) ≠ 'r' by decide,
    show ('u' : Char) ≠ 't' by decide, show ('u' : Char) ≠ '0' by decide, show ('u' : Char) ≠ '\\' by decide,
    show ('u' : Char) ≠ '"' by decide, show ('u' : Char) ≠ '\'' by decide, if_false, if_true]
  rw [this, h2]
  have hv : c.toNat.isValidChar := c.valid
  have hn : ¬ (0 + (Nat.toDigits 16 c.toNat).length = 0 ∨ 6 < 0 + (Nat.toDigits 16 c.toNat).length ∨ ¬ c.toNat.isValidChar) := by
    intro h
    rcases h with h | h | h
    · omega
    · omega
    · exact h hv
  simp only [lexStrBody, if_true, hn, if_false, Char.ofNat_toNat]

/-- one escaped character is read back as that character -/
theorem lex_esc_char (c : Char) (acc tail : List Char) :
    lexStrBody .norm acc (escChar c ++ tail) = lexStrBody .norm (c :: acc) tail := by
  unfold escChar
  split
  · next h => simp at h; subst h; simp [lexStrBody]
  split
  · next h => simp at h; subst h; simp [lexStrBody]
  split
  · next h => simp at h; subst h; simp [lexStrBody]
  split
  · next h => simp at h; subst h; simp [lexStrBody]
  split
  · next h => simp at h; subst h; simp [lexStrBody]
  split
  · next h => simp at h; subst h; simp [lexStrBody]
  split
  · next h =>
    have hc : c.toNat < 0xae := by
      simp only [needsUnicodeEscape, Bool.or_eq_true, decide_eq_true_eq, Bool.and_eq_true, beq_iff_eq] at h
      omega
    exact lex_unicode_escape c hc acc tail
  · next h1 h2 h3 h4 h5 h6 h7 =>
    simp at h2 h3 h5 h6
    simp [lexStrBody, h3, h5, h6]

theorem lex_esc_body (s : List Char) (acc rest : List Char) :
    lexStrBody .norm acc (s.flatMap escChar ++ '"' :: rest) = some (acc.reverse ++ s, rest) := by
  induction s generalizing acc with
  | nil => simp [lexStrBody]
  | cons c cs ih =>
    simp only [List.flatMap_cons, List.append_assoc]
    rw [lex_esc_char, ih]
    simp

/-- **the `{:?}` rendering of any text, followed by anything, lexes as exactly one string literal whose
    value is that text; nothing after it is consumed** -/
theorem lex_debug_literal (s rest : List Char) : lexStrLit (debugChars s ++ rest) = some (s, rest) := by
  simp only [debugChars, List.cons_append, lexStrLit, List.append_assoc]
  rw [lex_esc_body]
  simp

/-! ### doc comment lines -/

theorem splitOnChar_ne_nil (c : Char) (s : List Char) : splitOnChar c s ≠ [] := by
  induction s with
  | nil => simp [splitOnChar]
  | cons x xs ih =>
    unfold splitOnChar
    split
    · simp
    · split <;> simp

/-- no piece of `split(c)` contains `c`, and every character of a piece is a character of the input -/
theorem splitOnChar_pieces (c : Char) (s : List Char) :
    ∀ l ∈ splitOnChar c s, c ∉ l ∧ ∀ x ∈ l, x ∈ s := by
  induction s with
  | nil => simp [splitOnChar]
  | cons x xs ih =>
    intro l hl
    unfold splitOnChar at hl
    split at hl
    · rcases List.mem_cons.mp hl with h | h
      · subst h; simp
      · have := ih l h
        exact ⟨this.1, fun y hy => List.mem_cons_of_mem _ (this.2 y hy)⟩
    · next hx =>
      split at hl
      · next h t heq =>
        rcases List.mem_cons.mp hl with h' | h'
        · subst h'
          have := ih h (by rw [heq]; simp)
          refine ⟨?_, ?_⟩
          · intro hm
            rcases List.mem_cons.mp hm with e | e
            · exact hx e.symm
            · exact this.1 e
          · intro y hy
            rcases List.mem_cons.mp hy with e | e
            · subst e; simp
            · exact List.mem_cons_of_mem _ (this.2 y e)
        · have := ih l (by rw [heq]; exact List.mem_cons_of_mem _ h')
          exact ⟨this.1, fun y hy => List.mem_cons_of_mem _ (this.2 y hy)⟩
      · next heq => exact absurd heq (splitOnChar_ne_nil c xs)

theorem stripCr_subset (l : List Char) : ∀ x ∈ stripCr l, x ∈ l := by
  intro x hx
  unfold stripCr at hx
  split at hx
  · exact (List.dropLast_sublist _).subset hx
  · exact hx

/-- **every doc line is free of line terminators**: it contains neither `\n` nor `\r` -/
theorem docLines_no_terminator (s : List Char) : ∀ l ∈ docLines s, '\n' ∉ l ∧ '\r' ∉ l := by
  intro l hl
  simp only [docLines, List.mem_flatMap] at hl
  obtain ⟨line, hline, hl⟩ := hl
  have hp := splitOnChar_pieces '\r' line l hl
  refine ⟨?_, hp.1⟩
  intro hn
  have h1 : '\n' ∈ line := hp.2 _ hn
  simp only [rustLines, List.mem_map] at hline
  obtain ⟨piece, hpiece, rfl⟩ := hline
  have h2 : '\n' ∈ piece := stripCr_subset _ _ h1
  have h3 : piece ∈ splitOnChar '\n' s := by
    split at hpiece
    · exact (List.dropLast_sublist _).subset hpiece
    · exact hpiece
  exact (splitOnChar_pieces '\n' s piece h3).1 h2

theorem takeWhile_stop (p : Char → Bool) (l : List Char) (a : Char) (r : List Char)
    (hl : ∀ x ∈ l, p x = true) (ha : p a = false) :
    (l ++ a :: r).takeWhile p = l ∧ (l ++ a :: r).dropWhile p = a :: r := by
  induction l with
  | nil => simp [ha]
  | cons x xs ih =>
    have hx := hl x (by simp)
    have := ih (fun y hy => hl y (by simp [hy]))
    simp [hx, this]

/-- **a line `/// ` + doc line + newline is one line comment**: it ends at that newline, what follows
    is untouched -/
theorem lex_doc_line (l rest : List Char) (hn : '\n' ∉ l) (hr : '\r' ∉ l) :
    lexLineComment (['/', '/', '/', ' '] ++ l ++ '\n' :: rest) = some ('/' :: ' ' :: l, '\n' :: rest) := by
  have h := takeWhile_stop (· ≠ '\n') ('/' :: ' ' :: l) '\n' rest
    (by
      intro x hx
      rcases List.mem_cons.mp hx with e | hx
      · subst e; decide
      rcases List.mem_cons.mp hx with e | hx
      · subst e; decide
      · simp only [ne_eq, decide_not, Bool.not_eq_eq_eq_not, Bool.not_true, decide_eq_false_iff_not]
        intro e; subst e; exact hn hx)
    (by simp)
  simp only [List.cons_append, List.nil_append, lexLineComment]
  rw [show '/' :: ' ' :: (l ++ '\n' :: rest) = ('/' :: ' ' :: l) ++ '\n' :: rest by simp, h.1, h.2]
  have : ('/' :: ' ' :: l).contains '\r' = false := by
    simp only [List.contains_cons, Bool.or_eq_false_iff]
    refine ⟨by decide, by decide, ?_⟩
    simpa using hr
  simp [hr]

/-! ### the operation comment -/

/-- the two characters `a b` occur next to each other -/
def hasPair (a b : Char) : List Char → Bool
  | x :: y :: rest => (x == a && y == b) || hasPair a b (y :: rest)
  | _ => false

theorem hasPair_cons (a b x : Char) (l : List Char) :
    hasPair a b (x :: l) = ((x == a && l.head? == some b) || hasPair a b l) := by
  cases l with
  | nil => simp [hasPair]
  | cons y r => simp [hasPair]

/-- a replacement that starts with the pattern's first character leaves the first character alone -/
theorem replace2_head (a b : Char) (r l : List Char) : (replace2 a b (a :: r) l).head? = l.head? := by
  match l with
  | [] => simp [replace2]
  | [x] => simp [replace2]
  | x :: y :: rest =>
    unfold replace2
    split
    · next h => simp [h.1]
    · simp

/-- after `replace("*/", "* /")` no `*/` is left -/
theorem pass1_no_close (l : List Char) : hasPair '*' '/' (replace2 '*' '/' ['*', ' ', '/'] l) = false := by
  fun_induction replace2 '*' '/' ['*', ' ', '/'] l with
  | case1 x y rest h ih =>
    simp only [List.cons_append, List.nil_append, hasPair_cons, ih]
    simp
  | case2 x y rest h ih =>
    rw [hasPair_cons, ih, replace2_head]
    simp only [List.head?_cons, Bool.or_false, Bool.and_eq_false_iff]
    by_cases hx : x = '*'
    · right
      simp only [beq_eq_false_iff_ne, ne_eq, Option.some.injEq]
      intro hy
      exact h ⟨hx, hy⟩
    · left; simpa using hx
  | case3 l hl =>
    match l with
    | [] => rfl
    | [x] => rfl
    | x :: y :: rest => exact absurd rfl (hl x y rest)

theorem hasPair_tail (a b x : Char) (l : List Char) (h : hasPair a b (x :: l) = false) : hasPair a b l = false := by
  rw [hasPair_cons] at h
  simp only [Bool.or_eq_false_iff] at h
  exact h.2

/-- `replace("/*", "/ *")` on a text without `*/` leaves neither `/*` nor `*/` -/
theorem pass2_no_delim (l : List Char) (hl : hasPair '*' '/' l = false) :
    hasPair '*' '/' (replace2 '/' '*' ['/', ' ', '*'] l) = false ∧
    hasPair '/' '*' (replace2 '/' '*' ['/', ' ', '*'] l) = false := by
  fun_induction replace2 '/' '*' ['/', ' ', '*'] l with
  | case1 x y rest h ih =>
    obtain ⟨rfl, rfl⟩ := h
    have h1 := hasPair_tail _ _ _ _ hl
    have h2 := hasPair_tail _ _ _ _ h1
    have hh : (rest.head? == some '/') = false := by
      rw [hasPair_cons] at h1
      simp only [Bool.or_eq_false_iff] at h1
      simpa using h1.1
    have := ih h2
    simp only [List.cons_append, List.nil_append, hasPair_cons, this.1, this.2, replace2_head, List.head?_cons]
    simp [hh]
  | case2 x y rest h ih =>
    have h1 := hasPair_tail _ _ _ _ hl
    have := ih h1
    rw [hasPair_cons, hasPair_cons, this.1, this.2, replace2_head]
    simp only [List.head?_cons, Bool.or_false]
    rw [hasPair_cons] at hl
    simp only [Bool.or_eq_false_iff, List.head?_cons] at hl
    refine ⟨hl.1, ?_⟩
    by_cases hx : x = '/'
    · simp only [Bool.and_eq_false_iff]
      right
      simp only [beq_eq_false_iff_ne, ne_eq, Option.some.injEq]
      intro hy; exact h ⟨hx, hy⟩
    · simp only [Bool.and_eq_false_iff]; left; simpa using hx
  | case3 l hl' =>
    match l with
    | [] => exact ⟨rfl, rfl⟩
    | [x] => exact ⟨rfl, rfl⟩
    | x :: y :: rest => exact absurd rfl (hl' x y rest)

/-- **the text of the operation comment contains no comment delimiter, whatever the operation is called** -/
theorem commentText_no_delim (name : List Char) :
    hasPair '*' '/' (commentText name) = false ∧ hasPair '/' '*' (commentText name) = false :=
  pass2_no_delim _ (pass1_no_close name)

/-- a text without delimiters, between ` ` and ` */`, closes the comment exactly at that `*/` -/
theorem lexBlockBody_plain (t rest : List Char) (h1 : hasPair '*' '/' t = false) (h2 : hasPair '/' '*' t = false) :
    lexBlockBody 0 (t ++ ' ' :: '*' :: '/' :: rest) = some rest := by
  match t with
  | [] => simp [lexBlockBody]
  | [x] =>
    simp only [List.cons_append, List.nil_append]
    rw [lexBlockBody.eq_4]
    · simp [lexBlockBody]
    · intro r; simp
    · intro r; simp
  | x :: y :: r =>
    have ih := lexBlockBody_plain (y :: r) rest (hasPair_tail _ _ _ _ h1) (hasPair_tail _ _ _ _ h2)
    simp only [hasPair, Bool.or_eq_false_iff, Bool.and_eq_false_iff, beq_eq_false_iff_ne, ne_eq] at h1 h2
    simp only [List.cons_append]
    rw [lexBlockBody.eq_4]
    · simpa using ih
    · intro r' hx hy
      simp only [List.cons.injEq] at hy
      rcases h1.1 with e | e
      · exact e hx
      · exact e hy.1
    · intro r' hx hy
      simp only [List.cons.injEq] at hy
      rcases h2.1 with e | e
      · exact e hx
      · exact e hy.1
termination_by t.length

/-- **the emitted operation comment is one block comment**: it is closed by its own ` */` and by nothing
    before it, so the text after it is code again — for every operation name -/
theorem lex_operation_comment (name rest : List Char) :
    lexBlockComment (['/', '*', ' '] ++ commentText name ++ [' ', '*', '/'] ++ rest) = some rest := by
  have h := commentText_no_delim name
  have := lexBlockBody_plain (' ' :: commentText name) rest
    (by rw [hasPair_cons, h.1]; simp) (by rw [hasPair_cons, h.2]; simp)
  simpa [lexBlockComment] using this

end ZeepVerif.Lemmas.Literal
