/-
Termination of the node-level reader, for EVERY tree: the recursion of the mutual block
(`tryFromNode → complexFromNode/elementFromNode → importExtension/importSequence → fieldFromNode → findNodeByXmlName →
tryFromNode`) that is not structural in the code — the forward-reference fallback — is bounded by the re-entrancy guard
`resolving`: a key is pushed only when it is not on the stack, every key pushed is one of finitely many determined by
the file (`keySpace`), so the stack never holds more than `keySpace.length` keys and seven levels of calls separate two
pushes. Hence with `fuel ≥ 7 * keySpace.length + 7` no call ever runs out of fuel, and the `resolving` stack is handed
back as it was found — whether the call returns a value or an error.

Hypothesis (`SchemasHaveTns`): every `schema` element that has element children carries a `targetNamespace`
attribute. (For a schema without one, the guard's key contains the namespace of the *reference*, of which there can be
as many as the file declares prefixes; the depth is then bounded by that number, which this theorem does not track.)
-/
import ZeepVerif.Lemmas.Keeps

namespace ZeepVerif.Lemmas.Depth
open ZeepVerif ZeepVerif.Model Std.Do ZeepVerif.Lemmas.Keeps

set_option mvcgen.warning false

abbrev Key := String × Option String × String

def keysOf (p : XNode × List XNode) : List Key :=
  match p.2.head?, p.1.attr? "name" with
  | some schema, some nm =>
    [((splitType nm).1, none, "type"), ((splitType nm).1, none, "element"), ((splitType nm).1, none, "any"),
     ((splitType nm).1, schema.attr? "targetNamespace", "type"), ((splitType nm).1, schema.attr? "targetNamespace", "element"),
     ((splitType nm).1, schema.attr? "targetNamespace", "any")]
  | _, _ => []

/-- every key the re-entrancy guard can ever hold while a file with elements `all` is read -/
def keySpace (all : List (XNode × List XNode)) : List Key := all.flatMap keysOf

def SchemasHaveTns (all : List (XNode × List XNode)) : Prop :=
  ∀ p ∈ all, ∀ schema, p.2.head? = some schema → schema.tag = "schema" → (schema.attr? "targetNamespace").isSome = true

theorem keysOf_length (p : XNode × List XNode) : (keysOf p).length ≤ 6 := by
  unfold keysOf
  split <;> simp

theorem keySpace_length (all : List (XNode × List XNode)) : (keySpace all).length ≤ 6 * all.length := by
  unfold keySpace
  induction all with
  | nil => simp
  | cons p rest ih =>
    simp only [List.flatMap_cons, List.length_append, List.length_cons]
    have := keysOf_length p
    omega

theorem kind_name_cases (k : Kind) : k.name = "type" ∨ k.name = "element" ∨ k.name = "any" := by
  cases k <;> simp [Kind.name]

/-- a key the fallback is about to push is in the key space of the file -/
theorem key_mem (ctx : Ctx) (d : Doc) (x : String) (ns : Option Ns) (k : Kind) (n : XNode) (anc : List XNode)
    (h : findGlobalComponent ctx d x ns k = some (n, anc)) (ht : SchemasHaveTns ctx.allElems) :
    (x, ns.map (·.uri), k.name) ∈ keySpace ctx.allElems := by
  unfold findGlobalComponent at h
  have hmem := List.mem_of_find?_eq_some h
  have hp := List.find?_some h
  simp only at hp
  cases hh : anc.head? with
  | none => simp [hh] at hp
  | some schema =>
    simp only [hh, Bool.and_eq_true] at hp
    obtain ⟨⟨⟨hs, _⟩, hns⟩, hname⟩ := hp
    have hst : schema.tag = "schema" := by simpa using hs
    cases hnm : n.attr? "name" with
    | none => simp [hnm] at hname
    | some nm =>
      simp only [hnm] at hname
      have hx : (splitType nm).1 = x := by
        have : (resolveType d nm).1 = (splitType nm).1 := by simp [resolveType]
        rw [← this]; simpa using hname
      have htns := ht (n, anc) hmem schema hh hst
      obtain ⟨t, ht'⟩ := Option.isSome_iff_exists.mp htns
      unfold keySpace
      rw [List.mem_flatMap]
      refine ⟨(n, anc), hmem, ?_⟩
      simp only [keysOf, hh, hnm, hx, ht']
      cases ns with
      | none =>
        rcases kind_name_cases k with e | e | e <;> simp [e]
      | some w =>
        simp only [ht'] at hns
        have : w.uri = t := by simpa using hns
        rcases kind_name_cases k with e | e | e <;> simp [e, this]

/-- pigeonhole: a duplicate-free stack inside the key space that does not yet hold `key ∈ keySpace` has room -/
theorem room (S rs : List Key) (key : Key) (hnd : rs.Nodup) (hsub : ∀ k ∈ rs, k ∈ S) (hk : key ∈ S) (hnot : key ∉ rs) :
    rs.length + 1 ≤ S.length := by
  have hnd' : (key :: rs).Nodup := List.nodup_cons.mpr ⟨hnot, hnd⟩
  have hsub' : (key :: rs) ⊆ S := by
    intro a ha
    rcases List.mem_cons.mp ha with rfl | ha
    · exact hk
    · exact hsub a ha
  simpa using List.Nodup.length_le_of_subset hnd' hsub'

theorem addRef_resolving (d : Doc) (a u : String) : (d.addNamespaceReference a u).resolving = d.resolving := by
  unfold Doc.addNamespaceReference
  repeat' split
  all_goals rfl

theorem addDefault_resolving (d : Doc) (u : String) : (d.addDefaultNamespace u).resolving = d.resolving := by
  unfold Doc.addDefaultNamespace
  split <;> rfl

theorem switch_resolving (d : Doc) (ns : String) : (d.switchToTargetNamespace ns).resolving = d.resolving := by
  unfold Doc.switchToTargetNamespace
  split <;> rfl

theorem collect_resolving (nss : List (Option String × String)) : ∀ (d : Doc), (d.collectNamespaces nss).resolving = d.resolving := by
  unfold Doc.collectNamespaces
  induction nss with
  | nil => intro d; rfl
  | cons pu rest ih =>
    intro d
    simp only [List.foldl_cons]
    rw [ih]
    cases pu.1 with
    | none => exact addDefault_resolving _ _
    | some a => exact addRef_resolving _ _ _

macro "rk" : tactic => `(tactic| (
  (try simp only [SPred.down_pure] at *)
  (try intros)
  first | assumption | exact ExceptConds.entails.rfl | (simp (config := { zetaDelta := true }) only [collect_resolving, switch_resolving, List.dropLast_concat] at *; simp_all; done) | (simp_all; done)))

/-- the call hands the `resolving` stack back as it found it and does not run out of fuel -/
abbrev Bounded (rs : List Key) {α} (x : NM α) : Prop :=
  ⦃fun d => ⌜d.resolving = rs⌝⦄ x ⦃post⟨fun _ d' => ⌜d'.resolving = rs⌝, fun e d' => ⌜d'.resolving = rs ∧ e ≠ Err.outOfFuel⌝⟩⦄

theorem bounded_simple (rs : List Key) (node : XNode) : Bounded rs (simpleFromNode node) := by
  unfold Bounded
  mvcgen [simpleFromNode, collectNamespacesOnNode, modifyDoc, liftOpt, getDoc]
  case inv1 => exact post⟨fun _ d' => ⌜d'.resolving = rs⌝, fun e d' => ⌜d'.resolving = rs ∧ e ≠ Err.outOfFuel⌝⟩
  all_goals rk

/-- `.ok()` of a bounded call: the stack is handed back and no error escapes at all (only `outOfFuel` is re-thrown) -/
theorem bounded_okOrNone {rs : List Key} {α} (x : NM α) (hx : Bounded rs x) :
    ⦃fun d => ⌜d.resolving = rs⌝⦄ okOrNone x ⦃post⟨fun _ d' => ⌜d'.resolving = rs⌝, fun _ _ => ⌜False⌝⟩⦄ := by
  unfold Bounded at *
  mvcgen [okOrNone, hx]
  all_goals (try simp only [SPred.down_pure] at *)
  all_goals (try intros)
  all_goals simp_all

structure BlockBounded (all : List (XNode × List XNode)) (fuel : Nat) : Prop where
  tfn : ∀ node ctx rs, ctx.allElems = all → rs.Nodup → (∀ k ∈ rs, k ∈ keySpace all) →
    7 * ((keySpace all).length - rs.length) + 7 ≤ fuel → Bounded rs (tryFromNode node ctx fuel)
  elt : ∀ node ctx rs, ctx.allElems = all → rs.Nodup → (∀ k ∈ rs, k ∈ keySpace all) →
    7 * ((keySpace all).length - rs.length) + 6 ≤ fuel → Bounded rs (elementFromNode node ctx fuel)
  cpx : ∀ node ctx rs, ctx.allElems = all → rs.Nodup → (∀ k ∈ rs, k ∈ keySpace all) →
    7 * ((keySpace all).length - rs.length) + 5 ≤ fuel → Bounded rs (complexFromNode node ctx fuel)
  ext : ∀ node ctx rs, ctx.allElems = all → rs.Nodup → (∀ k ∈ rs, k ∈ keySpace all) →
    7 * ((keySpace all).length - rs.length) + 4 ≤ fuel → Bounded rs (importExtension node ctx fuel)
  seq : ∀ node ctx acc rs, ctx.allElems = all → rs.Nodup → (∀ k ∈ rs, k ∈ keySpace all) →
    7 * ((keySpace all).length - rs.length) + 3 ≤ fuel → Bounded rs (importSequence node ctx acc fuel)
  fld : ∀ node ctx rs, ctx.allElems = all → rs.Nodup → (∀ k ∈ rs, k ∈ keySpace all) →
    7 * ((keySpace all).length - rs.length) + 2 ≤ fuel → Bounded rs (fieldFromNode node ctx fuel)
  fnd : ∀ ctx x ns k rs, ctx.allElems = all → rs.Nodup → (∀ k ∈ rs, k ∈ keySpace all) →
    7 * ((keySpace all).length - rs.length) + 1 ≤ fuel → Bounded rs (findNodeByXmlName ctx x ns k fuel)

theorem block_bounded (all : List (XNode × List XNode)) (ht : SchemasHaveTns all) : ∀ fuel, BlockBounded all fuel := by
  intro fuel
  induction fuel with
  | zero => constructor <;> intros <;> omega
  | succ fuel ih =>
    constructor
    case fnd =>
      intro ctx x ns k rs hc hnd hsub hf
      have hok : ∀ node ctx' rs', ctx'.allElems = all → rs'.Nodup → (∀ k ∈ rs', k ∈ keySpace all) →
          7 * ((keySpace all).length - rs'.length) + 7 ≤ fuel →
          ⦃fun d => ⌜d.resolving = rs'⌝⦄ okOrNone (tryFromNode node ctx' fuel) ⦃post⟨fun _ d' => ⌜d'.resolving = rs'⌝, fun _ _ => ⌜False⌝⟩⦄ :=
        fun node ctx' rs' a b c d => bounded_okOrNone _ (ih.tfn node ctx' rs' a b c d)
      unfold Bounded at *
      mvcgen [findNodeByXmlName, modifyDoc, getDoc, hok]
      all_goals (try simp only [SPred.down_pure] at *)
      all_goals (try intros)
      case vc5.a =>
        rename_i s hres _ _ _ hfind _ hnot _
        show (s.resolving ++ [_]).Nodup
        rw [hres]
        have hnot' : (x, ns.map (·.uri), k.name) ∉ rs := by rw [← hres]; simpa using hnot
        exact List.nodup_append.mpr ⟨hnd, by simp, by
          intro a ha b hb
          simp only [List.mem_singleton] at hb
          subst hb
          intro e
          have e' : a = (x, ns.map (·.uri), k.name) := e
          subst e'
          exact hnot' ha⟩
      case vc6.a =>
        rename_i s hres _ _ _ hfind _ hnot _ kk hk
        have hk' : kk ∈ s.resolving ++ [(x, ns.map (·.uri), k.name)] := hk
        simp only [List.mem_append, List.mem_singleton] at hk'
        rcases hk' with h | rfl
        · exact hsub kk (hres ▸ h)
        · exact hc ▸ key_mem ctx s x ns k _ _ hfind (hc ▸ ht)
      case vc7.a =>
        rename_i s hres _ _ _ hfind _ hnot _
        show 7 * ((keySpace all).length - (s.resolving ++ [_]).length) + 7 ≤ fuel
        have hnot' : (x, ns.map (·.uri), k.name) ∉ rs := by rw [← hres]; simpa using hnot
        have := room (keySpace all) rs _ hnd hsub (hc ▸ key_mem ctx s x ns k _ _ hfind (hc ▸ ht)) hnot'
        simp only [List.length_append, List.length_singleton, hres]
        omega
      case vc8.h_2.h_2.isFalse.post.success =>
        rename_i s hres _ _ _ hfind _ hnot _ r s' hs' _
        show s'.resolving.dropLast = rs
        have : s'.resolving = s.resolving ++ [(x, ns.map (·.uri), k.name)] := hs'
        rw [this, List.dropLast_concat, hres]
    case tfn =>
      intro node ctx rs hc hnd hsub hf
      have hcpx := fun node ctx (hcx : ctx.allElems = all) => ih.cpx node ctx rs hcx hnd hsub (by omega)
      have helt := fun node ctx (hcx : ctx.allElems = all) => ih.elt node ctx rs hcx hnd hsub (by omega)
      have hsimple := fun node => bounded_simple rs node
      unfold Bounded at *
      mvcgen [tryFromNode, switchToTargetNamespace, collectNamespacesOnNode, modifyDoc, getDoc, hcpx, helt, hsimple]
      all_goals rk
    case elt =>
      intro node ctx rs hc hnd hsub hf
      have hcpx := fun node ctx (hcx : ctx.allElems = all) => ih.cpx node ctx rs hcx hnd hsub (by omega)
      unfold Bounded at *
      mvcgen [elementFromNode, collectNamespacesOnNode, modifyDoc, getDoc, liftOpt, hcpx]
      all_goals rk
    case cpx =>
      intro node ctx rs hc hnd hsub hf
      have hext := fun node ctx (hcx : ctx.allElems = all) => ih.ext node ctx rs hcx hnd hsub (by omega)
      have hseq := fun node ctx acc (hcx : ctx.allElems = all) => ih.seq node ctx acc rs hcx hnd hsub (by omega)
      have hfld := fun node ctx (hcx : ctx.allElems = all) => ih.fld node ctx rs hcx hnd hsub (by omega)
      unfold Bounded at *
      mvcgen [complexFromNode, collectNamespacesOnNode, modifyDoc, getDoc, liftOpt, hext, hseq, hfld]
      case inv1 => exact post⟨fun _ d' => ⌜d'.resolving = rs⌝, fun e d' => ⌜d'.resolving = rs ∧ e ≠ Err.outOfFuel⌝⟩
      case inv2 => exact post⟨fun _ d' => ⌜d'.resolving = rs⌝, fun e d' => ⌜d'.resolving = rs ∧ e ≠ Err.outOfFuel⌝⟩
      all_goals rk
    case ext =>
      intro node ctx rs hc hnd hsub hf
      have hfnd := fun ctx x ns k (hcx : ctx.allElems = all) => ih.fnd ctx x ns k rs hcx hnd hsub (by omega)
      have hseq := fun node ctx acc (hcx : ctx.allElems = all) => ih.seq node ctx acc rs hcx hnd hsub (by omega)
      have hfld := fun node ctx (hcx : ctx.allElems = all) => ih.fld node ctx rs hcx hnd hsub (by omega)
      unfold Bounded at *
      mvcgen [importExtension, getDoc, liftOpt, hfnd, hseq, hfld]
      case inv1 => exact post⟨fun _ d' => ⌜d'.resolving = rs⌝, fun e d' => ⌜d'.resolving = rs ∧ e ≠ Err.outOfFuel⌝⟩
      case inv2 => exact post⟨fun _ d' => ⌜d'.resolving = rs⌝, fun e d' => ⌜d'.resolving = rs ∧ e ≠ Err.outOfFuel⌝⟩
      all_goals rk
    case seq =>
      intro node ctx acc rs hc hnd hsub hf
      have hfld := fun node ctx (hcx : ctx.allElems = all) => ih.fld node ctx rs hcx hnd hsub (by omega)
      unfold Bounded at *
      mvcgen [importSequence, hfld]
      case inv1 => exact post⟨fun _ d' => ⌜d'.resolving = rs⌝, fun e d' => ⌜d'.resolving = rs ∧ e ≠ Err.outOfFuel⌝⟩
      all_goals rk
    case fld =>
      intro node ctx rs hc hnd hsub hf
      have hfnd := fun ctx x ns k (hcx : ctx.allElems = all) => ih.fnd ctx x ns k rs hcx hnd hsub (by omega)
      unfold Bounded at *
      mvcgen [fieldFromNode, switchToTargetNamespace, modifyDoc, getDoc, liftOpt, hfnd]
      all_goals rk

end ZeepVerif.Lemmas.Depth
