/- The plain fragment at the level of the grammar: the tree `ComplexDef.toX` renders for a complex type without
   derivation and without element references meets the hypotheses of the reader lemmas, and the struct description
   the reader returns for it has, member by member, the XML name, the wrapper and the attribute flag of the
   reference elaboration `Spec.Ref`. -/
import ZeepVerif.Lemmas.ReadFile
import ZeepVerif.Lemmas.Flatten

namespace ZeepVerif.Lemmas.ReadSpec
open ZeepVerif ZeepVerif.Model ZeepVerif.Spec ZeepVerif.Lemmas.ReadField ZeepVerif.Lemmas.ReadFile ZeepVerif.Lemmas.Flatten

mutual
def NoRef : Particle → Prop
  | .elem _ _ _ => True
  | .ref _ _ _ => False
  | .seq _ ps => NoRefs ps
  | .choice _ ps => NoRefs ps
def NoRefs : List Particle → Prop
  | [] => True
  | p :: ps => NoRef p ∧ NoRefs ps
end

def siteName (s : XNode × List XNode) : String := (s.1.attr? "name").getD ""

theorem occ_none (o : Occurs) (nm : String) (h1 : nm ≠ "minOccurs") (h2 : nm ≠ "maxOccurs") : findAttr (occAttrs o) nm = none := by
  have hocc : ∀ a ∈ occAttrs o, a.name = "minOccurs" ∨ a.name = "maxOccurs" := by
    intro a ha
    unfold occAttrs at ha
    simp only [List.mem_append] at ha
    rcases ha with ha | ha
    · split at ha
      · cases ha
      · simp at ha; left; rw [ha]
    · split at ha
      · cases ha
      · simp at ha; right; rw [ha]
      · simp at ha; right; rw [ha]
  unfold findAttr
  rw [Option.map_eq_none_iff, List.find?_eq_none]
  intro a ha
  rcases hocc a ha with h | h <;> simp [h, Ne.symm h1, Ne.symm h2]

theorem elem_attrs (f : SchemaFile) (n : String) (t : TypeRef) (o : Occurs) :
    ((Particle.elem n t o).toX f).attr? "name" = some n ∧ ((Particle.elem n t o).toX f).attr? "type" = some (renderTypeRef f t) ∧
    ((Particle.elem n t o).toX f).attr? "ref" = none ∧ ((Particle.elem n t o).toX f).attr? "targetNamespace" = none := by
  simp only [Particle.toX, attr_eq_findAttr]
  refine ⟨by simp [findAttr], by simp [findAttr], ?_, ?_⟩
  · rw [find_append_none _ _ "ref" (by intro a ha; simp at ha; rcases ha with rfl | rfl <;> simp)]
    exact occ_none o "ref" (by decide) (by decide)
  · rw [find_append_none _ _ "targetNamespace" (by intro a ha; simp at ha; rcases ha with rfl | rfl <;> simp)]
    exact occ_none o "targetNamespace" (by decide) (by decide)

theorem elem_plain (f : SchemaFile) (n : String) (t : TypeRef) (o : Occurs) : PlainDecl ((Particle.elem n t o).toX f) := by
  obtain ⟨h1, _, h3, h4⟩ := elem_attrs f n t o
  refine ⟨rfl, ?_, ?_, h3, h4⟩
  · simp [Particle.toX, XNode.tag]
  · rw [h1]; rfl

mutual
theorem sites_particle (f : SchemaFile) (p : Particle) (hp : NoRef p) (rest : List XNode) (anc : List XNode) :
    (∀ s ∈ memberSitesList (p.toX f :: rest) anc, PlainDecl s.1 ∨ s ∈ memberSitesList rest anc) ∧
    ∀ (ss : SchemaSet) (uri : String) (opt rep ch : Bool), (memberSitesList (p.toX f :: rest) anc).map siteName =
      (Ref.flattenParticle ss uri opt rep ch p).map (·.xmlName) ++ (memberSitesList rest anc).map siteName := by
  match p with
  | .elem n t o =>
    have hx := elem_plain f n t o
    obtain ⟨h1, _, _, _⟩ := elem_attrs f n t o
    have hn : siteName ((Particle.elem n t o).toX f, anc) = n := by simp [siteName, h1]
    have hml : memberSitesList ((Particle.elem n t o).toX f :: rest) anc = ((Particle.elem n t o).toX f, anc) :: memberSitesList rest anc := by
      simp [Particle.toX, memberSitesList, XNode.isElem, XNode.tag]
    constructor
    · intro s hs
      rw [hml] at hs
      rcases List.mem_cons.mp hs with rfl | hs
      · exact Or.inl hx
      · exact Or.inr hs
    · intro ss uri opt rep ch
      rw [hml]
      simp [Ref.flattenParticle, hn]
  | .ref ns n o => exact absurd hp (by simp [NoRef])
  | .seq o ps =>
    have hps : NoRefs ps := by simpa [NoRef] using hp
    obtain ⟨i1, i2⟩ := sites_particles f ps hps (XNode.elem "sequence" (occAttrs o) [] none (particlesToX f ps) :: anc)
    have hml : memberSitesList ((Particle.seq o ps).toX f :: rest) anc =
        memberSitesList (particlesToX f ps) (XNode.elem "sequence" (occAttrs o) [] none (particlesToX f ps) :: anc) ++ memberSitesList rest anc := by
      simp [Particle.toX, memberSitesList, memberSites, XNode.isElem, XNode.tag]
    constructor
    · intro s hs
      rw [hml] at hs
      rcases List.mem_append.mp hs with hs | hs
      · exact Or.inl (i1 s hs)
      · exact Or.inr hs
    · intro ss uri opt rep ch
      rw [hml, List.map_append, i2 ss uri (opt || o.optional) (rep || o.repeats) ch]
      simp [Ref.flattenParticle]
  | .choice o ps =>
    have hps : NoRefs ps := by simpa [NoRef] using hp
    obtain ⟨i1, i2⟩ := sites_particles f ps hps (XNode.elem "choice" (occAttrs o) [] none (particlesToX f ps) :: anc)
    have hml : memberSitesList ((Particle.choice o ps).toX f :: rest) anc =
        memberSitesList (particlesToX f ps) (XNode.elem "choice" (occAttrs o) [] none (particlesToX f ps) :: anc) ++ memberSitesList rest anc := by
      simp [Particle.toX, memberSitesList, memberSites, XNode.isElem, XNode.tag]
    constructor
    · intro s hs
      rw [hml] at hs
      rcases List.mem_append.mp hs with hs | hs
      · exact Or.inl (i1 s hs)
      · exact Or.inr hs
    · intro ss uri opt rep ch
      rw [hml, List.map_append, i2 ss uri (opt || o.optional) (rep || o.repeats) true]
      simp [Ref.flattenParticle]
theorem sites_particles (f : SchemaFile) (ps : List Particle) (hp : NoRefs ps) (anc : List XNode) :
    (∀ s ∈ memberSitesList (particlesToX f ps) anc, PlainDecl s.1) ∧
    ∀ (ss : SchemaSet) (uri : String) (opt rep ch : Bool), (memberSitesList (particlesToX f ps) anc).map siteName =
      (Ref.flattenParticles ss uri opt rep ch ps).map (·.xmlName) := by
  match ps with
  | [] => simp [particlesToX, memberSitesList, XNode.isElem, Ref.flattenParticles]
  | p :: ps =>
    have hok : NoRef p ∧ NoRefs ps := by simpa [NoRefs] using hp
    obtain ⟨a1, a2⟩ := sites_particle f p hok.1 (particlesToX f ps) anc
    obtain ⟨b1, b2⟩ := sites_particles f ps hok.2 anc
    have e : ∀ xs, memberSitesList (XNode.other :: xs) anc = memberSitesList xs anc := by
      intro xs; simp [memberSitesList, XNode.isElem]
    constructor
    · intro s hs
      rw [particlesToX, e] at hs
      rcases a1 s hs with h | h
      · exact h
      · exact b1 s h
    · intro ss uri opt rep ch
      rw [particlesToX, e, a2 ss uri opt rep ch, b2 ss uri opt rep ch, Ref.flattenParticles, List.map_append]
end

mutual
theorem tags_particle (f : SchemaFile) (p : Particle) (rest : List XNode) (anc : List XNode)
    (hr : ∀ s ∈ memberSitesList rest anc, s.1.tag = "element") :
    ∀ s ∈ memberSitesList (p.toX f :: rest) anc, s.1.tag = "element" := by
  match p with
  | .elem n t o =>
    intro s hs
    simp [Particle.toX, memberSitesList, XNode.isElem, XNode.tag] at hs
    rcases hs with rfl | hs
    · rfl
    · exact hr s hs
  | .ref ns n o =>
    intro s hs
    simp [Particle.toX, memberSitesList, XNode.isElem, XNode.tag] at hs
    rcases hs with rfl | hs
    · rfl
    · exact hr s hs
  | .seq o ps =>
    intro s hs
    simp [Particle.toX, memberSitesList, memberSites, XNode.isElem, XNode.tag] at hs
    rcases hs with hs | hs
    · exact tags_particles f ps _ s hs
    · exact hr s hs
  | .choice o ps =>
    intro s hs
    simp [Particle.toX, memberSitesList, memberSites, XNode.isElem, XNode.tag] at hs
    rcases hs with hs | hs
    · exact tags_particles f ps _ s hs
    · exact hr s hs
theorem tags_particles (f : SchemaFile) (ps : List Particle) (anc : List XNode) :
    ∀ s ∈ memberSitesList (particlesToX f ps) anc, s.1.tag = "element" := by
  match ps with
  | [] => intro s hs; simp [particlesToX, memberSitesList, XNode.isElem] at hs
  | p :: ps =>
    intro s hs
    have e : ∀ xs, memberSitesList (XNode.other :: xs) anc = memberSitesList xs anc := by
      intro xs; simp [memberSitesList, XNode.isElem]
    rw [particlesToX, e] at hs
    exact tags_particle f p (particlesToX f ps) anc (tags_particles f ps anc) s hs
end

/-! ### a complex type of the grammar -/

/-- what the properties look at in a field: XML name, wrapper, attribute flag -/
def fieldObs (fld : Field) : String × String × Bool :=
  (fld.xmlName, Ref.wrapperOf fld.isOptional fld.isVec fld.isChoice, fld.isAttribute)

def refObs (r : Ref.RField) : String × String × Bool := (r.xmlName, r.wrapper, r.isAttr)

theorem elemKids_attrs (f : SchemaFile) : (as : List AttrDecl) →
    (attrsToX f as).filter XNode.isElem = as.map (AttrDecl.toX f)
  | [] => rfl
  | a :: as => by
    have ih := elemKids_attrs f as
    have h1 : (a.toX f).isElem = true := rfl
    have h2 : XNode.other.isElem = false := rfl
    rw [attrsToX, List.filter_cons, h1, if_pos rfl, List.filter_cons, h2, if_neg (by decide), ih, List.map_cons]

theorem attr_plain (f : SchemaFile) (a : AttrDecl) : PlainDecl (a.toX f) := by
  refine ⟨rfl, by simp [AttrDecl.toX, XNode.tag], ?_, ?_, ?_⟩
  · simp [AttrDecl.toX, XNode.attr?, XNode.attrs]
  · simp only [AttrDecl.toX, attr_eq_findAttr]
    unfold findAttr
    cases a.required <;> simp
  · simp only [AttrDecl.toX, attr_eq_findAttr]
    unfold findAttr
    cases a.required <;> simp

theorem attr_obs (s : SchemaSet) (f : SchemaFile) (d : Doc) (a : AttrDecl) (owner : XNode) (above : List XNode)
    (hown : isParticleTag owner.tag = false) :
    fieldObs (plainField d (a.toX f) (owner :: above)) = refObs (Ref.attrField s a) := by
  have h0 : enclosingParticles (owner :: above) = [] := by simp [enclosingParticles, hown]
  have hname : (a.toX f).attr? "name" = some a.name := by simp [AttrDecl.toX, XNode.attr?, XNode.attrs]
  have huse : ((a.toX f).attr? "use" != some "required") = !a.required := by
    simp only [AttrDecl.toX, attr_eq_findAttr]
    unfold findAttr
    cases a.required <;> simp
  have hmax : (a.toX f).attr? "maxOccurs" = none := by
    simp only [AttrDecl.toX, attr_eq_findAttr]
    unfold findAttr
    cases a.required <;> simp
  have htag : (a.toX f).tag = "attribute" := rfl
  simp only [fieldObs, refObs, plainField, occurrence, htag, h0, hname, huse, hmax, Ref.attrField, Ref.wrapperOf]
  cases a.required <;> simp [mayRepeat]


mutual
theorem flatten_notAttr (s : SchemaSet) (uri : String) (opt rep ch : Bool) (p : Particle) :
    ∀ r ∈ Ref.flattenParticle s uri opt rep ch p, r.isAttr = false := by
  match p with
  | .elem n t o => intro r hr; simp [Ref.flattenParticle] at hr; rw [hr]
  | .ref ns n o => intro r hr; simp [Ref.flattenParticle] at hr; rw [hr]
  | .seq o ps => intro r hr; simp only [Ref.flattenParticle] at hr; exact flattens_notAttr s uri _ _ _ ps r hr
  | .choice o ps => intro r hr; simp only [Ref.flattenParticle] at hr; exact flattens_notAttr s uri _ _ _ ps r hr
theorem flattens_notAttr (s : SchemaSet) (uri : String) (opt rep ch : Bool) (ps : List Particle) :
    ∀ r ∈ Ref.flattenParticles s uri opt rep ch ps, r.isAttr = false := by
  match ps with
  | [] => intro r hr; simp [Ref.flattenParticles] at hr
  | p :: ps =>
    intro r hr
    simp only [Ref.flattenParticles, List.mem_append] at hr
    rcases hr with hr | hr
    · exact flatten_notAttr s uri opt rep ch p r hr
    · exact flattens_notAttr s uri opt rep ch ps r hr
end

theorem map_triple {α β : Type} (f : α → String) (g : α → String) (f' : β → String) (g' : β → String) (h' : β → Bool) :
    (l : List α) → (l' : List β) → l.map f = l'.map f' → l.map g = l'.map g' → (∀ y ∈ l', h' y = false) →
    l.map (fun x => (f x, g x, false)) = l'.map (fun y => (f' y, g' y, h' y))
  | [], [], _, _, _ => rfl
  | [], _ :: _, h, _, _ => by simp at h
  | _ :: _, [], h, _, _ => by simp at h
  | x :: l, y :: l', h1, h2, h3 => by
    simp only [List.map_cons, List.cons.injEq] at h1 h2 ⊢
    exact ⟨by rw [h1.1, h2.1, h3 y List.mem_cons_self], map_triple f g f' g' h' l l' h1.2 h2.2 (fun z hz => h3 z (List.mem_cons_of_mem _ hz))⟩

theorem foldl_attrs (d : Doc) (name : String) (anc : List XNode) (f : SchemaFile) : (as : List AttrDecl) → (r : CProps) →
    (as.map (AttrDecl.toX f)).foldl (complexStep d name anc) r =
      { r with fields := r.fields ++ as.map (fun a => plainField d (a.toX f) anc) }
  | [], r => by simp
  | a :: as, r => by
    rw [List.map_cons, List.foldl_cons]
    have h1 : complexStep d name anc r (a.toX f) = { r with fields := r.fields ++ [plainField d (a.toX f) anc] } := by
      simp [complexStep, AttrDecl.toX, XNode.tag]
    rw [h1, foldl_attrs d name anc f as]
    simp

/-- **a complex type of the grammar, read**: render a definition without base and without element references as
    the tree the generator sees; the struct description the reader returns for it (`complexOf`, by
    `c02_type_read`) has — member by member, in order — the XML name, the wrapper (`T` / `Option` / `Vec`) and
    the attribute flag of the reference elaboration: the flattened elements, then the attributes -/
theorem complex_read_matches_ref (s : SchemaSet) (f : SchemaFile) (d : Doc) (cd : ComplexDef) (name : String)
    (nss : List (Option String × String)) (anc : List XNode)
    (hnr : ∀ o ps, cd.content = some (o, ps) → NoRefs ps ∧ PartsOk ps ∧ OccOk o) :
    (complexOf d (cd.toX f name nss) anc name).fields.map fieldObs =
      (Ref.ownElements s f cd ++ cd.attrs.map (Ref.attrField s)).map refObs := by
  have hown : isParticleTag (cd.toX f name nss).tag = false := by simp [ComplexDef.toX, XNode.tag, isParticleTag]
  have hattrs : (cd.attrs.map (fun a => plainField d (a.toX f) (cd.toX f name nss :: anc))).map fieldObs =
      (cd.attrs.map (Ref.attrField s)).map refObs := by
    simp only [List.map_map]
    apply List.map_congr_left
    intro a _
    exact attr_obs s f d a _ anc hown
  unfold complexOf
  cases hc : cd.content with
  | none =>
    have hk : (cd.toX f name nss).elemKids = cd.attrs.map (AttrDecl.toX f) := by
      simp only [XNode.elemKids, XNode.kids, ComplexDef.toX, hc, List.append_nil, List.cons_append, List.nil_append]
      rw [List.filter_cons]
      simp only [XNode.isElem, Bool.false_eq_true, if_false]
      exact elemKids_attrs f cd.attrs
    rw [hk, foldl_attrs]
    simp only [List.nil_append, Ref.ownElements, hc]
    exact hattrs
  | some c =>
    obtain ⟨o, ps⟩ := c
    obtain ⟨hn, hp, ho⟩ := hnr o ps hc
    have hk : (cd.toX f name nss).elemKids =
        XNode.elem "sequence" (occAttrs o) [] none (particlesToX f ps) :: cd.attrs.map (AttrDecl.toX f) := by
      simp only [XNode.elemKids, XNode.kids, ComplexDef.toX, hc]
      simp only [List.cons_append, List.nil_append, List.filter_cons, XNode.isElem, Bool.false_eq_true, if_false, if_true]
      rw [elemKids_attrs f cd.attrs]
    rw [hk, List.foldl_cons]
    have hstep : complexStep d name (cd.toX f name nss :: anc)
        { xmlName := name, fields := [], tns := d.current, comment := parseComment (cd.toX f name nss) }
        (XNode.elem "sequence" (occAttrs o) [] none (particlesToX f ps)) =
        { xmlName := name, fields := (memberSites (XNode.elem "sequence" (occAttrs o) [] none (particlesToX f ps)) (cd.toX f name nss :: anc)).map
            (fun s => plainField d s.1 s.2), tns := d.current, comment := parseComment (XNode.elem "sequence" (occAttrs o) [] none (particlesToX f ps)) } := by
      simp [complexStep, XNode.tag]
    rw [hstep, foldl_attrs]
    simp only [List.map_append]
    congr 1
    · -- the element members
      have hsites := sites_particles f ps hn (XNode.elem "sequence" (occAttrs o) [] none (particlesToX f ps) :: cd.toX f name nss :: anc)
      have htags := tags_particles f ps (XNode.elem "sequence" (occAttrs o) [] none (particlesToX f ps) :: cd.toX f name nss :: anc)
      have hW : (memberSites (XNode.elem "sequence" (occAttrs o) [] none (particlesToX f ps)) (cd.toX f name nss :: anc)).map W =
          (Ref.ownElements s f cd).map (·.wrapper) := by
        have h0 : enclosingParticles (cd.toX f name nss :: anc) = [] := by simp [enclosingParticles, hown]
        have e1 : ancOpt (cd.toX f name nss :: anc) = false := by simp [ancOpt, h0]
        have e2 : ancRep (cd.toX f name nss :: anc) = false := by simp [ancRep, h0]
        have e3 : ancCh (cd.toX f name nss :: anc) = false := by simp [ancCh, h0]
        obtain ⟨a1, a2, a3⟩ := anc_particle "sequence" o (particlesToX f ps) (cd.toX f name nss :: anc) (Or.inl rfl) ho
        have := flatten_particles s f (uriOf s f.tns) ps hp (XNode.elem "sequence" (occAttrs o) [] none (particlesToX f ps) :: cd.toX f name nss :: anc)
        rw [a1, a2, a3, e1, e2, e3] at this
        simp only [memberSites, Ref.ownElements, hc]
        simpa using this
      simp only [memberSites] at hW ⊢
      have hobs : ∀ st ∈ memberSitesList (particlesToX f ps) (XNode.elem "sequence" (occAttrs o) [] none (particlesToX f ps) :: cd.toX f name nss :: anc),
          fieldObs (plainField d st.1 st.2) = (siteName st, W st, false) := by
        intro st hst
        have ht := htags st hst
        simp [fieldObs, plainField, siteName, W, wrapOfOcc, Ref.wrapperOf, occurrence, ht]
      rw [List.map_map]
      rw [List.map_congr_left (fun st hst => by simpa using hobs st hst)]
      have hnames := hsites.2 s (uriOf s f.tns) o.optional o.repeats false
      have := map_triple siteName W (fun r : Ref.RField => r.xmlName) (fun r => r.wrapper) (fun r => r.isAttr)
        _ (Ref.ownElements s f cd) (by simpa [Ref.ownElements, hc] using hnames) hW
        (by intro y hy; simp only [Ref.ownElements, hc] at hy; exact flattens_notAttr s _ _ _ _ ps y hy)
      exact this

end ZeepVerif.Lemmas.ReadSpec
