/-
Identifier lemmas for C14: for ASCII names the snake_case / PascalCase functions produce only identifier
characters, never start with `_`, and so the field / type name functions always yield a legal identifier.
-/
import ZeepVerif.RustLex

namespace ZeepVerif.Lemmas.Ident
open ZeepVerif.Inflector ZeepVerif.RustLex

def Ascii (cs : List Char) : Prop := ∀ c ∈ cs, c.toNat < 128

/-- the facts about single ASCII characters, checked for every one of them -/
theorem ascii_table : ∀ n : Fin 128,
    (let c := Char.ofNat n.val
     (!isAlnum c || isLowerA (toLowerA c) || isDigitA (toLowerA c))
     && (!isAlnum c || isUpperA (toUpperA c) || isDigitA (toUpperA c))
     && (!isDigitA c || (toLowerA c == c && toUpperA c == c))
     && (!isAlnum c || isDigitA c || isUpperA (toUpperA c))
     && (!isAlnum c || isDigitA c || isLowerA (toLowerA c))) = true := by
  decide +kernel

theorem ascii_facts (c : Char) (hc : c.toNat < 128) :
    (isAlnum c = true → (isLowerA (toLowerA c) || isDigitA (toLowerA c)) = true) ∧
    (isAlnum c = true → (isUpperA (toUpperA c) || isDigitA (toUpperA c)) = true) ∧
    (isDigitA c = true → toLowerA c = c ∧ toUpperA c = c) ∧
    (isAlnum c = true → isDigitA c = false → isUpperA (toUpperA c) = true) ∧
    (isAlnum c = true → isDigitA c = false → isLowerA (toLowerA c) = true) := by
  have h := ascii_table ⟨c.toNat, hc⟩
  simp only [Char.ofNat_toNat, Bool.and_eq_true, Bool.or_eq_true, Bool.not_eq_true', beq_iff_eq] at h
  obtain ⟨⟨⟨⟨h1, h2⟩, h3⟩, h4⟩, h5⟩ := h
  refine ⟨?_, ?_, ?_, ?_, ?_⟩
  · intro ha; rcases h1 with (h | h) | h
    · rw [ha] at h; cases h
    · simp [h]
    · simp [h]
  · intro ha; rcases h2 with (h | h) | h
    · rw [ha] at h; cases h
    · simp [h]
    · simp [h]
  · intro hd; rcases h3 with h | h
    · rw [hd] at h; cases h
    · exact h
  · intro ha hd; rcases h4 with (h | h) | h
    · rw [ha] at h; cases h
    · rw [hd] at h; cases h
    · exact h
  · intro ha hd; rcases h5 with (h | h) | h
    · rw [ha] at h; cases h
    · rw [hd] at h; cases h
    · exact h

/-- a snake_case character: lower case letter, digit or underscore -/
def snakeOk (c : Char) : Bool := isLowerA c || isDigitA c || c == '_'

structure SInv (st : SState) : Prop where
  chars : ∀ x ∈ st.out, snakeOk x = true
  nonempty : st.first = false → st.out ≠ []
  first : st.out.getLast? ≠ some '_'

theorem getLast?_cons_of_ne_nil {α} (a : α) (l : List α) (h : l ≠ []) : (a :: l).getLast? = l.getLast? := by
  cases l with
  | nil => exact absurd rfl h
  | cons b t => simp [List.getLast?_cons_cons]

theorem snakeStep_inv (orig : Array Char) (st : SState) (c : Char) (hc : c.toNat < 128) (h : SInv st) :
    SInv (snakeStep orig st c) := by
  have hf := ascii_facts c hc
  unfold snakeStep
  simp only
  by_cases hs : isSep c = true
  · simp only [hs, if_true]
    by_cases hfirst : st.first = true
    · simp only [hfirst, Bool.not_true, Bool.false_eq_true, if_false]
      exact ⟨h.chars, fun hf' => by simp [hfirst] at hf', h.first⟩
    · have hfirst' : st.first = false := by simpa using hfirst
      simp only [hfirst', Bool.not_false, if_true]
      have hne := h.nonempty hfirst'
      refine ⟨?_, fun hf' => by simp at hf', ?_⟩
      · intro x hx
        rcases List.mem_cons.mp hx with e | e
        · subst e; decide
        · exact h.chars x e
      · show ('_' :: st.out).getLast? ≠ some '_'
        rw [getLast?_cons_of_ne_nil _ _ hne]; exact h.first
  · have hs' : isSep c = false := by simpa using hs
    have halnum : isAlnum c = true := by simpa [isSep] using hs'
    have hl : snakeOk (toLowerA c) = true := by
      have := hf.1 halnum
      simp only [snakeOk, Bool.or_eq_true] at this ⊢
      exact Or.inl this
    have hl' : toLowerA c ≠ '_' := by
      intro e
      have := hf.1 halnum
      rw [e] at this
      revert this; decide
    simp only [hs', Bool.false_eq_true, if_false]
    split
    · next hcond =>
      have hfirst' : st.first = false := by
        simp only [Bool.and_eq_true, Bool.not_eq_true'] at hcond
        exact hcond.1.1
      have hne := h.nonempty hfirst'
      refine ⟨?_, fun _ => by simp, ?_⟩
      · intro x hx
        rcases List.mem_cons.mp hx with e | e
        · subst e; exact hl
        rcases List.mem_cons.mp e with e | e
        · subst e; decide
        · exact h.chars x e
      · show (toLowerA c :: '_' :: st.out).getLast? ≠ some '_'
        rw [getLast?_cons_of_ne_nil _ _ (by simp), getLast?_cons_of_ne_nil _ _ hne]; exact h.first
    · refine ⟨?_, fun _ => by simp, ?_⟩
      · intro x hx
        rcases List.mem_cons.mp hx with e | e
        · subst e; exact hl
        · exact h.chars x e
      · show (toLowerA c :: st.out).getLast? ≠ some '_'
        by_cases hne : st.out = []
        · rw [hne]; simpa using hl'
        · rw [getLast?_cons_of_ne_nil _ _ hne]; exact h.first

theorem snakeFold_inv (orig : Array Char) (l : List Char) (hl : Ascii l) (st : SState) (h : SInv st) :
    SInv (l.foldl (snakeStep orig) st) := by
  induction l generalizing st with
  | nil => exact h
  | cons c cs ih =>
    exact ih (fun x hx => hl x (by simp [hx])) _ (snakeStep_inv orig st c (hl c (by simp)) h)

theorem trimRight_ascii (cs : List Char) (h : Ascii cs) : Ascii (trimRight cs) := by
  intro c hc
  unfold trimRight at hc
  have : c ∈ cs.reverse.dropWhile isSep := by simpa using hc
  have := (List.dropWhile_sublist _).subset this
  exact h c (by simpa using this)

/-- **snake_case of an ASCII name consists of lower case letters, digits and `_`, and does not start
    with `_`** -/
theorem snake_chars (n : String) (h : Ascii n.toList) :
    (∀ x ∈ (toSnakeCase n).toList, snakeOk x = true) ∧ (toSnakeCase n).toList.head? ≠ some '_' := by
  have inv := snakeFold_inv n.toList.toArray (trimRight n.toList) (trimRight_ascii _ h) {}
    ⟨by simp, by simp, by simp⟩
  unfold toSnakeCase
  simp only [String.toList_ofList]
  refine ⟨?_, ?_⟩
  · intro x hx
    exact inv.chars x (by simpa using hx)
  · rw [List.head?_reverse]; exact inv.first

/-! ### PascalCase -/

def pascalOk (c : Char) : Bool := isUpperA c || isLowerA c || isDigitA c

structure PInv (st : PState) : Prop where
  chars : ∀ x ∈ st.out, pascalOk x = true
  nonempty : st.newWord = false → st.out ≠ []
  first : ∀ c, st.out.getLast? = some c → (isUpperA c || isDigitA c) = true

theorem pascalStep_inv (st : PState) (c : Char) (hc : c.toNat < 128) (h : PInv st) : PInv (pascalStep st c) := by
  have hf := ascii_facts c hc
  unfold pascalStep
  split
  · exact ⟨h.chars, fun hn => by simp at hn, h.first⟩
  split
  · exact h
  · next h1 h2 =>
    have halnum : isAlnum c = true := by
      simp only [Bool.and_eq_true, Bool.not_eq_true', not_and, Bool.not_eq_false] at h1 h2
      by_cases hs : isSep c = true
      · by_cases hfd : st.found = true
        · exact absurd hfd (by simpa using h1 hs)
        · exact absurd hs (by simpa using h2 (by simpa using hfd))
      · simpa [isSep] using hs
    split
    · next hd =>
      refine ⟨?_, fun hn => by simp at hn, ?_⟩
      · intro x hx
        rcases List.mem_cons.mp hx with e | e
        · subst e; simp [pascalOk, hd]
        · exact h.chars x e
      · intro c' hc'
        by_cases hne : st.out = []
        · rw [hne] at hc'; simp at hc'; subst hc'; simp [hd]
        · rw [getLast?_cons_of_ne_nil _ _ hne] at hc'; exact h.first c' hc'
    · next hd =>
      have hd' : isDigitA c = false := by simpa using hd
      split
      · have hu := hf.2.2.2.1 halnum hd'
        refine ⟨?_, fun _ => by simp, ?_⟩
        · intro x hx
          rcases List.mem_cons.mp hx with e | e
          · subst e; simp [pascalOk, hu]
          · exact h.chars x e
        · intro c' hc'
          by_cases hne : st.out = []
          · rw [hne] at hc'; simp at hc'; subst hc'; simp [hu]
          · rw [getLast?_cons_of_ne_nil _ _ hne] at hc'; exact h.first c' hc'
      · next hnw =>
        have hl := hf.2.2.2.2 halnum hd'
        have hnw' : st.newWord = false := by
          simp only [Bool.or_eq_true, not_or, Bool.not_eq_true] at hnw
          exact hnw.1
        have hne := h.nonempty hnw'
        refine ⟨?_, fun _ => by simp, ?_⟩
        · intro x hx
          rcases List.mem_cons.mp hx with e | e
          · subst e; simp [pascalOk, hl]
          · exact h.chars x e
        · intro c' hc'
          rw [getLast?_cons_of_ne_nil _ _ hne] at hc'; exact h.first c' hc'

theorem pascalFold_inv (l : List Char) (hl : Ascii l) (st : PState) (h : PInv st) : PInv (l.foldl pascalStep st) := by
  induction l generalizing st with
  | nil => exact h
  | cons c cs ih => exact ih (fun x hx => hl x (by simp [hx])) _ (pascalStep_inv st c (hl c (by simp)) h)

/-- **PascalCase of an ASCII name consists of letters and digits and starts with an upper case letter
    or a digit** -/
theorem pascal_chars (n : String) (h : Ascii n.toList) :
    (∀ x ∈ (toPascalCase n).toList, pascalOk x = true) ∧
    (∀ c, (toPascalCase n).toList.head? = some c → (isUpperA c || isDigitA c) = true) := by
  have inv := pascalFold_inv (trimRight n.toList) (trimRight_ascii _ h) {} ⟨by simp, by simp, by simp⟩
  unfold toPascalCase
  simp only [String.toList_ofList]
  refine ⟨?_, ?_⟩
  · intro x hx; exact inv.chars x (by simpa using hx)
  · intro c hc; rw [List.head?_reverse] at hc; exact inv.first c hc

end ZeepVerif.Lemmas.Ident
