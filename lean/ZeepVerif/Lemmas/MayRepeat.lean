/- Helper lemmas for C02/C04: `may_repeat` on the decimal rendering of a number. -/
import ZeepVerif.Model.Reader
import Std.Data.String.ToNat

namespace ZeepVerif.Model
open ZeepVerif

theorem digit_range (c : Char) (h : c.isDigit = true) : 48 ≤ c.toNat ∧ c.toNat ≤ 57 := by
  have h1 : c.val ≥ 48 ∧ c.val ≤ 57 := by simpa [Char.isDigit] using h
  constructor
  · exact UInt32.le_iff_toNat_le.mp h1.1
  · exact UInt32.le_iff_toNat_le.mp h1.2

theorem digit_not_ws (c : Char) (h : c.isDigit = true) : isWs c = false := by
  have := digit_range c h
  simp only [isWs]
  simp only [Bool.or_eq_false_iff, Bool.and_eq_false_imp, beq_eq_false_iff_ne, decide_eq_false_iff_not, decide_eq_true_eq]
  omega

theorem dropWhile_ws_digits (cs : List Char) (h : ∀ c ∈ cs, c.isDigit = true) : cs.dropWhile isWs = cs := by
  cases cs with
  | nil => rfl
  | cons c cs => simp [List.dropWhile, digit_not_ws c (h c List.mem_cons_self)]

theorem trimWs_digits (cs : List Char) (h : ∀ c ∈ cs, c.isDigit = true) : trimWs cs = cs := by
  unfold trimWs
  rw [dropWhile_ws_digits cs h, dropWhile_ws_digits cs.reverse (by intro c hc; exact h c (List.mem_reverse.mp hc))]
  simp

theorem parseU64_digits (ds : List Char) (hd : ∀ c ∈ ds, c.isDigit = true) (hne : ds ≠ []) :
    parseU64? ds = if Nat.ofDigitChars 10 ds 0 ≤ 18446744073709551615 then some (Nat.ofDigitChars 10 ds 0) else none := by
  unfold parseU64?
  simp only [trimWs_digits ds hd]
  cases ds with
  | nil => exact absurd rfl hne
  | cons c cs =>
    have hc : c ≠ '+' := by
      intro e
      have := digit_range c (hd c List.mem_cons_self)
      rw [e] at this
      simp at this
    have hall : (c :: cs).all Char.isDigit = true := List.all_eq_true.mpr (fun x hx => hd x hx)
    split
    · rename_i r heq
      simp only [List.cons.injEq] at heq
      exact absurd heq.1 hc
    · simp [hall]

theorem mayRepeat_repr (n : Nat) (hn : n ≤ 18446744073709551615) : mayRepeat (some (Nat.repr n)) = decide (1 < n) := by
  have hd : ∀ c ∈ Nat.toDigits 10 n, c.isDigit = true := fun c hc => Nat.isDigit_of_mem_toDigits (by omega) (by omega) hc
  have hl : (Nat.repr n).toList = Nat.toDigits 10 n := Nat.toList_repr
  have hne : Nat.toDigits 10 n ≠ [] := Nat.toDigits_ne_nil
  have hu : (Nat.repr n == "unbounded") = false := by
    rw [beq_eq_false_iff_ne]
    intro e
    have h2 := congrArg String.toList e
    rw [hl] at h2
    have := hd 'u' (by rw [h2]; simp)
    simp [Char.isDigit] at this
  simp only [mayRepeat, hu, Bool.false_or, hl, parseU64_digits _ hd hne, Nat.ofDigitChars_ten_toDigits, hn, if_true]

theorem mayRepeat_unbounded : mayRepeat (some "unbounded") = true := by simp [mayRepeat]
theorem mayRepeat_none : mayRepeat none = false := rfl

end ZeepVerif.Model
