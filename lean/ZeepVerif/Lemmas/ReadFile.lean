/- From components to the document: `tryFromNode` on a complex type, the loop of `read_xsd`, and `read_xml` on a
   single schema file without imports. -/
import ZeepVerif.Lemmas.ReadField

namespace ZeepVerif.Lemmas.ReadFile
open ZeepVerif ZeepVerif.Model ZeepVerif.Spec ZeepVerif.Lemmas.ReadField

/-! ### loops in the file monad whose steps neither fail nor touch the processed flags -/

theorem forIn_steps {α β : Type} (g : β → α → β) (body : α → β → FM (ForInStep β)) :
    (l : List α) → (init : β) → (st : RS) →
    (∀ x ∈ l, ∀ b st, (body x b).run st = .ok (ForInStep.yield (g b x), st)) →
    (forIn l init body).run st = .ok (l.foldl g init, st)
  | [], init, st, _ => rfl
  | x :: rest, init, st, h => by
    rw [List.forIn_cons]
    show (body x init >>= _).run st = _
    simp only [StateT.run_bind]
    rw [h x List.mem_cons_self init st]
    show (forIn rest (g init x) body).run st = _
    rw [forIn_steps g body rest (g init x) st (fun y hy => h y (List.mem_cons_of_mem _ hy))]
    rfl

/-- what one child of the `schema` element does to the document (`read_xsd`, not an import): the component is
    read; its node is appended when that succeeds; the document keeps whatever reading did to it either way -/
def xsdStep (ctx : Ctx) (d : Doc) (child : XNode) : Doc :=
  match runNM (tryFromNode child ctx nodeFuel) d with
  | (.ok n, d') => { d' with nodes := d'.nodes ++ [n] }
  | (.error _, d') => d'


theorem readXsd_noimport (files : String → Option XFile) (file : XFile) (allElems : List (XNode × List XNode))
    (schema : XNode) (anc : List XNode) (d : Doc) (fuel : Nat) (st : RS)
    (hni : ∀ k ∈ schema.kids, k.tag ≠ "import")
    (hfuel : ∀ k ∈ schema.kids, ∀ d', (runNM (tryFromNode k { ancestors := schema :: anc, allElems := allElems } nodeFuel) d').1 ≠ .error .outOfFuel) :
    (readXsd files file allElems schema anc d (fuel + 1)).run st =
      .ok (schema.kids.foldl (xsdStep { ancestors := schema :: anc, allElems := allElems }) d, st) := by
  simp only [readXsd]
  rw [StateT.run_bind]
  rw [forIn_steps (xsdStep { ancestors := schema :: anc, allElems := allElems }) _ schema.kids d st]
  · rfl
  · intro x hx b st'
    have h1 : (x.tag == "import") = false := by simpa using hni x hx
    have h2 := hfuel x hx b
    simp only [h1, Bool.false_eq_true, if_false]
    unfold xsdStep
    cases hr : runNM (tryFromNode x { ancestors := schema :: anc, allElems := allElems } nodeFuel) b with
    | mk r d' =>
      rw [hr] at h2
      cases r with
      | ok n => rfl
      | error e =>
        have he : (e == Err.outOfFuel) = false := by
          cases e <;> first | rfl | (exfalso; exact h2 rfl)
        simp only [he]
        rfl


/-! ### namespace declarations seen again do nothing -/

def nsStep (d : Doc) (pu : Option String × String) : Doc :=
  match pu.1 with
  | some a => d.addNamespaceReference a pu.2
  | none => d.addDefaultNamespace pu.2

theorem collectNamespaces_eq (d : Doc) (nss : List (Option String × String)) :
    d.collectNamespaces nss = nss.foldl nsStep d := by
  unfold Doc.collectNamespaces nsStep
  rfl

/-- the declaration has nothing left to add to the document -/
def Absorbed (d : Doc) (pu : Option String × String) : Prop :=
  match pu.1 with
  | some a => a.isEmpty = true ∨ pu.2.isEmpty = true ∨ Generated.Tables.wellKnownNamespaces.contains pu.2 = true ∨ (lookupNs d a).isSome = true
  | none => pu.2.isEmpty = true ∨ Generated.Tables.wellKnownNamespaces.contains pu.2 = true ∨ d.defaultNs.isSome = true

theorem nsStep_absorbed_noop (d : Doc) (pu : Option String × String) (h : Absorbed d pu) : nsStep d pu = d := by
  obtain ⟨p, u⟩ := pu
  cases p with
  | some a =>
    simp only [Absorbed] at h
    simp only [nsStep, Doc.addNamespaceReference]
    rcases h with h | h | h | h
    · simp [h]
    · simp [h]
    · by_cases h0 : (a.isEmpty || u.isEmpty) = true
      · simp [h0]
      · have hm : u ∈ Generated.Tables.wellKnownNamespaces := by simpa using h
        simp [h0, hm]
    · by_cases h0 : (a.isEmpty || u.isEmpty) = true
      · simp [h0]
      · by_cases h1 : u ∈ Generated.Tables.wellKnownNamespaces
        · simp [h0, h1]
        · simp [h0, h1, h]
  | none =>
    simp only [Absorbed] at h
    simp only [nsStep, Doc.addDefaultNamespace]
    rcases h with h | h | h
    · simp [h]
    · have hm : u ∈ Generated.Tables.wellKnownNamespaces := by simpa using h
      simp [hm]
    · simp [h]

theorem lookupNs_nonempty (d : Doc) (a : String) (h : a.isEmpty = false) :
    lookupNs d a = (d.lookup.find? (fun kv => kv.1 == a)).map (·.2) := by
  simp [lookupNs, h]

/-- a step only adds: prefixes that resolved still resolve, a default namespace stays -/
theorem nsStep_mono (d : Doc) (pu qv : Option String × String) (h : Absorbed d qv) : Absorbed (nsStep d pu) qv := by
  obtain ⟨q, v⟩ := qv
  obtain ⟨p, u⟩ := pu
  have hdef : (nsStep d (p, u)).defaultNs.isSome = true ∨ (nsStep d (p, u)).defaultNs = d.defaultNs := by
    cases p with
    | some a =>
      right
      simp only [nsStep, Doc.addNamespaceReference]
      split
      · rfl
      · split
        · rfl
        · split
          · rfl
          · split <;> rfl
    | none =>
      simp only [nsStep, Doc.addDefaultNamespace]
      split
      · right; rfl
      · left; rfl
  have hlook : ∃ extra, (nsStep d (p, u)).lookup = d.lookup ++ extra := by
    cases p with
    | some a =>
      simp only [nsStep, Doc.addNamespaceReference]
      split
      · exact ⟨[], by simp⟩
      · split
        · exact ⟨[], by simp⟩
        · split
          · exact ⟨[], by simp⟩
          · split
            · exact ⟨_, rfl⟩
            · exact ⟨_, rfl⟩
    | none =>
      simp only [nsStep, Doc.addDefaultNamespace]
      split
      · exact ⟨[], by simp⟩
      · exact ⟨[], by simp⟩
  cases q with
  | some b =>
    simp only [Absorbed] at h ⊢
    rcases h with h | h | h | h
    · exact Or.inl h
    · exact Or.inr (Or.inl h)
    · exact Or.inr (Or.inr (Or.inl h))
    · by_cases hb : b.isEmpty = true
      · exact Or.inl hb
      · have hb' : b.isEmpty = false := by simpa using hb
        right; right; right
        rw [lookupNs_nonempty _ _ hb'] at h ⊢
        obtain ⟨extra, he⟩ := hlook
        rw [he, List.find?_append]
        cases hf : d.lookup.find? (fun kv => kv.1 == b) with
        | none => simp [hf] at h
        | some x => simp
  | none =>
    simp only [Absorbed] at h ⊢
    rcases h with h | h | h
    · exact Or.inl h
    · exact Or.inr (Or.inl h)
    · right; right
      rcases hdef with hd | hd
      · exact hd
      · rw [hd]; exact h

/-- after a step its own declaration is absorbed -/
theorem nsStep_absorbs (d : Doc) (pu : Option String × String) : Absorbed (nsStep d pu) pu := by
  obtain ⟨p, u⟩ := pu
  cases p with
  | some a =>
    simp only [Absorbed]
    by_cases ha : a.isEmpty = true
    · exact Or.inl ha
    · by_cases hu : u.isEmpty = true
      · exact Or.inr (Or.inl hu)
      · by_cases hw : Generated.Tables.wellKnownNamespaces.contains u = true
        · exact Or.inr (Or.inr (Or.inl hw))
        · right; right; right
          have ha' : a.isEmpty = false := by simpa using ha
          have hm : ¬ u ∈ Generated.Tables.wellKnownNamespaces := by simpa using hw
          by_cases hl : (lookupNs d a).isSome = true
          · simp only [nsStep, Doc.addNamespaceReference]
            simp [ha, hu, hm, hl]
          · simp only [nsStep, Doc.addNamespaceReference]
            simp only [ha, hu, hw, hl, Bool.or_self, Bool.false_eq_true, if_false]
            split <;> (rw [lookupNs_nonempty _ _ ha']; simp [List.find?_append])
            all_goals
              cases hf : d.lookup.find? (fun kv => kv.1 == a) with
              | none => simp
              | some x => simp
  | none =>
    simp only [Absorbed]
    by_cases hu : u.isEmpty = true
    · exact Or.inl hu
    · by_cases hw : Generated.Tables.wellKnownNamespaces.contains u = true
      · exact Or.inr (Or.inl hw)
      · right; right
        simp only [nsStep, Doc.addDefaultNamespace]
        have hm : ¬ u ∈ Generated.Tables.wellKnownNamespaces := by simpa using hw
        by_cases hd : d.defaultNs.isSome = true
        · simp [hu, hm, hd]
        · simp [hu, hm, hd]

theorem foldl_absorbs (nss : List (Option String × String)) (d : Doc) :
    (∀ pu ∈ nss, Absorbed (nss.foldl nsStep d) pu) ∧ (∀ qv, Absorbed d qv → Absorbed (nss.foldl nsStep d) qv) := by
  induction nss generalizing d with
  | nil => exact ⟨fun pu h => (by cases h), fun qv h => h⟩
  | cons e rest ih =>
    obtain ⟨ih1, ih2⟩ := ih (nsStep d e)
    refine ⟨?_, ?_⟩
    · intro pu hpu
      rcases List.mem_cons.mp hpu with rfl | hmem
      · exact ih2 _ (nsStep_absorbs d _)
      · exact ih1 pu hmem
    · intro qv h
      exact ih2 qv (nsStep_mono d e qv h)

theorem foldl_noop (nss : List (Option String × String)) (d : Doc) (h : ∀ pu ∈ nss, Absorbed d pu) : nss.foldl nsStep d = d := by
  induction nss with
  | nil => rfl
  | cons e rest ih =>
    rw [List.foldl_cons, nsStep_absorbed_noop d e (h e List.mem_cons_self)]
    exact ih (fun pu hpu => h pu (List.mem_cons_of_mem _ hpu))

/-- **declarations seen again do nothing**: once the in-scope declarations of a node have been collected (and
    whatever else happened only added prefixes), collecting the same declarations again leaves the document as it is -/
theorem collectNamespaces_again (d : Doc) (nss : List (Option String × String)) (h : ∀ pu ∈ nss, Absorbed d pu) :
    d.collectNamespaces nss = d := by
  rw [collectNamespaces_eq]
  exact foldl_noop nss d h

theorem collectNamespaces_absorbs (d : Doc) (nss : List (Option String × String)) :
    ∀ pu ∈ nss, Absorbed (d.collectNamespaces nss) pu := by
  rw [collectNamespaces_eq]
  exact (foldl_absorbs nss d).1

theorem switch_absorbed (d : Doc) (ns : String) (pu : Option String × String) (h : Absorbed d pu) :
    Absorbed (d.switchToTargetNamespace ns) pu := by
  have h1 : (d.switchToTargetNamespace ns).lookup = d.lookup := by
    unfold Doc.switchToTargetNamespace; split <;> rfl
  have h2 : (d.switchToTargetNamespace ns).defaultNs = d.defaultNs := by
    unfold Doc.switchToTargetNamespace; split <;> rfl
  obtain ⟨p, u⟩ := pu
  cases p with
  | some a =>
    simp only [Absorbed] at h ⊢
    rcases h with h | h | h | h
    · exact Or.inl h
    · exact Or.inr (Or.inl h)
    · exact Or.inr (Or.inr (Or.inl h))
    · by_cases ha : a.isEmpty = true
      · exact Or.inl ha
      · right; right; right
        have ha' : a.isEmpty = false := by simpa using ha
        rw [lookupNs_nonempty _ _ ha'] at h ⊢
        rw [h1]; exact h
  | none =>
    simp only [Absorbed] at h ⊢
    rw [h2]; exact h


/-! ### components -/

theorem tryFromNode_other (ctx : Ctx) (fuel : Nat) (d : Doc) :
    runNM (tryFromNode .other ctx (fuel + 1)) d = (.error .notAnElement, d) := by
  simp only [tryFromNode, XNode.isElem]
  rfl

/-- the struct description of a complex type without derivation, in document `d` -/
def complexOf (d : Doc) (node : XNode) (anc : List XNode) (name : String) : CProps :=
  node.elemKids.foldl (complexStep d name (node :: anc))
    { xmlName := name, fields := [], tns := d.current, comment := parseComment node }

/-- a `complexType` component the lemmas cover: named, without `complexContent`, plain members, no own
    `targetNamespace`, and namespace declarations in scope that the document has already absorbed -/
def PlainComplex (d : Doc) (anc : List XNode) (node : XNode) (name : String) : Prop :=
  node.isElem = true ∧ node.tag = "complexType" ∧ node.attr? "targetNamespace" = none ∧ node.attr? "name" = some name ∧
  (∀ k ∈ node.elemKids, PlainChild (node :: anc) k) ∧ (∀ pu ∈ node.nss, Absorbed d pu)

theorem tryFromNode_complex (node : XNode) (ctx : Ctx) (fuel : Nat) (d : Doc) (name : String)
    (h : PlainComplex d ctx.ancestors node name) :
    runNM (tryFromNode node ctx (fuel + 4)) d =
      (.ok { rtype := .complex (complexOf d node ctx.ancestors name), inNs := d.current }, d) := by
  obtain ⟨he, htag, htns, hname, hkids, habs⟩ := h
  have hc : d.collectNamespaces node.nss = d := collectNamespaces_again d node.nss habs
  simp only [tryFromNode, he, htns, htag, collectNamespacesOnNode]
  simp only [Bool.not_true, Bool.false_eq_true, if_false]
  rw [runNM_bind, runNM_modifyDoc, hc]
  simp only
  rw [runNM_bind]
  have hmap : runNM (RType.complex <$> complexFromNode node ctx (fuel + 3)) d =
      (.ok (RType.complex (complexOf d node ctx.ancestors name)), d) := by
    have := complexFromNode_plain node ctx fuel d name (Or.inl hname) hkids
    rw [hc] at this
    show runNM (complexFromNode node ctx (fuel + 3) >>= fun a => pure (RType.complex a)) d = _
    rw [runNM_bind, this]
    rfl
  rw [hmap]
  simp only
  rw [runNM_bind, runNM_getDoc]
  rfl


/-! ### the children of `schema` -/

/-- the document with other nodes: everything the reading of a member looks at is unchanged -/
theorem absorbed_nodes (d : Doc) (ns : List RNode) (pu : Option String × String) :
    Absorbed { d with nodes := ns } pu = Absorbed d pu := rfl

theorem plainField_nodes (d : Doc) (ns : List RNode) (node : XNode) (anc : List XNode) :
    plainField { d with nodes := ns } node anc = plainField d node anc := rfl

theorem complexStep_nodes (d : Doc) (ns : List RNode) (name : String) (anc : List XNode) :
    complexStep { d with nodes := ns } name anc = complexStep d name anc := rfl

theorem complexOf_nodes (d : Doc) (ns : List RNode) (node : XNode) (anc : List XNode) (name : String) :
    complexOf { d with nodes := ns } node anc name = complexOf d node anc name := rfl

/-- the node a child of `schema` contributes -/
def nodeOf (d : Doc) (anc : List XNode) (k : XNode) : Option RNode :=
  if k.isElem then
    some { rtype := .complex (complexOf d k anc ((k.attr? "name").getD "")), inNs := d.current }
  else none

/-- a `schema` element whose children are white space / comments and plain complex types -/
def PlainKids (d : Doc) (anc : List XNode) (kids : List XNode) : Prop :=
  ∀ k ∈ kids, k = .other ∨ ∃ name, PlainComplex d anc k name

theorem schema_fold (ctx : Ctx) (d : Doc) : (kids : List XNode) → (acc : List RNode) →
    PlainKids d ctx.ancestors kids →
    kids.foldl (xsdStep ctx) { d with nodes := acc } = { d with nodes := acc ++ kids.filterMap (nodeOf d ctx.ancestors) }
  | [], acc, _ => by simp
  | k :: rest, acc, h => by
    rw [List.foldl_cons]
    rcases h k List.mem_cons_self with rfl | ⟨name, hk⟩
    · have : xsdStep ctx { d with nodes := acc } XNode.other = { d with nodes := acc } := by
        unfold xsdStep
        rw [show nodeFuel = 99999 + 1 from rfl, tryFromNode_other]
      rw [this, schema_fold ctx d rest acc (fun x hx => h x (List.mem_cons_of_mem _ hx))]
      simp [nodeOf, XNode.isElem]
    · have hk' : PlainComplex { d with nodes := acc } ctx.ancestors k name := by
        obtain ⟨a, b, c, e, f, g⟩ := hk
        exact ⟨a, b, c, e, f, g⟩
      have : xsdStep ctx { d with nodes := acc } k =
          { d with nodes := acc ++ [{ rtype := .complex (complexOf d k ctx.ancestors name), inNs := d.current }] } := by
        unfold xsdStep
        rw [show nodeFuel = 99996 + 4 from rfl, tryFromNode_complex k ctx 99996 _ name hk']
        rfl
      rw [this, schema_fold ctx d rest _ (fun x hx => h x (List.mem_cons_of_mem _ hx))]
      have hn : nodeOf d ctx.ancestors k = some { rtype := .complex (complexOf d k ctx.ancestors name), inNs := d.current } := by
        simp [nodeOf, hk.1, hk.2.2.2.1]
      simp [List.filterMap_cons, hn]


/-! ### `read_xsd`, `read`, `read_xml` on a schema file of plain complex types -/

theorem forIn_steps_inv {α β : Type} (I : β → Prop) (g : β → α → β) (body : α → β → FM (ForInStep β)) :
    (l : List α) → (init : β) → (st : RS) → I init →
    (∀ x ∈ l, ∀ b st, I b → (body x b).run st = .ok (ForInStep.yield (g b x), st) ∧ I (g b x)) →
    (forIn l init body).run st = .ok (l.foldl g init, st)
  | [], init, st, _, _ => rfl
  | x :: rest, init, st, hI, h => by
    rw [List.forIn_cons]
    show (body x init >>= _).run st = _
    simp only [StateT.run_bind]
    obtain ⟨h1, h2⟩ := h x List.mem_cons_self init st hI
    rw [h1]
    show (forIn rest (g init x) body).run st = _
    rw [forIn_steps_inv I g body rest (g init x) st h2 (fun y hy => h y (List.mem_cons_of_mem _ hy))]
    rfl

theorem xsdStep_plain (ctx : Ctx) (d : Doc) (acc : List RNode) (k : XNode)
    (hk : k = .other ∨ ∃ name, PlainComplex d ctx.ancestors k name) :
    ∃ acc', xsdStep ctx { d with nodes := acc } k = { d with nodes := acc' } ∧
      (runNM (tryFromNode k ctx nodeFuel) { d with nodes := acc }).1 ≠ .error .outOfFuel := by
  rcases hk with rfl | ⟨name, hk⟩
  · refine ⟨acc, ?_, ?_⟩
    · unfold xsdStep
      rw [show nodeFuel = 99999 + 1 from rfl, tryFromNode_other]
    · rw [show nodeFuel = 99999 + 1 from rfl, tryFromNode_other]
      intro h; cases h
  · have hk' : PlainComplex { d with nodes := acc } ctx.ancestors k name := by
      obtain ⟨a, b, c, e, f, g⟩ := hk
      exact ⟨a, b, c, e, f, g⟩
    refine ⟨acc ++ [{ rtype := .complex (complexOf d k ctx.ancestors name), inNs := d.current }], ?_, ?_⟩
    · unfold xsdStep
      rw [show nodeFuel = 99996 + 4 from rfl, tryFromNode_complex k ctx 99996 _ name hk']
      rfl
    · rw [show nodeFuel = 99996 + 4 from rfl, tryFromNode_complex k ctx 99996 _ name hk']
      intro h; cases h

theorem readXsd_plain (files : String → Option XFile) (file : XFile) (allElems : List (XNode × List XNode))
    (schema : XNode) (anc : List XNode) (d : Doc) (fuel : Nat) (st : RS)
    (h : PlainKids d (schema :: anc) schema.kids) :
    (readXsd files file allElems schema anc d (fuel + 1)).run st =
      .ok ({ d with nodes := d.nodes ++ schema.kids.filterMap (nodeOf d (schema :: anc)) }, st) := by
  have hfold := schema_fold { ancestors := schema :: anc, allElems := allElems } d schema.kids d.nodes h
  simp only [readXsd]
  rw [StateT.run_bind]
  rw [forIn_steps_inv (fun b => ∃ acc, b = { d with nodes := acc })
    (xsdStep { ancestors := schema :: anc, allElems := allElems }) _ schema.kids d st ⟨d.nodes, rfl⟩]
  · show (pure _ : FM Doc).run st = _
    rw [show d = { d with nodes := d.nodes } from rfl, hfold]
    rfl
  · intro x hx b st' ⟨acc, hb⟩
    subst hb
    obtain ⟨acc', hstep, hnf⟩ := xsdStep_plain { ancestors := schema :: anc, allElems := allElems } d acc x (h x hx)
    have h1 : (x.tag == "import") = false := by
      rcases h x hx with rfl | ⟨name, hk⟩
      · rfl
      · rw [hk.2.1]; decide
    refine ⟨?_, ⟨acc', hstep⟩⟩
    simp only [h1, Bool.false_eq_true, if_false]
    unfold xsdStep
    cases hr : runNM (tryFromNode x { ancestors := schema :: anc, allElems := allElems } nodeFuel) { d with nodes := acc } with
    | mk r d' =>
      rw [hr] at hnf
      cases r with
      | ok n => rfl
      | error e =>
        have he : (e == Err.outOfFuel) = false := by
          cases e <;> first | rfl | (exfalso; exact hnf rfl)
        simp only [he]
        rfl


theorem readTop_schema (files : String → Option XFile) (file : XFile) (allElems : List (XNode × List XNode))
    (node : XNode) (d : Doc) (fuel : Nat) (st : RS) (tns : String)
    (he : node.isElem = true) (htag : node.tag = "schema") (htns : node.attr? "targetNamespace" = some tns) :
    (readTop files file allElems node d (fuel + 1)).run st =
      (readXsd files file allElems node [] (d.switchToTargetNamespace tns) fuel).run st := by
  simp only [readTop, he, htag, htns]
  rfl

/-- a schema file the file-level theorem covers: one root element `schema` with a `targetNamespace`, whose
    children are white space / comments and plain complex types that declare no namespaces of their own -/
structure PlainFile (xf : XFile) (schema : XNode) (tns : String) : Prop where
  tops : xf.tops = some [schema]
  isElem : schema.isElem = true
  tag : schema.tag = "schema"
  tnsAttr : schema.attr? "targetNamespace" = some tns
  kids : ∀ k ∈ schema.kids, k = .other ∨ ∃ name, k.isElem = true ∧ k.tag = "complexType" ∧ k.attr? "targetNamespace" = none ∧
    k.attr? "name" = some name ∧ (∀ c ∈ k.elemKids, PlainChild [k, schema] c) ∧ (∀ pu ∈ k.nss, pu ∈ schema.nss)

/-- the document state in which the components of the file are read -/
def fileDoc (schema : XNode) (tns : String) : Doc :=
  (({} : Doc).collectNamespaces schema.nss).switchToTargetNamespace tns

/-- **`read_xml` on a schema file of plain complex types** (any number of them, any content models, any
    attributes, any white space and comments between them): the reader returns the document whose prefix table,
    namespaces and current namespace come from the root element alone, and whose nodes are, in document order,
    one struct description per `complexType` with one field per member site of its `sequence` followed by one per
    `attribute` -/
theorem readXml_plain_file (xf : XFile) (schema : XNode) (tns : String) (h : PlainFile xf schema tns) :
    readXml [xf] xf.name =
      .ok { fileDoc schema tns with
            nodes := (fileDoc schema tns).nodes ++ schema.kids.filterMap (nodeOf (fileDoc schema tns) [schema]) } := by
  have hfile : fileTable [xf] xf.name = some xf := by simp [fileTable]
  have hkids : PlainKids (fileDoc schema tns) [schema] schema.kids := by
    intro k hk
    rcases h.kids k hk with rfl | ⟨name, a, b, c, e, f, g⟩
    · exact Or.inl rfl
    · refine Or.inr ⟨name, a, b, c, e, f, ?_⟩
      intro pu hpu
      exact switch_absorbed _ tns pu (collectNamespaces_absorbs {} schema.nss pu (g pu hpu))
  unfold readXml readXmlOn
  simp only
  have hrun : (readXmlInternal (fileTable [xf]) xf.name [] [] 10000).run { processed := [] } =
      .ok ({ fileDoc schema tns with
            nodes := (fileDoc schema tns).nodes ++ schema.kids.filterMap (nodeOf (fileDoc schema tns) [schema]) },
           { processed := [xf.name] }) := by
    rw [show (10000 : Nat) = 9999 + 1 from rfl]
    simp only [readXmlInternal, hfile, h.tops]
    simp only [List.find?, h.isElem]
    have hrt : ∀ st : RS, (readTop (fileTable [xf]) xf (allElemsOf [schema] []) schema (({} : Doc).collectNamespaces schema.nss) 9999).run st =
        .ok ({ fileDoc schema tns with
            nodes := (fileDoc schema tns).nodes ++ schema.kids.filterMap (nodeOf (fileDoc schema tns) [schema]) }, st) := by
      intro st
      rw [show (9999 : Nat) = 9998 + 1 from rfl, readTop_schema _ _ _ _ _ _ _ tns h.isElem h.tag h.tnsAttr]
      rw [show (9998 : Nat) = 9997 + 1 from rfl]
      exact readXsd_plain _ _ _ schema [] (fileDoc schema tns) 9997 st hkids
    simp only [List.forIn_cons, List.forIn_nil]
    have hrt' : ∀ st : RS, readTop (fileTable [xf]) xf (allElemsOf [schema] []) schema (({} : Doc).collectNamespaces schema.nss) 9999 st = _ := hrt
    simp [StateT.bind, StateT.run, bind, Except.bind, pure, Except.pure, StateT.pure, get, getThe, MonadStateOf.get, StateT.get,
      modify, modifyGet, MonadStateOf.modifyGet, StateT.modifyGet, hrt']
  rw [hrun]

end ZeepVerif.Lemmas.ReadFile
