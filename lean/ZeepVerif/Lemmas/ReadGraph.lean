/- Any import graph: a pure reader for file sets whose files consist of covered components and imports of registered
   files (to any depth, with diamonds, self imports and cycles), and the theorem that the monadic reader model
   returns exactly what the pure reader returns whenever the pure reader succeeds. -/
import ZeepVerif.Lemmas.ReadImport
import ZeepVerif.Lemmas.ReadDecideX
import ZeepVerif.Lemmas.ReadDecideG

namespace ZeepVerif.Lemmas.ReadGraph
open ZeepVerif ZeepVerif.Model ZeepVerif.Lemmas.ReadField ZeepVerif.Lemmas.ReadFile ZeepVerif.Lemmas.ReadComp
open ZeepVerif.Lemmas.ReadExt ZeepVerif.Lemmas.ReadImport ZeepVerif.Lemmas.ReadDecideX

/-- how an imported file is read: location, importer's namespaces, nodes known to the importer, files processed so
    far ↦ its document and the files processed afterwards (`none`: outside what the pure reader covers) -/
abbrev FileReader := String → List Ns → List RNode → RS → Option (Doc × RS)

/-- one child of `schema`, with `rec` for imported files -/
def stepKid (rec : FileReader) (files : String → Option XFile) (schemaNss : List (Option String × String))
    (anc : List XNode) (p : Doc × RS) (k : XNode) : Option (Doc × RS) :=
  if k.tag == "import" then
    match k.attr? "namespace", k.attr? "schemaLocation" with
    | some ns, some loc =>
      if Generated.Tables.wellKnownNamespaces.contains ns then none
      else
        match files loc with
        | none => none
        | some _ =>
          if p.2.processed.contains loc then some p
          else
            match rec loc p.1.namespaces (p.1.knownNodes ++ p.1.nodes) p.2 with
            | some (imp, st') => some (p.1.extend imp, st')
            | none => none
    | _, _ => none
  else if !k.isElem then some p
  else if coveredXB schemaNss p.1 anc k then some ({ p.1 with nodes := p.1.nodes ++ (nodeOfX p.1 anc k).toList }, p.2)
  else none

def foldKids (rec : FileReader) (files : String → Option XFile) (schemaNss : List (Option String × String))
    (anc : List XNode) : List XNode → Doc × RS → Option (Doc × RS)
  | [], p => some p
  | k :: rest, p =>
    match stepKid rec files schemaNss anc p k with
    | some p' => foldKids rec files schemaNss anc rest p'
    | none => none

/-- the pure reader of one file (`read_xml_internal` for files it covers); `depth` bounds the import nesting -/
def readFileG (files : String → Option XFile) : Nat → FileReader
  | 0, _, _, _, _ => none
  | depth + 1, loc, known, kn, st =>
    match files loc with
    | none => none
    | some xf =>
      if st.processed.contains loc then none
      else
        match xf.tops with
        | some [schema] =>
          if schema.isElem && schema.tag == "schema" then
            match schema.attr? "targetNamespace" with
            | some tns =>
              foldKids (readFileG files depth) files schema.nss [schema] schema.kids
                (fileDocG (startDoc known kn) schema tns, { st with processed := loc :: st.processed })
            | none => none
          else none
        | _ => none


/-- `rec` is sound at fuel `F`: whatever it returns, the monadic reader returns at that fuel -/
def Sound (files : String → Option XFile) (rec : FileReader) (F : Nat) : Prop :=
  ∀ loc known kn st r, rec loc known kn st = some r → (readXmlInternal files loc known kn F).run st = .ok r

def stepD (rec : FileReader) (files : String → Option XFile) (schemaNss : List (Option String × String))
    (anc : List XNode) (p : Doc × RS) (k : XNode) : Doc × RS :=
  (stepKid rec files schemaNss anc p k).getD p

theorem foldKids_eq (rec : FileReader) (files : String → Option XFile) (schemaNss : List (Option String × String))
    (anc : List XNode) : (kids : List XNode) → (p r : Doc × RS) → foldKids rec files schemaNss anc kids p = some r →
    kids.foldl (stepD rec files schemaNss anc) p = r
  | [], p, r, h => by simpa [foldKids] using h
  | k :: rest, p, r, h => by
    simp only [foldKids] at h
    cases hs : stepKid rec files schemaNss anc p k with
    | none => simp [hs] at h
    | some p' =>
      rw [hs] at h
      rw [List.foldl_cons]
      have : stepD rec files schemaNss anc p k = p' := by simp [stepD, hs]
      rw [this]
      exact foldKids_eq rec files schemaNss anc rest p' r h

theorem stepKid_absorbed (rec : FileReader) (files : String → Option XFile) (schemaNss : List (Option String × String))
    (anc : List XNode) (p p' : Doc × RS) (k : XNode) (h : stepKid rec files schemaNss anc p k = some p')
    (pu : Option String × String) (ha : Absorbed p.1 pu) : Absorbed p'.1 pu := by
  unfold stepKid at h
  split at h
  · split at h
    · split at h
      · cases h
      · split at h
        · cases h
        · split at h
          · simp only [Option.some.injEq] at h; subst h; exact ha
          · split at h
            · simp only [Option.some.injEq] at h
              subst h
              exact ZeepVerif.Lemmas.ReadDecideG.extend_absorbed _ _ pu ha
            · cases h
    · cases h
  · split at h
    · simp only [Option.some.injEq] at h; subst h; exact ha
    · split at h
      · simp only [Option.some.injEq] at h; subst h; exact ha
      · cases h

/-- **the loop of `read_xsd`, imports by a sound reader**: whenever the pure fold succeeds, the monadic loop returns
    its result -/
theorem readXsd_rec (files : String → Option XFile) (rec : FileReader) (F : Nat) (hrec : Sound files rec F)
    (file : XFile) (allElems : List (XNode × List XNode)) (schema : XNode) (anc : List XNode)
    (schemaNss : List (Option String × String)) (d : Doc) (st : RS) (r : Doc × RS)
    (habs : ∀ pu ∈ schemaNss, Absorbed d pu)
    (h : foldKids rec files schemaNss (schema :: anc) schema.kids (d, st) = some r) :
    (readXsd files file allElems schema anc d (F + 1)).run st = .ok r := by
  have hfold := foldKids_eq rec files schemaNss (schema :: anc) schema.kids (d, st) r h
  simp only [readXsd]
  rw [StateT.run_bind]
  rw [forIn_steps_dep2
    (fun rem b st => (∀ pu ∈ schemaNss, Absorbed b pu) ∧ (foldKids rec files schemaNss (schema :: anc) rem (b, st)).isSome = true)
    (stepD rec files schemaNss (schema :: anc)) _ schema.kids d st ⟨habs, by simp [h]⟩]
  · rw [hfold]; rfl
  · intro x rest b st' ⟨hab, hsome⟩
    simp only [foldKids] at hsome
    cases hs : stepKid rec files schemaNss (schema :: anc) (b, st') x with
    | none => simp [hs] at hsome
    | some p' =>
      rw [hs] at hsome
      have hD : stepD rec files schemaNss (schema :: anc) (b, st') x = p' := by simp [stepD, hs]
      rw [hD]
      refine ⟨?_, fun pu hpu => stepKid_absorbed rec files schemaNss (schema :: anc) (b, st') p' x hs pu (hab pu hpu), hsome⟩
      -- the monadic body on this child
      unfold stepKid at hs
      by_cases himp : (x.tag == "import") = true
      · simp only [himp, if_true] at hs
        cases hns : x.attr? "namespace" with
        | none => simp [hns] at hs
        | some ns =>
          cases hloc : x.attr? "schemaLocation" with
          | none => simp [hns, hloc] at hs
          | some loc =>
            simp only [hns, hloc] at hs
            by_cases hwk : Generated.Tables.wellKnownNamespaces.contains ns = true
            · simp only [hwk, if_true] at hs
              cases hs
            · simp only [hwk, Bool.false_eq_true, if_false] at hs
              have hwk' : ¬ ns ∈ Generated.Tables.wellKnownNamespaces := by simpa using hwk
              cases hfl : files loc with
              | none => simp [hfl] at hs
              | some xf =>
                simp only [hfl] at hs
                by_cases hp : st'.processed.contains loc = true
                · simp only [hp, if_true, Option.some.injEq] at hs
                  subst hs
                  have hp' : loc ∈ st'.processed := by simpa using hp
                  simp only [himp, if_true, hns, hloc, hfl]
                  simp [StateT.bind, StateT.run, bind, Except.bind, pure, Except.pure, StateT.pure, get, getThe, MonadStateOf.get,
                    StateT.get, hwk', hp']
                · simp only [hp, Bool.false_eq_true, if_false] at hs
                  have hp' : ¬ loc ∈ st'.processed := by simpa using hp
                  cases hr : rec loc b.namespaces (b.knownNodes ++ b.nodes) st' with
                  | none => simp [hr] at hs
                  | some q =>
                    obtain ⟨imp, st''⟩ := q
                    simp only [hr, Option.some.injEq] at hs
                    subst hs
                    have hread := hrec loc b.namespaces (b.knownNodes ++ b.nodes) st' (imp, st'') hr
                    have hread' : readXmlInternal files loc b.namespaces (b.knownNodes ++ b.nodes) F st' = _ := hread
                    simp only [himp, if_true, hns, hloc, hfl]
                    simp [StateT.bind, StateT.run, bind, Except.bind, pure, Except.pure, StateT.pure, get, getThe, MonadStateOf.get,
                      StateT.get, hwk', hp', hread']
      · have himp' : (x.tag == "import") = false := by simpa using himp
        simp only [himp', Bool.false_eq_true, if_false] at hs
        have hk : x = .other ∨ CoveredX b (schema :: anc) x := by
          cases x with
          | other => exact Or.inl rfl
          | elem t a n tx ks =>
            right
            simp only [XNode.isElem, Bool.not_true, Bool.false_eq_true, if_false] at hs
            by_cases hc : coveredXB schemaNss b (schema :: anc) (XNode.elem t a n tx ks) = true
            · exact coveredXB_sound schemaNss b (schema :: anc) _ hab rfl hc
            · simp [hc] at hs
        have hp'eq : p' = ({ b with nodes := b.nodes ++ (nodeOfX b (schema :: anc) x).toList }, st') := by
          rcases hk with rfl | hk
          · simp only [XNode.isElem, Bool.not_false, if_true, Option.some.injEq] at hs
            subst hs
            simp [nodeOfX, XNode.isElem]
          · have he : x.isElem = true := hk.1
            simp only [he, Bool.not_true, Bool.false_eq_true, if_false] at hs
            split at hs
            · simp only [Option.some.injEq] at hs; exact hs.symm
            · cases hs
        subst hp'eq
        obtain ⟨hstep, hnf⟩ := xsdStep_X { ancestors := schema :: anc, allElems := allElems } b b.nodes x hk
        simp only [himp', Bool.false_eq_true, if_false]
        unfold xsdStep at hstep
        cases hr : runNM (tryFromNode x { ancestors := schema :: anc, allElems := allElems } nodeFuel) b with
        | mk rr d' =>
          have hr' : runNM (tryFromNode x { ancestors := schema :: anc, allElems := allElems } nodeFuel) { b with nodes := b.nodes } = (rr, d') := hr
          rw [hr'] at hstep hnf
          cases rr with
          | ok n =>
            simp only at hstep
            simp only [hr]
            show (pure _ : FM _).run st' = _
            rw [show (pure (ForInStep.yield { d' with nodes := d'.nodes ++ [n] }) : FM (ForInStep Doc)).run st' =
              .ok (ForInStep.yield { d' with nodes := d'.nodes ++ [n] }, st') from rfl, hstep]
          | error e =>
            have he : (e == Err.outOfFuel) = false := by
              cases e <;> first | rfl | (exfalso; exact hnf rfl)
            simp only at hstep
            simp only [hr, he]
            show (pure _ : FM _).run st' = _
            rw [show (pure (ForInStep.yield d') : FM (ForInStep Doc)).run st' = .ok (ForInStep.yield d', st') from rfl, hstep]


/-- **the pure reader is sound for every import graph**: to any nesting depth, with diamonds, self imports and
    cycles — whatever `readFileG` returns for a file, the monadic `read_xml_internal` returns -/
theorem readFileG_sound (files : String → Option XFile) : ∀ (depth fuel : Nat), Sound files (readFileG files depth) (fuel + 3 * depth)
  | 0, _ => by intro loc known kn st r h; simp [readFileG] at h
  | depth + 1, fuel => by
    intro loc known kn st r h
    have ih := readFileG_sound files depth fuel
    simp only [readFileG] at h
    cases hfile : files loc with
    | none => simp [hfile] at h
    | some xf =>
      rw [hfile] at h
      simp only at h
      by_cases hp : st.processed.contains loc = true
      · simp only [hp, if_true] at h
        cases h
      · simp only [hp, Bool.false_eq_true, if_false] at h
        match ht : xf.tops, h with
        | some [schema], h =>
          simp only at h
          by_cases hs : (schema.isElem && schema.tag == "schema") = true
          · simp only [hs, if_true] at h
            simp only [Bool.and_eq_true, beq_iff_eq] at hs
            cases htns : schema.attr? "targetNamespace" with
            | none => simp [htns] at h
            | some tns =>
              rw [htns] at h
              simp only at h
              rw [show fuel + 3 * (depth + 1) = (fuel + 3 * depth) + 3 from by omega]
              simp only [readXmlInternal, hfile, ht]
              simp only [List.find?, hs.1]
              have hrt : (readTop files xf (allElemsOf [schema] []) schema ((startDoc known kn).collectNamespaces schema.nss) (fuel + 3 * depth + 2)).run
                  { st with processed := loc :: st.processed } = .ok r := by
                rw [readTop_schema _ _ _ _ _ _ _ tns hs.1 hs.2 htns]
                exact readXsd_rec files (readFileG files depth) (fuel + 3 * depth) ih xf _ schema [] schema.nss _ _ r
                  (fun pu hpu => switch_absorbed _ tns pu (collectNamespaces_absorbs _ schema.nss pu hpu)) h
              simp only [List.forIn_cons, List.forIn_nil]
              have hrt' : readTop files xf (allElemsOf [schema] []) schema ((startDoc known kn).collectNamespaces schema.nss) (fuel + 3 * depth + 2)
                  { st with processed := loc :: st.processed } = _ := hrt
              have hnp' : ¬ loc ∈ st.processed := by simpa using hp
              have hsd : ({ namespaces := known, knownNodes := kn } : Doc) = startDoc known kn := rfl
              obtain ⟨r1, r2⟩ := r
              simp [StateT.bind, StateT.run, bind, Except.bind, pure, Except.pure, StateT.pure, get, getThe, MonadStateOf.get, StateT.get,
                modify, modifyGet, MonadStateOf.modifyGet, StateT.modifyGet, hsd, hrt', hnp']
          · simp [hs] at h

/-- **`read_xml` on any file set the pure reader covers** -/
theorem readXml_graph (fs : List XFile) (start : String) (depth : Nat) (hd : 3 * depth ≤ 10000) (r : Doc × RS)
    (h : readFileG (fileTable fs) depth start [] [] { processed := [] } = some r) :
    readXml fs start = .ok r.1 := by
  unfold readXml readXmlOn
  simp only
  have := readFileG_sound (fileTable fs) depth (10000 - 3 * depth) start [] [] { processed := [] } r h
  rw [show 10000 - 3 * depth + 3 * depth = 10000 from by omega] at this
  rw [this]

end ZeepVerif.Lemmas.ReadGraph
