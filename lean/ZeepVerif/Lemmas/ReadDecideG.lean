/- Decidable form of the hypotheses of `readXml_start` (a start file with imports of leaf files), and soundness. -/
import ZeepVerif.Lemmas.ReadImport
import ZeepVerif.Lemmas.ReadDecideX

namespace ZeepVerif.Lemmas.ReadDecideG
open ZeepVerif ZeepVerif.Model ZeepVerif.Lemmas.ReadField ZeepVerif.Lemmas.ReadFile ZeepVerif.Lemmas.ReadComp
open ZeepVerif.Lemmas.ReadExt ZeepVerif.Lemmas.ReadDecide ZeepVerif.Lemmas.ReadDecideX ZeepVerif.Lemmas.ReadImport

def leafFileB (xf : XFile) (d0 : Doc) : Bool :=
  match xf.tops with
  | some [schema] =>
    schema.isElem && schema.tag == "schema" &&
    (match schema.attr? "targetNamespace" with
     | some tns => covXB schema.nss (fileDocG d0 schema tns) [schema] schema.kids (fileDocG d0 schema tns).nodes
     | none => false)
  | _ => false

theorem leafFileB_sound (xf : XFile) (d0 : Doc) (h : leafFileB xf d0 = true) :
    ∃ schema tns, xf.tops = some [schema] ∧ schema.attr? "targetNamespace" = some tns ∧ LeafFile xf schema tns d0 := by
  unfold leafFileB at h
  match ht : xf.tops, h with
  | some [schema], h =>
    simp only [Bool.and_eq_true, beq_iff_eq] at h
    obtain ⟨⟨he, htag⟩, hk⟩ := h
    cases hq : schema.attr? "targetNamespace" with
    | none => simp [hq] at hk
    | some tns =>
      rw [hq] at hk
      refine ⟨schema, tns, rfl, hq, ⟨ht, he, htag, hq, ?_⟩⟩
      apply covXB_sound schema.nss (fileDocG d0 schema tns) [schema] _ schema.kids _ hk
      intro pu hpu
      exact switch_absorbed _ tns pu (collectNamespaces_absorbs d0 schema.nss pu hpu)

def importOKB (files : String → Option XFile) (b : Doc) (st : RS) (k : XNode) : Bool :=
  k.tag == "import" &&
  (match k.attr? "namespace", k.attr? "schemaLocation" with
   | some ns, some loc =>
     !Generated.Tables.wellKnownNamespaces.contains ns &&
     (match files loc with
      | some xf => !st.processed.contains loc && leafFileB xf (startDoc b.namespaces (b.knownNodes ++ b.nodes))
      | none => false)
   | _, _ => false)

theorem importOKB_sound (files : String → Option XFile) (b : Doc) (st : RS) (k : XNode) (h : importOKB files b st k = true) :
    ImportOK files b st k := by
  simp only [importOKB, Bool.and_eq_true, beq_iff_eq] at h
  obtain ⟨htag, h⟩ := h
  cases hns : k.attr? "namespace" with
  | none => simp [hns] at h
  | some ns =>
    cases hloc : k.attr? "schemaLocation" with
    | none => simp [hns, hloc] at h
    | some loc =>
      simp only [hns, hloc, Bool.and_eq_true, Bool.not_eq_true'] at h
      obtain ⟨hwk, h⟩ := h
      cases hf : files loc with
      | none => simp [hf] at h
      | some xf =>
        simp only [hf, Bool.and_eq_true, Bool.not_eq_true'] at h
        obtain ⟨hnp, hleaf⟩ := h
        obtain ⟨schemaB, tnsB, _, htb, hl⟩ := leafFileB_sound xf _ hleaf
        exact ⟨htag, ns, loc, xf, schemaB, tnsB, hns, hwk, hloc, hf, hnp, htb, hl⟩

def importSkipB (files : String → Option XFile) (st : RS) (k : XNode) : Bool :=
  k.tag == "import" &&
  (match k.attr? "namespace", k.attr? "schemaLocation" with
   | some ns, some loc => !Generated.Tables.wellKnownNamespaces.contains ns && (files loc).isSome && st.processed.contains loc
   | _, _ => false)

theorem importSkipB_sound (files : String → Option XFile) (st : RS) (k : XNode) (h : importSkipB files st k = true) :
    ImportSkip files st k := by
  simp only [importSkipB, Bool.and_eq_true, beq_iff_eq] at h
  obtain ⟨htag, h⟩ := h
  cases hns : k.attr? "namespace" with
  | none => simp [hns] at h
  | some ns =>
    cases hloc : k.attr? "schemaLocation" with
    | none => simp [hns, hloc] at h
    | some loc =>
      simp only [hns, hloc, Bool.and_eq_true, Bool.not_eq_true'] at h
      obtain ⟨⟨hwk, hf⟩, hp⟩ := h
      cases hfl : files loc with
      | none => simp [hfl] at hf
      | some xf => exact ⟨htag, ns, loc, xf, hns, hwk, hloc, hfl, hp⟩

/-- the document only gains prefixes when an imported document is merged -/
theorem extend_absorbed (me other : Doc) (pu : Option String × String) (h : Absorbed me pu) : Absorbed (me.extend other) pu := by
  have hlook : ∃ extra, (me.extend other).lookup = me.lookup ++ extra := by
    unfold Doc.extend
    simp only
    generalize other.lookup = ol
    generalize me.lookup = l
    induction ol generalizing l with
    | nil => exact ⟨[], by simp⟩
    | cons kv rest ih =>
      simp only [List.foldl_cons]
      split
      · exact ih l
      · obtain ⟨e, he⟩ := ih (l ++ [kv])
        exact ⟨[kv] ++ e, by rw [he]; simp⟩
  have hdef : (me.extend other).defaultNs = me.defaultNs := rfl
  obtain ⟨p, u⟩ := pu
  cases p with
  | some a =>
    simp only [Absorbed] at h ⊢
    rcases h with h | h | h | h
    · exact Or.inl h
    · exact Or.inr (Or.inl h)
    · exact Or.inr (Or.inr (Or.inl h))
    · by_cases ha : a.isEmpty = true
      · exact Or.inl ha
      · right; right; right
        have ha' : a.isEmpty = false := by simpa using ha
        rw [lookupNs_nonempty _ _ ha'] at h ⊢
        obtain ⟨extra, he⟩ := hlook
        rw [he, List.find?_append]
        cases hf : me.lookup.find? (fun kv => kv.1 == a) with
        | none => simp [hf] at h
        | some x => simp
  | none =>
    simp only [Absorbed] at h ⊢
    rw [hdef]; exact h

theorem stepG_absorbed (files : String → Option XFile) (anc : List XNode) (b : Doc) (st : RS) (k : XNode)
    (pu : Option String × String) (h : Absorbed b pu) : Absorbed (stepG files anc (b, st) k).1 pu := by
  unfold stepG
  split
  · split
    · split
      · split
        · exact h
        · split
          · exact extend_absorbed _ _ pu h
          · exact h
      · exact h
    · exact h
  · exact h

def covGB (files : String → Option XFile) (schemaNss : List (Option String × String)) (anc : List XNode) :
    List XNode → Doc → RS → Bool
  | [], _, _ => true
  | k :: rest, b, st =>
    ((k.tag != "import" && (!k.isElem || coveredXB schemaNss b anc k)) || importOKB files b st k || importSkipB files st k) &&
    covGB files schemaNss anc rest (stepG files anc (b, st) k).1 (stepG files anc (b, st) k).2

theorem covGB_sound (files : String → Option XFile) (schemaNss : List (Option String × String)) (anc : List XNode) :
    (kids : List XNode) → (b : Doc) → (st : RS) → (∀ pu ∈ schemaNss, Absorbed b pu) →
    covGB files schemaNss anc kids b st = true → CovG files anc kids b st
  | [], _, _, _, _ => trivial
  | k :: rest, b, st, habs, h => by
    simp only [covGB, Bool.and_eq_true, Bool.or_eq_true, bne_iff_ne, ne_eq] at h
    obtain ⟨h1, h2⟩ := h
    refine ⟨?_, covGB_sound files schemaNss anc rest _ _ (fun pu hpu => stepG_absorbed files anc b st k pu (habs pu hpu)) h2⟩
    rcases h1 with (⟨hni, hk⟩ | himp) | hskip
    · left
      refine ⟨?_, hni⟩
      cases k with
      | other => exact Or.inl rfl
      | elem t a n tx ks =>
        right
        rcases hk with hk | hk
        · simp [XNode.isElem] at hk
        · exact coveredXB_sound schemaNss b anc _ habs rfl hk
    · exact Or.inr (Or.inl (importOKB_sound files b st k himp))
    · exact Or.inr (Or.inr (importSkipB_sound files st k hskip))

/-- decidable form of `StartFile` -/
def startFileB (fs : List XFile) (start : String) : Bool :=
  match fileTable fs start with
  | some xf =>
    (match xf.tops with
     | some [schema] =>
       schema.isElem && schema.tag == "schema" &&
       (match schema.attr? "targetNamespace" with
        | some tns => covGB (fileTable fs) schema.nss [schema] schema.kids (fileDoc schema tns) { processed := [start] }
        | none => false)
     | _ => false)
  | none => false

theorem startFileB_sound (fs : List XFile) (start : String) (h : startFileB fs start = true) :
    ∃ xf schema tns, StartFile fs start xf schema tns := by
  unfold startFileB at h
  cases hf : fileTable fs start with
  | none => simp [hf] at h
  | some xf =>
    rw [hf] at h
    simp only at h
    match ht : xf.tops, h with
    | some [schema], h =>
      simp only [Bool.and_eq_true, beq_iff_eq] at h
      obtain ⟨⟨he, htag⟩, hk⟩ := h
      cases hq : schema.attr? "targetNamespace" with
      | none => simp [hq] at hk
      | some tns =>
        rw [hq] at hk
        refine ⟨xf, schema, tns, ⟨hf, ht, he, htag, hq, ?_⟩⟩
        apply covGB_sound (fileTable fs) schema.nss [schema] schema.kids _ _ _ hk
        intro pu hpu
        exact switch_absorbed _ tns pu (collectNamespaces_absorbs {} schema.nss pu hpu)

/-- **`read_xml` on a file set with one level of imports, in decidable form** -/
theorem readXml_of_startFileB (fs : List XFile) (start : String) (h : startFileB fs start = true) :
    ∃ (schema : XNode) (tns : String), readXml fs start =
      .ok (schema.kids.foldl (stepG (fileTable fs) [schema]) (fileDoc schema tns, { processed := [start] })).1 := by
  obtain ⟨xf, schema, tns, hs⟩ := startFileB_sound fs start h
  exact ⟨schema, tns, readXml_start fs start xf schema tns hs⟩

end ZeepVerif.Lemmas.ReadDecideG
