/- The writer on a schema document (no SOAP part) in closed form, and the whole generator on the covered fragment. -/
import ZeepVerif.Model.Emit
import ZeepVerif.Lemmas.ReadDecideX

namespace ZeepVerif.Lemmas.WriteDoc
open ZeepVerif ZeepVerif.Model ZeepVerif.Generated

/-- the module of one target namespace: header lines, the text of every node of that namespace in document
    order, the closing brace -/
def moduleChunks (d : Doc) (ns : Ns) : Chunks :=
  ["pub mod " ++ ns.rustModName ++ " {\n", "    use super::*;\n", "    use restrictions::CheckRestrictions;\n"] ++
    (d.nodes.filter (fun n => n.inNs == some ns)).flatMap writeNode ++ ["}\n"]

theorem forIn_except_pure {α β : Type} (g : β → α → β) : (l : List α) → (init : β) →
    (forIn l init (fun x s => (pure (ForInStep.yield (g s x)) : Except Err (ForInStep β)))) = .ok (l.foldl g init)
  | [], init => rfl
  | x :: rest, init => by
    rw [List.forIn_cons]
    show (forIn rest (g init x) _ : Except Err β) = _
    rw [forIn_except_pure g rest (g init x)]
    rfl

/-- **the writer on a document without SOAP part**: the fixed prelude, one module per target namespace in their
    order (each holding exactly the nodes of that namespace), the nodes without namespace, the fixed runtime -/
theorem writeDoc_schema (d : Doc) (hb : d.bindings = []) (hs : d.services = []) :
    writeDoc d = .ok ([Tables.headerText] ++ d.targetNamespaces.flatMap (moduleChunks d) ++
      (d.nodes.filter (fun n => n.inNs.isNone)).flatMap writeNode ++ [Tables.helpersText]) := by
  simp only [writeDoc, hb, hs]
  rw [forIn_except_pure (fun s ns => s ++ ["pub mod " ++ ns.rustModName ++ " {\n", "    use super::*;\n",
        "    use restrictions::CheckRestrictions;\n"] ++ (d.nodes.filter (fun n => n.inNs == some ns)).flatMap writeNode ++ ["}\n"])]
  simp only [List.forIn_nil, bind, Except.bind, pure, Except.pure]
  congr 1
  congr 1
  congr 1
  have : ∀ (l : List Ns) (init : Chunks),
      l.foldl (fun s ns => s ++ ["pub mod " ++ ns.rustModName ++ " {\n", "    use super::*;\n",
        "    use restrictions::CheckRestrictions;\n"] ++ (d.nodes.filter (fun n => n.inNs == some ns)).flatMap writeNode ++ ["}\n"]) init =
      init ++ l.flatMap (moduleChunks d) := by
    intro l
    induction l with
    | nil => intro init; simp
    | cons x rest ih => intro init; rw [List.foldl_cons, ih]; simp [moduleChunks, List.flatMap_cons]
  exact this _ _


open ZeepVerif.Lemmas.ReadFile ZeepVerif.Lemmas.ReadExt ZeepVerif.Lemmas.ReadDecideX

theorem collect_soap (nss : List (Option String × String)) : ∀ d : Doc,
    (d.collectNamespaces nss).bindings = d.bindings ∧ (d.collectNamespaces nss).services = d.services := by
  induction nss with
  | nil => intro d; exact ⟨rfl, rfl⟩
  | cons e rest ih =>
    intro d
    rw [collectNamespaces_eq, List.foldl_cons, ← collectNamespaces_eq]
    obtain ⟨i1, i2⟩ := ih (nsStep d e)
    rw [i1, i2]
    obtain ⟨p, u⟩ := e
    cases p with
    | some a =>
      simp only [nsStep, Doc.addNamespaceReference]
      split
      · exact ⟨rfl, rfl⟩
      · split
        · exact ⟨rfl, rfl⟩
        · split
          · exact ⟨rfl, rfl⟩
          · split <;> exact ⟨rfl, rfl⟩
    | none =>
      simp only [nsStep, Doc.addDefaultNamespace]
      split <;> exact ⟨rfl, rfl⟩

theorem fileDoc_soap (schema : XNode) (tns : String) : (fileDoc schema tns).bindings = [] ∧ (fileDoc schema tns).services = [] := by
  unfold fileDoc Doc.switchToTargetNamespace
  split <;> exact collect_soap schema.nss {}

/-- **the whole generator on the covered fragment, in closed form**: parse tree in, emitted chunks out — the prelude,
    one module per target namespace holding the text of exactly the nodes of that namespace in document order,
    the runtime. (`readXml` then `writeDoc` is what `zvdrv model` runs and what is compared byte for byte with the
    real tool on every input of every check.) -/
theorem generator_closed_form (xf : XFile) (h : coveredFileXB xf = true) :
    ∃ schema tns, xf.tops = some [schema] ∧
      let doc : Doc := { fileDoc schema tns with nodes := nodesFrom (fileDoc schema tns) [schema] schema.kids (fileDoc schema tns).nodes }
      (readXml [xf] xf.name).bind writeDoc =
        .ok ([Tables.headerText] ++ doc.targetNamespaces.flatMap (moduleChunks doc) ++
          (doc.nodes.filter (fun n => n.inNs.isNone)).flatMap writeNode ++ [Tables.helpersText]) := by
  obtain ⟨schema, tns, ht, hread⟩ := readXml_of_coveredFileXB xf h
  refine ⟨schema, tns, ht, ?_⟩
  simp only
  rw [hread]
  show writeDoc _ = _
  exact writeDoc_schema _ (fileDoc_soap schema tns).1 (fileDoc_soap schema tns).2

end ZeepVerif.Lemmas.WriteDoc
