/- Helper lemmas for C10: the abbreviation candidate loop always finds a free abbreviation. -/
import ZeepVerif.Model.Reader
import Std.Data.String.ToNat
import Mathlib.Data.List.Nodup
import Mathlib.Data.List.Perm.Subperm

namespace ZeepVerif.Model

/-- the candidates of `make_abbreviated_namespace`: `abbr`, `abbr1`, `abbr2`, … -/
def cand (base : String) (n : Nat) : String := if n == 0 then base else base ++ toString n

theorem toString_ne_empty (n : Nat) : toString n ≠ "" := by
  intro h
  have h2 : 0 < (Nat.repr n).length := Nat.length_repr_pos
  rw [show Nat.repr n = toString n from rfl, h] at h2
  simp at h2

theorem append_cancel (base s t : String) (h : base ++ s = base ++ t) : s = t := by
  have := congrArg String.toList h
  simp at this
  exact String.toList_inj.mp this

theorem cand_inj (base : String) : Function.Injective (cand base) := by
  intro a b h
  unfold cand at h
  by_cases ha : a = 0 <;> by_cases hb : b = 0
  · omega
  · simp [ha, hb] at h
    have := append_cancel base "" (toString b) (by simpa using h)
    exact absurd this.symm (toString_ne_empty b)
  · simp [ha, hb] at h
  · simpa [ha, hb] using h

theorem findFree_aux (base : String) (taken : List String) :
    ∀ fuel n, findFreeAbbr base taken fuel n ∉ taken ∨ (∀ k, n ≤ k → k < n + fuel → cand base k ∈ taken) := by
  intro fuel
  induction fuel with
  | zero => intro n; right; intro k h1 h2; omega
  | succ fuel ih =>
    intro n
    unfold findFreeAbbr
    by_cases hc : taken.contains (if n == 0 then base else base ++ toString n) = true
    · simp only [hc, if_true]
      rcases ih (n + 1) with h | h
      · left; exact h
      · right
        intro k h1 h2
        by_cases hk : k = n
        · subst hk; simpa [cand] using hc
        · exact h k (by omega) (by omega)
    · left
      simp only [hc]
      simpa using hc

/-- pigeonhole: `taken.length + 1` pairwise distinct candidates cannot all be taken -/
theorem findFree_fresh (base : String) (taken : List String) :
    findFreeAbbr base taken (taken.length + 1) 0 ∉ taken := by
  rcases findFree_aux base taken (taken.length + 1) 0 with h | h
  · exact h
  · exfalso
    have hsub : (List.range (taken.length + 1)).map (cand base) ⊆ taken := by
      intro x hx
      simp only [List.mem_map, List.mem_range] at hx
      obtain ⟨k, hk, rfl⟩ := hx
      exact h k (by omega) (by omega)
    have hnd : ((List.range (taken.length + 1)).map (cand base)).Nodup :=
      (List.nodup_range).map (cand_inj base)
    have := (List.Nodup.subperm hnd hsub).length_le
    simp at this
    omega

end ZeepVerif.Model
