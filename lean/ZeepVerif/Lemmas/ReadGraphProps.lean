/- Invariants of the pure reader `readFileG` — hence, by `readFileG_sound`, of what `read_xml` returns — for every
   import graph: each file is read at most once; the namespace assignment stays injective. -/
import ZeepVerif.Lemmas.ReadGraph
import ZeepVerif.Props.C10Read
import ZeepVerif.Props.C09

namespace ZeepVerif.Lemmas.ReadGraphProps
open ZeepVerif ZeepVerif.Model ZeepVerif.Lemmas.ReadFile ZeepVerif.Lemmas.ReadExt ZeepVerif.Lemmas.ReadImport
open ZeepVerif.Lemmas.ReadGraph ZeepVerif.Props.C10 ZeepVerif.Props.C10Read

/-- a property of (document, processed files) that every child step and every file read preserves -/
structure StepInv (Q : Doc × RS → Prop) (rec : FileReader) : Prop where
  /-- merging what `rec` returned for an import keeps `Q`, given `Q` before -/
  imp : ∀ (p : Doc × RS) (loc : String) (imp : Doc) (st' : RS), Q p → p.2.processed.contains loc = false →
    rec loc p.1.namespaces (p.1.knownNodes ++ p.1.nodes) p.2 = some (imp, st') → Q (p.1.extend imp, st')
  /-- appending nodes keeps `Q` -/
  nodes : ∀ (p : Doc × RS) (ns : List RNode), Q p → Q ({ p.1 with nodes := ns }, p.2)

theorem stepKid_inv (Q : Doc × RS → Prop) (rec : FileReader) (hQ : StepInv Q rec) (files : String → Option XFile)
    (schemaNss : List (Option String × String)) (anc : List XNode) (p p' : Doc × RS) (k : XNode)
    (h : stepKid rec files schemaNss anc p k = some p') (hp : Q p) : Q p' := by
  unfold stepKid at h
  split at h
  · split at h
    · split at h
      · cases h
      · split at h
        · cases h
        · split at h
          · simp only [Option.some.injEq] at h; subst h; exact hp
          · rename_i hnp
            split at h
            · rename_i imp st' hr
              simp only [Option.some.injEq] at h
              subst h
              exact hQ.imp p _ imp st' hp (by simpa using hnp) hr
            · cases h
    · cases h
  · split at h
    · simp only [Option.some.injEq] at h; subst h; exact hp
    · split at h
      · simp only [Option.some.injEq] at h; subst h; exact hQ.nodes p _ hp
      · cases h

theorem foldKids_inv (Q : Doc × RS → Prop) (rec : FileReader) (hQ : StepInv Q rec) (files : String → Option XFile)
    (schemaNss : List (Option String × String)) (anc : List XNode) :
    (kids : List XNode) → (p r : Doc × RS) → foldKids rec files schemaNss anc kids p = some r → Q p → Q r
  | [], p, r, h, hp => by simp only [foldKids, Option.some.injEq] at h; subst h; exact hp
  | k :: rest, p, r, h, hp => by
    simp only [foldKids] at h
    cases hs : stepKid rec files schemaNss anc p k with
    | none => simp [hs] at h
    | some p' =>
      rw [hs] at h
      exact foldKids_inv Q rec hQ files schemaNss anc rest p' r h (stepKid_inv Q rec hQ files schemaNss anc p p' k hs hp)

/-! ### each file is read at most once -/

theorem readFileG_once (files : String → Option XFile) : ∀ (depth : Nat) (loc : String) (known : List Ns) (kn : List RNode)
    (st : RS) (r : Doc × RS), st.processed.Nodup → readFileG files depth loc known kn st = some r → r.2.processed.Nodup
  | 0, _, _, _, _, _, _, h => by simp [readFileG] at h
  | depth + 1, loc, known, kn, st, r, hnd, h => by
    simp only [readFileG] at h
    cases hfile : files loc with
    | none => simp [hfile] at h
    | some xf =>
      rw [hfile] at h
      simp only at h
      by_cases hp : st.processed.contains loc = true
      · simp only [hp, if_true] at h; cases h
      · simp only [hp, Bool.false_eq_true, if_false] at h
        match ht : xf.tops, h with
        | some [schema], h =>
          simp only at h
          split at h
          · split at h
            · apply foldKids_inv (fun p => p.2.processed.Nodup) (readFileG files depth) ?_ files schema.nss [schema] schema.kids _ r h
              · show (loc :: st.processed).Nodup
                exact List.nodup_cons.mpr ⟨by simpa using hp, hnd⟩
              · exact ⟨fun p loc' imp st' hq _ hr => readFileG_once files depth loc' _ _ p.2 (imp, st') hq hr, fun p ns hq => hq⟩
            · cases h
          · cases h

/-! ### the namespace assignment stays injective -/

theorem extend_mono_ns (me other : Doc) : ∀ x ∈ me.namespaces, x ∈ (me.extend other).namespaces := by
  intro x hx
  obtain ⟨extra, he⟩ := ZeepVerif.Props.C09.extendNoDuplicates_prefix me.namespaces other.namespaces
  show x ∈ extendNoDuplicates me.namespaces other.namespaces
  rw [he]
  exact List.mem_append_left _ hx

theorem readFileG_nsInv (files : String → Option XFile) : ∀ (depth : Nat) (loc : String) (known : List Ns) (kn : List RNode)
    (st : RS) (r : Doc × RS), NsInv known → readFileG files depth loc known kn st = some r →
    NsInv r.1.namespaces ∧ ∀ x ∈ known, x ∈ r.1.namespaces
  | 0, _, _, _, _, _, _, h => by simp [readFileG] at h
  | depth + 1, loc, known, kn, st, r, hinv, h => by
    simp only [readFileG] at h
    cases hfile : files loc with
    | none => simp [hfile] at h
    | some xf =>
      rw [hfile] at h
      simp only at h
      by_cases hp : st.processed.contains loc = true
      · simp only [hp, if_true] at h; cases h
      · simp only [hp, Bool.false_eq_true, if_false] at h
        match ht : xf.tops, h with
        | some [schema], h =>
          simp only at h
          split at h
          · split at h
            · rename_i tns _
              apply foldKids_inv (fun p => NsInv p.1.namespaces ∧ ∀ x ∈ known, x ∈ p.1.namespaces) (readFileG files depth) ?_
                files schema.nss [schema] schema.kids _ r h
              · constructor
                · show NsInv (fileDocG (startDoc known kn) schema tns).namespaces
                  exact c10_switch_preserves _ _ (c10_collect_preserves _ _ hinv)
                · intro x hx
                  show x ∈ (fileDocG (startDoc known kn) schema tns).namespaces
                  exact switch_mono_ns _ _ x (collect_mono_ns _ _ x hx)
              · constructor
                · intro p loc' imp st' hq _ hr
                  obtain ⟨i1, i2⟩ := readFileG_nsInv files depth loc' p.1.namespaces _ p.2 (imp, st') hq.1 hr
                  exact ⟨c10_extend_preserves p.1 imp i1 i2, fun x hx => extend_mono_ns p.1 imp x (hq.2 x hx)⟩
                · intro p ns hq
                  exact hq
            · cases h
          · cases h

end ZeepVerif.Lemmas.ReadGraphProps
