/-
Invariants of the reader model for EVERY input (any XML trees, any file table, any fuel) — no fragment hypothesis.

Every change the node-level reader (`tryFromNode`, `findNodeByXmlName`, `fieldFromNode`, `importSequence`,
`importExtension`, `complexFromNode`, `elementFromNode`, `simpleFromNode`, and the SOAP readers) makes to the
document goes through five primitive document transformers. `block_keeps`: a predicate on documents that those
five preserve (`DocInv`) is preserved by every one of these functions, on every node, in every context, with
every fuel, whether the call returns a value or an error. The proofs are verification-condition generation
(`mvcgen`, Std.Do) over the monadic model itself, by induction on the fuel of the mutual block.
-/
import ZeepVerif.Model.Reader
import Std.Do
import Std.Tactic.Do

namespace ZeepVerif.Lemmas.Keeps
open ZeepVerif ZeepVerif.Model Std.Do

set_option mvcgen.warning false

/-- closure of a document predicate under the five primitive transformers of the node-level reader -/
structure DocInv (P : Doc → Prop) : Prop where
  addRef : ∀ d a u, P d → P (d.addNamespaceReference a u)
  addDefault : ∀ d u, P d → P (d.addDefaultNamespace u)
  switch : ∀ d ns, P d → P (d.switchToTargetNamespace ns)
  push : ∀ d key, P d → P { d with resolving := d.resolving ++ [key] }
  pop : ∀ d, P d → P { d with resolving := d.resolving.dropLast }

theorem DocInv.collect {P} (h : DocInv P) (nss : List (Option String × String)) : ∀ d, P d → P (d.collectNamespaces nss) := by
  unfold Doc.collectNamespaces
  induction nss with
  | nil => intro d hd; exact hd
  | cons pu rest ih =>
    intro d hd
    simp only [List.foldl_cons]
    apply ih
    cases pu.1 with
    | none => exact h.addDefault _ _ hd
    | some a => exact h.addRef _ _ _ hd

/-- `x` keeps `P`: started in a document satisfying `P` it ends — with a value or with an error — in one satisfying `P` -/
abbrev Keeps (P : Doc → Prop) {α} (x : NM α) : Prop :=
  ⦃fun d => ⌜P d⌝⦄ x ⦃post⟨fun _ d' => ⌜P d'⌝, fun _ d' => ⌜P d'⌝⟩⦄

/-- what a triple over `NM` says about a run of the model -/
theorem run_of_triple {α} (x : NM α) (P : Doc → Prop) (Q : α → Doc → Prop) (E : Err → Doc → Prop)
    (h : ⦃fun d => ⌜P d⌝⦄ x ⦃post⟨fun a d' => ⌜Q a d'⌝, fun e d' => ⌜E e d'⌝⟩⦄) (d : Doc) (hd : P d) :
    match runNM x d with
    | (.ok a, d') => Q a d'
    | (.error e, d') => E e d' := by
  have := h d hd
  simp only [WP.wp, runNM, ExceptT.run, StateT.run] at this ⊢
  simp [PredTrans.pushExcept, PredTrans.pushArg, PredTrans.apply, Id.run] at this
  simp only [StateT.run, pure, PredTrans.pure] at this
  revert this
  rcases x d with ⟨r, d'⟩
  cases r <;> simp <;> exact id

/-- what `Keeps` says about a run -/
theorem Keeps.run {P} {α} {x : NM α} (h : Keeps P x) (d : Doc) (hd : P d) : P (runNM x d).2 := by
  have := run_of_triple x P (fun _ d' => P d') (fun _ d' => P d') h d hd
  revert this
  rcases runNM x d with ⟨r, d'⟩
  cases r <;> exact id

macro "kc " h:ident : tactic => `(tactic| (
  (try simp only [SPred.down_pure] at *)
  repeat (first | assumption | exact ExceptConds.entails.rfl | (intro _ _; assumption) |
    apply DocInv.collect $h | apply DocInv.switch $h | apply DocInv.push $h | apply DocInv.pop $h)))

theorem keeps_simple {P} (h : DocInv P) (node : XNode) : Keeps P (simpleFromNode node) := by
  unfold Keeps
  mvcgen [simpleFromNode, collectNamespacesOnNode, modifyDoc, liftOpt, getDoc]
  case inv1 => exact post⟨fun _ d' => ⌜P d'⌝, fun _ d' => ⌜P d'⌝⟩
  all_goals kc h

theorem keeps_okOrNone {P} {α} (x : NM α) (hx : Keeps P x) : Keeps P (okOrNone x) := by
  unfold Keeps at *
  mvcgen [okOrNone, hx]

structure BlockKeeps (P : Doc → Prop) (fuel : Nat) : Prop where
  tfn : ∀ node ctx, Keeps P (tryFromNode node ctx fuel)
  fnd : ∀ ctx x ns k, Keeps P (findNodeByXmlName ctx x ns k fuel)
  fld : ∀ node ctx, Keeps P (fieldFromNode node ctx fuel)
  seq : ∀ node ctx acc, Keeps P (importSequence node ctx acc fuel)
  ext : ∀ node ctx, Keeps P (importExtension node ctx fuel)
  cpx : ∀ node ctx, Keeps P (complexFromNode node ctx fuel)
  elt : ∀ node ctx, Keeps P (elementFromNode node ctx fuel)

/-- **every node-level reader function keeps every `DocInv` predicate** — all nodes, contexts, fuel values -/
theorem block_keeps {P} (h : DocInv P) : ∀ fuel, BlockKeeps P fuel := by
  intro fuel
  induction fuel with
  | zero =>
    constructor <;> intros <;> unfold Keeps <;>
      first
        | (mvcgen [tryFromNode]) | (mvcgen [findNodeByXmlName]) | (mvcgen [fieldFromNode]) | (mvcgen [importSequence])
        | (mvcgen [importExtension]) | (mvcgen [complexFromNode]) | (mvcgen [elementFromNode])
  | succ fuel ih =>
    have hsimple := fun node => keeps_simple h node
    have hcpx := ih.cpx
    have helt := ih.elt
    have htfn := ih.tfn
    have hfnd := ih.fnd
    have hfld := ih.fld
    have hseq := ih.seq
    have hext := ih.ext
    constructor
    · intro node ctx
      unfold Keeps
      mvcgen [tryFromNode, switchToTargetNamespace, collectNamespacesOnNode, modifyDoc, getDoc, hcpx, helt, hsimple]
      all_goals kc h
    · intro ctx x ns k
      unfold Keeps
      have hok := fun n c => keeps_okOrNone (tryFromNode n c fuel) (htfn n c)
      mvcgen [findNodeByXmlName, modifyDoc, getDoc, hok]
      all_goals kc h
    · intro node ctx
      unfold Keeps
      mvcgen [fieldFromNode, switchToTargetNamespace, modifyDoc, getDoc, liftOpt, hfnd]
      all_goals kc h
    · intro node ctx acc
      unfold Keeps
      mvcgen [importSequence, hfld]
      case inv1 => exact post⟨fun _ d' => ⌜P d'⌝, fun _ d' => ⌜P d'⌝⟩
      all_goals kc h
    · intro node ctx
      unfold Keeps
      mvcgen [importExtension, getDoc, liftOpt, hfnd, hseq, hfld]
      case inv1 => exact post⟨fun _ d' => ⌜P d'⌝, fun _ d' => ⌜P d'⌝⟩
      case inv2 => exact post⟨fun _ d' => ⌜P d'⌝, fun _ d' => ⌜P d'⌝⟩
      all_goals kc h
    · intro node ctx
      unfold Keeps
      mvcgen [complexFromNode, collectNamespacesOnNode, modifyDoc, getDoc, liftOpt, hext, hseq, hfld]
      case inv1 => exact post⟨fun _ d' => ⌜P d'⌝, fun _ d' => ⌜P d'⌝⟩
      case inv2 => exact post⟨fun _ d' => ⌜P d'⌝, fun _ d' => ⌜P d'⌝⟩
      all_goals kc h
    · intro node ctx
      unfold Keeps
      mvcgen [elementFromNode, collectNamespacesOnNode, modifyDoc, getDoc, liftOpt, hcpx]
      all_goals kc h

/-- a node is filed under the target namespace that is current when its reading ends -/
theorem tfn_inNs (node : XNode) (ctx : Ctx) (fuel : Nat) :
    ⦃fun _ => ⌜True⌝⦄ tryFromNode node ctx fuel ⦃post⟨fun r d' => ⌜r.inNs = d'.current⌝, fun _ _ => ⌜True⌝⟩⦄ := by
  have hT : DocInv (fun _ => True) := ⟨fun _ _ _ _ => trivial, fun _ _ _ => trivial, fun _ _ _ => trivial, fun _ _ _ => trivial, fun _ _ => trivial⟩
  cases fuel with
  | zero => mvcgen [tryFromNode]
  | succ fuel =>
    have hcpx := (block_keeps hT fuel).cpx
    have helt := (block_keeps hT fuel).elt
    have hsimple := fun node => keeps_simple hT node
    unfold Keeps at hcpx helt hsimple
    mvcgen [tryFromNode, switchToTargetNamespace, collectNamespacesOnNode, modifyDoc, getDoc, hcpx, helt, hsimple]

theorem tfn_run_inNs (node : XNode) (ctx : Ctx) (fuel : Nat) (d : Doc) (n : RNode)
    (hr : (runNM (tryFromNode node ctx fuel) d).1 = .ok n) : n.inNs = (runNM (tryFromNode node ctx fuel) d).2.current := by
  have := run_of_triple _ _ _ _ (tfn_inNs node ctx fuel) d trivial
  revert this hr
  rcases runNM (tryFromNode node ctx fuel) d with ⟨r, d'⟩
  cases r with
  | ok a => intro hr h; cases hr; exact h
  | error e => intro hr; cases hr

/-! the SOAP readers -/

theorem keeps_message {P} (h : DocInv P) (node : XNode) (ctx : Ctx) (fuel : Nat) : Keeps P (messageFromNode node ctx fuel) := by
  have hfnd := (block_keeps h fuel).fnd
  unfold Keeps
  mvcgen [messageFromNode, liftOpt, getDoc, hfnd]
  all_goals (first | exact post⟨fun _ d' => ⌜P d'⌝, fun _ d' => ⌜P d'⌝⟩ | skip)
  all_goals kc h

theorem keeps_portMessage {P} (n : XNode) : Keeps P (portMessage n) := by
  unfold Keeps
  mvcgen [portMessage, liftOpt, getDoc]

theorem keeps_port {P} (node : XNode) : Keeps P (portFromNode node) := by
  have hpm := fun n => keeps_portMessage (P := P) n
  have hok := fun n => keeps_okOrNone (portMessage n) (hpm n)
  unfold Keeps
  mvcgen [portFromNode, liftOpt, getDoc, hpm, hok]
  all_goals (first | exact post⟨fun _ d' => ⌜P d'⌝, fun _ d' => ⌜P d'⌝⟩ | skip)
  all_goals (try simp only [SPred.down_pure] at *) <;> (first | assumption | exact ExceptConds.entails.rfl | (intro _ _; assumption) | skip)

theorem keeps_mapToRustNode {P} (po : PortOp) (i : Bool) (parts : String) : Keeps P (mapToRustNode po i parts) := by
  unfold Keeps
  mvcgen [mapToRustNode, getDoc]

theorem keeps_bindingEnvelope {P} (n : XNode) (po : PortOp) (i : Bool) : Keeps P (bindingEnvelope n po i) := by
  have hm := fun po i parts => keeps_mapToRustNode (P := P) po i parts
  unfold Keeps
  mvcgen [bindingEnvelope, liftOpt, hm]
  all_goals (first | exact post⟨fun _ d' => ⌜P d'⌝, fun _ d' => ⌜P d'⌝⟩ | skip)
  all_goals (try simp only [SPred.down_pure] at *) <;> (first | assumption | exact ExceptConds.entails.rfl | (intro _ _; assumption) | skip)

theorem keeps_binding {P} (node : XNode) (urls : List (String × Option String)) : Keeps P (bindingFromNode node urls) := by
  have he := fun n po i => keeps_bindingEnvelope (P := P) n po i
  have hok := fun n po i => keeps_okOrNone (bindingEnvelope n po i) (he n po i)
  unfold Keeps
  mvcgen [bindingFromNode, liftOpt, getDoc, he, hok]
  all_goals (first | exact post⟨fun _ d' => ⌜P d'⌝, fun _ d' => ⌜P d'⌝⟩ | skip)
  all_goals (try simp only [SPred.down_pure] at *) <;> (first | assumption | exact ExceptConds.entails.rfl | (intro _ _; assumption) | skip)

theorem keeps_service {P} (node : XNode) (urls : List (String × Option String)) : Keeps P (serviceFromNode node urls) := by
  unfold Keeps
  mvcgen [serviceFromNode, liftOpt, getDoc]

end ZeepVerif.Lemmas.Keeps
