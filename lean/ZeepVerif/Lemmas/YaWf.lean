/- Lemmas about the yaserde environment model `Ya`: a program whose structs declare every prefix their element
   members use serialises every value to namespace-well-formed XML (each prefix in use is declared on the
   element or an ancestor). -/
import ZeepVerif.Ya.Model

namespace ZeepVerif.Lemmas.YaWf
open ZeepVerif.Ya

def bound (env : List (String × String)) (p : Option String) : Bool :=
  match p with
  | none => true
  | some q => (nsLookup env q).isSome

/-- no element member (what a flattened wrapper must look like: its members are written inline, without
    a start tag that could declare anything) -/
def noElem (sd : StructD) : Bool := sd.fields.all (fun f => f.kind != .elem)

/-- the per-member facts the writer of zeep guarantees: an element member's prefix is declared by its struct;
    an attribute member carries no prefix; a flattened member is a wrapper without element members -/
def fieldOK (P : Prog) (sd : StructD) (f : FieldD) : Bool :=
  match f.kind with
  | .elem => bound sd.nss f.pfx
  | .attr => f.pfx.isNone
  | .text => true
  | .flatten => true

def structOK (P : Prog) (sd : StructD) : Bool :=
  bound sd.nss sd.pfx && sd.fields.all (fieldOK P sd)

/-- `Declared P`: a decidable predicate on programs -/
def declared (P : Prog) : Bool := P.all (structOK P)

theorem find_mem {P : Prog} {n : String} {sd : StructD} (h : P.find n = some sd) : sd ∈ P := by
  unfold Prog.find at h
  exact List.mem_of_find?_eq_some h

theorem nsLookup_append_left (a b : List (String × String)) (p : String) (h : (nsLookup a p).isSome) :
    (nsLookup (a ++ b) p).isSome := by
  unfold nsLookup at *
  rw [List.find?_append]
  cases hf : a.find? (fun kv => kv.1 == p) with
  | none => simp [hf] at h
  | some x => simp

theorem nsLookup_append_right (a b : List (String × String)) (p : String) (h : (nsLookup b p).isSome) :
    (nsLookup (a ++ b) p).isSome := by
  unfold nsLookup at *
  rw [List.find?_append]
  cases hf : a.find? (fun kv => kv.1 == p) with
  | none => simpa [hf] using h
  | some x => simp

theorem bound_append_left (a b) (p) (h : bound a p = true) : bound (a ++ b) p = true := by
  cases p with
  | none => rfl
  | some q => exact nsLookup_append_left a b q h

theorem bound_append_right (a b) (p) (h : bound b p = true) : bound (a ++ b) p = true := by
  cases p with
  | none => rfl
  | some q => exact nsLookup_append_right a b q h

theorem resolveList_append (env) : (a b : PXs) → (resolveList env a).isSome → (resolveList env b).isSome →
    (resolveList env (a.append b)).isSome
  | .nil, b, _, hb => by simpa [PXs.append] using hb
  | .cons x r, b, ha, hb => by
    simp only [PXs.append, resolveList] at *
    cases hx : resolve env x with
    | none => simp [hx] at ha
    | some x' =>
      cases hr : resolveList env r with
      | none => simp [hx, hr] at ha
      | some r' =>
        have := resolveList_append env r b (by simp [hr]) hb
        cases hq : resolveList env (r.append b) with
        | none => simp [hq] at this
        | some q => simp

/-- the facts about the pieces a list of members contributes -/
def PartsOK (env : List (String × String)) (parts : Parts) : Prop :=
  (∀ a ∈ parts.attrs, a.1 = none) ∧ (resolveList env parts.kids).isSome

theorem partsOK_merge (env) (a b : Parts) (ha : PartsOK env a) (hb : PartsOK env b) : PartsOK env (a.merge b) := by
  refine ⟨?_, ?_⟩
  · intro x hx
    simp only [Parts.merge, List.mem_append] at hx
    rcases hx with h | h
    · exact ha.1 x h
    · exact hb.1 x h
  · exact resolveList_append env _ _ ha.2 hb.2

theorem partsOK_empty (env) : PartsOK env {} := by
  refine ⟨?_, ?_⟩
  · intro a h; cases h
  · simp [resolveList]

mutual
theorem serVal_resolves (P : Prog) (hP : declared P = true) (env : List (String × String)) (label : Option String × String)
    (leaf : Leaf) (v : Val) (px : PX) (h : serVal P label leaf v = some px)
    (hl : bound (declsOf P leaf ++ env) label.1 = true) :
    (resolve env px).isSome := by
  match leaf, v with
  | .prim t, .prim s =>
    simp only [serVal] at h
    cases h
    simp only [declsOf, List.nil_append] at hl
    cases hp : label.1 with
    | none => simp [resolve, resolveList, attrsBound]
    | some p =>
      rw [hp] at hl
      simp only [bound] at hl
      cases hq : nsLookup env p with
      | none => simp [hq] at hl
      | some u => simp [resolve, hq, resolveList, attrsBound]
  | .struct n, .struct n' fs =>
    simp only [serVal] at h
    split at h
    · rename_i hn
      cases hf : P.find n with
      | none => simp [hf] at h
      | some sd =>
        simp only [declsOf, hf] at hl
        rw [hf] at h
        simp only at h
        cases hs : serFields P sd.fields fs with
        | none => simp [hs] at h
        | some parts =>
          rw [hs] at h
          simp only [Option.some.injEq] at h
          subst h
          have hsd : structOK P sd = true := (List.all_eq_true.mp hP) sd (find_mem hf)
          have hsd' := Bool.and_eq_true_iff.mp hsd
          have hfields : ∀ f ∈ sd.fields, fieldOK P sd f = true := List.all_eq_true.mp hsd'.2
          have hpo := serFields_resolves P hP (sd.nss ++ env) sd sd.fields fs parts hs hfields
            (by intro f hf hk; have := hfields f hf; simp only [fieldOK, hk] at this; exact bound_append_left _ _ _ this)
          obtain ⟨hattrs, hkids⟩ := hpo
          have hall : attrsBound (sd.nss ++ env) parts.attrs = true := by
            unfold attrsBound
            rw [List.all_eq_true]; intro a ha; rw [hattrs a ha]
          cases hk : resolveList (sd.nss ++ env) parts.kids with
          | none => simp [hk] at hkids
          | some ks =>
            cases hp : label.1 with
            | none =>
              simp only [resolve]
              rw [hall, hk]
              simp
            | some p =>
              rw [hp] at hl
              simp only [bound] at hl
              cases hq : nsLookup (sd.nss ++ env) p with
              | none => simp [hq] at hl
              | some u =>
                simp only [resolve, hq, Option.map_some]
                rw [hall, hk]
                simp
    · simp at h
  | .prim _, .struct _ _ => simp [serVal] at h
  | .struct _, .prim _ => simp [serVal] at h
theorem serFields_resolves (P : Prog) (hP : declared P = true) (env : List (String × String)) (sd : StructD)
    (fds : List FieldD) (fs : FVals) (parts : Parts) (h : serFields P fds fs = some parts)
    (hok : ∀ f ∈ fds, fieldOK P sd f = true)
    (henv : ∀ f ∈ fds, f.kind = .elem → bound env f.pfx = true) :
    PartsOK env parts := by
  match fds, fs with
  | [], .nil =>
    simp only [serFields, Option.some.injEq] at h
    subst h
    exact partsOK_empty env
  | f :: rest, .cons items more =>
    simp only [serFields] at h
    cases ht : serFields P rest more with
    | none => simp [ht] at h
    | some tail =>
      rw [ht] at h
      simp only at h
      have htail : PartsOK env tail := serFields_resolves P hP env sd rest more tail ht
        (fun g hg => hok g (List.mem_cons_of_mem _ hg)) (fun g hg => henv g (List.mem_cons_of_mem _ hg))
      have hf := hok f (List.mem_cons_self)
      cases hk : f.kind with
      | attr =>
        rw [hk] at h
        simp only [Option.map_eq_some_iff] at h
        obtain ⟨ts, _, rfl⟩ := h
        refine partsOK_merge env _ _ ⟨?_, (by simp [resolveList])⟩ htail
        intro a ha
        simp only [List.mem_map] at ha
        obtain ⟨t, _, rfl⟩ := ha
        simp only [fieldOK, hk] at hf
        simpa using hf
      | text =>
        rw [hk] at h
        simp only [Option.map_eq_some_iff] at h
        obtain ⟨ts, _, rfl⟩ := h
        exact partsOK_merge env _ _ ⟨(by intro a ha; cases ha), (by simp [resolveList])⟩ htail
      | flatten =>
        rw [hk] at h
        simp only [Option.map_eq_some_iff] at h
        obtain ⟨ts, _, rfl⟩ := h
        exact partsOK_merge env _ _ ⟨(by intro a ha; cases ha), (by simp [resolveList])⟩ htail
      | elem =>
        rw [hk] at h
        simp only [Option.map_eq_some_iff] at h
        obtain ⟨ks, hks, rfl⟩ := h
        have hb := henv f List.mem_cons_self hk
        have := serItems_resolves P hP env (f.pfx, f.rename) f.leaf items ks hks (bound_append_right _ _ _ hb)
        exact partsOK_merge env _ _ ⟨(by intro a ha; cases ha), this⟩ htail
  | [], .cons _ _ => simp [serFields] at h
  | _ :: _, .nil => simp [serFields] at h
theorem serItems_resolves (P : Prog) (hP : declared P = true) (env : List (String × String)) (label : Option String × String)
    (leaf : Leaf) (items : Vals) (ks : PXs) (h : serItems P label leaf items = some ks)
    (hl : bound (declsOf P leaf ++ env) label.1 = true) :
    (resolveList env ks).isSome := by
  match items with
  | .nil =>
    simp only [serItems, Option.some.injEq] at h
    subst h
    simp [resolveList]
  | .cons v r =>
    simp only [serItems] at h
    cases hv : serVal P label leaf v with
    | none => simp [hv] at h
    | some x =>
      cases hr : serItems P label leaf r with
      | none => simp [hv, hr] at h
      | some xs =>
        simp only [hv, hr, Option.some.injEq] at h
        subst h
        have h1 := serVal_resolves P hP env label leaf v x hv hl
        have h2 := serItems_resolves P hP env label leaf r xs hr hl
        simp only [resolveList]
        cases hx : resolve env x with
        | none => simp [hx] at h1
        | some x' =>
          cases hxs : resolveList env xs with
          | none => simp [hxs] at h2
          | some xs' => simp
end

/-- **every prefix used is declared** — for every program that meets `declared`, every struct of it and every
    value: the serialised document resolves (each prefix in use is bound on the element or an ancestor) -/
theorem serRoot_resolves (P : Prog) (hP : declared P = true) (n : String) (v : Val) (px : PX)
    (h : serRoot P n v = some px) : (resolve [] px).isSome := by
  unfold serRoot at h
  cases hf : P.find n with
  | none => simp [hf] at h
  | some sd =>
    rw [hf] at h
    simp only at h
    apply serVal_resolves P hP [] (sd.pfx, sd.rename) (.struct n) v px h
    simp only [declsOf, hf, List.append_nil]
    have hsd : structOK P sd = true := (List.all_eq_true.mp hP) sd (find_mem hf)
    exact (Bool.and_eq_true_iff.mp hsd).1

end ZeepVerif.Lemmas.YaWf
