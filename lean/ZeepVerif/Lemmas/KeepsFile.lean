/-
File-level invariants of the reader model for EVERY file table: `read_xml_internal`, `read` / `read_wsdl`, `read_xsd`
(with `process_import`). A relation `R origin current` between the document a file was started with and the document
as it grows, closed under the node-level transformers (`DocInv`), the pushes of the file level, and the merge of an
imported document that itself is `R`-related to the document it was started from (`FileRel`), holds between the start
document and whatever `read_xml_internal` returns — for every file table, start file, import graph and fuel.
-/
import ZeepVerif.Lemmas.Keeps

namespace ZeepVerif.Lemmas.KeepsFile
open ZeepVerif ZeepVerif.Model Std.Do ZeepVerif.Lemmas.Keeps

set_option mvcgen.warning false

/-- the document an imported (or the start) file begins with: `init_with_known_namespaces` -/
def startDoc (known : List Ns) (knownNodes : List RNode) : Doc := { namespaces := known, knownNodes := knownNodes }

/-- `n` is something `RustNode::try_from_node` returned for some element, in some context and document state -/
def TfnResult (n : RNode) : Prop := ∃ node ctx fuel d, (runNM (tryFromNode node ctx fuel) d).1 = .ok n

structure FileRel (R : Doc → Doc → Prop) : Prop where
  inv : ∀ d0, DocInv (R d0)
  refl : ∀ known kn, R (startDoc known kn) (startDoc known kn)
  nodes : ∀ d0 d n, R d0 d → n.inNs = d.current → TfnResult n → R d0 { d with nodes := d.nodes ++ [n] }
  messages : ∀ d0 d m, R d0 d → R d0 { d with messages := d.messages ++ [m] }
  ports : ∀ d0 d m, R d0 d → R d0 { d with ports := d.ports ++ [m] }
  bindings : ∀ d0 d m, R d0 d → R d0 { d with bindings := d.bindings ++ [m] }
  services : ∀ d0 d m, R d0 d → R d0 { d with services := d.services ++ [m] }
  imported : ∀ d0 d imp, R d0 d → R (startDoc d.namespaces (d.knownNodes ++ d.nodes)) imp → R d0 (d.extend imp)

set_option linter.unusedSimpArgs false in
/-- `throw` in the file monad (`StateT RS (Except Err)`): the exceptional postcondition must hold. (Replaces the library's
    `Spec.throw_MonadExcept`, which leaves universe metavariables behind for this monad stack.) -/
theorem spec_throw_FM {α} (e : Err) (Q : PostCond α (.arg RS (.except Err .pure))) :
    ⦃fun _ => Q.2.1 e⦄ (throw e : FM α) ⦃Q⦄ := by
  intro st h
  simp [WP.wp, throw, throwThe, MonadExceptOf.throw, PredTrans.pushArg, PredTrans.pushExcept, PredTrans.apply, liftM, monadLift,
    MonadLift.monadLift, StateT.lift, bind, Except.bind, PredTrans.pure, pure, Except.pure, Id.run]
  simp [Except.instWP._aux_1, WP.wp, StateT.run, PredTrans.pushExcept, PredTrans.pure, pure, Id.run, ExceptT.run]
  simpa [PredTrans.apply] using h

set_option linter.unusedSimpArgs false in
/-- what a partial-correctness triple over the file monad says about a run -/
theorem fm_run_of_triple {α} (x : FM α) (P : RS → Prop) (Q : α → RS → Prop)
    (h : ⦃fun st => ⌜P st⌝⦄ x ⦃⇓? a st => ⌜Q a st⌝⦄) (st : RS) (hp : P st) :
    match x.run st with
    | .ok (a, st') => Q a st'
    | .error _ => True := by
  have := h st hp
  simp [WP.wp, PredTrans.pushArg, PredTrans.apply] at this
  simp [Except.instWP._aux_1, WP.wp, StateT.run, PredTrans.pushExcept, PredTrans.pure, pure, Id.run, ExceptT.run, PredTrans.apply] at this
  revert this
  simp only [StateT.run]
  cases x st with
  | error e => intro _; trivial
  | ok r => simp

macro "fk " hR:ident d0:term : tactic => `(tactic| (
  (try simp only [SPred.down_pure, PostCond.mayThrow] at *)
  (try intros)
  (try show $d0 _)
  repeat (first | assumption | trivial | exact True.intro | exact ExceptConds.entails.rfl | apply FileRel.services $hR | apply FileRel.bindings $hR | apply FileRel.ports $hR | apply FileRel.messages $hR | apply FileRel.nodes $hR | apply FileRel.imported $hR | apply Keeps.run (P := $d0) (keeps_service _ _) | apply Keeps.run (P := $d0) (keeps_binding _ _) | apply Keeps.run (P := $d0) (keeps_port _) | apply Keeps.run (P := $d0) (keeps_message (FileRel.inv $hR _) _ _ _) | apply Keeps.run (P := $d0) ((block_keeps (FileRel.inv $hR _) _).tfn _ _) | (apply tfn_run_inNs; assumption) | (show TfnResult _; exact ⟨_, _, _, _, by assumption⟩))))

structure FileKeeps (R : Doc → Doc → Prop) (files : String → Option XFile) (fuel : Nat) : Prop where
  int : ∀ name known kn, ⦃fun st => ⌜name ∉ st.processed⌝⦄ readXmlInternal files name known kn fuel ⦃⇓? d => ⌜R (startDoc known kn) d⌝⦄
  top : ∀ file all node d0 d, R d0 d → ⦃fun _ => ⌜True⌝⦄ readTop files file all node d fuel ⦃⇓? d' => ⌜R d0 d'⌝⦄
  xsd : ∀ file all schema anc d0 d, R d0 d → ⦃fun _ => ⌜True⌝⦄ readXsd files file all schema anc d fuel ⦃⇓? d' => ⌜R d0 d'⌝⦄

attribute [local irreducible] runNM in
theorem file_keeps {R} (hR : FileRel R) (files : String → Option XFile) : ∀ fuel, FileKeeps R files fuel := by
  intro fuel
  induction fuel with
  | zero =>
    constructor
    · intro name known kn; mvcgen [readXmlInternal, spec_throw_FM, -Spec.throw_MonadExcept]
    · intro file all node d0 d _; mvcgen [readTop, spec_throw_FM, -Spec.throw_MonadExcept]
    · intro file all schema anc d0 d _; mvcgen [readXsd, spec_throw_FM, -Spec.throw_MonadExcept]
  | succ fuel ih =>
    have hint := ih.int
    have htop := ih.top
    have hxsd := ih.xsd
    constructor
    · intro name known kn
      have htop' := fun file all node d (hd : R (startDoc known kn) d) => htop file all node (startDoc known kn) d hd
      mvcgen [readXmlInternal, spec_throw_FM, -Spec.throw_MonadExcept, htop']
      case inv1 => exact ⇓? (_, d) => ⌜R (startDoc known kn) d⌝
      all_goals (try simp_all)
      · show R (startDoc known kn) (match List.find? (fun x => XNode.isElem x) _ with
          | some root => (startDoc known kn).collectNamespaces (XNode.nss root)
          | none => startDoc known kn)
        split
        · exact (hR.inv _).collect _ _ (hR.refl _ _)
        · exact hR.refl _ _
    · intro file all node d0 d hd
      have hxsd' := fun file all schema anc d (hd : R d0 d) => hxsd file all schema anc d0 d hd
      have key : R d0 (match node.attr? "targetNamespace" with
          | some tns => d.switchToTargetNamespace tns
          | none => d) := by
        split
        · exact (hR.inv d0).switch _ _ hd
        · exact hd
      mvcgen [readTop, spec_throw_FM, -Spec.throw_MonadExcept, hxsd']
      case inv1 => exact ⇓? (_, d') => ⌜R d0 d'⌝
      all_goals fk hR (R d0)
      all_goals exact key
    · intro file all schema anc d0 d hd
      have hint' := fun name kn known => hint name known kn
      mvcgen [readXsd, spec_throw_FM, -Spec.throw_MonadExcept, hint']
      case inv1 => exact ⇓? (_, d') => ⌜R d0 d'⌝
      all_goals fk hR (R d0)
      · simp_all

/-- the document a file's components are read into: the start document with the root element's declarations collected -/
def rootDoc (tops : List XNode) (known : List Ns) (kn : List RNode) : Doc :=
  match tops.find? (fun x => XNode.isElem x) with
  | some root => (startDoc known kn).collectNamespaces (XNode.nss root)
  | none => startDoc known kn

/-- for a reflexive relation: what `read_xml_internal` returns is related to the document *after* the root element's
    namespace declarations have been collected -/
theorem int_from_root {R} (hR : FileRel R) (hrefl : ∀ d, R d d) (files : String → Option XFile) (name : String)
    (known : List Ns) (kn : List RNode) (fuel : Nat) :
    ⦃fun st => ⌜name ∉ st.processed⌝⦄ readXmlInternal files name known kn (fuel + 1)
    ⦃⇓? d => ⌜∃ file tops, files name = some file ∧ file.tops = some tops ∧ R (rootDoc tops known kn) d⌝⦄ := by
  have htop := (file_keeps hR files fuel).top
  mvcgen [readXmlInternal, spec_throw_FM, -Spec.throw_MonadExcept]
  case inv1 =>
    rename_i file _ _ _ _ tops _ _ _ _ _
    exact ⇓? (_, d) => ⌜R (rootDoc tops known kn) d⌝
  case vc1 => simp_all
  case vc2 =>
    rename_i file _ _ _ _ tops _ _ _ _ _ _ _ _ _ b _ hb
    have hb' : R (rootDoc tops known kn) b := hb
    have := htop file (allElemsOf tops []) ‹XNode› (rootDoc tops known kn) b hb'
    mvcgen [this]
  case vc3 => exact hrefl _
  case vc4 =>
    rename_i file hf _ _ _ tops ht _ _ _ _ r _ hr
    exact ⟨file, tops, hf, ht, hr⟩

/-- **whatever `read_xml` returns is `R`-related to the empty start document** — every file table, start file, fuel -/
theorem readXml_rel {R} (hR : FileRel R) (files : List XFile) (start : String) (fuel : Nat) (d : Doc)
    (h : readXml files start fuel = .ok d) : R (startDoc [] []) d := by
  have ht := (file_keeps hR (fileTable files) fuel).int start [] []
  have := fm_run_of_triple _ _ (fun d _ => R (startDoc [] []) d) ht { processed := [] } (by simp)
  simp only [readXml, readXmlOn] at h
  revert this
  cases hr : (readXmlInternal (fileTable files) start [] [] fuel).run { processed := [] } with
  | error e => simp [hr] at h
  | ok r =>
    obtain ⟨d', st'⟩ := r
    simp only [hr] at h
    intro this
    cases h
    exact this

end ZeepVerif.Lemmas.KeepsFile
