/-
File-level invariants of the reader model for EVERY file table: `read_xml_internal`, `read` / `read_wsdl`, `read_xsd`
(with `process_import`). A relation `R origin current` between the document a file was started with and the document
as it grows, closed under the node-level transformers (`DocInv`), the pushes of the file level, and the merge of an
imported document that itself is `R`-related to the document it was started from (`FileRel`), holds between the start
document and whatever `read_xml_internal` returns — for every file table, start file, import graph and fuel.
-/
import ZeepVerif.Lemmas.Keeps

namespace ZeepVerif.Lemmas.KeepsFile
open ZeepVerif ZeepVerif.Model Std.Do ZeepVerif.Lemmas.Keeps

set_option mvcgen.warning false

/-- the document an imported (or the start) file begins with: `init_with_known_namespaces` -/
def startDoc (known : List Ns) (knownNodes : List RNode) : Doc := { namespaces := known, knownNodes := knownNodes }

structure FileRel (R : Doc → Doc → Prop) : Prop where
  inv : ∀ d0, DocInv (R d0)
  refl : ∀ known kn, R (startDoc known kn) (startDoc known kn)
  nodes : ∀ d0 d n, R d0 d → R d0 { d with nodes := d.nodes ++ [n] }
  messages : ∀ d0 d m, R d0 d → R d0 { d with messages := d.messages ++ [m] }
  ports : ∀ d0 d m, R d0 d → R d0 { d with ports := d.ports ++ [m] }
  bindings : ∀ d0 d m, R d0 d → R d0 { d with bindings := d.bindings ++ [m] }
  services : ∀ d0 d m, R d0 d → R d0 { d with services := d.services ++ [m] }
  imported : ∀ d0 d imp, R d0 d → R (startDoc d.namespaces (d.knownNodes ++ d.nodes)) imp → R d0 (d.extend imp)

structure FileKeeps (R : Doc → Doc → Prop) (files : String → Option XFile) (fuel : Nat) : Prop where
  int : ∀ name known kn, ⦃fun st => ⌜name ∉ st.processed⌝⦄ readXmlInternal files name known kn fuel ⦃⇓ d => ⌜R (startDoc known kn) d⌝⦄
  top : ∀ file all node d0 d, R d0 d → ⦃fun _ => ⌜True⌝⦄ readTop files file all node d fuel ⦃⇓ d' => ⌜R d0 d'⌝⦄
  xsd : ∀ file all schema anc d0 d, R d0 d → ⦃fun _ => ⌜True⌝⦄ readXsd files file all schema anc d fuel ⦃⇓ d' => ⌜R d0 d'⌝⦄

theorem file_keeps {R} (hR : FileRel R) (files : String → Option XFile) : ∀ fuel, FileKeeps R files fuel := by
  intro fuel
  induction fuel with
  | zero =>
    constructor
    · intro name known kn; mvcgen [readXmlInternal]
    · intro file all node d0 d _; mvcgen [readTop]
    · intro file all schema anc d0 d _; mvcgen [readXsd]
  | succ fuel ih =>
    have hint := ih.int
    have htop := ih.top
    have hxsd := ih.xsd
    constructor
    · intro name known kn
      mvcgen [readXmlInternal]
      all_goals trace_state; sorry
    all_goals sorry

end ZeepVerif.Lemmas.KeepsFile
