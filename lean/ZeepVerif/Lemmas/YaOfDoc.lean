/- The writer model writes exactly the spelling of the derive input `Ya.structOfComplex`, and every such derive
   input meets the hypothesis `structOK` of `serRoot_resolves` — for every complex type the reader can produce. -/
import ZeepVerif.Ya.OfDoc
import ZeepVerif.Lemmas.YaWf
import ZeepVerif.Props.C03

namespace ZeepVerif.Lemmas.YaOfDoc
open ZeepVerif ZeepVerif.Model ZeepVerif.Ya ZeepVerif.Lemmas.YaWf

/-- the attribute line the writer emits for a member is the spelling of `fieldOf` -/
theorem field_spelling (m : Option String) (f : Field) : (writeField f).head? = some (spellField (fieldOf m f)) := by
  cases ha : f.isAttribute <;> cases ht : f.tns <;> simp [writeField, spellField, fieldOf, ha, ht]

/-- the struct-level attribute line the writer emits for a complex type of a namespace is the spelling of
    `structOfComplex` -/
theorem struct_spelling (m : Option String) (xn : String) (fs : List Field) (t : Ns) (c : Option String) :
    spellStruct (structOfComplex m ⟨xn, fs, some t, c⟩) ∈ complexHead ⟨xn, fs, some t, c⟩ := by
  unfold complexHead
  apply List.mem_append_left
  apply List.mem_append_right
  show _ ∈ [_]
  rw [List.mem_singleton]
  unfold spellStruct structOfComplex
  simp only [Option.map_some, Option.getD_some, List.map_map, Function.comp_def]

theorem nsLookup_of_mem_abbr (l : List Ns) (a : String) (h : ∃ u ∈ l, u.abbreviation = a) :
    (nsLookup (l.map (fun n => (n.abbreviation, n.uri))) a).isSome := by
  obtain ⟨u, hu, he⟩ := h
  unfold nsLookup
  rw [Option.isSome_map]
  rw [List.find?_isSome]
  exact ⟨(u.abbreviation, u.uri), List.mem_map.mpr ⟨u, hu, rfl⟩, by simp [he]⟩

/-- **every complex-type struct declares what it uses**: for every `CProps` (whatever the reader produced),
    the derive input of its struct satisfies `structOK` — its own prefix and the prefix of every element
    member are bound by its `namespaces`, attribute members carry no prefix. `hnone`: a type of a schema
    without target namespace has no member of a namespace (references from a no-namespace schema into a
    namespace are outside the supported subset, DESIGN.md 2.1) -/
theorem structOfComplex_ok (P : Prog) (m : Option String) (p : CProps)
    (hnone : p.tns = none → ∀ f ∈ p.fields, f.isAttribute = false → f.tns = none) :
    structOK P (structOfComplex m p) = true := by
  unfold structOK
  rw [Bool.and_eq_true]
  constructor
  · cases ht : p.tns with
    | none => simp [structOfComplex, ht, bound]
    | some t =>
      simp only [structOfComplex, ht, Option.map_some, bound]
      exact nsLookup_of_mem_abbr _ _ ⟨t, Props.C03.c03_own_prefix_declared t p.fields, rfl⟩
  · rw [List.all_eq_true]
    intro fd hfd
    simp only [structOfComplex, List.mem_map] at hfd
    obtain ⟨f, hf, rfl⟩ := hfd
    cases ha : f.isAttribute with
    | true => simp [fieldOK, fieldOf, ha]
    | false =>
      simp only [fieldOK, fieldOf, ha, Bool.false_eq_true, if_false]
      cases hft : f.tns with
      | none => simp [bound]
      | some ns =>
        simp only [Option.map_some, bound]
        cases ht : p.tns with
        | none =>
          -- a type without a target namespace has no member with one (`hnone`)
          have := hnone ht f hf ha
          rw [hft] at this
          cases this
        | some t =>
          simp only [structOfComplex, ht]
          exact nsLookup_of_mem_abbr _ _ (Props.C03.c03_prefixes_declared t p.fields f hf ha ns hft)


/-- the wrapper struct of a simple type declares its own prefix; its single member carries none -/
theorem structOfSimple_ok (P : Prog) (m : Option String) (p : SProps) : structOK P (structOfSimple m p) = true := by
  unfold structOK
  rw [Bool.and_eq_true]
  constructor
  · cases ht : p.tns with
    | none => simp [structOfSimple, ht, bound]
    | some t => simp [structOfSimple, ht, bound, nsLookup]
  · simp only [structOfSimple]
    split
    · simp [fieldOK]
    · split <;> simp [fieldOK]

/-- no member of a namespace in a type without target namespace (DESIGN.md 2.1) -/
def NoneOK (p : CProps) : Prop := p.tns = none → ∀ f ∈ p.fields, f.isAttribute = false → f.tns = none

def NodeOK (n : RNode) : Prop :=
  match n.rtype with
  | .complex p => NoneOK p
  | .element { etype := .complex cp, .. } => NoneOK cp
  | _ => True

theorem structsOfNode_ok (P : Prog) (n : RNode) (h : NodeOK n) : ∀ sd ∈ structsOfNode n, structOK P sd = true := by
  intro sd hsd
  unfold structsOfNode at hsd
  unfold NodeOK at h
  split at hsd
  · rename_i p hp
    simp only [hp] at h
    simp only [List.mem_singleton] at hsd
    subst hsd
    exact structOfComplex_ok P _ p h
  · split at hsd
    · cases hsd
    · simp only [List.mem_singleton] at hsd
      subst hsd
      exact structOfSimple_ok P _ _
  · rename_i xn cp hp
    simp only [hp] at h
    simp only [List.mem_singleton] at hsd
    subst hsd
    exact structOfComplex_ok P _ cp h
  · cases hsd

theorem structOK_leaf_irrelevant (P : Prog) (sd : StructD) (g : FieldD → Leaf) (h : structOK P sd = true) :
    structOK P { sd with fields := sd.fields.map fun f => { f with leaf := g f } } = true := by
  unfold structOK at h ⊢
  rw [Bool.and_eq_true] at h ⊢
  refine ⟨h.1, ?_⟩
  rw [List.all_eq_true] at h ⊢
  intro f hf
  simp only [List.mem_map] at hf
  obtain ⟨f0, hf0, rfl⟩ := hf
  have := h.2 f0 hf0
  unfold fieldOK at this ⊢
  simpa using this

/-- **the whole derive input of a document declares what it uses**: for every document whose types without
    target namespace have no namespaced members, `Ya.progOf d` meets `declared` — so, by
    `c03_every_prefix_declared`, every value of every struct generated for it serialises to namespace-well-formed
    XML -/
theorem progOf_declared (d : Doc) (h : ∀ n ∈ d.nodes, NodeOK n) : declared (progOf d) = true := by
  unfold declared
  rw [List.all_eq_true]
  intro sd hsd
  unfold progOf at hsd
  simp only [List.mem_map, List.mem_flatMap] at hsd
  obtain ⟨sd0, ⟨n, hn, hsd0⟩, rfl⟩ := hsd
  exact structOK_leaf_irrelevant _ sd0 _ (structsOfNode_ok _ n (h n hn) sd0 hsd0)

end ZeepVerif.Lemmas.YaOfDoc
