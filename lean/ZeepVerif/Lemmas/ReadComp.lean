/- More component kinds in closed form: simple types by restriction, typed global elements, global elements with an
   anonymous complex type — and the file-level theorem over all of them. -/
import ZeepVerif.Lemmas.ReadFile

namespace ZeepVerif.Lemmas.ReadComp
open ZeepVerif ZeepVerif.Model ZeepVerif.Lemmas.ReadField ZeepVerif.Lemmas.ReadFile

def isRestriction (k : XNode) : Bool := k.isElem && k.tag == "restriction"

/-- the node a covered component contributes, in document state `d` -/
def compOf (d : Doc) (anc : List XNode) (k : XNode) : Option RNode :=
  if k.tag == "complexType" then
    (k.attr? "name").map fun name => { rtype := .complex (complexOf d k anc name), inNs := d.current }
  else if k.tag == "simpleType" then
    match k.attr? "name", k.kids.find? isRestriction with
    | some name, some r =>
      (r.attr? "base").map fun base =>
        { rtype := .simple { xmlName := name, rustType := asRustType d base, tns := d.current,
                             restrictions := some (buildRestrictions r), comment := parseComment k },
          inNs := d.current }
    | _, _ => none
  else if k.tag == "element" then
    match k.attr? "name" with
    | none => none
    | some name =>
      match k.attr? "type" with
      | some t => some { rtype := .element { xmlName := name, etype := .rustType (asRustType d t) }, inNs := d.current }
      | none =>
        match k.elemKids.find? (fun n => n.tag == "complexType") with
        | some ct => some { rtype := .element { xmlName := name, etype := .complex (complexOf d ct (k :: anc) name) }, inNs := d.current }
        | none => some { rtype := .element { xmlName := name, etype := .unsupported }, inNs := d.current }
  else none

/-- a component the closed form covers -/
def Covered (d : Doc) (anc : List XNode) (k : XNode) : Prop :=
  k.isElem = true ∧ k.attr? "targetNamespace" = none ∧ (∀ pu ∈ k.nss, Absorbed d pu) ∧ (compOf d anc k).isSome = true ∧
  (k.tag = "complexType" → ∀ c ∈ k.elemKids, PlainChild (k :: anc) c) ∧
  (k.tag = "element" → k.attr? "type" = none → ∀ ct, k.elemKids.find? (fun n => n.tag == "complexType") = some ct →
    ct.attr? "name" = none ∧ (∀ pu ∈ ct.nss, Absorbed d pu) ∧ ∀ c ∈ ct.elemKids, PlainChild (ct :: k :: anc) c)

theorem tryFromNode_covered (k : XNode) (ctx : Ctx) (fuel : Nat) (d : Doc) (n : RNode)
    (h : Covered d ctx.ancestors k) (hn : compOf d ctx.ancestors k = some n) :
    runNM (tryFromNode k ctx (fuel + 5)) d = (.ok n, d) := by
  obtain ⟨he, htns, habs, _, hct, hel⟩ := h
  have hc : d.collectNamespaces k.nss = d := collectNamespaces_again d k.nss habs
  by_cases h1 : k.tag = "complexType"
  · -- complex type: the lemma of ReadFile
    simp only [compOf, h1, beq_self_eq_true, if_true] at hn
    cases hname : k.attr? "name" with
    | none => simp [hname] at hn
    | some name =>
      simp only [hname, Option.map_some, Option.some.injEq] at hn
      subst hn
      exact tryFromNode_complex k ctx (fuel + 1) d name ⟨he, h1, htns, hname, hct h1, habs⟩
  · have h1' : (k.tag == "complexType") = false := by simpa using h1
    by_cases h2 : k.tag = "simpleType"
    · have e1 : ("simpleType" == "complexType") = false := by decide
      simp only [compOf, h2, e1, beq_self_eq_true, if_true, Bool.false_eq_true, if_false] at hn
      cases hname : k.attr? "name" with
      | none => simp [hname] at hn
      | some name =>
        cases hr : k.kids.find? isRestriction with
        | none => simp [hname, hr] at hn
        | some r =>
          cases hb : r.attr? "base" with
          | none => simp [hname, hr, hb] at hn
          | some base =>
            simp only [hname, hr, hb, Option.map_some, Option.some.injEq] at hn
            subst hn
            simp only [tryFromNode, he, htns, h2, collectNamespacesOnNode, Bool.not_true, Bool.false_eq_true, if_false]
            rw [runNM_bind, runNM_modifyDoc, hc]
            simp only
            rw [runNM_bind]
            have hs : runNM (RType.simple <$> simpleFromNode k) d =
                (.ok (RType.simple ({ xmlName := name, rustType := asRustType d base, tns := d.current, restrictions := some (buildRestrictions r), comment := parseComment k } : SProps)), d) := by
              show runNM (simpleFromNode k >>= fun a => pure (RType.simple a)) d = _
              rw [runNM_bind]
              have hr' : List.find? (fun k => k.isElem && k.tag == "restriction") k.kids = some r := hr
              simp only [simpleFromNode, collectNamespacesOnNode, hname, hr', hb, liftOpt]
              rw [runNM_bind, runNM_modifyDoc, hc]
              simp only
              rw [runNM_bind, runNM_pure]
              simp only
              rw [runNM_bind, runNM_getDoc]
              simp only
              rw [runNM_bind, runNM_pure]
              rfl
            rw [hs]
            simp only
            rw [runNM_bind, runNM_getDoc]
            rfl
    · have h2' : (k.tag == "simpleType") = false := by simpa using h2
      by_cases h3 : k.tag = "element"
      · have e1 : ("element" == "complexType") = false := by decide
        have e2 : ("element" == "simpleType") = false := by decide
        simp only [compOf, h3, e1, e2, beq_self_eq_true, if_true, Bool.false_eq_true, if_false] at hn
        cases hname : k.attr? "name" with
        | none => simp [hname] at hn
        | some name =>
          simp only [hname] at hn
          simp only [tryFromNode, he, htns, h3, collectNamespacesOnNode, Bool.not_true, Bool.false_eq_true, if_false]
          rw [runNM_bind, runNM_modifyDoc, hc]
          simp only
          rw [runNM_bind]
          have hs : ∃ ep, runNM (RType.element <$> elementFromNode k ctx (fuel + 4)) d = (.ok (RType.element ep), d) ∧
              n = { rtype := .element ep, inNs := d.current } := by
            cases ht : k.attr? "type" with
            | some t =>
              simp only [ht, Option.some.injEq] at hn
              refine ⟨_, ?_, hn.symm⟩
              show runNM (elementFromNode k ctx (fuel + 4) >>= fun a => pure (RType.element a)) d = _
              rw [runNM_bind]
              simp only [elementFromNode, collectNamespacesOnNode, hname, ht, liftOpt]
              rw [runNM_bind, runNM_modifyDoc, hc]
              simp only
              rw [runNM_bind, runNM_pure]
              simp only
              rw [runNM_bind, runNM_getDoc]
              simp only
              rw [runNM_pure]
              rfl
            | none =>
              simp only [ht] at hn
              cases hf : k.elemKids.find? (fun n => n.tag == "complexType") with
              | none =>
                simp only [hf, Option.some.injEq] at hn
                refine ⟨_, ?_, hn.symm⟩
                show runNM (elementFromNode k ctx (fuel + 4) >>= fun a => pure (RType.element a)) d = _
                rw [runNM_bind]
                simp only [elementFromNode, collectNamespacesOnNode, hname, ht, hf, liftOpt]
                rw [runNM_bind, runNM_modifyDoc, hc]
                simp only
                rw [runNM_bind, runNM_pure]
                simp only
                rw [runNM_bind, runNM_getDoc]
                simp only
                rw [runNM_pure]
                rfl
              | some ct =>
                simp only [hf, Option.some.injEq] at hn
                obtain ⟨hctn, hctabs, hctk⟩ := hel h3 ht ct hf
                have hcc : d.collectNamespaces ct.nss = d := collectNamespaces_again d ct.nss hctabs
                refine ⟨_, ?_, hn.symm⟩
                show runNM (elementFromNode k ctx (fuel + 4) >>= fun a => pure (RType.element a)) d = _
                rw [runNM_bind]
                simp only [elementFromNode, collectNamespacesOnNode, hname, ht, hf, liftOpt]
                rw [runNM_bind, runNM_modifyDoc, hc]
                simp only
                rw [runNM_bind, runNM_pure]
                simp only
                rw [runNM_bind, runNM_getDoc]
                simp only
                rw [runNM_bind]
                have := complexFromNode_plain ct { ancestors := k :: ctx.ancestors, allElems := ctx.allElems } fuel d name
                  (Or.inr ⟨hctn, by simp [hname]⟩) hctk
                rw [hcc] at this
                rw [this]
                simp only
                rw [runNM_pure]
                rfl
          obtain ⟨ep, hrun, hn'⟩ := hs
          rw [hrun]
          simp only
          rw [runNM_bind, runNM_getDoc]
          subst hn'
          rfl
      · have h3' : (k.tag == "element") = false := by simpa using h3
        simp [compOf, h1', h2', h3'] at hn


/-! ### the children of `schema`, all covered kinds -/

theorem compOf_nodes (d : Doc) (ns : List RNode) (anc : List XNode) (k : XNode) :
    compOf { d with nodes := ns } anc k = compOf d anc k := rfl

theorem covered_nodes (d : Doc) (ns : List RNode) (anc : List XNode) (k : XNode) (h : Covered d anc k) :
    Covered { d with nodes := ns } anc k := by
  obtain ⟨a, b, c, e, f, g⟩ := h
  exact ⟨a, b, c, e, f, g⟩

def CoveredKids (d : Doc) (anc : List XNode) (kids : List XNode) : Prop :=
  ∀ k ∈ kids, k = .other ∨ Covered d anc k

def nodeOfC (d : Doc) (anc : List XNode) (k : XNode) : Option RNode :=
  if k.isElem then compOf d anc k else none

theorem xsdStep_covered (ctx : Ctx) (d : Doc) (acc : List RNode) (k : XNode)
    (hk : k = .other ∨ Covered d ctx.ancestors k) :
    xsdStep ctx { d with nodes := acc } k = { d with nodes := acc ++ (nodeOfC d ctx.ancestors k).toList } ∧
      (runNM (tryFromNode k ctx nodeFuel) { d with nodes := acc }).1 ≠ .error .outOfFuel := by
  rcases hk with rfl | hk
  · constructor
    · unfold xsdStep
      rw [show nodeFuel = 99999 + 1 from rfl, tryFromNode_other]
      simp [nodeOfC, XNode.isElem]
    · rw [show nodeFuel = 99999 + 1 from rfl, tryFromNode_other]
      intro h; cases h
  · have hk' := covered_nodes d acc ctx.ancestors k hk
    cases hn : compOf d ctx.ancestors k with
    | none => have := hk.2.2.2.1; simp [hn] at this
    | some n =>
      have hrun := tryFromNode_covered k ctx 99995 { d with nodes := acc } n hk' hn
      constructor
      · unfold xsdStep
        rw [show nodeFuel = 99995 + 5 from rfl, hrun]
        simp [nodeOfC, hk.1, hn]
      · rw [show nodeFuel = 99995 + 5 from rfl, hrun]
        intro h; cases h

theorem schema_fold_covered (ctx : Ctx) (d : Doc) : (kids : List XNode) → (acc : List RNode) →
    CoveredKids d ctx.ancestors kids →
    kids.foldl (xsdStep ctx) { d with nodes := acc } = { d with nodes := acc ++ kids.filterMap (nodeOfC d ctx.ancestors) }
  | [], acc, _ => by simp
  | k :: rest, acc, h => by
    rw [List.foldl_cons, (xsdStep_covered ctx d acc k (h k List.mem_cons_self)).1,
      schema_fold_covered ctx d rest _ (fun x hx => h x (List.mem_cons_of_mem _ hx))]
    cases hn : nodeOfC d ctx.ancestors k <;> simp [List.filterMap_cons, hn]

theorem readXsd_covered (files : String → Option XFile) (file : XFile) (allElems : List (XNode × List XNode))
    (schema : XNode) (anc : List XNode) (d : Doc) (fuel : Nat) (st : RS)
    (h : CoveredKids d (schema :: anc) schema.kids) (hni : ∀ k ∈ schema.kids, k.tag ≠ "import") :
    (readXsd files file allElems schema anc d (fuel + 1)).run st =
      .ok ({ d with nodes := d.nodes ++ schema.kids.filterMap (nodeOfC d (schema :: anc)) }, st) := by
  have hfold := schema_fold_covered { ancestors := schema :: anc, allElems := allElems } d schema.kids d.nodes h
  simp only [readXsd]
  rw [StateT.run_bind]
  rw [forIn_steps_inv (fun b => ∃ acc, b = { d with nodes := acc })
    (xsdStep { ancestors := schema :: anc, allElems := allElems }) _ schema.kids d st ⟨d.nodes, rfl⟩]
  · show (pure _ : FM Doc).run st = _
    rw [show d = { d with nodes := d.nodes } from rfl, hfold]
    rfl
  · intro x hx b st' ⟨acc, hb⟩
    subst hb
    obtain ⟨hstep, hnf⟩ := xsdStep_covered { ancestors := schema :: anc, allElems := allElems } d acc x (h x hx)
    have h1 : (x.tag == "import") = false := by simpa using hni x hx
    refine ⟨?_, ⟨_, hstep⟩⟩
    simp only [h1, Bool.false_eq_true, if_false]
    unfold xsdStep
    cases hr : runNM (tryFromNode x { ancestors := schema :: anc, allElems := allElems } nodeFuel) { d with nodes := acc } with
    | mk r d' =>
      rw [hr] at hnf
      cases r with
      | ok n => rfl
      | error e =>
        have he : (e == Err.outOfFuel) = false := by
          cases e <;> first | rfl | (exfalso; exact hnf rfl)
        simp only [he]
        rfl

/-- a schema file the general file-level theorem covers -/
structure CoveredFile (xf : XFile) (schema : XNode) (tns : String) : Prop where
  tops : xf.tops = some [schema]
  isElem : schema.isElem = true
  tag : schema.tag = "schema"
  tnsAttr : schema.attr? "targetNamespace" = some tns
  kids : CoveredKids (fileDoc schema tns) [schema] schema.kids
  noImport : ∀ k ∈ schema.kids, k.tag ≠ "import"

/-- **`read_xml` on a schema file of covered components** — complex types without derivation, simple types by
    restriction, typed global elements, global elements with an anonymous complex type, in any number and order:
    the closed-form document, one node per component in document order -/
theorem readXml_covered_file (xf : XFile) (schema : XNode) (tns : String) (h : CoveredFile xf schema tns) :
    readXml [xf] xf.name =
      .ok { fileDoc schema tns with
            nodes := (fileDoc schema tns).nodes ++ schema.kids.filterMap (nodeOfC (fileDoc schema tns) [schema]) } := by
  have hfile : fileTable [xf] xf.name = some xf := by simp [fileTable]
  unfold readXml readXmlOn
  simp only
  have hrun : (readXmlInternal (fileTable [xf]) xf.name [] [] 10000).run { processed := [] } =
      .ok ({ fileDoc schema tns with
            nodes := (fileDoc schema tns).nodes ++ schema.kids.filterMap (nodeOfC (fileDoc schema tns) [schema]) },
           { processed := [xf.name] }) := by
    rw [show (10000 : Nat) = 9999 + 1 from rfl]
    simp only [readXmlInternal, hfile, h.tops]
    simp only [List.find?, h.isElem]
    have hrt : ∀ st : RS, (readTop (fileTable [xf]) xf (allElemsOf [schema] []) schema (({} : Doc).collectNamespaces schema.nss) 9999).run st =
        .ok ({ fileDoc schema tns with
            nodes := (fileDoc schema tns).nodes ++ schema.kids.filterMap (nodeOfC (fileDoc schema tns) [schema]) }, st) := by
      intro st
      rw [show (9999 : Nat) = 9998 + 1 from rfl, readTop_schema _ _ _ _ _ _ _ tns h.isElem h.tag h.tnsAttr]
      rw [show (9998 : Nat) = 9997 + 1 from rfl]
      exact readXsd_covered _ _ _ schema [] (fileDoc schema tns) 9997 st h.kids h.noImport
    simp only [List.forIn_cons, List.forIn_nil]
    have hrt' : ∀ st : RS, readTop (fileTable [xf]) xf (allElemsOf [schema] []) schema (({} : Doc).collectNamespaces schema.nss) 9999 st = _ := hrt
    simp [StateT.bind, StateT.run, bind, Except.bind, pure, Except.pure, StateT.pure, get, getThe, MonadStateOf.get, StateT.get,
      modify, modifyGet, MonadStateOf.modifyGet, StateT.modifyGet, hrt']
  rw [hrun]

end ZeepVerif.Lemmas.ReadComp
