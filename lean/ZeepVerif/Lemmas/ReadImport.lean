/- Imports in closed form, one level: a schema file whose children are imports of *leaf* files (covered files
   without imports), white space, and covered components. -/
import ZeepVerif.Lemmas.ReadExt

namespace ZeepVerif.Lemmas.ReadImport
open ZeepVerif ZeepVerif.Model ZeepVerif.Lemmas.ReadField ZeepVerif.Lemmas.ReadFile ZeepVerif.Lemmas.ReadComp
open ZeepVerif.Lemmas.ReadExt

/-- the document state in which the components of a file are read, when the reader starts from `d0`
    (`init_with_known_namespaces`: the importer's namespaces and the nodes read so far) -/
def fileDocG (d0 : Doc) (schema : XNode) (tns : String) : Doc :=
  (d0.collectNamespaces schema.nss).switchToTargetNamespace tns

def startDoc (known : List Ns) (kn : List RNode) : Doc := { namespaces := known, knownNodes := kn }

/-- a leaf file: one root `schema` with a target namespace whose children are covered components (no imports) -/
structure LeafFile (xf : XFile) (schema : XNode) (tns : String) (d0 : Doc) : Prop where
  tops : xf.tops = some [schema]
  isElem : schema.isElem = true
  tag : schema.tag = "schema"
  tnsAttr : schema.attr? "targetNamespace" = some tns
  kids : CovX (fileDocG d0 schema tns) [schema] schema.kids (fileDocG d0 schema tns).nodes

def leafDoc (d0 : Doc) (schema : XNode) (tns : String) : Doc :=
  { fileDocG d0 schema tns with nodes := nodesFrom (fileDocG d0 schema tns) [schema] schema.kids (fileDocG d0 schema tns).nodes }

/-- **`read_xml_internal` on a leaf file**, from any importer state: the closed-form document, and the file is
    marked as processed -/
theorem readXmlInternal_leaf (files : String → Option XFile) (loc : String) (known : List Ns) (kn : List RNode)
    (fuel : Nat) (st : RS) (xf : XFile) (schema : XNode) (tns : String)
    (hfile : files loc = some xf) (hnp : st.processed.contains loc = false)
    (h : LeafFile xf schema tns (startDoc known kn)) :
    (readXmlInternal files loc known kn (fuel + 3)).run st =
      .ok (leafDoc (startDoc known kn) schema tns, { st with processed := loc :: st.processed }) := by
  simp only [readXmlInternal, hfile, h.tops]
  simp only [List.find?, h.isElem]
  have hrt : ∀ st' : RS, (readTop files xf (allElemsOf [schema] []) schema ((startDoc known kn).collectNamespaces schema.nss) (fuel + 2)).run st' =
      .ok (leafDoc (startDoc known kn) schema tns, st') := by
    intro st'
    rw [readTop_schema _ _ _ _ _ _ _ tns h.isElem h.tag h.tnsAttr]
    exact readXsd_X _ _ _ schema [] (fileDocG (startDoc known kn) schema tns) fuel st' h.kids
  simp only [List.forIn_cons, List.forIn_nil]
  have hrt' : ∀ st' : RS, readTop files xf (allElemsOf [schema] []) schema ((startDoc known kn).collectNamespaces schema.nss) (fuel + 2) st' = _ := hrt
  have hnp' : ¬ loc ∈ st.processed := by simpa using hnp
  have hsd : ({ namespaces := known, knownNodes := kn } : Doc) = startDoc known kn := rfl
  simp [StateT.bind, StateT.run, bind, Except.bind, pure, Except.pure, StateT.pure, get, getThe, MonadStateOf.get, StateT.get,
    modify, modifyGet, MonadStateOf.modifyGet, StateT.modifyGet, hsd, hrt', hnp']


/-! ### the loop of `read_xsd` with imports of leaf files -/

theorem forIn_steps_dep2 {α β : Type} (I : List α → β → RS → Prop) (g : β × RS → α → β × RS) (body : α → β → FM (ForInStep β)) :
    (l : List α) → (init : β) → (st : RS) → I l init st →
    (∀ x rest b st, I (x :: rest) b st →
      (body x b).run st = .ok (ForInStep.yield (g (b, st) x).1, (g (b, st) x).2) ∧ I rest (g (b, st) x).1 (g (b, st) x).2) →
    (forIn l init body).run st = .ok (l.foldl g (init, st))
  | [], init, st, _, _ => rfl
  | x :: rest, init, st, hI, h => by
    rw [List.forIn_cons]
    show (body x init >>= _).run st = _
    simp only [StateT.run_bind]
    obtain ⟨h1, h2⟩ := h x rest init st hI
    rw [h1]
    show (forIn rest (g (init, st) x).1 body).run (g (init, st) x).2 = _
    rw [forIn_steps_dep2 I g body rest _ _ h2 h]
    rfl

/-- what one child of `schema` does to (document, processed files): an import of a leaf file merges that file's
    document (read from the importer's namespaces and nodes) and marks it; a component appends its node -/
def stepG (files : String → Option XFile) (anc : List XNode) (p : Doc × RS) (k : XNode) : Doc × RS :=
  if k.tag == "import" then
    match k.attr? "schemaLocation" with
    | some loc =>
      match files loc with
      | some xf =>
        if p.2.processed.contains loc then p else
        match xf.tops with
        | some [schemaB] =>
          (p.1.extend (leafDoc (startDoc p.1.namespaces (p.1.knownNodes ++ p.1.nodes)) schemaB ((schemaB.attr? "targetNamespace").getD "")),
           { p.2 with processed := loc :: p.2.processed })
        | _ => p
      | none => p
    | none => p
  else ({ p.1 with nodes := p.1.nodes ++ (nodeOfX p.1 anc k).toList }, p.2)

/-- an `import` the lemma covers: a namespace that is not a well-known one, a location that names a registered
    leaf file not yet read -/
def ImportOK (files : String → Option XFile) (b : Doc) (st : RS) (k : XNode) : Prop :=
  k.tag = "import" ∧ ∃ ns loc xf schemaB tnsB,
    k.attr? "namespace" = some ns ∧ Generated.Tables.wellKnownNamespaces.contains ns = false ∧
    k.attr? "schemaLocation" = some loc ∧ files loc = some xf ∧ st.processed.contains loc = false ∧
    schemaB.attr? "targetNamespace" = some tnsB ∧
    LeafFile xf schemaB tnsB (startDoc b.namespaces (b.knownNodes ++ b.nodes))

/-- an `import` of a registered file that has been read already: skipped -/
def ImportSkip (files : String → Option XFile) (st : RS) (k : XNode) : Prop :=
  k.tag = "import" ∧ ∃ ns loc xf, k.attr? "namespace" = some ns ∧ Generated.Tables.wellKnownNamespaces.contains ns = false ∧
    k.attr? "schemaLocation" = some loc ∧ files loc = some xf ∧ st.processed.contains loc = true

def CovG (files : String → Option XFile) (anc : List XNode) : List XNode → Doc → RS → Prop
  | [], _, _ => True
  | k :: rest, b, st =>
    ((k = .other ∨ CoveredX b anc k) ∧ k.tag ≠ "import" ∨ ImportOK files b st k ∨ ImportSkip files st k) ∧
    CovG files anc rest (stepG files anc (b, st) k).1 (stepG files anc (b, st) k).2

theorem readXsd_G (files : String → Option XFile) (file : XFile) (allElems : List (XNode × List XNode))
    (schema : XNode) (anc : List XNode) (d : Doc) (fuel : Nat) (st : RS)
    (h : CovG files (schema :: anc) schema.kids d st) :
    (readXsd files file allElems schema anc d (fuel + 4)).run st =
      .ok (schema.kids.foldl (stepG files (schema :: anc)) (d, st)) := by
  simp only [readXsd]
  rw [StateT.run_bind]
  rw [forIn_steps_dep2 (fun rem b st => CovG files (schema :: anc) rem b st) (stepG files (schema :: anc)) _ schema.kids d st h]
  · rfl
  · intro x rest b st' hcov
    obtain ⟨hk, hrest⟩ := hcov
    refine ⟨?_, hrest⟩
    rcases hk with ⟨hk, hni⟩ | himp | hskip
    · -- a component (or white space)
      have h1 : (x.tag == "import") = false := by simpa using hni
      have hb : b = { b with nodes := b.nodes } := rfl
      obtain ⟨hstep, hnf⟩ := xsdStep_X { ancestors := schema :: anc, allElems := allElems } b b.nodes x hk
      simp only [stepG, h1, Bool.false_eq_true, if_false]
      unfold xsdStep at hstep
      cases hr : runNM (tryFromNode x { ancestors := schema :: anc, allElems := allElems } nodeFuel) b with
      | mk r d' =>
        have hr' : runNM (tryFromNode x { ancestors := schema :: anc, allElems := allElems } nodeFuel) { b with nodes := b.nodes } = (r, d') := hr
        rw [hr'] at hstep hnf
        cases r with
        | ok n =>
          simp only at hstep
          simp only [hr]
          show (pure _ : FM _).run st' = _
          rw [show (pure (ForInStep.yield { d' with nodes := d'.nodes ++ [n] }) : FM (ForInStep Doc)).run st' =
            .ok (ForInStep.yield { d' with nodes := d'.nodes ++ [n] }, st') from rfl, hstep]
        | error e =>
          have he : (e == Err.outOfFuel) = false := by
            cases e <;> first | rfl | (exfalso; exact hnf rfl)
          simp only at hstep
          simp only [hr, he]
          show (pure _ : FM _).run st' = _
          rw [show (pure (ForInStep.yield d') : FM (ForInStep Doc)).run st' = .ok (ForInStep.yield d', st') from rfl, hstep]
    · -- an import of a leaf file
      obtain ⟨htag, ns, loc, xf, schemaB, tnsB, hns, hwk, hloc, hfile, hnp, htb, hleaf⟩ := himp
      have h1 : (x.tag == "import") = true := by simpa using htag
      have hread := readXmlInternal_leaf files loc b.namespaces (b.knownNodes ++ b.nodes) fuel st' xf schemaB tnsB hfile hnp hleaf
      have hwk' : ¬ ns ∈ Generated.Tables.wellKnownNamespaces := by simpa using hwk
      have hnp' : ¬ loc ∈ st'.processed := by simpa using hnp
      have hread' : readXmlInternal files loc b.namespaces (b.knownNodes ++ b.nodes) (fuel + 3) st' = _ := hread
      simp only [stepG, h1, if_true, hloc, hfile, hleaf.tops, htb, Option.getD_some, hns, hnp, Bool.false_eq_true, if_false]
      simp [StateT.bind, StateT.run, bind, Except.bind, pure, Except.pure, StateT.pure, get, getThe, MonadStateOf.get, StateT.get,
        hwk', hnp', hread']
    · -- an import of a file that has been read already
      obtain ⟨htag, ns, loc, xf, hns, hwk, hloc, hfile, hp⟩ := hskip
      have h1 : (x.tag == "import") = true := by simpa using htag
      have hwk' : ¬ ns ∈ Generated.Tables.wellKnownNamespaces := by simpa using hwk
      have hp' : loc ∈ st'.processed := by simpa using hp
      simp only [stepG, h1, if_true, hloc, hfile, hp, hns]
      simp [StateT.bind, StateT.run, bind, Except.bind, pure, Except.pure, StateT.pure, get, getThe, MonadStateOf.get, StateT.get,
        hwk', hp']


/-! ### `read_xml` on a start file with leaf imports -/

structure StartFile (fs : List XFile) (start : String) (xf : XFile) (schema : XNode) (tns : String) : Prop where
  file : fileTable fs start = some xf
  tops : xf.tops = some [schema]
  isElem : schema.isElem = true
  tag : schema.tag = "schema"
  tnsAttr : schema.attr? "targetNamespace" = some tns
  kids : CovG (fileTable fs) [schema] schema.kids (fileDoc schema tns) { processed := [start] }

/-- **`read_xml` on a file set**: the start file imports leaf files (each read once, from the importer's namespaces
    and nodes, and merged), declares components (plain, derived from a base read before — in the file or in an
    imported one —, simple types, global elements): the document is the fold of `stepG` over the children of the
    start file's `schema` -/
theorem readXml_start (fs : List XFile) (start : String) (xf : XFile) (schema : XNode) (tns : String)
    (h : StartFile fs start xf schema tns) :
    readXml fs start = .ok (schema.kids.foldl (stepG (fileTable fs) [schema]) (fileDoc schema tns, { processed := [start] })).1 := by
  unfold readXml readXmlOn
  simp only
  have hrun : (readXmlInternal (fileTable fs) start [] [] 10000).run { processed := [] } =
      .ok (schema.kids.foldl (stepG (fileTable fs) [schema]) (fileDoc schema tns, { processed := [start] })) := by
    rw [show (10000 : Nat) = 9999 + 1 from rfl]
    simp only [readXmlInternal, h.file, h.tops]
    simp only [List.find?, h.isElem]
    have hrt : (readTop (fileTable fs) xf (allElemsOf [schema] []) schema (({} : Doc).collectNamespaces schema.nss) 9999).run { processed := [start] } =
        .ok (schema.kids.foldl (stepG (fileTable fs) [schema]) (fileDoc schema tns, { processed := [start] })) := by
      rw [show (9999 : Nat) = 9998 + 1 from rfl, readTop_schema _ _ _ _ _ _ _ tns h.isElem h.tag h.tnsAttr]
      rw [show (9998 : Nat) = 9994 + 4 from rfl]
      exact readXsd_G _ _ _ schema [] (fileDoc schema tns) 9994 _ h.kids
    simp only [List.forIn_cons, List.forIn_nil]
    have hrt' : readTop (fileTable fs) xf (allElemsOf [schema] []) schema (({} : Doc).collectNamespaces schema.nss) 9999 { processed := [start] } = _ := hrt
    simp [StateT.bind, StateT.run, bind, Except.bind, pure, Except.pure, StateT.pure, get, getThe, MonadStateOf.get, StateT.get,
      modify, modifyGet, MonadStateOf.modifyGet, StateT.modifyGet, hrt']
  rw [hrun]

end ZeepVerif.Lemmas.ReadImport
