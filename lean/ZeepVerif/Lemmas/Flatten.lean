/- Helper lemmas for C02/C04/C08: the model's traversal of a type's content (`memberSites`) together with
   its occurrence computation agrees, on the XML rendering of any particle tree, with the reference
   flattening `Spec.Ref.flattenParticles`. -/
import ZeepVerif.Spec.ToX
import ZeepVerif.Lemmas.MayRepeat
import ZeepVerif.Model.Emit

namespace ZeepVerif.Lemmas.Flatten
open ZeepVerif ZeepVerif.Model ZeepVerif.Spec

def u64max : Nat := 18446744073709551615
def OccOk (o : Occurs) : Prop := ∀ n, o.max = some n → n ≤ u64max

theorem toString_eq_zero (m : Nat) : (toString m = "0") ↔ m = 0 := by
  constructor
  · intro h
    have : Nat.repr m = Nat.repr 0 := h
    exact Nat.repr_inj.mp this
  · rintro rfl; rfl

def findAttr (attrs : List XAttr) (name : String) : Option String :=
  (attrs.find? (fun a => a.name == name && a.ns.isNone)).map (·.value)

theorem occ_optional (o : Occurs) : (findAttr (occAttrs o) "minOccurs" == some "0") = o.optional := by
  unfold findAttr occAttrs Occurs.optional
  by_cases h : (o.min == 1) = true
  · have h1 : o.min = 1 := by simpa using h
    simp only [h, if_true, List.nil_append]
    rcases o.max with _ | n
    · simp [h1]
    · by_cases hn : n = 1 <;> simp [hn, h1]
  · have h1 : o.min ≠ 1 := by simpa using h
    simp only [h]
    simp only [Bool.false_eq_true, if_false, List.cons_append, List.nil_append, List.find?_cons, beq_self_eq_true, Option.isNone_none, Bool.and_self, Option.map_some]
    by_cases h0 : o.min = 0
    · simp [h0]; rfl
    · have h2 : o.min.repr ≠ "0" := fun e => h0 ((toString_eq_zero _).mp e)
      have e1 : (o.min.repr == "0") = false := by rw [beq_eq_false_iff_ne]; exact h2
      have e2 : (o.min == 0) = false := by rw [beq_eq_false_iff_ne]; exact h0
      rw [e2]
      show (some (Nat.repr o.min) == some "0") = false
      simp [h2]

theorem find_append_none (l m : List XAttr) (name : String) (hl : ∀ a ∈ l, a.name ≠ name) :
    findAttr (l ++ m) name = findAttr m name := by
  unfold findAttr
  have hf : l.find? (fun a => a.name == name && a.ns.isNone) = none := by
    rw [List.find?_eq_none]; intro a ha; simp [hl a ha]
  rw [List.find?_append, hf]; rfl

theorem occ_repeats (o : Occurs) (hok : OccOk o) : mayRepeat (findAttr (occAttrs o) "maxOccurs") = o.repeats := by
  unfold occAttrs
  rw [find_append_none _ _ _ (by intro a ha; split at ha <;> simp_all)]
  unfold findAttr Occurs.repeats
  rcases hm : o.max with _ | n
  · simp [mayRepeat_unbounded]
  · by_cases hn : n = 1
    · subst hn; simp [mayRepeat_none]
    · have hb : n ≤ 18446744073709551615 := hok n hm
      have := mayRepeat_repr n hb
      simp [hn, this, show toString n = Nat.repr n from rfl]

def wrapOfOcc (o : Occ) : String := if o.isVec then "Vec" else if o.isOptional || o.isChoice then "Option" else "T"

def ancOpt (anc : List XNode) : Bool := (enclosingParticles anc).any (fun n => n.attr? "minOccurs" == some "0")
def ancRep (anc : List XNode) : Bool := (enclosingParticles anc).any (fun n => mayRepeat (n.attr? "maxOccurs"))
def ancCh (anc : List XNode) : Bool := (enclosingParticles anc).any (fun n => n.tag == "choice")

def W (site : XNode × List XNode) : String := wrapOfOcc (occurrence site.1 site.2)

mutual
def PartOk : Particle → Prop
  | .elem _ _ o => OccOk o
  | .ref _ _ o => OccOk o
  | .seq o ps => OccOk o ∧ PartsOk ps
  | .choice o ps => OccOk o ∧ PartsOk ps
def PartsOk : List Particle → Prop
  | [] => True
  | p :: ps => PartOk p ∧ PartsOk ps
end

theorem attr_eq_findAttr (t : String) (attrs nss tx kids) (name : String) :
    (XNode.elem t attrs nss tx kids).attr? name = findAttr attrs name := rfl

theorem leaf_wrapper (attrs0 : List XAttr) (o : Occurs) (hok : OccOk o) (anc : List XNode)
    (h0 : ∀ a ∈ attrs0, a.name ≠ "minOccurs" ∧ a.name ≠ "maxOccurs") :
    W (XNode.elem "element" (attrs0 ++ occAttrs o) [] none [], anc) =
      Ref.wrapperOf (ancOpt anc || o.optional) (ancRep anc || o.repeats) (ancCh anc) := by
  have e1 : (XNode.elem "element" (attrs0 ++ occAttrs o) [] none []).attr? "minOccurs" = findAttr (occAttrs o) "minOccurs" := by
    rw [attr_eq_findAttr, find_append_none _ _ "minOccurs" (fun a ha => (h0 a ha).1)]
  have e2 : (XNode.elem "element" (attrs0 ++ occAttrs o) [] none []).attr? "maxOccurs" = findAttr (occAttrs o) "maxOccurs" := by
    rw [attr_eq_findAttr, find_append_none _ _ "maxOccurs" (fun a ha => (h0 a ha).2)]
  have e3 := occ_repeats o hok
  have e4 := occ_optional o
  have htag : (XNode.elem "element" (attrs0 ++ occAttrs o) [] none []).tag = "element" := rfl
  unfold W wrapOfOcc occurrence Ref.wrapperOf ancOpt ancRep ancCh
  simp only [htag, e1, e2, e3, e4, show ("element" == "attribute") = false by decide, Bool.false_eq_true, if_false]
  generalize (enclosingParticles anc).any (fun n => mayRepeat (n.attr? "maxOccurs")) = A
  generalize (enclosingParticles anc).any (fun n => n.attr? "minOccurs" == some "0") = B
  generalize (enclosingParticles anc).any (fun n => n.tag == "choice") = C
  cases o.repeats <;> cases o.optional <;> cases A <;> cases B <;> cases C <;> simp

theorem anc_particle (t : String) (o : Occurs) (kids : List XNode) (anc : List XNode) (ht : t = "sequence" ∨ t = "choice")
    (hok : OccOk o) :
    ancOpt (XNode.elem t (occAttrs o) [] none kids :: anc) = (ancOpt anc || o.optional) ∧
    ancRep (XNode.elem t (occAttrs o) [] none kids :: anc) = (ancRep anc || o.repeats) ∧
    ancCh (XNode.elem t (occAttrs o) [] none kids :: anc) = (ancCh anc || t == "choice") := by
  have hp : isParticleTag t = true := by
    rcases ht with rfl | rfl <;> decide
  have e3 := occ_repeats o hok
  have e4 := occ_optional o
  have hep : enclosingParticles (XNode.elem t (occAttrs o) [] none kids :: anc) =
      XNode.elem t (occAttrs o) [] none kids :: enclosingParticles anc := by
    unfold enclosingParticles
    rw [List.takeWhile_cons]
    simp [XNode.tag, hp]
  unfold ancOpt ancRep ancCh
  rw [hep]
  simp only [List.any_cons, attr_eq_findAttr, e3, e4]
  refine ⟨Bool.or_comm _ _, Bool.or_comm _ _, ?_⟩
  simp only [XNode.tag]
  exact Bool.or_comm _ _

mutual
theorem flatten_particle (s : SchemaSet) (f : SchemaFile) (uri : String) (p : Particle) (hp : PartOk p)
    (rest : List XNode) (anc : List XNode) :
    (memberSitesList (p.toX f :: rest) anc).map W =
      (Ref.flattenParticle s uri (ancOpt anc) (ancRep anc) (ancCh anc) p).map (·.wrapper) ++ (memberSitesList rest anc).map W := by
  match p with
  | .elem n t o =>
    have hok : OccOk o := by simpa [PartOk] using hp
    have := leaf_wrapper [⟨"name", none, n⟩, ⟨"type", none, renderTypeRef f t⟩] o hok anc (by intro a ha; simp at ha; rcases ha with rfl | rfl <;> simp)
    simp only [List.cons_append, List.nil_append] at this
    simp only [Particle.toX, memberSitesList, XNode.isElem, XNode.tag, Ref.flattenParticle]
    simp [this]
  | .ref ns n o =>
    have hok : OccOk o := by simpa [PartOk] using hp
    have := leaf_wrapper [⟨"ref", none, qname f ns n⟩] o hok anc (by intro a ha; simp at ha; rcases ha with rfl; simp)
    simp only [List.cons_append, List.nil_append] at this
    simp only [Particle.toX, memberSitesList, XNode.isElem, XNode.tag, Ref.flattenParticle]
    simp [this]
  | .seq o ps =>
    have hok : OccOk o ∧ PartsOk ps := by simpa [PartOk] using hp
    obtain ⟨a1, a2, a3⟩ := anc_particle "sequence" o (particlesToX f ps) anc (Or.inl rfl) hok.1
    have ih := flatten_particles s f uri ps hok.2 (XNode.elem "sequence" (occAttrs o) [] none (particlesToX f ps) :: anc)
    simp only [Particle.toX, memberSitesList, memberSites, XNode.isElem, XNode.tag, Ref.flattenParticle]
    rw [a1, a2, a3] at ih
    simp [ih]
  | .choice o ps =>
    have hok : OccOk o ∧ PartsOk ps := by simpa [PartOk] using hp
    obtain ⟨a1, a2, a3⟩ := anc_particle "choice" o (particlesToX f ps) anc (Or.inr rfl) hok.1
    have ih := flatten_particles s f uri ps hok.2 (XNode.elem "choice" (occAttrs o) [] none (particlesToX f ps) :: anc)
    simp only [Particle.toX, memberSitesList, memberSites, XNode.isElem, XNode.tag, Ref.flattenParticle]
    rw [a1, a2, a3] at ih
    simp [ih]
theorem flatten_particles (s : SchemaSet) (f : SchemaFile) (uri : String) (ps : List Particle) (hp : PartsOk ps) (anc : List XNode) :
    (memberSitesList (particlesToX f ps) anc).map W =
      (Ref.flattenParticles s uri (ancOpt anc) (ancRep anc) (ancCh anc) ps).map (·.wrapper) := by
  match ps with
  | [] => simp [particlesToX, memberSitesList, XNode.isElem, Ref.flattenParticles]
  | p :: ps =>
    have hok : PartOk p ∧ PartsOk ps := by simpa [PartsOk] using hp
    have h1 := flatten_particle s f uri p hok.1 (particlesToX f ps) anc
    have h2 := flatten_particles s f uri ps hok.2 anc
    have e : ∀ xs, memberSitesList (XNode.other :: xs) anc = memberSitesList xs anc := by
      intro xs; simp [memberSitesList, XNode.isElem]
    rw [particlesToX, e, h1, h2, Ref.flattenParticles, List.map_append]
end

end ZeepVerif.Lemmas.Flatten
