/- Helper lemmas about the translator's target calculus (`Flow`, `Res`). -/
import ZeepVerif.Runtime.Prelude

namespace ZeepVerif.Runtime

@[simp] theorem Flow.seq_cont (b : Flow) : Flow.seq Flow.cont b = b := rfl
@[simp] theorem Flow.seq_ret (r : Res) (b : Flow) : Flow.seq (Flow.ret r) b = Flow.ret r := rfl
@[simp] theorem Flow.run_ret (r : Res) : (Flow.ret r).run = r := rfl
@[simp] theorem Flow.run_cont : Flow.cont.run = Res.err "<fell off the end>" := rfl
@[simp] theorem Flow.ofRes_ok : Flow.ofRes Res.ok = Flow.cont := rfl
@[simp] theorem Flow.ofRes_err (m : String) : Flow.ofRes (Res.err m) = Flow.ret (Res.err m) := rfl
@[simp] theorem forEach_nil {α : Type} (f : α → Flow) : forEach [] f = Flow.cont := rfl
@[simp] theorem forEach_cons {α : Type} (x : α) (xs : List α) (f : α → Flow) :
    forEach (x :: xs) f = Flow.seq (f x) (forEach xs f) := rfl

/-- a guard statement `if c { return Err(m) }` followed by `rest` -/
@[simp] theorem Flow.run_seq_guard (c : Prop) [Decidable c] (m : String) (rest : Flow) :
    (Flow.seq (if c then Flow.ret (Res.err m) else Flow.cont) rest).run = Res.ok ↔ ¬ c ∧ rest.run = Res.ok := by
  by_cases h : c <;> simp [h]

/-- the same guard after `simp` has flipped a negated condition -/
@[simp] theorem Flow.run_seq_guard' (c : Prop) [Decidable c] (m : String) (rest : Flow) :
    (Flow.seq (if c then Flow.cont else Flow.ret (Res.err m)) rest).run = Res.ok ↔ c ∧ rest.run = Res.ok := by
  by_cases h : c <;> simp [h]

/-- an early `if c { return Ok(()) }` followed by `rest` -/
@[simp] theorem Flow.run_seq_retok (c : Prop) [Decidable c] (rest : Flow) :
    (Flow.seq (if c then Flow.ret Res.ok else Flow.cont) rest).run = Res.ok ↔ c ∨ rest.run = Res.ok := by
  by_cases h : c <;> simp [h]

/-- `if let Some(x) = o { if c x { return Err(m) } }` followed by `rest` -/
@[simp] theorem Flow.run_seq_optguard {α : Type} (o : Option α) (c : α → Prop) [∀ a, Decidable (c a)]
    (m : String) (rest : Flow) :
    (Flow.seq (match o with
        | some x => if c x then Flow.ret (Res.err m) else Flow.cont
        | none => Flow.cont) rest).run = Res.ok ↔ (∀ x, o = some x → ¬ c x) ∧ rest.run = Res.ok := by
  cases o <;> simp

theorem Flow.run_seq_ofRes (r : Res) (rest : Flow) :
    (Flow.seq (Flow.ofRes r) rest).run = Res.ok ↔ r = Res.ok ∧ rest.run = Res.ok := by
  cases r <;> simp

end ZeepVerif.Runtime
