/- Derivation by extension in closed form, for a base that has been read before (declared earlier in the file, or
   handed down by the importer): the derived type's fields are the base's fields, then its own elements, then its
   own attributes. -/
import ZeepVerif.Lemmas.ReadComp

namespace ZeepVerif.Lemmas.ReadExt
open ZeepVerif ZeepVerif.Model ZeepVerif.Lemmas.ReadField ZeepVerif.Lemmas.ReadFile ZeepVerif.Lemmas.ReadComp

/-- a loop in the node monad whose steps succeed without touching the document -/
theorem forIn_pure_nm {α β : Type} (d : Doc) (g : β → α → β) (body : α → β → NM (ForInStep β)) :
    (l : List α) → (init : β) → (∀ x ∈ l, ∀ s, runNM (body x s) d = (.ok (ForInStep.yield (g s x)), d)) →
    runNM (forIn l init body) d = (.ok (l.foldl g init), d)
  | [], init, _ => by simp [runNM_pure]
  | x :: rest, init, h => by
    rw [List.forIn_cons, runNM_bind, h x List.mem_cons_self init]
    simp only
    rw [forIn_pure_nm d g body rest (g init x) (fun y hy => h y (List.mem_cons_of_mem _ hy))]
    rfl

theorem findNode_read (ctx : Ctx) (xn : String) (ns : Option Ns) (k : Kind) (fuel : Nat) (d : Doc) (n : RNode)
    (h : lookupRead d xn ns k = some n) :
    runNM (findNodeByXmlName ctx xn ns k (fuel + 1)) d = (.ok (some n), d) := by
  simp only [findNodeByXmlName]
  rw [runNM_bind, runNM_getDoc]
  simp only [h]
  rfl

def isExtension (n : XNode) : Bool := n.isElem && n.tag == "extension"

def baseFieldsOf (bn : RNode) : List Field :=
  match bn.rtype with
  | .complex p => p.fields
  | _ => []

/-- the fields of a derived type: those of the base (as read before), then — once per `sequence` child of the
    `extension`, as the code does — the member sites of the extension, then its attributes -/
def extFields (d : Doc) (anc : List XNode) (cc ext : XNode) (bn : RNode) : List Field :=
  let f1 := ext.elemKids.foldl (fun s n =>
    if n.tag == "sequence" then s ++ (memberSites ext (cc :: anc)).map (fun st => plainField d st.1 st.2) else s) (baseFieldsOf bn)
  ext.elemKids.foldl (fun s n => if n.tag == "attribute" then s ++ [plainField d n (ext :: cc :: anc)] else s) f1

/-- a `complexContent` the lemma covers: an `extension` of a base that has been read, whose member sites and
    attributes are plain declarations -/
def PlainExt (d : Doc) (anc : List XNode) (cc ext : XNode) (bn : RNode) : Prop :=
  cc.kids.find? isExtension = some ext ∧
  (∃ baseName, ext.attr? "base" = some baseName ∧
    lookupRead d (resolveType d baseName).1 (resolveType d baseName).2 .type = some bn) ∧
  (∀ st ∈ memberSites ext (cc :: anc), PlainDecl st.1) ∧
  (∀ a ∈ ext.elemKids, a.tag = "attribute" → PlainDecl a)

theorem importExtension_plain (cc : XNode) (ctx : Ctx) (fuel : Nat) (d : Doc) (ext : XNode) (bn : RNode)
    (h : PlainExt d ctx.ancestors cc ext bn) :
    runNM (importExtension cc ctx (fuel + 3)) d = (.ok (extFields d ctx.ancestors cc ext bn), d) := by
  obtain ⟨hfind, ⟨baseName, hbase, hlook⟩, hsites, hattrs⟩ := h
  have hfind' : List.find? (fun n => n.isElem && n.tag == "extension") cc.kids = some ext := hfind
  simp only [importExtension, hfind', hbase, liftOpt]
  rw [runNM_bind, runNM_pure]
  simp only
  rw [runNM_bind, runNM_getDoc]
  simp only
  rw [runNM_bind, findNode_read ctx _ _ .type (fuel + 1) d bn hlook]
  simp only
  rw [runNM_bind, runNM_pure]
  simp only
  rw [runNM_bind]
  rw [forIn_pure_nm d (fun s n =>
    if n.tag == "sequence" then s ++ (memberSites ext (cc :: ctx.ancestors)).map (fun st => plainField d st.1 st.2) else s)]
  · simp only
    rw [runNM_bind]
    rw [forIn_pure_nm d (fun s n => if n.tag == "attribute" then s ++ [plainField d n (ext :: cc :: ctx.ancestors)] else s)]
    · rfl
    · intro x hx s
      by_cases ha : (x.tag == "attribute") = true
      · simp only [ha, if_true]
        rw [runNM_bind, fieldFromNode_plain x _ (fuel + 1) d (hattrs x hx (by simpa using ha))]
        rfl
      · simp only [ha, Bool.false_eq_true, if_false]
        rfl
  · intro x hx s
    by_cases hs : (x.tag == "sequence") = true
    · simp only [hs, if_true]
      rw [runNM_bind, importSequence_plain ext { ancestors := cc :: ctx.ancestors, allElems := ctx.allElems } s fuel d hsites]
      rfl
    · simp only [hs, Bool.false_eq_true, if_false]
      rfl


/-! ### a complex type with or without `complexContent` -/

def ccFields (d : Doc) (anc : List XNode) (cc : XNode) : Option (List Field) :=
  match cc.kids.find? isExtension with
  | none => none
  | some ext =>
    match ext.attr? "base" with
    | none => none
    | some baseName =>
      match lookupRead d (resolveType d baseName).1 (resolveType d baseName).2 .type with
      | none => none
      | some bn => some (extFields d anc cc ext bn)

def complexStepX (d : Doc) (name : String) (anc : List XNode) (r : CProps) (n : XNode) : CProps :=
  if n.tag == "complexContent" then
    match ccFields d anc n with
    | some fs => { xmlName := name, fields := fs, tns := d.current, comment := parseComment n }
    | none => r
  else complexStep d name anc r n

/-- a child of a `complexType` the extended lemma covers -/
def PlainChildX (d : Doc) (anc : List XNode) (k : XNode) : Prop :=
  (k.tag = "complexContent" → (∃ ext bn, PlainExt d anc k ext bn) ∧ ∀ c ∈ k.elemKids, c.tag ≠ "sequence") ∧
  (k.tag ≠ "complexContent" → PlainChild anc k)

theorem forIn_complexX (node : XNode) (ctx : Ctx) (name : String) (fuel : Nat) (d : Doc) :
    (kids : List XNode) → (r : CProps) → (∀ k ∈ kids, PlainChildX d (node :: ctx.ancestors) k) →
    runNM (forIn kids r fun n __s =>
              if (n.tag == "complexContent") = true then do
                let fields ← importExtension n { ancestors := node :: ctx.ancestors, allElems := ctx.allElems } (fuel + 3)
                let __s ←
                  forIn n.elemKids fields fun k __s =>
                      if (k.tag == "sequence") = true then do
                        let fields ←
                          importSequence n { ancestors := node :: ctx.ancestors, allElems := ctx.allElems } __s (fuel + 3)
                        pure (ForInStep.yield fields)
                      else pure (ForInStep.yield __s)
                let d ← getDoc
                if (n.tag == "sequence") = true then do
                    let fields ←
                      importSequence n { ancestors := node :: ctx.ancestors, allElems := ctx.allElems } [] (fuel + 3)
                    let d ← getDoc
                    if (n.tag == "attribute") = true then do
                        let f ← fieldFromNode n { ancestors := node :: ctx.ancestors, allElems := ctx.allElems } (fuel + 3)
                        pure
                            (ForInStep.yield
                              { xmlName := name, fields := fields ++ [f], tns := d.current, comment := parseComment n })
                      else
                        pure
                          (ForInStep.yield
                            { xmlName := name, fields := fields, tns := d.current, comment := parseComment n })
                  else
                    if (n.tag == "attribute") = true then do
                      let f ← fieldFromNode n { ancestors := node :: ctx.ancestors, allElems := ctx.allElems } (fuel + 3)
                      pure
                          (ForInStep.yield
                            { xmlName := name, fields := __s ++ [f], tns := d.current, comment := parseComment n })
                    else
                      pure
                        (ForInStep.yield
                          { xmlName := name, fields := __s, tns := d.current, comment := parseComment n })
              else
                if (n.tag == "sequence") = true then do
                  let fields ← importSequence n { ancestors := node :: ctx.ancestors, allElems := ctx.allElems } [] (fuel + 3)
                  let d ← getDoc
                  if (n.tag == "attribute") = true then do
                      let f ← fieldFromNode n { ancestors := node :: ctx.ancestors, allElems := ctx.allElems } (fuel + 3)
                      pure
                          (ForInStep.yield
                            { xmlName := name, fields := fields ++ [f], tns := d.current, comment := parseComment n })
                    else
                      pure
                        (ForInStep.yield
                          { xmlName := name, fields := fields, tns := d.current, comment := parseComment n })
                else
                  if (n.tag == "attribute") = true then do
                    let f ← fieldFromNode n { ancestors := node :: ctx.ancestors, allElems := ctx.allElems } (fuel + 3)
                    pure
                        (ForInStep.yield
                          { xmlName := __s.xmlName, fields := __s.fields ++ [f], tns := __s.tns,
                            comment := __s.comment })
                  else pure (ForInStep.yield __s)) d =
      (.ok (kids.foldl (complexStepX d name (node :: ctx.ancestors)) r), d)
  | [], r, _ => by simp [runNM_pure]
  | k :: rest, r, h => by
    obtain ⟨hccx, hplain⟩ := h k List.mem_cons_self
    rw [List.forIn_cons, runNM_bind]
    by_cases hcc : k.tag = "complexContent"
    · have hcc' : (k.tag == "complexContent") = true := by simpa using hcc
      obtain ⟨⟨ext, bn, hext⟩, hnoseq⟩ := hccx hcc
      have hs' : (k.tag == "sequence") = false := by rw [hcc]; decide
      have ha' : (k.tag == "attribute") = false := by rw [hcc]; decide
      simp only [hcc', if_true, hs', ha', Bool.false_eq_true, if_false]
      rw [runNM_bind, importExtension_plain k { ancestors := node :: ctx.ancestors, allElems := ctx.allElems } fuel d ext bn hext]
      simp only
      rw [runNM_bind]
      rw [forIn_pure_nm d (fun s _ => s)]
      · simp only
        rw [runNM_bind, runNM_getDoc]
        simp only [runNM_pure]
        rw [forIn_complexX node ctx name fuel d rest _ (fun x hx => h x (List.mem_cons_of_mem _ hx))]
        have hf : ccFields d (node :: ctx.ancestors) k = some (extFields d (node :: ctx.ancestors) k ext bn) := by
          obtain ⟨h1, ⟨bnm, h2, h3⟩, _, _⟩ := hext
          simp [ccFields, h1, h2, h3]
        have hfold : ∀ (l : List XNode) (s : List Field), l.foldl (fun s _ => s) s = s := by
          intro l; induction l with
          | nil => intro s; rfl
          | cons x xs ih => intro s; exact ih s
        simp [complexStepX, hcc', hf, hfold]
      · intro x hx s
        have : (x.tag == "sequence") = false := by simpa using hnoseq x hx
        simp only [this, Bool.false_eq_true, if_false]
        rfl
    · have hcc' : (k.tag == "complexContent") = false := by simpa using hcc
      obtain ⟨_, hseq, hattr⟩ := hplain hcc
      simp only [hcc', Bool.false_eq_true, if_false]
      by_cases hs : k.tag = "sequence"
      · have hs' : (k.tag == "sequence") = true := by simpa using hs
        have hna : (k.tag == "attribute") = false := by rw [hs]; decide
        simp only [hs', if_true, hna, Bool.false_eq_true, if_false]
        rw [runNM_bind, importSequence_plain k { ancestors := node :: ctx.ancestors, allElems := ctx.allElems } [] (fuel + 1) d (hseq hs)]
        simp only [List.nil_append, runNM_bind, runNM_getDoc, runNM_pure]
        rw [forIn_complexX node ctx name fuel d rest _ (fun x hx => h x (List.mem_cons_of_mem _ hx))]
        simp [complexStepX, complexStep, hcc', hs']
      · have hs' : (k.tag == "sequence") = false := by simpa using hs
        simp only [hs', Bool.false_eq_true, if_false]
        by_cases ha : k.tag = "attribute"
        · have ha' : (k.tag == "attribute") = true := by simpa using ha
          simp only [ha', if_true]
          rw [runNM_bind, fieldFromNode_plain k { ancestors := node :: ctx.ancestors, allElems := ctx.allElems } (fuel + 2) d (hattr ha)]
          simp only [runNM_pure]
          rw [forIn_complexX node ctx name fuel d rest _ (fun x hx => h x (List.mem_cons_of_mem _ hx))]
          simp [complexStepX, complexStep, hcc', hs', ha']
        · have ha' : (k.tag == "attribute") = false := by simpa using ha
          simp only [ha', Bool.false_eq_true, if_false, runNM_pure]
          rw [forIn_complexX node ctx name fuel d rest _ (fun x hx => h x (List.mem_cons_of_mem _ hx))]
          simp [complexStepX, complexStep, hcc', hs', ha']

/-- **a complex type, derived or not**: the fold of `complexStepX` — for a derived type: the base's fields (as
    read before), then the extension's own elements, then its attributes (C08) -/
theorem complexFromNode_X (node : XNode) (ctx : Ctx) (fuel : Nat) (d : Doc) (name : String)
    (hname : node.attr? "name" = some name ∨
      (node.attr? "name" = none ∧ (ctx.ancestors.head?.bind fun x => x.attr? "name") = some name))
    (hc : d.collectNamespaces node.nss = d)
    (h : ∀ k ∈ node.elemKids, PlainChildX d (node :: ctx.ancestors) k) :
    runNM (complexFromNode node ctx (fuel + 4)) d =
      (.ok (node.elemKids.foldl (complexStepX d name (node :: ctx.ancestors))
          { xmlName := name, fields := [], tns := d.current, comment := parseComment node }), d) := by
  simp only [complexFromNode, collectNamespacesOnNode]
  rw [runNM_bind, runNM_modifyDoc, hc]
  have hgoal : ∀ (x : Option String), x = some name → (liftOpt x Err.attributeMissing : NM String) = pure name := by
    intro x hx; subst hx; rfl
  simp only
  rw [runNM_bind]
  rw [hgoal _ (by
    rcases hname with h1 | ⟨h1, h2⟩
    · simp [h1]
    · simp [h1, h2])]
  rw [runNM_pure]
  simp only
  rw [runNM_bind, runNM_getDoc]
  simp only
  rw [runNM_bind, forIn_complexX node ctx name fuel d node.elemKids _ h]
  simp [runNM_pure]


/-! ### components, derived types included -/

def complexOfX (d : Doc) (node : XNode) (anc : List XNode) (name : String) : CProps :=
  node.elemKids.foldl (complexStepX d name (node :: anc))
    { xmlName := name, fields := [], tns := d.current, comment := parseComment node }

/-- the node a covered component contributes, in document state `d` -/
def compOfX (d : Doc) (anc : List XNode) (k : XNode) : Option RNode :=
  if k.tag == "complexType" then
    (k.attr? "name").map fun name => { rtype := .complex (complexOfX d k anc name), inNs := d.current }
  else if k.tag == "simpleType" then
    match k.attr? "name", k.kids.find? isRestriction with
    | some name, some r =>
      (r.attr? "base").map fun base =>
        { rtype := .simple { xmlName := name, rustType := asRustType d base, tns := d.current,
                             restrictions := some (buildRestrictions r), comment := parseComment k },
          inNs := d.current }
    | _, _ => none
  else if k.tag == "element" then
    match k.attr? "name" with
    | none => none
    | some name =>
      match k.attr? "type" with
      | some t => some { rtype := .element { xmlName := name, etype := .rustType (asRustType d t) }, inNs := d.current }
      | none =>
        match k.elemKids.find? (fun n => n.tag == "complexType") with
        | some ct => some { rtype := .element { xmlName := name, etype := .complex (complexOfX d ct (k :: anc) name) }, inNs := d.current }
        | none => some { rtype := .element { xmlName := name, etype := .unsupported }, inNs := d.current }
  else none

/-- a component the closed form covers -/
def CoveredX (d : Doc) (anc : List XNode) (k : XNode) : Prop :=
  k.isElem = true ∧ k.attr? "targetNamespace" = none ∧ (∀ pu ∈ k.nss, Absorbed d pu) ∧ (compOfX d anc k).isSome = true ∧
  (k.tag = "complexType" → ∀ c ∈ k.elemKids, PlainChildX d (k :: anc) c) ∧
  (k.tag = "element" → k.attr? "type" = none → ∀ ct, k.elemKids.find? (fun n => n.tag == "complexType") = some ct →
    ct.attr? "name" = none ∧ (∀ pu ∈ ct.nss, Absorbed d pu) ∧ ∀ c ∈ ct.elemKids, PlainChildX d (ct :: k :: anc) c)

theorem tryFromNode_coveredX (k : XNode) (ctx : Ctx) (fuel : Nat) (d : Doc) (n : RNode)
    (h : CoveredX d ctx.ancestors k) (hn : compOfX d ctx.ancestors k = some n) :
    runNM (tryFromNode k ctx (fuel + 6)) d = (.ok n, d) := by
  obtain ⟨he, htns, habs, _, hct, hel⟩ := h
  have hc : d.collectNamespaces k.nss = d := collectNamespaces_again d k.nss habs
  by_cases h1 : k.tag = "complexType"
  · -- complex type
    simp only [compOfX, h1, beq_self_eq_true, if_true] at hn
    cases hname : k.attr? "name" with
    | none => simp [hname] at hn
    | some name =>
      simp only [hname, Option.map_some, Option.some.injEq] at hn
      subst hn
      simp only [tryFromNode, he, htns, h1, collectNamespacesOnNode, Bool.not_true, Bool.false_eq_true, if_false]
      rw [runNM_bind, runNM_modifyDoc, hc]
      simp only
      rw [runNM_bind]
      have hmap : runNM (RType.complex <$> complexFromNode k ctx (fuel + 5)) d =
          (.ok (RType.complex (complexOfX d k ctx.ancestors name)), d) := by
        show runNM (complexFromNode k ctx (fuel + 5) >>= fun a => pure (RType.complex a)) d = _
        rw [runNM_bind, show fuel + 5 = (fuel + 1) + 4 from rfl, complexFromNode_X k ctx (fuel + 1) d name (Or.inl hname) hc (hct h1)]
        rfl
      rw [hmap]
      simp only
      rw [runNM_bind, runNM_getDoc]
      rfl
  · have h1' : (k.tag == "complexType") = false := by simpa using h1
    by_cases h2 : k.tag = "simpleType"
    · have e1 : ("simpleType" == "complexType") = false := by decide
      simp only [compOfX, h2, e1, beq_self_eq_true, if_true, Bool.false_eq_true, if_false] at hn
      cases hname : k.attr? "name" with
      | none => simp [hname] at hn
      | some name =>
        cases hr : k.kids.find? isRestriction with
        | none => simp [hname, hr] at hn
        | some r =>
          cases hb : r.attr? "base" with
          | none => simp [hname, hr, hb] at hn
          | some base =>
            simp only [hname, hr, hb, Option.map_some, Option.some.injEq] at hn
            subst hn
            simp only [tryFromNode, he, htns, h2, collectNamespacesOnNode, Bool.not_true, Bool.false_eq_true, if_false]
            rw [runNM_bind, runNM_modifyDoc, hc]
            simp only
            rw [runNM_bind]
            have hs : runNM (RType.simple <$> simpleFromNode k) d =
                (.ok (RType.simple ({ xmlName := name, rustType := asRustType d base, tns := d.current, restrictions := some (buildRestrictions r), comment := parseComment k } : SProps)), d) := by
              show runNM (simpleFromNode k >>= fun a => pure (RType.simple a)) d = _
              rw [runNM_bind]
              have hr' : List.find? (fun k => k.isElem && k.tag == "restriction") k.kids = some r := hr
              simp only [simpleFromNode, collectNamespacesOnNode, hname, hr', hb, liftOpt]
              rw [runNM_bind, runNM_modifyDoc, hc]
              simp only
              rw [runNM_bind, runNM_pure]
              simp only
              rw [runNM_bind, runNM_getDoc]
              simp only
              rw [runNM_bind, runNM_pure]
              rfl
            rw [hs]
            simp only
            rw [runNM_bind, runNM_getDoc]
            rfl
    · have h2' : (k.tag == "simpleType") = false := by simpa using h2
      by_cases h3 : k.tag = "element"
      · have e1 : ("element" == "complexType") = false := by decide
        have e2 : ("element" == "simpleType") = false := by decide
        simp only [compOfX, h3, e1, e2, beq_self_eq_true, if_true, Bool.false_eq_true, if_false] at hn
        cases hname : k.attr? "name" with
        | none => simp [hname] at hn
        | some name =>
          simp only [hname] at hn
          simp only [tryFromNode, he, htns, h3, collectNamespacesOnNode, Bool.not_true, Bool.false_eq_true, if_false]
          rw [runNM_bind, runNM_modifyDoc, hc]
          simp only
          rw [runNM_bind]
          have hs : ∃ ep, runNM (RType.element <$> elementFromNode k ctx (fuel + 5)) d = (.ok (RType.element ep), d) ∧
              n = { rtype := .element ep, inNs := d.current } := by
            cases ht : k.attr? "type" with
            | some t =>
              simp only [ht, Option.some.injEq] at hn
              refine ⟨_, ?_, hn.symm⟩
              show runNM (elementFromNode k ctx (fuel + 5) >>= fun a => pure (RType.element a)) d = _
              rw [runNM_bind]
              simp only [elementFromNode, collectNamespacesOnNode, hname, ht, liftOpt]
              rw [runNM_bind, runNM_modifyDoc, hc]
              simp only
              rw [runNM_bind, runNM_pure]
              simp only
              rw [runNM_bind, runNM_getDoc]
              simp only
              rw [runNM_pure]
              rfl
            | none =>
              simp only [ht] at hn
              cases hf : k.elemKids.find? (fun n => n.tag == "complexType") with
              | none =>
                simp only [hf, Option.some.injEq] at hn
                refine ⟨_, ?_, hn.symm⟩
                show runNM (elementFromNode k ctx (fuel + 5) >>= fun a => pure (RType.element a)) d = _
                rw [runNM_bind]
                simp only [elementFromNode, collectNamespacesOnNode, hname, ht, hf, liftOpt]
                rw [runNM_bind, runNM_modifyDoc, hc]
                simp only
                rw [runNM_bind, runNM_pure]
                simp only
                rw [runNM_bind, runNM_getDoc]
                simp only
                rw [runNM_pure]
                rfl
              | some ct =>
                simp only [hf, Option.some.injEq] at hn
                obtain ⟨hctn, hctabs, hctk⟩ := hel h3 ht ct hf
                have hcc : d.collectNamespaces ct.nss = d := collectNamespaces_again d ct.nss hctabs
                refine ⟨_, ?_, hn.symm⟩
                show runNM (elementFromNode k ctx (fuel + 5) >>= fun a => pure (RType.element a)) d = _
                rw [runNM_bind]
                simp only [elementFromNode, collectNamespacesOnNode, hname, ht, hf, liftOpt]
                rw [runNM_bind, runNM_modifyDoc, hc]
                simp only
                rw [runNM_bind, runNM_pure]
                simp only
                rw [runNM_bind, runNM_getDoc]
                simp only
                rw [runNM_bind]
                have := complexFromNode_X ct { ancestors := k :: ctx.ancestors, allElems := ctx.allElems } fuel d name
                  (Or.inr ⟨hctn, by simp [hname]⟩) hcc hctk
                rw [this]
                simp only
                rw [runNM_pure]
                rfl
          obtain ⟨ep, hrun, hn'⟩ := hs
          rw [hrun]
          simp only
          rw [runNM_bind, runNM_getDoc]
          subst hn'
          rfl
      · have h3' : (k.tag == "element") = false := by simpa using h3
        simp [compOfX, h1', h2', h3'] at hn



/-! ### the children of `schema`, with the nodes read so far threaded through -/

def nodeOfX (d : Doc) (anc : List XNode) (k : XNode) : Option RNode :=
  if k.isElem then compOfX d anc k else none

/-- the nodes after reading `kids`, starting with `acc` already read: each component is read in the document
    that holds the earlier ones (a derived type finds its base there) -/
def nodesFrom (d : Doc) (anc : List XNode) : List XNode → List RNode → List RNode
  | [], acc => acc
  | k :: rest, acc => nodesFrom d anc rest (acc ++ (nodeOfX { d with nodes := acc } anc k).toList)

def CovX (d : Doc) (anc : List XNode) : List XNode → List RNode → Prop
  | [], _ => True
  | k :: rest, acc =>
    (k = .other ∨ CoveredX { d with nodes := acc } anc k) ∧ k.tag ≠ "import" ∧
    CovX d anc rest (acc ++ (nodeOfX { d with nodes := acc } anc k).toList)

theorem xsdStep_X (ctx : Ctx) (d : Doc) (acc : List RNode) (k : XNode)
    (hk : k = .other ∨ CoveredX { d with nodes := acc } ctx.ancestors k) :
    xsdStep ctx { d with nodes := acc } k = { d with nodes := acc ++ (nodeOfX { d with nodes := acc } ctx.ancestors k).toList } ∧
      (runNM (tryFromNode k ctx nodeFuel) { d with nodes := acc }).1 ≠ .error .outOfFuel := by
  rcases hk with rfl | hk
  · constructor
    · unfold xsdStep
      rw [show nodeFuel = 99999 + 1 from rfl, tryFromNode_other]
      simp [nodeOfX, XNode.isElem]
    · rw [show nodeFuel = 99999 + 1 from rfl, tryFromNode_other]
      intro h; cases h
  · cases hn : compOfX { d with nodes := acc } ctx.ancestors k with
    | none => have := hk.2.2.2.1; simp [hn] at this
    | some n =>
      have hrun := tryFromNode_coveredX k ctx 99994 { d with nodes := acc } n hk hn
      constructor
      · unfold xsdStep
        rw [show nodeFuel = 99994 + 6 from rfl, hrun]
        simp [nodeOfX, hk.1, hn]
      · rw [show nodeFuel = 99994 + 6 from rfl, hrun]
        intro h; cases h

theorem fold_X (ctx : Ctx) (d : Doc) : (kids : List XNode) → (acc : List RNode) → CovX d ctx.ancestors kids acc →
    kids.foldl (xsdStep ctx) { d with nodes := acc } = { d with nodes := nodesFrom d ctx.ancestors kids acc }
  | [], acc, _ => rfl
  | k :: rest, acc, h => by
    obtain ⟨h1, _, h3⟩ := h
    rw [List.foldl_cons, (xsdStep_X ctx d acc k h1).1, fold_X ctx d rest _ h3]
    rfl

/-- a loop in the file monad, with an invariant that may depend on what is still to come -/
theorem forIn_steps_dep {α β : Type} (I : List α → β → Prop) (g : β → α → β) (body : α → β → FM (ForInStep β)) :
    (l : List α) → (init : β) → (st : RS) → I l init →
    (∀ x rest b st, I (x :: rest) b → (body x b).run st = .ok (ForInStep.yield (g b x), st) ∧ I rest (g b x)) →
    (forIn l init body).run st = .ok (l.foldl g init, st)
  | [], init, st, _, _ => rfl
  | x :: rest, init, st, hI, h => by
    rw [List.forIn_cons]
    show (body x init >>= _).run st = _
    simp only [StateT.run_bind]
    obtain ⟨h1, h2⟩ := h x rest init st hI
    rw [h1]
    show (forIn rest (g init x) body).run st = _
    rw [forIn_steps_dep I g body rest (g init x) st h2 h]
    rfl

theorem readXsd_X (files : String → Option XFile) (file : XFile) (allElems : List (XNode × List XNode))
    (schema : XNode) (anc : List XNode) (d : Doc) (fuel : Nat) (st : RS)
    (h : CovX d (schema :: anc) schema.kids d.nodes) :
    (readXsd files file allElems schema anc d (fuel + 1)).run st =
      .ok ({ d with nodes := nodesFrom d (schema :: anc) schema.kids d.nodes }, st) := by
  have hfold := fold_X { ancestors := schema :: anc, allElems := allElems } d schema.kids d.nodes h
  simp only [readXsd]
  rw [StateT.run_bind]
  rw [forIn_steps_dep (fun rem b => ∃ acc, b = { d with nodes := acc } ∧ CovX d (schema :: anc) rem acc)
    (xsdStep { ancestors := schema :: anc, allElems := allElems }) _ schema.kids d st ⟨d.nodes, rfl, h⟩]
  · show (pure _ : FM Doc).run st = _
    rw [show d = { d with nodes := d.nodes } from rfl, hfold]
    rfl
  · intro x rest b st' ⟨acc, hb, hcov⟩
    subst hb
    obtain ⟨hk, hni, hrest⟩ := hcov
    obtain ⟨hstep, hnf⟩ := xsdStep_X { ancestors := schema :: anc, allElems := allElems } d acc x hk
    have h1 : (x.tag == "import") = false := by simpa using hni
    refine ⟨?_, ⟨_, hstep, hrest⟩⟩
    simp only [h1, Bool.false_eq_true, if_false]
    unfold xsdStep
    cases hr : runNM (tryFromNode x { ancestors := schema :: anc, allElems := allElems } nodeFuel) { d with nodes := acc } with
    | mk r d' =>
      rw [hr] at hnf
      cases r with
      | ok n => rfl
      | error e =>
        have he : (e == Err.outOfFuel) = false := by
          cases e <;> first | rfl | (exfalso; exact hnf rfl)
        simp only [he]
        rfl

structure CoveredFileX (xf : XFile) (schema : XNode) (tns : String) : Prop where
  tops : xf.tops = some [schema]
  isElem : schema.isElem = true
  tag : schema.tag = "schema"
  tnsAttr : schema.attr? "targetNamespace" = some tns
  kids : CovX (fileDoc schema tns) [schema] schema.kids (fileDoc schema tns).nodes

/-- **`read_xml` on a schema file, derivation included**: complex types — plain or derived by extension from a
    type declared earlier in the file —, simple types by restriction, typed global elements, global elements with an
    anonymous complex type (plain or derived): one node per component, each read in the document that holds the
    earlier ones -/
theorem readXml_covered_fileX (xf : XFile) (schema : XNode) (tns : String) (h : CoveredFileX xf schema tns) :
    readXml [xf] xf.name =
      .ok { fileDoc schema tns with
            nodes := nodesFrom (fileDoc schema tns) [schema] schema.kids (fileDoc schema tns).nodes } := by
  have hfile : fileTable [xf] xf.name = some xf := by simp [fileTable]
  unfold readXml readXmlOn
  simp only
  have hrun : (readXmlInternal (fileTable [xf]) xf.name [] [] 10000).run { processed := [] } =
      .ok ({ fileDoc schema tns with
            nodes := nodesFrom (fileDoc schema tns) [schema] schema.kids (fileDoc schema tns).nodes },
           { processed := [xf.name] }) := by
    rw [show (10000 : Nat) = 9999 + 1 from rfl]
    simp only [readXmlInternal, hfile, h.tops]
    simp only [List.find?, h.isElem]
    have hrt : ∀ st : RS, (readTop (fileTable [xf]) xf (allElemsOf [schema] []) schema (({} : Doc).collectNamespaces schema.nss) 9999).run st =
        .ok ({ fileDoc schema tns with
            nodes := nodesFrom (fileDoc schema tns) [schema] schema.kids (fileDoc schema tns).nodes }, st) := by
      intro st
      rw [show (9999 : Nat) = 9998 + 1 from rfl, readTop_schema _ _ _ _ _ _ _ tns h.isElem h.tag h.tnsAttr]
      rw [show (9998 : Nat) = 9997 + 1 from rfl]
      exact readXsd_X _ _ _ schema [] (fileDoc schema tns) 9997 st h.kids
    simp only [List.forIn_cons, List.forIn_nil]
    have hrt' : ∀ st : RS, readTop (fileTable [xf]) xf (allElemsOf [schema] []) schema (({} : Doc).collectNamespaces schema.nss) 9999 st = _ := hrt
    simp [StateT.bind, StateT.run, bind, Except.bind, pure, Except.pure, StateT.pure, get, getThe, MonadStateOf.get, StateT.get,
      modify, modifyGet, MonadStateOf.modifyGet, StateT.modifyGet, hrt']
  rw [hrun]

end ZeepVerif.Lemmas.ReadExt
