/- Per-construct lemmas about the reader model (`Model.Reader`): what it makes of a plain member declaration and of
   the content of a complex type, in any document state. Steps towards the refinement statement of DESIGN.md 3.3. -/
import ZeepVerif.Model.Reader
import ZeepVerif.Spec.ToX
import ZeepVerif.Lemmas.Flatten

namespace ZeepVerif.Lemmas.ReadField
open ZeepVerif ZeepVerif.Model ZeepVerif.Spec

/-! ### the monad -/

theorem runNM_pure {α : Type} (a : α) (d : Doc) : runNM (pure a : NM α) d = (.ok a, d) := rfl

theorem runNM_bind {α β : Type} (x : NM α) (k : α → NM β) (d : Doc) :
    runNM (x >>= k) d = (match runNM x d with
      | (.ok a, d') => runNM (k a) d'
      | (.error e, d') => (.error e, d')) := by
  simp only [runNM, bind, ExceptT.bind, ExceptT.mk, ExceptT.run, StateT.bind, StateT.run]
  cases h : x d with
  | mk r d' =>
    cases r with
    | ok a => simp [ExceptT.bindCont, h]
    | error e => simp [ExceptT.bindCont, h, pure, StateT.pure]

theorem runNM_getDoc (d : Doc) : runNM getDoc d = (.ok d, d) := rfl

theorem runNM_throw {α : Type} (e : Err) (d : Doc) : runNM (throw e : NM α) d = (.error e, d) := rfl


/-! ### a plain member declaration -/

/-- what the reader makes of a member declaration that has a name and (maybe) a type, in document `d` -/
def plainField (d : Doc) (node : XNode) (anc : List XNode) : Field :=
  let occ := occurrence node anc
  { xmlName := (node.attr? "name").getD "", rustName := asFieldName ((node.attr? "name").getD ""),
    rustType := (match node.attr? "type" with | some t => asRustType d t | none => .string),
    isOptional := occ.isOptional, isVec := occ.isVec, tns := d.current, isAttribute := occ.isAttribute,
    isChoice := occ.isChoice, isAny := false }

/-- a declaration the reader treats as plain: an element node, not `any`, named, not a reference, and not
    switching the target namespace -/
def PlainDecl (node : XNode) : Prop :=
  node.isElem = true ∧ node.tag ≠ "any" ∧ (node.attr? "name").isSome ∧ node.attr? "ref" = none ∧
  node.attr? "targetNamespace" = none

theorem fieldFromNode_plain (node : XNode) (ctx : Ctx) (fuel : Nat) (d : Doc) (h : PlainDecl node) :
    runNM (fieldFromNode node ctx (fuel + 1)) d = (.ok (plainField d node ctx.ancestors), d) := by
  obtain ⟨he, htag, hname, href, htns⟩ := h
  cases hn : node.attr? "name" with
  | none => simp [hn] at hname
  | some n =>
    have htag' : (node.tag == "any") = false := by simpa using htag
    simp only [fieldFromNode, he, htns, href, hn, htag']
    cases ht : node.attr? "type" <;>
    simp [runNM, getDoc, liftOpt, bind, ExceptT.bind, ExceptT.mk, ExceptT.bindCont, pure, ExceptT.pure, ExceptT.run,
      StateT.bind, StateT.pure, StateT.run, get, getThe, MonadStateOf.get, liftM, monadLift, MonadLift.monadLift,
      ExceptT.lift, StateT.get, StateT.map, Functor.map, plainField, hn, ht]

/-! ### the content of a type: every member site read in order -/

theorem forIn_fields (allElems : List (XNode × List XNode)) (fuel : Nat) (d : Doc)
    (F : (XNode × List XNode) → Field) :
    (sites : List (XNode × List XNode)) → (acc : List Field) →
    (∀ s ∈ sites, runNM (fieldFromNode s.1 { ancestors := s.2, allElems := allElems } fuel) d = (.ok (F s), d)) →
    runNM (forIn sites acc fun x s => do
        let f ← fieldFromNode x.fst { ancestors := x.snd, allElems := allElems } fuel
        pure (ForInStep.yield (s ++ [f]))) d = (.ok (acc ++ sites.map F), d)
  | [], acc, _ => by simp [runNM_pure]
  | s :: rest, acc, h => by
    rw [List.forIn_cons, runNM_bind, runNM_bind, h s List.mem_cons_self]
    simp only [runNM_pure]
    rw [forIn_fields allElems fuel d F rest (acc ++ [F s]) (fun x hx => h x (List.mem_cons_of_mem _ hx))]
    simp

/-- **the content of a complex type**: when every member site of `node` is a plain declaration, reading the
    content gives, in any document state and without changing it, one field per site, in document order -/
theorem importSequence_plain (node : XNode) (ctx : Ctx) (acc : List Field) (fuel : Nat) (d : Doc)
    (h : ∀ s ∈ memberSites node ctx.ancestors, PlainDecl s.1) :
    runNM (importSequence node ctx acc (fuel + 2)) d =
      (.ok (acc ++ (memberSites node ctx.ancestors).map (fun s => plainField d s.1 s.2)), d) := by
  simp only [importSequence]
  rw [runNM_bind]
  rw [forIn_fields ctx.allElems (fuel + 1) d (fun s => plainField d s.1 s.2) _ acc
    (fun s hs => fieldFromNode_plain s.1 { ancestors := s.2, allElems := ctx.allElems } fuel d (h s hs))]
  simp [runNM_pure]


/-! ### a complex type without `complexContent` -/

theorem runNM_modifyDoc (f : Doc → Doc) (d : Doc) : runNM (modifyDoc f) d = (.ok (), f d) := rfl

/-- what one child of the `complexType` node does to the result (children other than `sequence` and
    `attribute` — annotations, white space — do nothing) -/
def complexStep (d : Doc) (name : String) (anc : List XNode) (r : CProps) (n : XNode) : CProps :=
  if n.tag == "sequence" then
    { xmlName := name, fields := (memberSites n anc).map (fun s => plainField d s.1 s.2), tns := d.current,
      comment := parseComment n }
  else if n.tag == "attribute" then { r with fields := r.fields ++ [plainField d n anc] }
  else r

/-- a child the lemma covers: not `complexContent`; a `sequence` whose member sites are plain declarations;
    an `attribute` that is a plain declaration -/
def PlainChild (anc : List XNode) (k : XNode) : Prop :=
  k.tag ≠ "complexContent" ∧ (k.tag = "sequence" → ∀ s ∈ memberSites k anc, PlainDecl s.1) ∧
  (k.tag = "attribute" → PlainDecl k)

theorem forIn_complex (node : XNode) (ctx : Ctx) (name : String) (fuel : Nat) (d : Doc) :
    (kids : List XNode) → (r : CProps) → (∀ k ∈ kids, PlainChild (node :: ctx.ancestors) k) →
    runNM (forIn kids r fun n __s =>
              if (n.tag == "complexContent") = true then do
                let fields ← importExtension n { ancestors := node :: ctx.ancestors, allElems := ctx.allElems } (fuel + 2)
                let __s ←
                  forIn n.elemKids fields fun k __s =>
                      if (k.tag == "sequence") = true then do
                        let fields ←
                          importSequence n { ancestors := node :: ctx.ancestors, allElems := ctx.allElems } __s (fuel + 2)
                        pure (ForInStep.yield fields)
                      else pure (ForInStep.yield __s)
                let d ← getDoc
                if (n.tag == "sequence") = true then do
                    let fields ←
                      importSequence n { ancestors := node :: ctx.ancestors, allElems := ctx.allElems } [] (fuel + 2)
                    let d ← getDoc
                    if (n.tag == "attribute") = true then do
                        let f ← fieldFromNode n { ancestors := node :: ctx.ancestors, allElems := ctx.allElems } (fuel + 2)
                        pure
                            (ForInStep.yield
                              { xmlName := name, fields := fields ++ [f], tns := d.current, comment := parseComment n })
                      else
                        pure
                          (ForInStep.yield
                            { xmlName := name, fields := fields, tns := d.current, comment := parseComment n })
                  else
                    if (n.tag == "attribute") = true then do
                      let f ← fieldFromNode n { ancestors := node :: ctx.ancestors, allElems := ctx.allElems } (fuel + 2)
                      pure
                          (ForInStep.yield
                            { xmlName := name, fields := __s ++ [f], tns := d.current, comment := parseComment n })
                    else
                      pure
                        (ForInStep.yield
                          { xmlName := name, fields := __s, tns := d.current, comment := parseComment n })
              else
                if (n.tag == "sequence") = true then do
                  let fields ← importSequence n { ancestors := node :: ctx.ancestors, allElems := ctx.allElems } [] (fuel + 2)
                  let d ← getDoc
                  if (n.tag == "attribute") = true then do
                      let f ← fieldFromNode n { ancestors := node :: ctx.ancestors, allElems := ctx.allElems } (fuel + 2)
                      pure
                          (ForInStep.yield
                            { xmlName := name, fields := fields ++ [f], tns := d.current, comment := parseComment n })
                    else
                      pure
                        (ForInStep.yield
                          { xmlName := name, fields := fields, tns := d.current, comment := parseComment n })
                else
                  if (n.tag == "attribute") = true then do
                    let f ← fieldFromNode n { ancestors := node :: ctx.ancestors, allElems := ctx.allElems } (fuel + 2)
                    pure
                        (ForInStep.yield
                          { xmlName := __s.xmlName, fields := __s.fields ++ [f], tns := __s.tns,
                            comment := __s.comment })
                  else pure (ForInStep.yield __s)) d =
      (.ok (kids.foldl (complexStep d name (node :: ctx.ancestors)) r), d)
  | [], r, _ => by simp [runNM_pure]
  | k :: rest, r, h => by
    obtain ⟨hcc, hseq, hattr⟩ := h k List.mem_cons_self
    have hcc' : (k.tag == "complexContent") = false := by simpa using hcc
    rw [List.forIn_cons, runNM_bind]
    simp only [hcc', Bool.false_eq_true, if_false]
    by_cases hs : k.tag = "sequence"
    · have hs' : (k.tag == "sequence") = true := by simpa using hs
      have hna : (k.tag == "attribute") = false := by rw [hs]; decide
      simp only [hs', if_true, hna, Bool.false_eq_true, if_false]
      rw [runNM_bind, importSequence_plain k { ancestors := node :: ctx.ancestors, allElems := ctx.allElems } [] fuel d (hseq hs)]
      simp only [List.nil_append, runNM_bind, runNM_getDoc, runNM_pure]
      rw [forIn_complex node ctx name fuel d rest _ (fun x hx => h x (List.mem_cons_of_mem _ hx))]
      simp [complexStep, hs']
    · have hs' : (k.tag == "sequence") = false := by simpa using hs
      simp only [hs', Bool.false_eq_true, if_false]
      by_cases ha : k.tag = "attribute"
      · have ha' : (k.tag == "attribute") = true := by simpa using ha
        simp only [ha', if_true]
        rw [runNM_bind, fieldFromNode_plain k { ancestors := node :: ctx.ancestors, allElems := ctx.allElems } (fuel + 1) d (hattr ha)]
        simp only [runNM_pure]
        rw [forIn_complex node ctx name fuel d rest _ (fun x hx => h x (List.mem_cons_of_mem _ hx))]
        simp [complexStep, hs', ha']
      · have ha' : (k.tag == "attribute") = false := by simpa using ha
        simp only [ha', Bool.false_eq_true, if_false, runNM_pure]
        rw [forIn_complex node ctx name fuel d rest _ (fun x hx => h x (List.mem_cons_of_mem _ hx))]
        simp [complexStep, hs', ha']

/-- **a complex type (or anonymous type of an element) without derivation**: in any document state, the reader
    collects the node's namespace declarations and then returns the struct description obtained by folding
    `complexStep` over the element children — one field per member site of the `sequence`, then one per
    `attribute`, in document order -/
theorem complexFromNode_plain (node : XNode) (ctx : Ctx) (fuel : Nat) (d : Doc) (name : String)
    (hname : node.attr? "name" = some name ∨
      (node.attr? "name" = none ∧ (ctx.ancestors.head?.bind fun x => x.attr? "name") = some name))
    (h : ∀ k ∈ node.elemKids, PlainChild (node :: ctx.ancestors) k) :
    runNM (complexFromNode node ctx (fuel + 3)) d =
      (.ok (node.elemKids.foldl (complexStep (d.collectNamespaces node.nss) name (node :: ctx.ancestors))
          { xmlName := name, fields := [], tns := (d.collectNamespaces node.nss).current, comment := parseComment node }),
       d.collectNamespaces node.nss) := by
  simp only [complexFromNode, collectNamespacesOnNode]
  rw [runNM_bind, runNM_modifyDoc]
  have hgoal : ∀ (x : Option String), x = some name → (liftOpt x Err.attributeMissing : NM String) = pure name := by
    intro x hx; subst hx; rfl
  simp only
  rw [runNM_bind]
  rw [hgoal _ (by
    rcases hname with h1 | ⟨h1, h2⟩
    · simp [h1]
    · simp [h1, h2])]
  rw [runNM_pure]
  simp only
  rw [runNM_bind, runNM_getDoc]
  simp only
  rw [runNM_bind, forIn_complex node ctx name fuel _ node.elemKids _ h]
  simp [runNM_pure]

end ZeepVerif.Lemmas.ReadField
