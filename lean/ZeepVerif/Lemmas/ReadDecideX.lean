/- Decidable form of the hypotheses of `readXml_covered_fileX` (derivation included), and soundness. -/
import ZeepVerif.Lemmas.ReadExt
import ZeepVerif.Lemmas.ReadDecide

namespace ZeepVerif.Lemmas.ReadDecideX
open ZeepVerif ZeepVerif.Model ZeepVerif.Lemmas.ReadField ZeepVerif.Lemmas.ReadFile ZeepVerif.Lemmas.ReadComp
open ZeepVerif.Lemmas.ReadExt ZeepVerif.Lemmas.ReadDecide

def plainExtB (d : Doc) (anc : List XNode) (cc : XNode) : Bool :=
  match cc.kids.find? isExtension with
  | none => false
  | some ext =>
    match ext.attr? "base" with
    | none => false
    | some baseName =>
      (lookupRead d (resolveType d baseName).1 (resolveType d baseName).2 .type).isSome &&
      (memberSites ext (cc :: anc)).all (fun st => plainDeclB st.1) &&
      ext.elemKids.all (fun a => a.tag != "attribute" || plainDeclB a)

theorem plainExtB_sound (d : Doc) (anc : List XNode) (cc : XNode) (h : plainExtB d anc cc = true) :
    ∃ ext bn, PlainExt d anc cc ext bn := by
  unfold plainExtB at h
  cases hf : cc.kids.find? isExtension with
  | none => simp [hf] at h
  | some ext =>
    cases hb : ext.attr? "base" with
    | none => simp [hf, hb] at h
    | some baseName =>
      simp only [hf, hb, Bool.and_eq_true] at h
      obtain ⟨⟨h1, h2⟩, h3⟩ := h
      cases hl : lookupRead d (resolveType d baseName).1 (resolveType d baseName).2 .type with
      | none => simp [hl] at h1
      | some bn =>
        refine ⟨ext, bn, hf, ⟨baseName, hb, hl⟩, ?_, ?_⟩
        · intro st hst
          exact plainDeclB_sound _ ((List.all_eq_true.mp h2) st hst)
        · intro a ha hat
          have := (List.all_eq_true.mp h3) a ha
          simp only [Bool.or_eq_true, bne_iff_ne, ne_eq] at this
          rcases this with this | this
          · exact absurd hat this
          · exact plainDeclB_sound _ this

def plainChildXB (d : Doc) (anc : List XNode) (k : XNode) : Bool :=
  if k.tag == "complexContent" then plainExtB d anc k && k.elemKids.all (fun c => c.tag != "sequence")
  else plainChildB anc k

theorem plainChildXB_sound (d : Doc) (anc : List XNode) (k : XNode) (h : plainChildXB d anc k = true) :
    PlainChildX d anc k := by
  unfold plainChildXB at h
  constructor
  · intro hcc
    have hcc' : (k.tag == "complexContent") = true := by simpa using hcc
    simp only [hcc', if_true, Bool.and_eq_true] at h
    refine ⟨plainExtB_sound d anc k h.1, ?_⟩
    intro c hc
    have := (List.all_eq_true.mp h.2) c hc
    simpa using this
  · intro hcc
    have hcc' : (k.tag == "complexContent") = false := by simpa using hcc
    simp only [hcc', Bool.false_eq_true, if_false] at h
    exact plainChildB_sound anc k h

def coveredXB (schemaNss : List (Option String × String)) (d : Doc) (anc : List XNode) (k : XNode) : Bool :=
  (k.attr? "targetNamespace").isNone && k.nss.all (fun pu => schemaNss.contains pu) && (compOfX d anc k).isSome &&
  (k.tag != "complexType" || k.elemKids.all (plainChildXB d (k :: anc))) &&
  (k.tag != "element" || (k.attr? "type").isSome ||
    (match k.elemKids.find? (fun n => n.tag == "complexType") with
     | none => true
     | some ct => (ct.attr? "name").isNone && ct.nss.all (fun pu => schemaNss.contains pu) &&
         ct.elemKids.all (plainChildXB d (ct :: k :: anc))))

theorem coveredXB_sound (schemaNss : List (Option String × String)) (d : Doc) (anc : List XNode) (k : XNode)
    (habs : ∀ pu ∈ schemaNss, Absorbed d pu) (he : k.isElem = true) (h : coveredXB schemaNss d anc k = true) :
    CoveredX d anc k := by
  simp only [coveredXB, Bool.and_eq_true, Option.isNone_iff_eq_none] at h
  obtain ⟨⟨⟨⟨h1, h2⟩, h3⟩, h4⟩, h5⟩ := h
  have hab : ∀ (l : List (Option String × String)), l.all (fun pu => schemaNss.contains pu) = true → ∀ pu ∈ l, Absorbed d pu := by
    intro l hl pu hpu
    have := (List.all_eq_true.mp hl) pu hpu
    exact habs pu (by simpa using this)
  refine ⟨he, h1, hab _ h2, h3, ?_, ?_⟩
  · intro htg c hc
    simp only [Bool.or_eq_true, bne_iff_ne, ne_eq] at h4
    rcases h4 with h4 | h4
    · exact absurd htg h4
    · exact plainChildXB_sound _ _ c ((List.all_eq_true.mp h4) c hc)
  · intro htg hty ct hct
    simp only [Bool.or_eq_true, bne_iff_ne, ne_eq] at h5
    rcases h5 with (h5 | h5) | h5
    · exact absurd htg h5
    · simp [hty] at h5
    · rw [hct] at h5
      simp only [Bool.and_eq_true, Option.isNone_iff_eq_none] at h5
      obtain ⟨⟨g1, g2⟩, g3⟩ := h5
      exact ⟨g1, hab _ g2, fun c hc => plainChildXB_sound _ _ c ((List.all_eq_true.mp g3) c hc)⟩

def covXB (schemaNss : List (Option String × String)) (d : Doc) (anc : List XNode) : List XNode → List RNode → Bool
  | [], _ => true
  | k :: rest, acc =>
    (!k.isElem || coveredXB schemaNss { d with nodes := acc } anc k) && k.tag != "import" &&
    covXB schemaNss d anc rest (acc ++ (nodeOfX { d with nodes := acc } anc k).toList)

theorem covXB_sound (schemaNss : List (Option String × String)) (d : Doc) (anc : List XNode)
    (habs : ∀ pu ∈ schemaNss, Absorbed d pu) : (kids : List XNode) → (acc : List RNode) →
    covXB schemaNss d anc kids acc = true → CovX d anc kids acc
  | [], _, _ => trivial
  | k :: rest, acc, h => by
    simp only [covXB, Bool.and_eq_true, Bool.or_eq_true, bne_iff_ne, ne_eq] at h
    obtain ⟨⟨h1, h2⟩, h3⟩ := h
    refine ⟨?_, h2, covXB_sound schemaNss d anc habs rest _ h3⟩
    cases k with
    | other => exact Or.inl rfl
    | elem t a n tx ks =>
      right
      rcases h1 with h1 | h1
      · simp [XNode.isElem] at h1
      · exact coveredXB_sound schemaNss { d with nodes := acc } anc _ (fun pu hpu => habs pu hpu) rfl h1

/-- decidable form of `CoveredFileX` -/
def coveredFileXB (xf : XFile) : Bool :=
  match xf.tops with
  | some [schema] =>
    schema.isElem && schema.tag == "schema" &&
    (match schema.attr? "targetNamespace" with
     | some tns => covXB schema.nss (fileDoc schema tns) [schema] schema.kids (fileDoc schema tns).nodes
     | none => false)
  | _ => false

theorem coveredFileXB_sound (xf : XFile) (h : coveredFileXB xf = true) : ∃ schema tns, CoveredFileX xf schema tns := by
  unfold coveredFileXB at h
  match ht : xf.tops, h with
  | some [schema], h =>
    simp only [Bool.and_eq_true, beq_iff_eq] at h
    obtain ⟨⟨he, htag⟩, hk⟩ := h
    cases hq : schema.attr? "targetNamespace" with
    | none => simp [hq] at hk
    | some tns =>
      rw [hq] at hk
      refine ⟨schema, tns, ⟨ht, he, htag, hq, ?_⟩⟩
      apply covXB_sound schema.nss (fileDoc schema tns) [schema] _ schema.kids _ hk
      intro pu hpu
      exact switch_absorbed _ tns pu (collectNamespaces_absorbs {} schema.nss pu hpu)

/-- **the file-level theorem with derivation, in decidable form** -/
theorem readXml_of_coveredFileXB (xf : XFile) (h : coveredFileXB xf = true) :
    ∃ schema tns, xf.tops = some [schema] ∧ readXml [xf] xf.name =
      .ok { fileDoc schema tns with
            nodes := nodesFrom (fileDoc schema tns) [schema] schema.kids (fileDoc schema tns).nodes } := by
  obtain ⟨schema, tns, hp⟩ := coveredFileXB_sound xf h
  exact ⟨schema, tns, hp.tops, readXml_covered_fileX xf schema tns hp⟩

end ZeepVerif.Lemmas.ReadDecideX
