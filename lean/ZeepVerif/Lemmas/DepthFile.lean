/-
Termination of the whole reader model: `read_xml` never runs out of fuel — for every file table (any import graph:
chains, diamonds, self and mutual imports) whose files meet `FileOK` (every schema element with children has a
targetNamespace; the file is small enough for the node-level budget, which is a constant of the model).
Import level: a file is marked before its imports are followed and an import of a marked file is skipped, so at most
one `read_xml_internal` per file name is ever on the stack; three levels of calls separate two of them.
-/
import ZeepVerif.Lemmas.Depth
import ZeepVerif.Lemmas.KeepsFile

namespace ZeepVerif.Lemmas.DepthFile
open ZeepVerif ZeepVerif.Model Std.Do ZeepVerif.Lemmas.Keeps ZeepVerif.Lemmas.KeepsFile ZeepVerif.Lemmas.Depth

set_option mvcgen.warning false

/-- what the node-level theorem needs of a file's element list -/
def ElemsOK (all : List (XNode × List XNode)) : Prop :=
  SchemasHaveTns all ∧ 7 * (keySpace all).length + 7 ≤ nodeFuel

theorem bounded_message (all : List (XNode × List XNode)) (h : ElemsOK all) (node : XNode) (ctx : Ctx) (hc : ctx.allElems = all) :
    Bounded [] (messageFromNode node ctx nodeFuel) := by
  have hfnd := fun ctx x ns k (hcx : ctx.allElems = all) =>
    (block_bounded all h.1 nodeFuel).fnd ctx x ns k [] hcx List.nodup_nil (by simp) (by have := h.2; simp; omega)
  unfold Bounded at *
  mvcgen [messageFromNode, liftOpt, getDoc, hfnd]
  case inv1 => exact post⟨fun _ d' => ⌜d'.resolving = []⌝, fun e d' => ⌜d'.resolving = [] ∧ e ≠ Err.outOfFuel⌝⟩
  all_goals rk

theorem bounded_tfn (all : List (XNode × List XNode)) (h : ElemsOK all) (node : XNode) (ctx : Ctx) (hc : ctx.allElems = all) :
    Bounded [] (tryFromNode node ctx nodeFuel) :=
  (block_bounded all h.1 nodeFuel).tfn node ctx [] hc List.nodup_nil (by simp) (by have := h.2; simp; omega)

theorem bounded_portMessage (n : XNode) : Bounded [] (portMessage n) := by
  unfold Bounded
  mvcgen [portMessage, liftOpt, getDoc]
  all_goals rk

theorem bounded_port (node : XNode) : Bounded [] (portFromNode node) := by
  have hpm := fun n => bounded_portMessage n
  have hok := fun n => bounded_okOrNone (portMessage n) (hpm n)
  unfold Bounded at *
  mvcgen [portFromNode, liftOpt, getDoc, hpm, hok]
  all_goals (first | exact post⟨fun _ d' => ⌜d'.resolving = []⌝, fun e d' => ⌜d'.resolving = [] ∧ e ≠ Err.outOfFuel⌝⟩ | skip)
  all_goals rk

theorem bounded_mapToRustNode (po : PortOp) (i : Bool) (parts : String) : Bounded [] (mapToRustNode po i parts) := by
  unfold Bounded
  mvcgen [mapToRustNode, getDoc]
  all_goals rk

theorem bounded_bindingEnvelope (n : XNode) (po : PortOp) (i : Bool) : Bounded [] (bindingEnvelope n po i) := by
  have hm := fun po i parts => bounded_mapToRustNode po i parts
  unfold Bounded at *
  mvcgen [bindingEnvelope, liftOpt, hm]
  all_goals (first | exact post⟨fun _ d' => ⌜d'.resolving = []⌝, fun e d' => ⌜d'.resolving = [] ∧ e ≠ Err.outOfFuel⌝⟩ | skip)
  all_goals rk

theorem bounded_binding (node : XNode) (urls : List (String × Option String)) : Bounded [] (bindingFromNode node urls) := by
  have he := fun n po i => bounded_bindingEnvelope n po i
  have hok := fun n po i => bounded_okOrNone (bindingEnvelope n po i) (he n po i)
  unfold Bounded at *
  mvcgen [bindingFromNode, liftOpt, getDoc, he, hok]
  all_goals (first | exact post⟨fun _ d' => ⌜d'.resolving = []⌝, fun e d' => ⌜d'.resolving = [] ∧ e ≠ Err.outOfFuel⌝⟩ | skip)
  all_goals rk

theorem bounded_service (node : XNode) (urls : List (String × Option String)) : Bounded [] (serviceFromNode node urls) := by
  unfold Bounded
  mvcgen [serviceFromNode, liftOpt, getDoc]
  all_goals rk

/-- a run of a bounded node-level call from a document with an empty `resolving` stack -/
theorem bounded_run {α} (x : NM α) (h : Bounded [] x) (d : Doc) (hd : d.resolving = []) :
    (runNM x d).2.resolving = [] ∧ (runNM x d).1 ≠ .error .outOfFuel := by
  have := run_of_triple x (fun d => d.resolving = []) (fun _ d' => d'.resolving = []) (fun e d' => d'.resolving = [] ∧ e ≠ Err.outOfFuel) h d hd
  revert this
  rcases runNM x d with ⟨r, d'⟩
  cases r with
  | ok a => intro h; exact ⟨h, by simp⟩
  | error e => intro h; exact ⟨h.1, by simpa using h.2⟩

theorem res_step {α} (x : NM α) (h : Bounded [] x) (d : Doc) (hd : d.resolving = []) : (runNM x d).snd.resolving = [] :=
  (bounded_run x h d hd).1

theorem err_step {α} (x : NM α) (h : Bounded [] x) (d : Doc) (hd : d.resolving = []) (e : Err)
    (he : (runNM x d).fst = .error e) : e ≠ Err.outOfFuel := by
  intro h'
  subst h'
  exact (bounded_run x h d hd).2 he

/-- the `resolving` stack of a document is empty (kept opaque for the unifier) -/
def Res (d : Doc) : Prop := d.resolving = []

theorem res_run {α} (x : NM α) (h : Bounded [] x) (d : Doc) (hd : Res d) : Res (runNM x d).snd := res_step x h d hd
theorem res_messages (d : Doc) (m : Msg) (h : Res d) : Res { d with messages := d.messages ++ [m] } := h
theorem res_ports (d : Doc) (m : Port) (h : Res d) : Res { d with ports := d.ports ++ [m] } := h
theorem res_bindings (d : Doc) (m : Binding) (h : Res d) : Res { d with bindings := d.bindings ++ [m] } := h
theorem res_services (d : Doc) (m : Service) (h : Res d) : Res { d with services := d.services ++ [m] } := h
theorem res_nodes (d : Doc) (m : RNode) (h : Res d) : Res { d with nodes := d.nodes ++ [m] } := h
theorem res_extend (d imp : Doc) (h : Res d) : Res (d.extend imp) := h
theorem res_of (d : Doc) (h : d.resolving = []) : Res d := h
theorem res_elim (d : Doc) (h : Res d) : d.resolving = [] := h
theorem err_step' {α} (x : NM α) (h : Bounded [] x) (d : Doc) (hd : Res d) (e : Err)
    (he : (runNM x d).fst = .error e) : e ≠ Err.outOfFuel := err_step x h d hd e he

macro "resk " hl:ident : tactic => `(tactic| (
  repeat (first | apply res_services | apply res_bindings | apply res_ports | apply res_messages | apply res_nodes | apply res_extend | (apply res_run; (first | exact bounded_service _ _ | exact bounded_binding _ _ | exact bounded_port _ | (apply bounded_message <;> first | assumption | rfl) | (apply bounded_tfn <;> first | assumption | rfl))) | exact res_of _ (And.left $hl) | assumption | (apply res_of; simp_all; done))))

/-- every file of the table meets the node-level requirement -/
def TableOK (files : String → Option XFile) : Prop :=
  ∀ n f tops, files n = some f → f.tops = some tops → ElemsOK (allElemsOf tops [])

/-- the names the table knows are among `S` -/
def NamesIn (files : String → Option XFile) (S : List String) : Prop := ∀ n f, files n = some f → n ∈ S

/-- state of the import traversal: marked files are distinct and known -/
def StOK (S : List String) (st : RS) : Prop := st.processed.Nodup ∧ ∀ n ∈ st.processed, n ∈ S

structure FileBounded (files : String → Option XFile) (S : List String) (fuel : Nat) : Prop where
  int : ∀ name known kn (p : Nat), (files name).isSome = true → 3 * (S.length - p) ≤ fuel →
    ⦃fun st => ⌜StOK S st ∧ name ∉ st.processed ∧ p ≤ st.processed.length⌝⦄ readXmlInternal files name known kn fuel
    ⦃post⟨fun d st' => ⌜d.resolving = [] ∧ StOK S st' ∧ p ≤ st'.processed.length⌝, fun e => ⌜e ≠ Err.outOfFuel⌝⟩⦄
  top : ∀ file all node d (p : Nat), ElemsOK all → d.resolving = [] → 3 * (S.length - p) + 2 ≤ fuel →
    ⦃fun st => ⌜StOK S st ∧ p ≤ st.processed.length⌝⦄ readTop files file all node d fuel
    ⦃post⟨fun d' st' => ⌜d'.resolving = [] ∧ StOK S st' ∧ p ≤ st'.processed.length⌝, fun e => ⌜e ≠ Err.outOfFuel⌝⟩⦄
  xsd : ∀ file all schema anc d (p : Nat), ElemsOK all → d.resolving = [] → 3 * (S.length - p) + 1 ≤ fuel →
    ⦃fun st => ⌜StOK S st ∧ p ≤ st.processed.length⌝⦄ readXsd files file all schema anc d fuel
    ⦃post⟨fun d' st' => ⌜d'.resolving = [] ∧ StOK S st' ∧ p ≤ st'.processed.length⌝, fun e => ⌜e ≠ Err.outOfFuel⌝⟩⦄

theorem stok_room (S : List String) (st : RS) (name : String) (h : StOK S st) (hn : name ∈ S) (hnot : name ∉ st.processed) :
    st.processed.length + 1 ≤ S.length := by
  have hnd' : (name :: st.processed).Nodup := List.nodup_cons.mpr ⟨hnot, h.1⟩
  have hsub' : (name :: st.processed) ⊆ S := by
    intro a ha
    rcases List.mem_cons.mp ha with rfl | ha
    · exact hn
    · exact h.2 a ha
  simpa using List.Nodup.length_le_of_subset hnd' hsub'

attribute [local irreducible] runNM Res serviceFromNode bindingFromNode portFromNode messageFromNode tryFromNode in
theorem file_bounded (files : String → Option XFile) (S : List String) (hT : TableOK files) (hS : NamesIn files S) :
    ∀ fuel, FileBounded files S fuel := by
  intro fuel
  induction fuel with
  | zero =>
    constructor
    · intro name known kn p hsome hf
      mvcgen [readXmlInternal, spec_throw_FM, -Spec.throw_MonadExcept]
      rename_i st h
      obtain ⟨f, hf'⟩ := Option.isSome_iff_exists.mp hsome
      have := stok_room S st name h.1 (hS name f hf') h.2.1
      omega
    · intro file all node d p _ _ hf; omega
    · intro file all schema anc d p _ _ hf; omega
  | succ fuel ih =>
    constructor
    · intro name known kn p hsome hf
      have htop := fun file all node d (ha : ElemsOK all) (hd : d.resolving = []) =>
        ih.top file all node d (p + 1) ha hd
      mvcgen [readXmlInternal, spec_throw_FM, -Spec.throw_MonadExcept, htop]
      case inv1 => exact post⟨fun (_, d) st => ⌜d.resolving = [] ∧ StOK S st ∧ p + 1 ≤ st.processed.length⌝, fun e => ⌜e ≠ Err.outOfFuel⌝⟩
      all_goals (try simp only [SPred.down_pure] at *)
      all_goals (try intros)
      case vc4.a =>
        rename_i file hfile st hst _ tops _ _ _ _ _ _ _ _ _ _ _ _
        have := stok_room S st name hst.1 (hS name file hfile) hst.2.1
        omega
      case vc8.succ.int.h_1.isFalse.h_1.pre =>
        rename_i file hfile st hst _ tops _ _ _ _ _
        refine ⟨?_, ⟨List.nodup_cons.mpr ⟨hst.2.1, hst.1.1⟩, ?_⟩, ?_⟩
        · show (match List.find? (fun x => XNode.isElem x) tops with
            | some root => ({ namespaces := known, knownNodes := kn } : Doc).collectNamespaces (XNode.nss root)
            | none => ({ namespaces := known, knownNodes := kn } : Doc)).resolving = []
          split
          · rw [collect_resolving]
          · rfl
        · intro n hn
          rcases List.mem_cons.mp hn with rfl | hn
          · exact hS _ file hfile
          · exact hst.1.2 n hn
        · show p + 1 ≤ (name :: st.processed).length
          simp only [List.length_cons]; omega
      all_goals first
        | exact ExceptConds.entails.rfl
        | (exact hT _ _ _ ‹_› ‹_›)
        | (simp_all; done)
        | (simp_all; omega)
    · intro file all node d p ha hd hf
      have hxsd := fun file schema anc d (hd : d.resolving = []) => ih.xsd file all schema anc d p ha hd (by omega)
      have key : (match node.attr? "targetNamespace" with
          | some tns => d.switchToTargetNamespace tns
          | none => d).resolving = [] := by
        split
        · rw [switch_resolving]; exact hd
        · exact hd
      mvcgen [readTop, spec_throw_FM, -Spec.throw_MonadExcept, hxsd]
      case inv1 => exact post⟨fun (_, d) st => ⌜d.resolving = [] ∧ StOK S st ∧ p ≤ st.processed.length⌝, fun e => ⌜e ≠ Err.outOfFuel⌝⟩
      all_goals (try simp only [SPred.down_pure] at *)
      all_goals (try intros)
      all_goals first
        | exact ExceptConds.entails.rfl
        | exact key
        | exact ⟨key, by assumption⟩
        | (simp_all; done)
        | (rename_i hl; first
            | (refine ⟨res_elim _ ?_, hl.2⟩; resk hl)
            | (refine @err_step' ?α ?x ?hb ?d ?hd _ ?he
               case he => assumption
               case hb => first | exact bounded_service _ _ | exact bounded_binding _ _ | exact bounded_port _ | (apply bounded_message <;> first | assumption | rfl) | (apply bounded_tfn <;> first | assumption | rfl)
               case hd => resk hl))
    · intro file all schema anc d p ha hd hf
      have hint := fun name known kn (hs : (files name).isSome = true) => ih.int name known kn p hs (by omega)
      mvcgen [readXsd, spec_throw_FM, -Spec.throw_MonadExcept, hint]
      case inv1 => exact post⟨fun (_, d) st => ⌜d.resolving = [] ∧ StOK S st ∧ p ≤ st.processed.length⌝, fun e => ⌜e ≠ Err.outOfFuel⌝⟩
      all_goals (try simp only [SPred.down_pure] at *)
      all_goals (try intros)
      all_goals first
        | exact ExceptConds.entails.rfl
        | (simp_all; done)
        | (rename_i hl; first
            | (refine ⟨res_elim _ ?_, hl.2⟩; resk hl)
            | (refine @err_step' ?α ?x ?hb ?d ?hd _ ?he
               case he => assumption
               case hb => (apply bounded_tfn <;> first | assumption | rfl)
               case hd => resk hl))

set_option linter.unusedSimpArgs false in
/-- what a total-correctness-style triple over the file monad says about a run -/
theorem fm_run_of_triple' {α} (x : FM α) (P : RS → Prop) (Q : α → RS → Prop) (E : Err → Prop)
    (h : ⦃fun st => ⌜P st⌝⦄ x ⦃post⟨fun a st => ⌜Q a st⌝, fun e => ⌜E e⌝⟩⦄) (st : RS) (hp : P st) :
    match x.run st with
    | .ok (a, st') => Q a st'
    | .error e => E e := by
  have := h st hp
  simp [WP.wp, PredTrans.pushArg, PredTrans.apply] at this
  simp [Except.instWP._aux_1, WP.wp, StateT.run, PredTrans.pushExcept, PredTrans.pure, pure, Id.run, ExceptT.run, PredTrans.apply] at this
  revert this
  simp only [StateT.run]
  cases x st with
  | error e => simp
  | ok r => simp

theorem fileTable_names (fs : List XFile) : NamesIn (fileTable fs) (fs.map (·.name)) := by
  intro n f h
  unfold fileTable at h
  have hm := List.mem_of_find?_eq_some h
  have hp := List.find?_some h
  have : f.name = n := by simpa using hp
  rw [← this]
  exact List.mem_map_of_mem hm

/-- **`read_xml` never runs out of fuel**: for every list of files meeting `TableOK`, every start file name and every
    import graph among them, a fuel budget of three per file (plus three) suffices — the reader model terminates with a
    document or with one of zeep's own errors -/
theorem readXml_never_out_of_fuel (fs : List XFile) (start : String) (fuel : Nat) (hT : TableOK (fileTable fs))
    (hf : 3 * fs.length + 3 ≤ fuel) : readXml fs start fuel ≠ .error .outOfFuel := by
  cases hs : fileTable fs start with
  | none =>
    obtain ⟨f', rfl⟩ : ∃ f', fuel = f' + 1 := ⟨fuel - 1, by omega⟩
    simp [readXml, readXmlOn, readXmlInternal, hs, StateT.run, bind, throw, throwThe, MonadExceptOf.throw,
      StateT.lift, Except.bind]
  | some f =>
    have hb := (file_bounded (fileTable fs) (fs.map (·.name)) hT (fileTable_names fs) fuel).int start [] [] 0
      (by simp [hs]) (by simp; omega)
    have := fm_run_of_triple' _ _ _ _ hb { processed := [] } ⟨⟨List.nodup_nil, by simp⟩, by simp, by simp⟩
    simp only [readXml, readXmlOn]
    revert this
    cases (readXmlInternal (fileTable fs) start [] [] fuel).run { processed := [] } with
    | error e => intro h; simpa using h
    | ok r => intro _; simp

/-- decidable form of `ElemsOK` -/
def elemsOKB (all : List (XNode × List XNode)) : Bool :=
  all.all (fun p => match p.2.head? with
    | some s => s.tag != "schema" || (s.attr? "targetNamespace").isSome
    | none => true) &&
  decide (7 * (keySpace all).length + 7 ≤ nodeFuel)

/-- decidable form of `TableOK` for a list of files -/
def tableOKB (fs : List XFile) : Bool :=
  fs.all (fun f => match f.tops with
    | some tops => elemsOKB (allElemsOf tops [])
    | none => true)

theorem elemsOKB_sound (all : List (XNode × List XNode)) (h : elemsOKB all = true) : ElemsOK all := by
  simp only [elemsOKB, Bool.and_eq_true, List.all_eq_true, decide_eq_true_eq] at h
  refine ⟨?_, h.2⟩
  intro p hp schema hh ht
  have := h.1 p hp
  simp only [hh, Bool.or_eq_true, bne_iff_ne, ne_eq] at this
  rcases this with h1 | h1
  · exact absurd ht h1
  · exact h1

theorem tableOKB_sound (fs : List XFile) (h : tableOKB fs = true) : TableOK (fileTable fs) := by
  intro n f tops hf ht
  have hm : f ∈ fs := List.mem_of_find?_eq_some hf
  simp only [tableOKB, List.all_eq_true] at h
  have := h f hm
  simp only [ht] at this
  exact elemsOKB_sound _ this

end ZeepVerif.Lemmas.DepthFile