/-
The reader model consults the file table only at the start file and at `schemaLocation` values found in files it reads:
two tables that agree on a set of names closed under "schemaLocation values occurring anywhere in a file of the set"
give the same result — document, error and processed-file list alike — for every fuel. No hypothesis on the trees.
-/
import ZeepVerif.Model.Reader

namespace ZeepVerif.Lemmas.Irrelevant
open ZeepVerif ZeepVerif.Model

mutual
/-- every `schemaLocation` attribute value in the subtree of a node -/
def deepLocs : XNode → List String
  | .elem t a n tx kids => (match (XNode.elem t a n tx kids).attr? "schemaLocation" with
      | some l => [l]
      | none => []) ++ deepLocsList kids
  | .other => []
def deepLocsList : List XNode → List String
  | [] => []
  | k :: ks => deepLocs k ++ deepLocsList ks
end

theorem deepLocsList_mem (ks : List XNode) (k : XNode) (hk : k ∈ ks) (l : String) (hl : l ∈ deepLocs k) : l ∈ deepLocsList ks := by
  induction ks with
  | nil => cases hk
  | cons x xs ih =>
    simp only [deepLocsList, List.mem_append]
    rcases List.mem_cons.mp hk with rfl | h
    · exact Or.inl hl
    · exact Or.inr (ih h)

theorem deepLocs_kid (n k : XNode) (hk : k ∈ n.kids) (l : String) (hl : l ∈ deepLocs k) : l ∈ deepLocs n := by
  cases n with
  | other => simp [XNode.kids] at hk
  | elem t a nss tx kids =>
    simp only [deepLocs, List.mem_append]
    exact Or.inr (deepLocsList_mem kids k (by simpa [XNode.kids] using hk) l hl)

theorem deepLocs_self (n : XNode) (l : String) (h : n.attr? "schemaLocation" = some l) : l ∈ deepLocs n := by
  cases n with
  | other => simp [XNode.attr?, XNode.attrs] at h
  | elem t a nss tx kids => simp [deepLocs, h]

def LocsIn (S : List String) (n : XNode) : Prop := ∀ l ∈ deepLocs n, l ∈ S

theorem LocsIn.kid {S n k} (h : LocsIn S n) (hk : k ∈ n.kids) : LocsIn S k := fun l hl => h l (deepLocs_kid n k hk l hl)

/-- `S` is closed: the files registered under names of `S` mention only names of `S` as schema locations -/
def Closed (files : String → Option XFile) (S : List String) : Prop :=
  ∀ n ∈ S, ∀ f tops, files n = some f → f.tops = some tops → ∀ top ∈ tops, LocsIn S top

theorem forIn_congr_mem {m : Type → Type} [Monad m] {α β : Type} (l : List α) (f g : α → β → m (ForInStep β))
    (h : ∀ a ∈ l, ∀ b, f a b = g a b) : ∀ init : β, forIn l init f = forIn l init g := by
  induction l with
  | nil => intro init; rfl
  | cons x xs ih =>
    intro init
    simp only [List.forIn_cons]
    rw [h x List.mem_cons_self init]
    congr 1
    funext r
    cases r with
    | done b => rfl
    | yield b => exact ih (fun a ha b => h a (List.mem_cons_of_mem _ ha) b) b

structure Agree (files files' : String → Option XFile) (S : List String) (fuel : Nat) : Prop where
  int : ∀ name known kn, name ∈ S → readXmlInternal files name known kn fuel = readXmlInternal files' name known kn fuel
  top : ∀ file all node d, LocsIn S node → readTop files file all node d fuel = readTop files' file all node d fuel
  xsd : ∀ file all schema anc d, LocsIn S schema → readXsd files file all schema anc d fuel = readXsd files' file all schema anc d fuel

theorem agree (files files' : String → Option XFile) (S : List String) (hc : Closed files S)
    (ha : ∀ n ∈ S, files n = files' n) : ∀ fuel, Agree files files' S fuel := by
  intro fuel
  induction fuel with
  | zero => exact ⟨fun _ _ _ _ => by simp [readXmlInternal], fun _ _ _ _ _ => by simp [readTop], fun _ _ _ _ _ _ => by simp [readXsd]⟩
  | succ fuel ih =>
    refine ⟨?_, ?_, ?_⟩
    · intro name known kn hn
      simp only [readXmlInternal]
      rw [← ha name hn]
      cases hf : files name with
      | none => rfl
      | some file =>
        simp only []
        congr 1
        funext st
        split
        · rfl
        · cases ht : file.tops with
          | none => rfl
          | some tops =>
            simp only []
            congr 2
            funext _
            congr 1
            apply forIn_congr_mem
            intro top htop d
            rw [ih.top file _ top d (hc name hn file tops hf ht top htop)]
    · intro file all node d hl
      unfold readTop
      split
      · rfl
      · split <;> split
        all_goals first
          | rfl
          | exact ih.xsd file all node [] _ hl
          | (dsimp only
             congr 1
             apply forIn_congr_mem
             intro child hchild s
             by_cases ht : (child.tag == "types") = true
             · cases hfind : child.kids.find? (fun n => n.tag == "schema") with
               | none => simp only [ht, hfind]
               | some schema =>
                 have hs : LocsIn S schema := (hl.kid hchild).kid (List.mem_of_find?_eq_some hfind)
                 simp only [ht, hfind, if_true]
                 rw [ih.xsd file all schema [child, node] s hs]
             · simp only [ht, Bool.false_eq_true, if_false])
    · intro file all schema anc d hl
      simp only [readXsd]
      congr 1
      apply forIn_congr_mem
      intro child hchild s
      by_cases himp : (child.tag == "import") = true
      · simp only [himp, if_true]
        cases hns : child.attr? "namespace" with
        | none => rfl
        | some ns =>
          simp only [pure_bind]
          split
          · rfl
          · cases hloc : child.attr? "schemaLocation" with
            | none => rfl
            | some loc =>
              have hin : loc ∈ S := hl loc (deepLocs_kid schema child hchild loc (deepLocs_self child loc hloc))
              simp only []
              rw [← ha loc hin]
              cases files loc with
              | none => rfl
              | some v =>
                simp only []
                congr 1
                funext st
                split
                · rfl
                · rw [ih.int loc _ _ hin]
      · simp only [himp]
        rfl

end ZeepVerif.Lemmas.Irrelevant
