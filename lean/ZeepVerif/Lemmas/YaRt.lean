/- Round trip in the yaserde environment model `Ya`: for the struct shapes zeep emits for complex types
   (element members of primitive or struct type in any wrapper, primitive attribute members) and for
   simple-type wrappers (one `text` member), deserialising what was serialised gives the value back. -/
import ZeepVerif.Ya.Model
import ZeepVerif.Lemmas.YaWf

namespace ZeepVerif.Lemmas.YaRt
open ZeepVerif.Ya ZeepVerif.Lemmas.YaWf

/-! ### the program class -/

def isPrim : Leaf → Bool
  | .prim _ => true
  | .struct _ => false

/-- a simple-type wrapper: exactly one member, the character data, of primitive type -/
def isWrapper (sd : StructD) : Bool :=
  match sd.fields with
  | [f] => f.kind == .text && f.wrap == .one && isPrim f.leaf
  | _ => false

/-- members of a complex-type struct: elements (primitive or struct); attributes without prefix whose type is a
    primitive or a simple-type wrapper -/
def wrapperLeaf (P : Prog) : Leaf → Bool
  | .prim _ => false
  | .struct n => (match P.find n with | some w => isWrapper w | none => false)

def fieldCore (P : Prog) (f : FieldD) : Bool :=
  match f.kind with
  | .elem => true
  | .attr => (isPrim f.leaf || wrapperLeaf P f.leaf) && f.pfx.isNone
  | .text => false
  | .flatten => false

def elemKeys (sd : StructD) : List (String × String) :=
  (sd.fields.filter (fun f => f.kind == .elem)).map (elemKey sd)

def attrNames (sd : StructD) : List String :=
  (sd.fields.filter (fun f => f.kind == .attr)).map (·.rename)

def nodupB {α : Type} [BEq α] : List α → Bool
  | [] => true
  | x :: xs => !xs.contains x && nodupB xs

/-- a complex-type struct: core members; element members pairwise distinguishable by (namespace, name) — stated
    as: each element member is the first one that claims its own (namespace, name) —; attribute members
    distinguishable by name; every element prefix declared by the struct -/
def ownersOK (sd : StructD) : Bool :=
  (List.range sd.fields.length).all fun i => match sd.fields[i]? with
    | some f => f.kind != .elem || firstOwner sd (elemKey sd f) sd.fields 0 == some i
    | none => true

def isComplex (P : Prog) (sd : StructD) : Bool :=
  sd.fields.all (fieldCore P) && ownersOK sd && nodupB (attrNames sd) &&
  sd.fields.all (fun f => f.kind != .elem || bound sd.nss f.pfx)

def structCore (P : Prog) (sd : StructD) : Bool := isWrapper sd || isComplex P sd

/-- all `namespaces` maps of the program agree: a prefix denotes one URI everywhere (C10) -/
def consistent (P : Prog) : Bool :=
  P.all fun sd => P.all fun sd' => sd.nss.all fun pu => match nsLookup sd'.nss pu.1 with
    | some u => u == pu.2
    | none => true

def core (P : Prog) : Bool := P.all (structCore P) && consistent P

/-! ### well-typed canonical values -/

def attrSafe (s : String) : Bool := attrNorm s == s

def wrapOK : Wrap → Vals → Bool
  | .vec, _ => true
  | .opt, .nil => true
  | .opt, .cons _ .nil => true
  | .opt, .cons _ (.cons _ _) => false
  | .one, .cons _ .nil => true
  | .one, .nil => false
  | .one, .cons _ (.cons _ _) => false

/-- the text an item of an attribute member is written as: a primitive's text, or the character data of a
    simple-type wrapper -/
def itemText : Val → String
  | .prim s => s
  | .struct _ (.cons (.cons (.prim s) .nil) .nil) => s
  | .struct _ _ => ""

mutual
/-- the value has the shape of its type, every primitive text is non-empty and in the form `Display` prints -/
def okVal (P : Prog) : Leaf → Val → Bool
  | .prim t, .prim s => !s.isEmpty && t.norm s == some s
  | .struct n, .struct n' fs =>
    n == n' && (match P.find n with | some sd => okFields P sd.fields fs | none => false)
  | .prim _, .struct _ _ => false
  | .struct _, .prim _ => false
def okFields (P : Prog) : List FieldD → FVals → Bool
  | [], .nil => true
  | [], .cons _ _ => false
  | _ :: _, .nil => false
  | f :: fds, .cons items rest =>
    okItems P f.leaf (f.kind == .attr) items && wrapOK f.wrap items && okFields P fds rest
def okItems (P : Prog) (leaf : Leaf) (isAttr : Bool) : Vals → Bool
  | .nil => true
  | .cons v r =>
    okVal P leaf v && (!isAttr || attrSafe (itemText v)) && okItems P leaf isAttr r
end

/-! ### lists -/

theorem resolveList_append_eq (env) : (a b : PXs) →
    resolveList env (a.append b) = (match resolveList env a, resolveList env b with
      | some x, some y => some (x.append y)
      | _, _ => none)
  | .nil, b => by
    simp only [PXs.append, resolveList]
    cases resolveList env b <;> simp [RXs.append]
  | .cons x r, b => by
    simp only [PXs.append, resolveList]
    rw [resolveList_append_eq env r b]
    cases resolve env x <;> cases resolveList env r <;> cases resolveList env b <;> simp [RXs.append]

theorem deKids_append (P : Prog) (sd : StructD) : (a b : RXs) →
    deKids P sd (a.append b) = (match deKids P sd a, deKids P sd b with
      | some x, some y => some (x ++ y)
      | _, _ => none)
  | .nil, b => by
    simp only [RXs.append, deKids]
    cases deKids P sd b <;> simp
  | .cons k r, b => by
    simp only [RXs.append, deKids]
    rw [deKids_append P sd r b]
    cases hr : deKids P sd r <;> cases hb : deKids P sd b <;> simp
    cases firstOwner sd k.key sd.fields 0 with
    | none => simp
    | some i =>
      simp only
      cases sd.fields[i]? with
      | none => simp
      | some f =>
        simp only
        cases deVal P f.leaf k with
        | none => simp
        | some o => cases o <;> simp


/-! ### what the children and attributes of a serialised complex-type struct must be -/

def primStrs : Vals → List String
  | .nil => []
  | .cons v r => itemText v :: primStrs r

/-- the (owner position, value) list the event loop collects: the items of every element member, in order -/
def claimedOf : Nat → List FieldD → FVals → List (Nat × Val)
  | _, [], _ => []
  | _, _ :: _, .nil => []
  | j, f :: fds, .cons items rest =>
    (if f.kind == .elem then items.toList.map (fun v => (j, v)) else []) ++ claimedOf (j + 1) fds rest

/-- the attributes a reader sees on the start tag -/
def attrsOf : List FieldD → FVals → List (String × String)
  | [], _ => []
  | _ :: _, .nil => []
  | f :: fds, .cons items rest =>
    (if f.kind == .attr then (primStrs items).map (fun s => (f.rename, attrNorm s)) else []) ++ attrsOf fds rest

theorem claimedOf_ge (j : Nat) : (fds : List FieldD) → (fs : FVals) → ∀ c ∈ claimedOf j fds fs, j ≤ c.1
  | [], _ => by intro c h; simp [claimedOf] at h
  | _ :: _, .nil => by intro c h; simp [claimedOf] at h
  | f :: fds, .cons items rest => by
    intro c h
    simp only [claimedOf, List.mem_append] at h
    rcases h with h | h
    · split at h
      · simp only [List.mem_map] at h
        obtain ⟨v, _, rfl⟩ := h
        exact Nat.le_refl _
      · cases h
    · have := claimedOf_ge (j + 1) fds rest c h
      omega

theorem filter_claimedOf_lt (i j : Nat) (h : i < j) (fds : List FieldD) (fs : FVals) :
    (claimedOf j fds fs).filter (fun c => c.1 == i) = [] := by
  rw [List.filter_eq_nil_iff]
  intro c hc
  have := claimedOf_ge j fds fs c hc
  simp only [beq_iff_eq]
  omega

theorem Vals.ofList_toList : (v : Vals) → Vals.ofList v.toList = v
  | .nil => rfl
  | .cons x r => by simp [Vals.toList, Vals.ofList, Vals.ofList_toList r]

theorem filter_map_same (j : Nat) (l : List Val) :
    (l.map (fun v => (j, v))).filter (fun c => c.1 == j) = l.map (fun v => (j, v)) := by
  rw [List.filter_eq_self]
  intro c hc
  simp only [List.mem_map] at hc
  obtain ⟨v, _, rfl⟩ := hc
  simp

theorem filter_map_other (i j : Nat) (h : i ≠ j) (l : List Val) :
    (l.map (fun v => (j, v))).filter (fun c => c.1 == i) = [] := by
  rw [List.filter_eq_nil_iff]
  intro c hc
  simp only [List.mem_map] at hc
  obtain ⟨v, _, rfl⟩ := hc
  simp only [beq_iff_eq]
  exact fun e => h e.symm


/-! ### `assemble` gives the members back -/

theorem wrapItems_ok (w : Wrap) (items : Vals) (h : wrapOK w items = true) : wrapItems w items = some items := by
  cases w with
  | vec => rfl
  | opt =>
    match items, h with
    | .nil, _ => rfl
    | .cons v .nil, _ => rfl
  | one =>
    match items, h with
    | .cons v .nil, _ => rfl

def attrNamesL (fds : List FieldD) : List String := (fds.filter (fun f => f.kind == .attr)).map (·.rename)

theorem attrsOf_names : (fds : List FieldD) → (fs : FVals) → ∀ a ∈ attrsOf fds fs, a.1 ∈ attrNamesL fds
  | [], _ => by intro a h; simp [attrsOf] at h
  | _ :: _, .nil => by intro a h; simp [attrsOf] at h
  | f :: fds, .cons items rest => by
    intro a h
    simp only [attrsOf, List.mem_append] at h
    rcases h with h | h
    · split at h
      · rename_i hk
        simp only [List.mem_map] at h
        obtain ⟨s, _, rfl⟩ := h
        simp [attrNamesL, List.filter_cons, hk]
      · cases h
    · have := attrsOf_names fds rest a h
      unfold attrNamesL at *
      rw [List.filter_cons]
      split
      · exact List.mem_cons_of_mem _ this
      · exact this

theorem filter_attrsOf_none (fds : List FieldD) (fs : FVals) (n : String) (h : n ∉ attrNamesL fds) :
    (attrsOf fds fs).filter (fun a => a.1 == n) = [] := by
  rw [List.filter_eq_nil_iff]
  intro a ha
  have := attrsOf_names fds fs a ha
  simp only [beq_iff_eq]
  intro e
  exact h (e ▸ this)

theorem primItems_foldr (t : PrimTy) (P : Prog) : (items : Vals) → okItems P (.prim t) true items = true →
    ((primStrs items).map attrNorm).foldr (fun s acc => match acc, t.norm s with
      | some vs, some s' => some (Vals.cons (.prim s') vs)
      | _, _ => none) (some .nil) = some items
  | .nil, _ => rfl
  | .cons (.prim s) r, h => by
    simp only [okItems, okVal, Bool.and_eq_true, Bool.not_eq_true', Bool.not_false, Bool.true_and, Bool.or_eq_true, beq_iff_eq] at h
    obtain ⟨⟨⟨_, hn⟩, hs⟩, hr⟩ := h
    have ih := primItems_foldr t P r hr
    have hs' : attrNorm s = s := by
      rcases hs with hs | hs
      · cases hs
      · simpa [attrSafe, itemText] using hs
    simp only [primStrs, itemText, List.map_cons, List.foldr_cons, ih, hs', hn]
  | .cons (.struct _ _) r, h => by
    simp [okItems, okVal] at h

/-- the same for an attribute whose type is a simple-type wrapper: every attribute value is parsed as the
    wrapper's character data -/
theorem wrapperItems_foldr (P : Prog) (n : String) (w : StructD) (hw : P.find n = some w) (hwr : isWrapper w = true)
    (fuel : Nat) : (items : Vals) → okItems P (.struct n) true items = true →
    foldAttrStruct n (fun s => assemble P none [] (txt s) (fuel + 1) w.fields 0 []) ((primStrs items).map attrNorm) = some items
  | .nil, _ => rfl
  | .cons (.prim s) r, h => by simp [okItems, okVal] at h
  | .cons (.struct n' fs) r, h => by
    simp only [okItems, okVal, Bool.and_eq_true, beq_iff_eq, Bool.not_true, Bool.false_or] at h
    obtain ⟨⟨⟨hn, hokf⟩, hsafe⟩, hr⟩ := h
    subst hn
    rw [hw] at hokf
    simp only at hokf
    have ih := wrapperItems_foldr P n w hw hwr fuel r hr
    unfold isWrapper at hwr
    match hfl : w.fields, hwr with
    | [f], hwr =>
      simp only [Bool.and_eq_true, beq_iff_eq] at hwr
      obtain ⟨⟨hkind, hwrap⟩, hprim⟩ := hwr
      cases hl : f.leaf with
      | struct m => simp [isPrim, hl] at hprim
      | prim t =>
        rw [hfl] at hokf
        match fs, hokf with
        | .cons items .nil, hokf =>
          simp only [okFields, Bool.and_eq_true, hl, hwrap] at hokf
          obtain ⟨⟨hit, hwo⟩, _⟩ := hokf
          match items, hwo with
          | .cons (.prim s) .nil, _ =>
            simp only [okItems, okVal, Bool.and_eq_true, Bool.not_eq_true', beq_iff_eq] at hit
            obtain ⟨⟨⟨hne, hnorm⟩, _⟩, _⟩ := hit
            have hs' : attrNorm s = s := by simpa [attrSafe, itemText] using hsafe
            have : assemble P none [] (txt s) (fuel + 1) [f] 0 [] = some (.cons (.cons (.prim s) .nil) .nil) := by
              simp [assemble, hkind, hl, deText, txt, hne, hnorm, wrapItems, hwrap, Vals.last?]
            rw [hfl] at ih
            unfold foldAttrStruct at ih ⊢
            simp only [primStrs, itemText, List.map_cons, List.foldr_cons, ih, hs', this]
          | .cons (.struct _ _) .nil, _ => simp [okItems, okVal] at hit
        | .cons _ (.cons _ _), hokf => simp [okFields] at hokf

theorem deAttr_ok (P : Prog) (f : FieldD) (t : PrimTy) (hl : f.leaf = .prim t) (R : List (String × String)) (items : Vals)
    (hR : R.filter (fun a => a.1 == f.rename) = (primStrs items).map (fun s => (f.rename, attrNorm s)))
    (hok : okItems P (.prim t) true items = true) : deAttr f R = some items := by
  unfold deAttr
  rw [hR, hl]
  simp only [List.map_map]
  have : ((fun (x : String × String) => x.2) ∘ fun s => (f.rename, attrNorm s)) = attrNorm := by
    funext s; rfl
  rw [this]
  exact primItems_foldr t P items hok


theorem assemble_ok (P : Prog) (ns : Option String) (text : Option String) (fuel : Nat) :
    (fds : List FieldD) → (fs : FVals) → (j : Nat) → (C : List (Nat × Val)) → (R : List (String × String)) →
    (∀ f ∈ fds, fieldCore P f = true) → nodupB (attrNamesL fds) = true → okFields P fds fs = true →
    (∀ i, j ≤ i → C.filter (fun c => c.1 == i) = (claimedOf j fds fs).filter (fun c => c.1 == i)) →
    (∀ f ∈ fds, f.kind = .attr → R.filter (fun a => a.1 == f.rename) = (attrsOf fds fs).filter (fun a => a.1 == f.rename)) →
    assemble P ns R text (fuel + 2) fds j C = some fs
  | [], .nil, _, _, _, _, _, _, _, _ => by simp [assemble]
  | [], .cons _ _, _, _, _, _, _, h, _, _ => by simp [okFields] at h
  | _ :: _, .nil, _, _, _, _, _, h, _, _ => by simp [okFields] at h
  | f :: fds, .cons items rest, j, C, R, hcore, hnd, hok, hC, hR => by
    simp only [okFields, Bool.and_eq_true] at hok
    obtain ⟨⟨hitems, hwrap⟩, hrest⟩ := hok
    have hf := hcore f List.mem_cons_self
    have hnd' : nodupB (attrNamesL fds) = true := by
      unfold attrNamesL at hnd ⊢
      rw [List.filter_cons] at hnd
      split at hnd
      · simp only [List.map_cons, nodupB, Bool.and_eq_true] at hnd
        exact hnd.2
      · exact hnd
    cases hk : f.kind with
    | elem =>
      have hCj := hC j (Nat.le_refl j)
      have e1 : (claimedOf j (f :: fds) (.cons items rest)).filter (fun c => c.1 == j) = items.toList.map (fun v => (j, v)) := by
        simp only [claimedOf, hk, beq_self_eq_true, if_true, List.filter_append, filter_map_same,
          filter_claimedOf_lt j (j + 1) (Nat.lt_succ_self j), List.append_nil]
      have ih := assemble_ok P ns text fuel fds rest (j + 1) C R (fun g hg => hcore g (List.mem_cons_of_mem _ hg)) hnd' hrest
        (by
          intro i hi
          rw [hC i (by omega)]
          simp only [claimedOf, hk, beq_self_eq_true, if_true, List.filter_append]
          rw [filter_map_other i j (by omega)]
          rfl)
        (by
          intro g hg hgk
          rw [hR g (List.mem_cons_of_mem _ hg) hgk]
          simp [attrsOf, hk])
      simp only [assemble, hk]
      rw [hCj, e1]
      simp only [List.map_map]
      have : ((fun (x : Nat × Val) => x.2) ∘ fun v => (j, v)) = id := by funext v; rfl
      rw [this, List.map_id, Vals.ofList_toList, wrapItems_ok _ _ hwrap, ih]
    | attr =>
      simp only [fieldCore, hk, Bool.and_eq_true, Bool.or_eq_true] at hf
      have hnot : f.rename ∉ attrNamesL fds := by
        unfold attrNamesL at hnd ⊢
        rw [List.filter_cons] at hnd
        simp only [hk, beq_self_eq_true, if_true, List.map_cons, nodupB, Bool.and_eq_true, Bool.not_eq_true'] at hnd
        intro hmem
        have := hnd.1
        rw [List.contains_eq_mem] at this
        simp [hmem] at this
      have hRf := hR f List.mem_cons_self hk
      have e1 : (attrsOf (f :: fds) (.cons items rest)).filter (fun a => a.1 == f.rename) =
          (primStrs items).map (fun s => (f.rename, attrNorm s)) := by
        simp only [attrsOf, hk, beq_self_eq_true, if_true, List.filter_append, filter_attrsOf_none fds rest f.rename hnot, List.append_nil]
        rw [List.filter_eq_self]
        intro a ha
        simp only [List.mem_map] at ha
        obtain ⟨s, _, rfl⟩ := ha
        simp
      have ih := assemble_ok P ns text fuel fds rest (j + 1) C R (fun g hg => hcore g (List.mem_cons_of_mem _ hg)) hnd' hrest
        (by
          intro i hi
          rw [hC i (by omega)]
          simp [claimedOf, hk])
        (by
          intro g hg hgk
          rw [hR g (List.mem_cons_of_mem _ hg) hgk]
          have hne : g.rename ≠ f.rename := by
            intro e
            apply hnot
            unfold attrNamesL
            simp only [List.mem_map, List.mem_filter]
            exact ⟨g, ⟨hg, by simp [hgk]⟩, e⟩
          simp only [attrsOf, hk, beq_self_eq_true, if_true, List.filter_append]
          have : ((primStrs items).map (fun s => (f.rename, attrNorm s))).filter (fun a => a.1 == g.rename) = [] := by
            rw [List.filter_eq_nil_iff]
            intro a ha
            simp only [List.mem_map] at ha
            obtain ⟨s, _, rfl⟩ := ha
            simp only [beq_iff_eq]
            exact fun e => hne e.symm
          rw [this, List.nil_append])
      simp only [hk, beq_self_eq_true] at hitems
      cases hl : f.leaf with
      | prim t =>
        rw [hl] at hitems
        have hde := deAttr_ok P f t hl R items (hRf.trans e1) hitems
        simp only [assemble, hk, hl]
        rw [hde]
        simp only
        rw [wrapItems_ok _ _ hwrap, ih]
      | struct n =>
        have hwl : wrapperLeaf P f.leaf = true := by
          rcases hf.1 with h | h
          · simp [isPrim, hl] at h
          · exact h
        rw [hl] at hwl hitems
        simp only [wrapperLeaf] at hwl
        cases hw : P.find n with
        | none => simp [hw] at hwl
        | some w =>
          rw [hw] at hwl
          simp only at hwl
          have hfold := wrapperItems_foldr P n w hw hwl fuel items hitems
          simp only [assemble, hk, hl, hw]
          rw [hRf.trans e1]
          simp only [List.map_map]
          have : ((fun (x : String × String) => x.2) ∘ fun s => (f.rename, attrNorm s)) = attrNorm := by
            funext s; rfl
          rw [this, hfold]
          simp only
          rw [wrapItems_ok _ _ hwrap, ih]
    | text => simp [fieldCore, hk] at hf
    | flatten => simp [fieldCore, hk] at hf


/-! ### keys -/

def nsOf (P : Prog) (label : Option String × String) (leaf : Leaf) (env : List (String × String)) : Option String :=
  label.1.bind (nsLookup (declsOf P leaf ++ env))

theorem nsLookup_append (a b : List (String × String)) (p : String) :
    nsLookup (a ++ b) p = (match nsLookup a p with | some u => some u | none => nsLookup b p) := by
  unfold nsLookup
  rw [List.find?_append]
  cases a.find? (fun kv => kv.1 == p) <;> simp

theorem nsLookup_mem {l : List (String × String)} {p u : String} (h : nsLookup l p = some u) : (p, u) ∈ l := by
  unfold nsLookup at h
  cases hf : l.find? (fun kv => kv.1 == p) with
  | none => simp [hf] at h
  | some kv =>
    simp only [hf, Option.map_some, Option.some.injEq] at h
    have hm := List.mem_of_find?_eq_some hf
    have hp := List.find?_some hf
    simp only [beq_iff_eq] at hp
    obtain ⟨a, b⟩ := kv
    simp only at hp h
    subst hp; subst h
    exact hm

theorem key_agree (P : Prog) (hc : consistent P = true) (sd : StructD) (hsd : sd ∈ P) (f : FieldD)
    (hb : bound sd.nss f.pfx = true) (env0 : List (String × String)) :
    (nsOf P (f.pfx, f.rename) f.leaf (sd.nss ++ env0)).getD "" = sd.fieldNs f := by
  unfold nsOf StructD.fieldNs
  simp only
  cases hp : f.pfx with
  | none => rfl
  | some p =>
    rw [hp] at hb
    simp only [bound] at hb
    cases hu : nsLookup sd.nss p with
    | none => simp [hu] at hb
    | some u =>
      simp only [hu, Option.getD_some, Option.bind_some]
      rw [nsLookup_append]
      cases hd : nsLookup (declsOf P f.leaf) p with
      | none =>
        simp only
        rw [nsLookup_append, hu]
        rfl
      | some u' =>
        simp only [Option.getD_some]
        -- the child's own declarations bind `p`: by consistency to the same URI
        cases hl : f.leaf with
        | prim t => rw [hl] at hd; simp [declsOf, nsLookup] at hd
        | struct n =>
          rw [hl] at hd
          simp only [declsOf] at hd
          cases hfn : P.find n with
          | none => rw [hfn] at hd; simp [nsLookup] at hd
          | some c =>
            rw [hfn] at hd
            simp only at hd
            have hcm : c ∈ P := find_mem hfn
            have hmem := nsLookup_mem hd
            unfold consistent at hc
            have h1 := (List.all_eq_true.mp hc) c hcm
            have h2 := (List.all_eq_true.mp h1) sd hsd
            have h3 := (List.all_eq_true.mp h2) (p, u') hmem
            simp only [hu, beq_iff_eq] at h3
            exact h3.symm

theorem owner_of (sd : StructD) (h : ownersOK sd = true) (j : Nat) (f : FieldD) (hf : sd.fields[j]? = some f)
    (hk : f.kind = .elem) : firstOwner sd (elemKey sd f) sd.fields 0 = some j := by
  unfold ownersOK at h
  have hj : j < sd.fields.length := by
    rcases Nat.lt_or_ge j sd.fields.length with h' | h'
    · exact h'
    · rw [List.getElem?_eq_none h'] at hf; cases hf
  have := (List.all_eq_true.mp h) j (List.mem_range.mpr hj)
  simp only [hf, hk, bne_self_eq_false, Bool.false_or, beq_iff_eq] at this
  exact this


/-! ### the round trip -/

theorem txt_nonempty (s : String) (h : s.isEmpty = false) : txt s = some s := by simp [txt, h]

theorem serItems_prim_texts (P : Prog) (l : Option String × String) (t : PrimTy) (b : Bool) : (items : Vals) →
    okItems P (.prim t) b items = true → (serItems P l (.prim t) items).map PXs.texts = some (primStrs items)
  | .nil, _ => by simp [serItems, PXs.texts, primStrs]
  | .cons (.prim s) r, h => by
    simp only [okItems, okVal, Bool.and_eq_true, Bool.not_eq_true'] at h
    obtain ⟨⟨⟨he, _⟩, _⟩, hr⟩ := h
    have ih := serItems_prim_texts P l t b r hr
    simp only [serItems, serVal]
    cases hq : serItems P l (.prim t) r with
    | none => simp [hq] at ih
    | some xs =>
      simp only [hq, Option.map_some, Option.some.injEq] at ih
      simp [PXs.texts, PX.text, primStrs, itemText, ih, txt_nonempty s he]
  | .cons (.struct _ _) r, h => by simp [okItems, okVal] at h

/-- the texts of the items of an attribute member whose type is a simple-type wrapper -/
theorem serItems_wrapper_texts (P : Prog) (l : Option String × String) (n : String) (w : StructD) (hw : P.find n = some w)
    (hwr : isWrapper w = true) (b : Bool) : (items : Vals) →
    okItems P (.struct n) b items = true → (serItems P l (.struct n) items).map PXs.texts = some (primStrs items)
  | .nil, _ => by simp [serItems, PXs.texts, primStrs]
  | .cons (.prim s) r, h => by simp [okItems, okVal] at h
  | .cons (.struct n' fs) r, h => by
    simp only [okItems, okVal, Bool.and_eq_true, beq_iff_eq] at h
    obtain ⟨⟨⟨hn, hokf⟩, _⟩, hr⟩ := h
    subst hn
    rw [hw] at hokf
    simp only at hokf
    have ih := serItems_wrapper_texts P l n w hw hwr b r hr
    unfold isWrapper at hwr
    match hfl : w.fields, hwr with
    | [f], hwr =>
      simp only [Bool.and_eq_true, beq_iff_eq] at hwr
      obtain ⟨⟨hkind, hwrap⟩, hprim⟩ := hwr
      cases hl : f.leaf with
      | struct m => simp [isPrim, hl] at hprim
      | prim t =>
        rw [hfl] at hokf
        match fs, hokf with
        | .cons items .nil, hokf =>
          simp only [okFields, Bool.and_eq_true, hl, hwrap] at hokf
          obtain ⟨⟨hit, hwo⟩, _⟩ := hokf
          match items, hwo with
          | .cons (.prim s) .nil, _ =>
            simp only [okItems, okVal, Bool.and_eq_true, Bool.not_eq_true', beq_iff_eq] at hit
            obtain ⟨⟨⟨hne, hnorm⟩, _⟩, _⟩ := hit
            have htx := serItems_prim_texts P (none, "") t false (.cons (.prim s) .nil)
              (by simp [okItems, okVal, hne, hnorm])
            have hsv : serVal P l (.struct n) (.struct n (.cons (.cons (.prim s) .nil) .nil)) =
                some (.elem l.1 l.2 w.nss [] (some s) .nil) := by
              simp only [serVal, beq_self_eq_true, if_true, hw, hfl, serFields, hkind]
              rw [hl, htx]
              simp [primStrs, itemText, String.join, Parts.merge, PXs.append, txt_nonempty s hne]
            simp only [serItems, hsv]
            cases hq : serItems P l (.struct n) r with
            | none => simp [hq] at ih
            | some xs =>
              simp only [hq, Option.map_some, Option.some.injEq] at ih
              simp [PXs.texts, PX.text, primStrs, itemText, ih]
          | .cons (.struct _ _) .nil, _ => simp [okItems, okVal] at hit
        | .cons _ (.cons _ _), hokf => simp [okFields] at hokf

theorem resolve_elem {env : List (String × String)} {pfx : Option String} {l : String} {decls : List (String × String)}
    {attrs : List (Option String × String × String)} {text : Option String} {kids : PXs} {rx : RX}
    (h : resolve env (PX.elem pfx l decls attrs text kids) = some rx) :
    ∃ rks, resolveList (decls ++ env) kids = some rks ∧
      rx = RX.elem (pfx.bind (nsLookup (decls ++ env))) l
        (attrs.map fun a => (a.2.1, attrNorm a.2.2)) text rks := by
  simp only [resolve] at h
  cases pfx with
  | none =>
    simp only at h
    split at h
    · cases hk : resolveList (decls ++ env) kids with
      | none => simp [hk] at h
      | some rks =>
        simp only [hk, Option.some.injEq] at h
        exact ⟨rks, rfl, h.symm⟩
    · cases h
  | some p =>
    simp only at h
    cases hq : nsLookup (decls ++ env) p with
    | none => simp [hq] at h
    | some u =>
      simp only [hq, Option.map_some] at h
      split at h
      · cases hk : resolveList (decls ++ env) kids with
        | none => simp [hk] at h
        | some rks =>
          simp only [hk, Option.some.injEq] at h
          exact ⟨rks, rfl, by simp [hq, ← h]⟩
      · cases h

theorem complexOf (P : Prog) (hP : core P = true) (sd : StructD) (hsd : sd ∈ P) : structCore P sd = true ∧ consistent P = true := by
  unfold core at hP
  have := Bool.and_eq_true_iff.mp hP
  exact ⟨(List.all_eq_true.mp this.1) sd hsd, this.2⟩

mutual
theorem rt_val (P : Prog) (hP : core P = true) (env : List (String × String)) (label : Option String × String)
    (leaf : Leaf) (v : Val) (px : PX) (rx : RX)
    (hok : okVal P leaf v = true) (hs : serVal P label leaf v = some px) (hr : resolve env px = some rx) :
    deVal P leaf rx = some (some v) ∧ rx.lname = label.2 ∧ rx.ns = nsOf P label leaf env := by
  match leaf, v with
  | .prim t, .prim s =>
    simp only [okVal, Bool.and_eq_true, Bool.not_eq_true', beq_iff_eq] at hok
    simp only [serVal, Option.some.injEq] at hs
    subst hs
    obtain ⟨rks, hk, hrx⟩ := resolve_elem hr
    subst hrx
    simp only [resolveList, Option.some.injEq] at hk
    subst hk
    refine ⟨?_, rfl, ?_⟩
    · simp [deVal, txt_nonempty s hok.1, hok.2]
    · simp [RX.ns, nsOf, declsOf]
  | .struct n, .struct n' fs =>
    simp only [okVal, Bool.and_eq_true, beq_iff_eq] at hok
    obtain ⟨hn, hokf⟩ := hok
    subst hn
    cases hf : P.find n with
    | none => simp [hf] at hokf
    | some sd =>
      rw [hf] at hokf
      simp only at hokf
      simp only [serVal, beq_self_eq_true, if_true, hf] at hs
      cases hsf : serFields P sd.fields fs with
      | none => simp [hsf] at hs
      | some parts =>
        simp only [hsf, Option.some.injEq] at hs
        subst hs
        have hsd : sd ∈ P := find_mem hf
        obtain ⟨hsc, hcons⟩ := complexOf P hP sd hsd
        -- shape of the resolved element
        obtain ⟨rks, hk, hrx⟩ := resolve_elem hr
        subst hrx
        have hnsOf : label.1.bind (nsLookup (sd.nss ++ env)) = nsOf P label (.struct n) env := by
          simp [nsOf, declsOf, hf]
        generalize label.1.bind (nsLookup (sd.nss ++ env)) = ns at hnsOf ⊢
        (
              refine ⟨?_, rfl, hnsOf⟩
              simp only [deVal, hf]
              unfold structCore at hsc
              cases hw : isWrapper sd with
              | true =>
                -- a simple-type wrapper: one text member
                unfold isWrapper at hw
                match hfl : sd.fields, hw with
                | [f], hw =>
                  simp only [Bool.and_eq_true, beq_iff_eq] at hw
                  obtain ⟨⟨hkind, hwrap⟩, hprim⟩ := hw
                  cases hl : f.leaf with
                  | struct m => simp [isPrim, hl] at hprim
                  | prim t =>
                    rw [hfl] at hokf hsf
                    match fs, hokf with
                    | .cons items .nil, hokf =>
                      simp only [okFields, Bool.and_eq_true, hl, hwrap] at hokf
                      obtain ⟨⟨hit, hwo⟩, _⟩ := hokf
                      match items, hwo with
                      | .cons (.prim s) .nil, _ =>
                        simp only [okItems, okVal, Bool.and_eq_true, Bool.not_eq_true', beq_iff_eq] at hit
                        obtain ⟨⟨⟨hne, hnorm⟩, _⟩, _⟩ := hit
                        have htx := serItems_prim_texts P (none, "") t false (.cons (.prim s) .nil)
                          (by simp [okItems, okVal, hne, hnorm])
                        simp only [serFields, hkind] at hsf
                        rw [hl, htx] at hsf
                        simp only [primStrs, itemText, Option.map_some, String.join, List.foldl, Option.some.injEq] at hsf
                        subst hsf
                        simp only [Parts.merge, PXs.append, resolveList, Option.some.injEq] at hk
                        subst hk
                        have hjoin : txt ("" ++ s) = some s := by
                          rw [String.empty_append]; exact txt_nonempty s hne
                        simp [deKids, assemble, hkind, hl, deText, hjoin, hnorm, wrapItems, hwrap, Vals.last?, Parts.merge,
                          txt_nonempty s hne]
                      | .cons (.struct _ _) .nil, _ => simp [okItems, okVal] at hit
              | false =>
                simp only [hw, Bool.false_or] at hsc
                have hcx := hsc
                unfold isComplex at hsc
                simp only [Bool.and_eq_true] at hsc
                obtain ⟨⟨⟨hcore, hown⟩, hnd⟩, hbound⟩ := hsc
                have hF := rt_fields P hP env sd hsd hcx hcons sd.fields fs 0 (by simp) hokf parts hsf rks hk
                obtain ⟨hkids, hattrs, htext⟩ := hF
                rw [hkids]
                simp only
                have hA' := assemble_ok P ns parts.text (P.length + sd.fields.length) sd.fields fs 0 (claimedOf 0 sd.fields fs)
                  (parts.attrs.map (fun a => (a.2.1, attrNorm a.2.2)))
                  (List.all_eq_true.mp hcore) (by unfold attrNames at hnd; exact hnd) hokf (fun i _ => rfl)
                  (fun f _ _ => by rw [hattrs])
                rw [hA']
        )
  | .prim _, .struct _ _ => simp [okVal] at hok
  | .struct _, .prim _ => simp [okVal] at hok
theorem rt_items (P : Prog) (hP : core P = true) (env : List (String × String)) (label : Option String × String)
    (leaf : Leaf) (isAttr : Bool) (items : Vals) (ks : PXs) (rks : RXs)
    (hok : okItems P leaf isAttr items = true) (hs : serItems P label leaf items = some ks)
    (hr : resolveList env ks = some rks) (sd : StructD) (i : Nat) (f : FieldD) (hf : sd.fields[i]? = some f)
    (hleaf : f.leaf = leaf)
    (hown : firstOwner sd ((nsOf P label leaf env).getD "", label.2) sd.fields 0 = some i) :
    deKids P sd rks = some (items.toList.map (fun v => (i, v))) := by
  match items with
  | .nil =>
    simp only [serItems, Option.some.injEq] at hs
    subst hs
    simp only [resolveList, Option.some.injEq] at hr
    subst hr
    simp [deKids, Vals.toList]
  | .cons v r =>
    simp only [okItems, Bool.and_eq_true] at hok
    obtain ⟨⟨hv, _⟩, hrr⟩ := hok
    simp only [serItems] at hs
    cases hsv : serVal P label leaf v with
    | none => simp [hsv] at hs
    | some x =>
      cases hsr : serItems P label leaf r with
      | none => simp [hsv, hsr] at hs
      | some xs =>
        simp only [hsv, hsr, Option.some.injEq] at hs
        subst hs
        simp only [resolveList] at hr
        cases hrx : resolve env x with
        | none => simp [hrx] at hr
        | some x' =>
          cases hrxs : resolveList env xs with
          | none => simp [hrx, hrxs] at hr
          | some xs' =>
            simp only [hrx, hrxs, Option.some.injEq] at hr
            subst hr
            obtain ⟨hde, hln, hns⟩ := rt_val P hP env label leaf v x x' hv hsv hrx
            have ih := rt_items P hP env label leaf isAttr r xs xs' hrr hsr hrxs sd i f hf hleaf hown
            have hkey : RX.key x' = ((nsOf P label leaf env).getD "", label.2) := by
              simp [RX.key, hln, hns]
            simp only [deKids, ih, hkey, hown, hf, hleaf, hde, Vals.toList, List.map_cons]
theorem rt_fields (P : Prog) (hP : core P = true) (env0 : List (String × String)) (sd : StructD) (hsd : sd ∈ P)
    (hcx : isComplex P sd = true) (hcons : consistent P = true)
    (fds : List FieldD) (fs : FVals) (j : Nat) (hdrop : sd.fields.drop j = fds)
    (hok : okFields P fds fs = true) (parts : Parts) (hs : serFields P fds fs = some parts)
    (rks : RXs) (hr : resolveList (sd.nss ++ env0) parts.kids = some rks) :
    deKids P sd rks = some (claimedOf j fds fs) ∧
    parts.attrs.map (fun a => (a.2.1, attrNorm a.2.2)) = attrsOf fds fs ∧ parts.text = none := by
  match fds, fs with
  | [], .nil =>
    simp only [serFields, Option.some.injEq] at hs
    subst hs
    simp only [resolveList, Option.some.injEq] at hr
    subst hr
    simp [deKids, claimedOf, attrsOf]
  | [], .cons _ _ => simp [okFields] at hok
  | _ :: _, .nil => simp [okFields] at hok
  | f :: rest, .cons items more =>
    simp only [okFields, Bool.and_eq_true] at hok
    obtain ⟨⟨hitems, _⟩, hmore⟩ := hok
    have hfj : sd.fields[j]? = some f := by
      have := congrArg List.head? hdrop
      simpa [List.head?_drop] using this
    have hdrop' : sd.fields.drop (j + 1) = rest := by
      have := congrArg List.tail hdrop
      simpa [List.tail_drop] using this
    have hmem : f ∈ sd.fields := List.mem_of_getElem? hfj
    have hcx' := hcx
    unfold isComplex at hcx'
    simp only [Bool.and_eq_true] at hcx'
    obtain ⟨⟨⟨hcore, hown⟩, _⟩, hbound⟩ := hcx'
    have hfc := (List.all_eq_true.mp hcore) f hmem
    simp only [serFields] at hs
    cases hst : serFields P rest more with
    | none => simp [hst] at hs
    | some tail =>
      rw [hst] at hs
      simp only at hs
      cases hk : f.kind with
      | elem =>
        rw [hk] at hs
        simp only [Option.map_eq_some_iff] at hs
        obtain ⟨ks, hks, rfl⟩ := hs
        simp only [Parts.merge, resolveList_append_eq] at hr
        cases hr1 : resolveList (sd.nss ++ env0) ks with
        | none => simp [hr1] at hr
        | some rk1 =>
          cases hr2 : resolveList (sd.nss ++ env0) tail.kids with
          | none => simp [hr1, hr2] at hr
          | some rk2 =>
            simp only [hr1, hr2, Option.some.injEq] at hr
            subst hr
            obtain ⟨ih1, ih2, ih3⟩ := rt_fields P hP env0 sd hsd hcx hcons rest more (j + 1) hdrop' hmore tail hst rk2 hr2
            have hb : bound sd.nss f.pfx = true := by
              have := (List.all_eq_true.mp hbound) f hmem
              simpa [hk] using this
            have hownf : firstOwner sd ((nsOf P (f.pfx, f.rename) f.leaf (sd.nss ++ env0)).getD "", f.rename) sd.fields 0 = some j := by
              rw [key_agree P hcons sd hsd f hb env0]
              exact owner_of sd hown j f hfj hk
            have hit := rt_items P hP (sd.nss ++ env0) (f.pfx, f.rename) f.leaf (f.kind == .attr) items ks rk1 hitems hks hr1 sd j f hfj rfl hownf
            refine ⟨?_, ?_, ?_⟩
            · rw [deKids_append, hit, ih1]
              simp [claimedOf, hk]
            · simp [Parts.merge, attrsOf, hk, ih2]
            · simp [Parts.merge, ih3]
      | attr =>
        rw [hk] at hs
        simp only [fieldCore, hk, Bool.and_eq_true, Bool.or_eq_true] at hfc
        have htx : (serItems P (none, "") f.leaf items).map PXs.texts = some (primStrs items) := by
          cases hl : f.leaf with
          | prim t =>
            rw [hl] at hitems
            exact serItems_prim_texts P (none, "") t (f.kind == .attr) items hitems
          | struct m =>
            have hwl : wrapperLeaf P f.leaf = true := by
              rcases hfc.1 with h | h
              · simp [isPrim, hl] at h
              · exact h
            rw [hl] at hwl hitems
            simp only [wrapperLeaf] at hwl
            cases hw : P.find m with
            | none => simp [hw] at hwl
            | some w =>
              rw [hw] at hwl
              exact serItems_wrapper_texts P (none, "") m w hw hwl (f.kind == .attr) items hitems
        rw [htx] at hs
        simp only [Option.map_some, Option.some.injEq] at hs
        subst hs
        simp only [Parts.merge, PXs.append] at hr
        obtain ⟨ih1, ih2, ih3⟩ := rt_fields P hP env0 sd hsd hcx hcons rest more (j + 1) hdrop' hmore tail hst rks hr
        refine ⟨?_, ?_, ?_⟩
        · rw [ih1]; simp [claimedOf, hk]
        · simp [Parts.merge, attrsOf, hk, ih2, List.map_map, Function.comp_def]
        · simp [Parts.merge, ih3]
      | text => simp [fieldCore, hk] at hfc
      | flatten => simp [fieldCore, hk] at hfc
end


theorem rootNs_ok (sd : StructD) : rootNsOk sd (sd.pfx.bind (nsLookup (sd.nss ++ []))) = true := by
  unfold rootNsOk
  cases hp : sd.pfx with
  | none => rfl
  | some p =>
    simp only [Option.bind_some, List.append_nil]
    cases hu : nsLookup sd.nss p with
    | none => rfl
    | some u =>
      simp only
      rw [List.any_eq_true]
      exact ⟨(p, u), nsLookup_mem hu, by simp⟩

/-- **lossless round trip in the model**: for every program of the core class, every struct of it and every
    well-typed canonical value, deserialising the serialised document gives the value back -/
theorem roundtrip (P : Prog) (hP : core P = true) (n : String) (v : Val) (px : PX) (rx : RX)
    (hok : okVal P (.struct n) v = true) (hs : serRoot P n v = some px) (hr : resolve [] px = some rx) :
    deRoot P n rx = some v := by
  unfold serRoot at hs
  cases hf : P.find n with
  | none => simp [hf] at hs
  | some sd =>
    rw [hf] at hs
    simp only at hs
    obtain ⟨hde, _, hns⟩ := rt_val P hP [] (sd.pfx, sd.rename) (.struct n) v px rx hok hs hr
    unfold deRoot
    simp only [hf]
    have : rootNsOk sd rx.ns = true := by
      rw [hns]
      simp only [nsOf, declsOf, hf]
      exact rootNs_ok sd
    simp [this, hde]

/-- serialise, deserialise, serialise again: the same document -/
theorem fixpoint (P : Prog) (hP : core P = true) (n : String) (v : Val) (px : PX) (rx : RX)
    (hok : okVal P (.struct n) v = true) (hs : serRoot P n v = some px) (hr : resolve [] px = some rx) :
    (deRoot P n rx).bind (serRoot P n) = some px := by
  rw [roundtrip P hP n v px rx hok hs hr]
  exact hs

end ZeepVerif.Lemmas.YaRt
