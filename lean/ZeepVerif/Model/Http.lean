/-
Model of the client helper `helpers::send_soap_request_using_client` (C07, C16, C18): an interpreter of
the step list that the translator extracts from helpers_content.rs, over an abstract environment
(verdict of the restriction check, of serialisation, of the transport, of deserialisation).
reqwest/tokio/yaserde are environment: `send` performs exactly one request, `error_for_status_ref`
fails exactly for 4xx/5xx, `basic_auth` adds the header.
-/
import ZeepVerif.Generated.Send

namespace ZeepVerif.Model.Http

inductive Step where
  | check | serialize | post | body | ifCreds | basicAuth | endIf | send | await | try_
  | errorForStatus | text | deserialize | retOk | unknown (s : String)
deriving Repr, DecidableEq, Inhabited

def parseStep : String → Step
  | "call:check_restrictions" => .check
  | "call:to_string" => .serialize
  | "call:post" => .post
  | "call:body" => .body
  | "if:credentials" => .ifCreds
  | "call:basic_auth" => .basicAuth
  | "endif" => .endIf
  | "call:send" => .send
  | "await" => .await
  | "try" => .try_
  | "call:error_for_status_ref" => .errorForStatus
  | "call:text" => .text
  | "call:from_str" => .deserialize
  | "ret-ok" => .retOk
  | s => .unknown s

inductive Transport where
  | refused                                   -- no connection could be made
  | closed                                    -- connection closed before a complete response head
  | response (status : Nat) (bodyReadable : Bool)
deriving Repr, DecidableEq, Inhabited

structure Env where
  checkOk : Bool        -- `req.check_restrictions(None)` succeeds
  serOk : Bool          -- `yaserde::ser::to_string(&req)` succeeds
  creds : Bool          -- credentials were configured
  transport : Transport
  deOk : Bool           -- the body deserialises into the response envelope
deriving Repr, Inhabited

inductive Outcome where
  | value | errRestriction | errYaserde | errHttp | unmodelled | fellOff
deriving Repr, DecidableEq, Inhabited

structure St where
  sends : Nat := 0
  postBuilt : Bool := false
  bodySet : Bool := false
  authSet : Bool := false
  serialized : Bool := false
  status : Option Nat := none
  pending : Option Outcome := none      -- the `Err` the last fallible call produced, waiting for its `?`
  awaits : Nat := 0
deriving Repr, Inhabited

/-- `skipping`: inside an `if let Some(..) = credentials` whose condition is false, up to its `endIf` -/
def run (env : Env) : List Step → Bool → St → Outcome × St
  | [], _, st => (.fellOff, st)
  | .endIf :: rest, _, st => run env rest false st
  | _ :: rest, true, st => run env rest true st
  | s :: rest, false, st =>
    match s with
    | .check => run env rest false { st with pending := if env.checkOk then none else some .errRestriction }
    | .serialize => run env rest false { st with serialized := true, pending := if env.serOk then none else some .errYaserde }
    | .post => run env rest false { st with postBuilt := true }
    | .body => run env rest false { st with bodySet := st.serialized }
    | .ifCreds => run env rest (!env.creds) st
    | .basicAuth => run env rest false { st with authSet := true }
    | .endIf => run env rest false st
    | .send =>
      let st := { st with sends := st.sends + 1 }
      match env.transport with
      | .refused => run env rest false { st with pending := some .errHttp }
      | .closed => run env rest false { st with pending := some .errHttp }
      | .response s _ => run env rest false { st with status := some s, pending := none }
    | .await => run env rest false { st with awaits := st.awaits + 1 }
    | .try_ =>
      match st.pending with
      | some e => (e, st)
      | none => run env rest false st
    | .errorForStatus =>
      match st.status with
      | some s => run env rest false { st with pending := if 400 ≤ s ∧ s < 600 then some .errHttp else none }
      | none => (.unmodelled, st)
    | .text =>
      match env.transport with
      | .response _ true => run env rest false { st with pending := none }
      | _ => run env rest false { st with pending := some .errHttp }
    | .deserialize => run env rest false { st with pending := if env.deOk then none else some .errYaserde }
    | .retOk => (.value, st)
    | .unknown _ => (.unmodelled, st)

/-- the helper, as extracted from the current source -/
def helperSteps : List Step := Generated.Send.sendSteps.map parseStep

def call (env : Env) : Outcome × St := run env helperSteps false {}

end ZeepVerif.Model.Http
