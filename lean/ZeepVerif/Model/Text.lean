/-
Character-level text functions of the writer: `{:?}` of a string, `str::lines` + `split('\r')`,
`str::replace` with a two-character pattern. Defined on `List Char` so that the lexical theorems of C14
are about exactly the functions the executable model runs (Emit.lean wraps them with
`String.ofList ∘ … ∘ String.toList`).
-/
namespace ZeepVerif.Model.Text

/-- `char::escape_debug_ext` as used by `<str as Debug>::fmt` (single quotes left alone). Exact for ASCII;
    non-ASCII from U+00A0 up is taken as printable except U+00AD (an approximation, see DESIGN.md) -/
def needsUnicodeEscape (c : Char) : Bool :=
  c.toNat < 0x20 || c.toNat == 0x7f || (c.toNat ≥ 0x80 && c.toNat < 0xa0) || c.toNat == 0xad

def escChar (c : Char) : List Char :=
  if c == '\x00' then ['\\', '0']
  else if c == '\t' then ['\\', 't']
  else if c == '\r' then ['\\', 'r']
  else if c == '\n' then ['\\', 'n']
  else if c == '\\' then ['\\', '\\']
  else if c == '"' then ['\\', '"']
  else if needsUnicodeEscape c then ['\\', 'u', '{'] ++ Nat.toDigits 16 c.toNat ++ ['}']
  else [c]

def debugChars (s : List Char) : List Char := '"' :: (s.flatMap escChar ++ ['"'])

/-- `str::split(c)`: the pieces between occurrences of `c` (always at least one piece) -/
def splitOnChar (c : Char) : List Char → List (List Char)
  | [] => [[]]
  | x :: xs =>
    if x = c then [] :: splitOnChar c xs
    else match splitOnChar c xs with
      | h :: t => (x :: h) :: t
      | [] => [[x]]

/-- one trailing `\r` removed -/
def stripCr (l : List Char) : List Char :=
  if l.getLast? = some '\r' then l.dropLast else l

/-- `str::lines()`: split on `\n`, a final empty piece dropped, one trailing `\r` stripped from each line -/
def rustLines (s : List Char) : List (List Char) :=
  let ps := splitOnChar '\n' s
  let ps := if ps.getLast? = some [] then ps.dropLast else ps
  ps.map stripCr

/-- `comment.lines().flat_map(|l| l.split('\r'))` -/
def docLines (s : List Char) : List (List Char) := (rustLines s).flatMap (splitOnChar '\r')

/-- `str::replace` for a pattern of two characters `a b` (non-overlapping matches, left to right) -/
def replace2 (a b : Char) (rep : List Char) : List Char → List Char
  | x :: y :: rest =>
    if x = a ∧ y = b then rep ++ replace2 a b rep rest
    else x :: replace2 a b rep (y :: rest)
  | l => l

/-- the text of the operation comment: `name.replace("*/", "* /").replace("/*", "/ *")` -/
def commentText (name : List Char) : List Char :=
  replace2 '/' '*' ['/', ' ', '*'] (replace2 '*' '/' ['*', ' ', '/'] name)

end ZeepVerif.Model.Text
