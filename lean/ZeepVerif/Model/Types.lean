/-
Data model of the generator (zeep-lib/src/model/**): the `RustDocument` and everything hanging off it.
`Rc<T>` is `T` (the code only ever compares contents); `BTreeMap<String, V>` is a key-sorted association
list built with `bmInsert` (insert overwrites, as `collect()` into a map does).
-/
namespace ZeepVerif.Model

structure Ns where
  uri : String
  abbreviation : String
  rustModName : String
deriving Repr, DecidableEq, Inhabited

/-- `RustFieldType` -/
inductive FType where
  | string | i8 | i16 | i32 | i64 | u8 | u16 | f32 | f64 | bool
  | other (name : String) (module : Option String)
  | u64 | u32
deriving Repr, DecidableEq, Inhabited

/-- `impl Display for RustFieldType` -/
def FType.render : FType → String
  | .string => "String" | .i8 => "i8" | .i16 => "i16" | .i32 => "i32" | .i64 => "i64"
  | .u8 => "u8" | .u16 => "u16" | .u32 => "u32" | .u64 => "u64" | .f32 => "f32" | .f64 => "f64"
  | .bool => "bool"
  | .other name (some m) => m ++ "::" ++ name
  | .other name none => name

def FType.isString : FType → Bool
  | .string => true
  | _ => false

def FType.isOther : FType → Bool
  | .other .. => true
  | _ => false

structure Field where
  xmlName : String
  rustName : String
  rustType : FType
  isOptional : Bool
  isVec : Bool
  tns : Option Ns
  isAttribute : Bool
  isChoice : Bool
  isAny : Bool
deriving Repr, DecidableEq, Inhabited

/-- the part of `structures::restrictions::Restrictions` that reaches the output -/
structure Restr where
  minInclusive : Option String := none
  maxInclusive : Option String := none
  minExclusive : Option String := none
  maxExclusive : Option String := none
  length : Option String := none
  minLength : Option String := none
  maxLength : Option String := none
  enumeration : Option (List String) := none
deriving Repr, DecidableEq, Inhabited

structure CProps where
  xmlName : String
  fields : List Field
  tns : Option Ns
  comment : Option String
deriving Repr, DecidableEq, Inhabited

structure SProps where
  xmlName : String
  rustType : FType
  tns : Option Ns
  restrictions : Option Restr
  comment : Option String
deriving Repr, DecidableEq, Inhabited

inductive EType where
  | rustType (t : FType)
  | complex (p : CProps)
  | unsupported
deriving Repr, DecidableEq, Inhabited

structure EProps where
  xmlName : String
  etype : EType
deriving Repr, DecidableEq, Inhabited

inductive RType where
  | ignore
  | complex (p : CProps)
  | simple (p : SProps)
  | element (p : EProps)
deriving Repr, DecidableEq, Inhabited

def RType.xmlName : RType → Option String
  | .ignore => none
  | .complex p => some p.xmlName
  | .simple p => some p.xmlName
  | .element p => some p.xmlName

structure RNode where
  rtype : RType
  inNs : Option Ns
deriving Repr, DecidableEq, Inhabited

/-! key-sorted association lists standing for `BTreeMap<String, V>` -/

def bmInsert {V : Type} (k : String) (v : V) : List (String × V) → List (String × V)
  | [] => [(k, v)]
  | (k', v') :: rest =>
    if k < k' then (k, v) :: (k', v') :: rest
    else if k = k' then (k, v) :: rest
    else (k', v') :: bmInsert k v rest

def bmGet {V : Type} (m : List (String × V)) (k : String) : Option V :=
  (m.find? (fun kv => kv.1 == k)).map (·.2)

structure Msg where
  xmlName : String
  parts : List (String × (RNode × Option Ns))
deriving Repr, Inhabited

structure PortOp where
  input : Msg
  output : Option Msg
deriving Repr, Inhabited

structure Port where
  xmlName : String
  ops : List (String × PortOp)
deriving Repr, Inhabited

structure Envelope where
  headers : List (String × RNode)
  body : RNode
deriving Repr, Inhabited

structure BindOp where
  action : Option String     -- `reqwest::Url` Display of the soapAction
  input : Envelope
  output : Option Envelope
deriving Repr, Inhabited

structure Binding where
  name : String
  ops : List (String × BindOp)
  tns : List Ns
deriving Repr, Inhabited

structure Service where
  name : String
  binding : Binding
  location : String          -- `reqwest::Url` Display of the address
deriving Repr, Inhabited

/-- `RustDocument` -/
structure Doc where
  lookup : List (String × Ns) := []      -- HashMap used through get / insert-if-absent only
  namespaces : List Ns := []
  targetNamespaces : List Ns := []
  current : Option Ns := none
  defaultNs : Option String := none      -- the file's default namespace (`xmlns="…"`), first declaration wins
  nodes : List RNode := []               -- in push order
  knownNodes : List RNode := []          -- what the importer had read before; lookups only
  resolving : List (String × Option String × String) := []   -- forward references being resolved (name, namespace, kind)
  messages : List Msg := []
  ports : List Port := []
  bindings : List Binding := []
  services : List Service := []
deriving Repr, Inhabited

/-- `WriterError`, by variant; `outOfFuel` is the model's own "the recursion did not end" -/
inductive Err where
  | message | io | xml | namespaceMissing | importNotFound | notAnElement | attributeMissing
  | unsupportedXsdType | nodeNotFound | pathNotFound | schemaNotFound | messageNotFound
  | unsupportedEncoding | invalidUrl | invalidReference | outOfFuel
deriving Repr, DecidableEq, Inhabited

def Err.name : Err → String
  | .message => "Message" | .io => "Io" | .xml => "Xml" | .namespaceMissing => "NamespaceMissing"
  | .importNotFound => "ImportNotFound" | .notAnElement => "NotAnElement"
  | .attributeMissing => "AttributeMissing" | .unsupportedXsdType => "UnsupportedXsdType"
  | .nodeNotFound => "NodeNotFound" | .pathNotFound => "PathNotFound" | .schemaNotFound => "SchemaNotFound"
  | .messageNotFound => "MessageNotFound" | .unsupportedEncoding => "UnsupportedEncoding"
  | .invalidUrl => "InvalidUrl" | .invalidReference => "InvalidReference" | .outOfFuel => "OutOfFuel"

end ZeepVerif.Model
