/-
Model of the output side of `write_xml` (C15): every `write!`/`writeln!` goes through
`io::Write::write_fmt`, which calls `write_all` on the pieces; `write_all` loops over `write` until the
buffer is consumed, maps `Ok(0)` to a `WriteZero` error, retries `Interrupted`, and returns any other
error. What the generator does with the `io::Result` of each macro call is taken from the translator's
inventory (`Generated.Sites.writeSites`): propagate with `?`, `unwrap` (panic), or discard.
-/
namespace ZeepVerif.Model.Sink

/-- result of one `write(buf)` call on the sink -/
inductive WriteRes where
  | accept (n : Nat)      -- `Ok(n)`: the first `min n buf.len` bytes were taken
  | interrupted           -- `Err(Interrupted)`: `write_all` retries
  | fail                  -- any other `Err`
deriving Repr, DecidableEq, Inhabited

/-- a sink: the result of its `k`-th `write` call, given the length of the buffer it is offered -/
abbrev Sink := Nat → Nat → WriteRes

inductive Handling where
  | propagate | unwrap | discard
deriving Repr, DecidableEq, Inhabited

inductive Outcome where
  | ok | ioErr | panic
deriving Repr, DecidableEq, Inhabited

structure St where
  calls : Nat := 0               -- `write` calls made so far
  collected : List Char := []    -- bytes the sink has taken, in order
  sawFailure : Bool := false     -- some `write` call returned an error or `Ok(0)`
deriving Repr, Inhabited

/-- `write_all(buf)`; fuel bounds the retries (it is only exhausted by a sink that interrupts for ever) -/
def writeAll (sink : Sink) : Nat → List Char → St → Bool × St
  | 0, _, st => (false, st)
  | _ + 1, [], st => (true, st)
  | fuel + 1, buf, st =>
    match sink st.calls buf.length with
    | .accept 0 => (false, { st with calls := st.calls + 1, sawFailure := true })
    | .accept n =>
      let k := min n buf.length
      writeAll sink fuel (buf.drop k) { st with calls := st.calls + 1, collected := st.collected ++ buf.take k }
    | .interrupted => writeAll sink fuel buf { st with calls := st.calls + 1 }
    | .fail => (false, { st with calls := st.calls + 1, sawFailure := true })

/-- the writer: one chunk per `write!`/`writeln!` call site execution, each with the handling of its site -/
def run (sink : Sink) (fuel : Nat) : List (List Char × Handling) → St → Outcome × St
  | [], st => (.ok, st)
  | (buf, h) :: rest, st =>
    match writeAll sink fuel buf st with
    | (true, st') => run sink fuel rest st'
    | (false, st') =>
      match h with
      | .propagate => (.ioErr, st')
      | .unwrap => (.panic, st')
      | .discard => run sink fuel rest st'

end ZeepVerif.Model.Sink
