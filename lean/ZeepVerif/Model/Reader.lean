/-
Hand-written executable model of zeep's reader: reader.rs, model/doc.rs, node.rs, field.rs,
structures/{complex,simple,element,restrictions}.rs, soap/{message,port,binding/mod,service}.rs.
Tables (`builtinTable`, `keywordTable`, `wellKnownNamespaces`) come from the translator.

Monad: `ExceptT Err (StateM Doc)` — the document is `&mut` in Rust, so its changes survive an
error that is later swallowed (`.ok()`, `if let Ok(..)`); `ExceptT` over `StateM` has that behaviour.
Recursion that is not structural in the code (imports, forward-reference fallback, nested particles
through `Node` handles) takes fuel; running out of it is the distinct outcome `Err.outOfFuel`.
-/
import ZeepVerif.Xml
import ZeepVerif.Inflector
import ZeepVerif.Model.Types
import ZeepVerif.Generated.Tables

namespace ZeepVerif.Model
open ZeepVerif ZeepVerif.Inflector ZeepVerif.Generated

abbrev NM := ExceptT Err (StateM Doc)

/-- where a node sits: ancestors (nearest first) and every element of its file in document order with
    its own ancestors (what `Node::parent()` / `descendants()` give the real code) -/
structure Ctx where
  ancestors : List XNode
  allElems : List (XNode × List XNode)
deriving Inhabited

/-! ### pure helpers -/

def ftypeOfName : String → Option FType
  | "string" => some .string | "i8" => some .i8 | "i16" => some .i16 | "i32" => some .i32
  | "i64" => some .i64 | "u8" => some .u8 | "u16" => some .u16 | "u32" => some .u32 | "u64" => some .u64
  | "f32" => some .f32 | "f64" => some .f64 | "bool" => some .bool
  | _ => none

/-- the characters before the first `:` and those after it -/
def splitAtColon : List Char → Option (List Char × List Char)
  | [] => none
  | c :: cs => if c == ':' then some ([], cs) else (splitAtColon cs).map (fun ab => (c :: ab.1, ab.2))

/-- `split_type`: `(local, Some prefix)` when there is a colon (split once); unprefixed: the default namespace
    (bound to the empty prefix), if any -/
def splitType (t : String) : String × Option String :=
  match splitAtColon t.toList with
  | none => (t, some "")
  | some (p, rest) => (String.ofList rest, some (String.ofList p))

/-- `xml_name_to_rust_name` -/
def xmlNameToRustName (n : String) : String :=
  let r := toPascalCase n
  match r.toList with
  | [] => "Unnamed_"
  | c :: _ => if isDigitA c then "_" ++ r else if r == "Self" then "Self_" else r

/-- `rename_keywords` over the generated table -/
def renameKeywords (n : String) : String :=
  match Tables.keywordTable.find? (fun kv => kv.1 == n) with
  | some kv => kv.2
  | none => n

def asFieldName (xmlName : String) : String :=
  let s := toSnakeCase xmlName
  match s.toList with
  | [] => "_unnamed"
  | c :: _ => if isDigitA c then "_" ++ s else renameKeywords s

/-- Rust `str::trim` (ASCII white space and the common Unicode spaces), on characters -/
def isWs (c : Char) : Bool :=
  let n := c.toNat
  n == 0x20 || (0x09 ≤ n && n ≤ 0x0d) || n == 0x85 || n == 0xa0 || n == 0x1680 || (0x2000 ≤ n && n ≤ 0x200a)
    || n == 0x2028 || n == 0x2029 || n == 0x202f || n == 0x205f || n == 0x3000

def trimWs (cs : List Char) : List Char := ((cs.dropWhile isWs).reverse.dropWhile isWs).reverse

/-- `s.trim().parse::<u64>()`: optional `+`, then ASCII digits only, value within u64 -/
def parseU64? (cs : List Char) : Option Nat :=
  let t := trimWs cs
  let ds := match t with
    | '+' :: r => r
    | r => r
  if ds.isEmpty || !ds.all Char.isDigit then none
  else
    let v := Nat.ofDigitChars 10 ds 0
    if v ≤ 18446744073709551615 then some v else none

/-- `may_repeat` -/
def mayRepeat : Option String → Bool
  | none => false
  | some n =>
    n == "unbounded" || (match parseU64? n.toList with
      | some v => decide (v > 1)
      | none => false)

def isParticleTag (t : String) : Bool := t == "sequence" || t == "choice" || t == "all"

/-- the particles enclosing a member inside its type: `ancestors().skip(1).take_while(..)` -/
def enclosingParticles (ancestors : List XNode) : List XNode :=
  ancestors.takeWhile (fun n => isParticleTag n.tag)

structure Occ where
  isOptional : Bool
  isVec : Bool
  isChoice : Bool
  isAttribute : Bool
deriving Repr, DecidableEq, Inhabited

/-- the occurrence flags of `Field::try_from_node` -/
def occurrence (node : XNode) (ancestors : List XNode) : Occ :=
  let isAttribute := node.tag == "attribute"
  let ps := enclosingParticles ancestors
  let parentOptional := ps.any (fun n => n.attr? "minOccurs" == some "0")
  let isOptional :=
    if isAttribute then node.attr? "use" != some "required"
    else node.attr? "minOccurs" == some "0" || parentOptional
  let parentVec := ps.any (fun n => mayRepeat (n.attr? "maxOccurs"))
  { isOptional := isOptional,
    isVec := mayRepeat (node.attr? "maxOccurs") || parentVec,
    isChoice := ps.any (fun n => n.tag == "choice"),
    isAttribute := isAttribute }

def asciiLower (s : String) : String := String.ofList (s.toList.map toLowerA)

/-- the characters after the last `sep` (all of them when there is none): `split(sep).last()` -/
def lastSegment (sep : Char) (cs : List Char) : List Char :=
  cs.foldl (fun acc c => if c == sep then [] else acc ++ [c]) []

/-- `take_three_chars_max` + `to_lowercase` of `make_abbreviated_namespace` -/
def abbreviationBase (ns : String) : String :=
  let lastDash := lastSegment '-' (lastSegment '/' ns.toList)
  let three := (lastDash.filter (fun c => isLowerA c || isUpperA c || isDigitA c)).take 3
  let abbr : List Char :=
    match three with
    | [] => "ns".toList
    | c :: _ => if isDigitA c then 'n' :: three else three
  asciiLower (String.ofList abbr)

/-- the candidate loop of `make_abbreviated_namespace`: `abbr`, `abbr1`, `abbr2`, … -/
def findFreeAbbr (base : String) (taken : List String) : Nat → Nat → String
  | 0, n => base ++ toString n          -- unreachable with fuel = taken.length + 1
  | fuel + 1, n =>
    let cand := if n == 0 then base else base ++ toString n
    if taken.contains cand then findFreeAbbr base taken fuel (n + 1) else cand

def makeAbbreviatedNamespace (ns : String) (existing : List Ns) : String :=
  let taken := existing.map (·.abbreviation)
  findFreeAbbr (abbreviationBase ns) taken (taken.length + 1) 0

/-- `abbreviation_for_new_namespace`: a prefix that begins with "xml" is reserved; such a namespace gets the fallback stem -/
def startsWithXml (a : String) : Bool := a.toList.take 3 == ['x', 'm', 'l']

def abbreviationForNewNamespace (ns : String) (existing : List Ns) : String :=
  let a := makeAbbreviatedNamespace ns existing
  if startsWithXml a then makeAbbreviatedNamespace "" existing else a

def mkNs (url : String) (existing : List Ns) : Ns :=
  let abbr := abbreviationForNewNamespace url existing
  { uri := url, abbreviation := abbr, rustModName := "mod_" ++ abbr }

def rustTrim (s : String) : String := String.ofList (trimWs s.toList)

/-- `parse_comment` -/
def parseComment (node : XNode) : Option String :=
  match node.kids.find? (fun n => n.isElem && n.tag == "annotation") with
  | none => none
  | some a =>
    match a.kids.find? (fun n => n.isElem && n.tag == "documentation") with
    | none => none
    | some d => d.text.map rustTrim

/-- `get_restriction_from_attribute_or_node` -/
def facetValue (restriction : XNode) (name : String) : Option String :=
  match restriction.attr? name with
  | some v => some v
  | none =>
    match restriction.kids.find? (fun n => n.tag == name) with
    | some vn => vn.attr? "value"
    | none => none

/-- `build_restrictions` (the facets that reach the output) -/
def buildRestrictions (restriction : XNode) : Restr :=
  let enums := (restriction.kids.filter (fun n => n.isElem && n.tag == "enumeration")).filterMap (·.attr? "value")
  { minInclusive := facetValue restriction "minInclusive",
    maxInclusive := facetValue restriction "maxInclusive",
    minExclusive := facetValue restriction "minExclusive",
    maxExclusive := facetValue restriction "maxExclusive",
    length := facetValue restriction "length",
    minLength := facetValue restriction "minLength",
    maxLength := facetValue restriction "maxLength",
    enumeration := if enums.isEmpty then none else some enums }

/-! ### document operations (doc.rs) -/

def getDoc : NM Doc := get
def modifyDoc (f : Doc → Doc) : NM Unit := modify f

/-- `find_namespace_by_abbreviation`: the empty prefix stands for the default namespace, which resolves
    only when that namespace is known otherwise (it gets no abbreviation of its own) -/
def lookupNs (d : Doc) (abbr : String) : Option Ns :=
  if abbr.isEmpty then d.defaultNs.bind (fun u => d.namespaces.find? (fun ns => ns.uri == u))
  else (d.lookup.find? (fun kv => kv.1 == abbr)).map (·.2)

/-- `resolve_type` -/
def resolveType (d : Doc) (t : String) : String × Option Ns :=
  let (l, p) := splitType t
  (l, p.bind (lookupNs d))

/-- `as_rust_type` over the generated builtin table -/
def asRustType (d : Doc) (t : String) : FType :=
  let (l, p) := splitType t
  -- a prefix bound to one of the schema's own namespaces names a user type, whatever its local name
  match (p.bind (lookupNs d)).map (·.rustModName) with
  | some m => .other (xmlNameToRustName l) (some m)
  | none =>
    match Tables.builtinTable.find? (fun kv => kv.1 == l) with
    | some kv => (ftypeOfName kv.2).getD .string
    | none => .other (xmlNameToRustName l) none

/-- `add_namespace_reference` (it cannot fail: a pure document transformer) -/
def Doc.addNamespaceReference (d : Doc) (abbr url : String) : Doc :=
  if abbr.isEmpty || url.isEmpty then d
  else if Tables.wellKnownNamespaces.contains url then d
  else if (lookupNs d abbr).isSome then d
  else match d.namespaces.find? (fun ns => ns.uri == url) with
    | some existing => { d with lookup := d.lookup ++ [(abbr, existing)] }
    | none =>
      let ns := mkNs url d.namespaces
      { d with lookup := d.lookup ++ [(abbr, ns)], namespaces := d.namespaces ++ [ns] }

/-- `add_default_namespace` -/
def Doc.addDefaultNamespace (d : Doc) (url : String) : Doc :=
  if url.isEmpty || Tables.wellKnownNamespaces.contains url || d.defaultNs.isSome then d
  else { d with defaultNs := some url }

def addNamespaceReference (abbr url : String) : NM Unit :=
  modifyDoc fun d => d.addNamespaceReference abbr url

/-- `collect_namespaces_on_node` -/
def Doc.collectNamespaces (d : Doc) (nss : List (Option String × String)) : Doc :=
  nss.foldl (fun d pu => match pu.1 with
    | some a => d.addNamespaceReference a pu.2
    | none => d.addDefaultNamespace pu.2) d

def collectNamespacesOnNode (node : XNode) : NM Unit :=
  modifyDoc fun d => d.collectNamespaces node.nss

/-- `switch_to_target_namespace` -/
def Doc.switchToTargetNamespace (d : Doc) (ns : String) : Doc :=
  if d.targetNamespaces.any (fun t => t.uri == ns) then d
  else
    let tns := match d.namespaces.find? (fun n => n.uri == ns) with
      | some n => n
      | none => mkNs ns d.namespaces
    { d with targetNamespaces := d.targetNamespaces ++ [tns], namespaces := d.namespaces ++ [tns], current := some tns }

def switchToTargetNamespace (ns : String) : NM Unit :=
  modifyDoc fun d => d.switchToTargetNamespace ns

def extendNoDuplicates (me other : List Ns) : List Ns :=
  other.foldl (fun acc x => if acc.contains x then acc else acc ++ [x]) me

/-- `RustDocument::extend` -/
def Doc.extend (me other : Doc) : Doc :=
  { me with
    lookup := other.lookup.foldl (fun acc kv => if acc.any (fun x => x.1 == kv.1) then acc else acc ++ [kv]) me.lookup,
    namespaces := extendNoDuplicates me.namespaces other.namespaces,
    targetNamespaces := extendNoDuplicates me.targetNamespaces other.targetNamespaces,
    nodes := me.nodes ++ other.nodes,
    messages := me.messages ++ other.messages,
    ports := me.ports ++ other.ports,
    bindings := me.bindings ++ other.bindings,
    services := me.services ++ other.services }

def liftOpt {α : Type} (o : Option α) (e : Err) : NM α :=
  match o with
  | some a => pure a
  | none => throw e

/-- run `x`; an error becomes `none` but the document keeps what `x` did to it (`.ok()`) -/
def okOrNone {α : Type} (x : NM α) : NM (Option α) :=
  tryCatch (x >>= fun a => pure (some a)) (fun e => if e == Err.outOfFuel then throw e else pure none)

/-! The traversal of `import_sequence_node_fields`, separated from the reading of each member: the
    member sites (node and its ancestors, nearest first) of the particle `node`, in document order.
    Nested `sequence`/`choice` particles are flattened; attribute declarations are skipped. -/
mutual
def memberSites (node : XNode) (anc : List XNode) : List (XNode × List XNode) :=
  match node with
  | .elem t a n tx kids => memberSitesList kids (.elem t a n tx kids :: anc)
  | .other => []
def memberSitesList (kids : List XNode) (anc : List XNode) : List (XNode × List XNode) :=
  match kids with
  | [] => []
  | k :: ks =>
    (if !k.isElem then []
     else if k.tag == "choice" || k.tag == "sequence" then memberSites k anc
     else if k.tag == "attribute" || k.tag == "attributeGroup" || k.tag == "anyAttribute" then []
     else [(k, anc)]) ++ memberSitesList ks anc
end

/-- `ComponentKind`: the symbol space a name is looked up in -/
inductive Kind where
  | type | element | any
deriving Repr, DecidableEq, Inhabited

def Kind.matchesType : Kind → RType → Bool
  | .type, .complex _ => true
  | .type, .simple _ => true
  | .type, _ => false
  | .element, .element _ => true
  | .element, _ => false
  | .any, _ => true

def Kind.name : Kind → String
  | .type => "type" | .element => "element" | .any => "any"

def Kind.matchesTag : Kind → String → Bool
  | .type, t => t == "complexType" || t == "simpleType"
  | .element, t => t == "element"
  | .any, _ => true

/-- the first half of `find_node_by_xml_name`: among the nodes read so far (own, then the importer's) -/
def lookupRead (d : Doc) (xmlName : String) (ns : Option Ns) (kind : Kind) : Option RNode :=
  (d.nodes ++ d.knownNodes).find? (fun n => n.rtype.xmlName == some xmlName && n.inNs == ns && kind.matchesType n.rtype)

/-- `find_global_component_in_xml_doc`: the first global component (child of a `schema`) in document
    order of the wanted kind, in a schema of the wanted namespace, whose `name` attribute, prefix
    stripped, equals the wanted name -/
def findGlobalComponent (ctx : Ctx) (d : Doc) (xmlName : String) (ns : Option Ns) (kind : Kind) :
    Option (XNode × List XNode) :=
  ctx.allElems.find? (fun (n, anc) =>
    match anc.head? with
    | none => false
    | some schema =>
      schema.tag == "schema" && kind.matchesTag n.tag &&
      (match ns, schema.attr? "targetNamespace" with
       | some w, some t => w.uri == t
       | _, _ => true) &&
      (match n.attr? "name" with
       | some nm => (resolveType d nm).1 == xmlName
       | none => false))

/-- `global_component_exists` -/
def globalComponentExists (ctx : Ctx) (d : Doc) (xmlName : String) (ns : Option Ns) (kind : Kind) : Bool :=
  (lookupRead d xmlName ns kind).isSome || (findGlobalComponent ctx d xmlName ns kind).isSome

/-! ### nodes (node.rs, structures/*, field.rs) — one mutual, fuel-driven block -/

mutual

/-- `RustNode::try_from_node` -/
def tryFromNode (node : XNode) (ctx : Ctx) : Nat → NM RNode
  | 0 => throw .outOfFuel
  | fuel + 1 => do
    if !node.isElem then throw .notAnElement
    if let some tns := node.attr? "targetNamespace" then switchToTargetNamespace tns
    collectNamespacesOnNode node
    let rt ← match node.tag with
      | "complexType" | "group" => RType.complex <$> complexFromNode node ctx fuel
      | "simpleType" => RType.simple <$> simpleFromNode node
      | "element" => RType.element <$> elementFromNode node ctx fuel
      | _ => pure RType.ignore
    let d ← getDoc
    pure { rtype := rt, inNs := d.current }

/-- `RustDocument::find_node_by_xml_name` with its tree-search fallback -/
def findNodeByXmlName (ctx : Ctx) (xmlName : String) (ns : Option Ns) (kind : Kind) : Nat → NM (Option RNode)
  | 0 => throw .outOfFuel
  | fuel + 1 => do
    let d ← getDoc
    match lookupRead d xmlName ns kind with
    | some n => pure (some n)
    | none =>
      -- try_to_find_node_by_xml_name_in_xml_doc, with its re-entrancy guard
      let d ← getDoc
      match findGlobalComponent ctx d xmlName ns kind with
      | none => pure none
      | some (n, anc) =>
        let key := (xmlName, ns.map (·.uri), kind.name)
        if d.resolving.contains key then pure none
        else
          modifyDoc fun d => { d with resolving := d.resolving ++ [key] }
          let r ← okOrNone (tryFromNode n { ctx with ancestors := anc } fuel)
          modifyDoc fun d => { d with resolving := d.resolving.dropLast }
          pure r

/-- `Field::try_from_node` -/
def fieldFromNode (node : XNode) (ctx : Ctx) : Nat → NM Field
  | 0 => throw .outOfFuel
  | fuel + 1 => do
    if !node.isElem then throw .notAnElement
    if let some tns := node.attr? "targetNamespace" then switchToTargetNamespace tns
    let d ← getDoc
    let targetNamespace := d.current
    let occ := occurrence node ctx.ancestors
    if node.tag == "any" then
      return { xmlName := "body", rustName := "body", rustType := .string, isOptional := true, isVec := false,
               tns := none, isAttribute := false, isChoice := false, isAny := true }
    match node.attr? "ref" with
    | some refName =>
      let (xmlName, nsRef) := splitType refName
      let rustName := asFieldName xmlName
      if refName.startsWith "xml" then
        return { xmlName := xmlName, rustName := rustName, rustType := .string, isOptional := occ.isOptional,
                 isVec := occ.isVec, tns := none, isAttribute := occ.isAttribute, isChoice := occ.isChoice,
                 isAny := false }
      let ns := nsRef.bind (lookupNs d)
      let kind := if node.tag == "element" then Kind.element else Kind.any
      -- an element reference only needs the element to exist; it is not built here
      let xmlName' ← if kind == Kind.element then do
          if !(globalComponentExists ctx d xmlName ns kind) then throw Err.nodeNotFound
          pure xmlName
        else do
          let refNode ← findNodeByXmlName ctx xmlName ns kind fuel
          let refNode ← liftOpt refNode .nodeNotFound
          liftOpt refNode.rtype.xmlName .invalidReference
      return { xmlName := xmlName', rustName := rustName,
               rustType := .other (xmlNameToRustName xmlName') (ns.map (·.rustModName)),
               isOptional := occ.isOptional, isVec := occ.isVec, tns := ns, isAttribute := occ.isAttribute,
               isChoice := occ.isChoice, isAny := false }
    | none =>
      let xmlName ← liftOpt (node.attr? "name") .attributeMissing
      let rustName := asFieldName xmlName
      let d ← getDoc
      let rustType := match node.attr? "type" with
        | some t => asRustType d t
        | none => .string
      return { xmlName := xmlName, rustName := rustName, rustType := rustType, isOptional := occ.isOptional,
               isVec := occ.isVec, tns := targetNamespace, isAttribute := occ.isAttribute,
               isChoice := occ.isChoice, isAny := false }

/-- `import_sequence_node_fields` (also used for `choice`, and handed an `<extension>`) -/
def importSequence (node : XNode) (ctx : Ctx) (acc : List Field) : Nat → NM (List Field)
  | 0 => throw .outOfFuel
  | fuel + 1 => do
    -- the members are read in document order; each reading may change the document (lookups)
    let mut acc := acc
    for (child, anc) in memberSites node ctx.ancestors do
      let f ← fieldFromNode child { ctx with ancestors := anc } fuel
      acc := acc ++ [f]
    pure acc

/-- `import_extension_fields`; `node` is the `complexContent` -/
def importExtension (node : XNode) (ctx : Ctx) : Nat → NM (List Field)
  | 0 => throw .outOfFuel
  | fuel + 1 => do
    match node.kids.find? (fun n => n.isElem && n.tag == "extension") with
    | none => pure []
    | some base =>
      let baseName ← liftOpt (base.attr? "base") .attributeMissing
      let d ← getDoc
      let (xmlName, ns) := resolveType d baseName
      let baseNode ← findNodeByXmlName ctx xmlName ns .type fuel
      let baseNode ← liftOpt baseNode .nodeNotFound
      let mut fields : List Field := match baseNode.rtype with
        | .complex p => p.fields
        | _ => []
      let ctxC := { ctx with ancestors := node :: ctx.ancestors }   -- ancestors of `base`
      for n in base.elemKids do
        if n.tag == "sequence" then
          fields ← importSequence base ctxC fields fuel
      let ctxB := { ctx with ancestors := base :: node :: ctx.ancestors }
      for n in base.elemKids do
        if n.tag == "attribute" then
          let f ← fieldFromNode n ctxB fuel
          fields := fields ++ [f]
      pure fields

/-- `ComplexProps::try_from_node`; `ctx.ancestors` are the ancestors of `node` -/
def complexFromNode (node : XNode) (ctx : Ctx) : Nat → NM CProps
  | 0 => throw .outOfFuel
  | fuel + 1 => do
    collectNamespacesOnNode node
    let name? := match node.attr? "name" with
      | some n => some n
      | none => (ctx.ancestors.head?).bind (·.attr? "name")
    let name ← liftOpt name? .attributeMissing
    let d ← getDoc
    let mut result : CProps := { xmlName := name, fields := [], tns := d.current, comment := parseComment node }
    let ctxN := { ctx with ancestors := node :: ctx.ancestors }     -- ancestors of node's children
    for n in node.elemKids do
      if n.tag == "complexContent" then
        -- read_complex_content_node
        let comment := parseComment n
        let mut fields ← importExtension n ctxN fuel
        for k in n.elemKids do
          if k.tag == "sequence" then
            fields ← importSequence n ctxN fields fuel
        let d ← getDoc
        result := { xmlName := name, fields := fields, tns := d.current, comment := comment }
      if n.tag == "sequence" then
        -- read_sequence_node
        let comment := parseComment n
        let fields ← importSequence n ctxN [] fuel
        let d ← getDoc
        result := { xmlName := name, fields := fields, tns := d.current, comment := comment }
      if n.tag == "attribute" then
        let f ← fieldFromNode n ctxN fuel
        result := { result with fields := result.fields ++ [f] }
    pure result

/-- `ElementProps::try_from_node` -/
def elementFromNode (node : XNode) (ctx : Ctx) : Nat → NM EProps
  | 0 => throw .outOfFuel
  | fuel + 1 => do
    collectNamespacesOnNode node
    let name ← liftOpt (node.attr? "name") .attributeMissing
    let d ← getDoc
    match node.attr? "type" with
    | some t => pure { xmlName := name, etype := .rustType (asRustType d t) }
    | none =>
      match node.elemKids.find? (fun n => n.tag == "complexType") with
      | some ct =>
        let p ← complexFromNode ct { ctx with ancestors := node :: ctx.ancestors } fuel
        pure { xmlName := name, etype := .complex p }
      | none => pure { xmlName := name, etype := .unsupported }

/-- `SimpleProps::try_from_node` (restriction / list / union) -/
def simpleFromNode (node : XNode) : NM SProps := do
  collectNamespacesOnNode node
  let name ← liftOpt (node.attr? "name") .attributeMissing
  let comment := parseComment node
  let findKid (n : XNode) (t : String) := n.kids.find? (fun k => k.isElem && k.tag == t)
  let d ← getDoc
  match findKid node "restriction" with
  | some r =>
    let base ← liftOpt (r.attr? "base") .attributeMissing
    pure { xmlName := name, rustType := asRustType d base, tns := d.current,
           restrictions := some (buildRestrictions r), comment := comment }
  | none =>
    match findKid node "list" with
    | some l =>
      -- build_simple_list_type
      if (l.attr? "itemType").isSome then
        pure { xmlName := name, rustType := .string, tns := d.current, restrictions := some {}, comment := comment }
      else
        let st ← liftOpt (findKid l "simpleType") .unsupportedXsdType
        let r ← liftOpt (findKid st "restriction") .unsupportedXsdType
        let _ ← liftOpt (r.attr? "base") .attributeMissing
        pure { xmlName := name, rustType := .string, tns := d.current, restrictions := some {}, comment := comment }
    | none =>
      match findKid node "union" with
      | some u =>
        -- build_simple_union_type
        if (u.attr? "memberTypes").isSome then
          pure { xmlName := name, rustType := .string, tns := d.current, restrictions := some {}, comment := comment }
        else
          for st in u.kids.filter (fun k => k.isElem && k.tag == "simpleType") do
            if (st.attr? "base").isNone then
              let r ← liftOpt (findKid st "restriction") .unsupportedXsdType
              let _ ← liftOpt (r.attr? "base") .unsupportedXsdType
          pure { xmlName := name, rustType := .string, tns := d.current, restrictions := some {}, comment := comment }
      | none => throw .unsupportedXsdType

end

/-! ### SOAP (soap/*.rs) -/

def firstElemKid (n : XNode) (t : String) : Option XNode := n.kids.find? (fun k => k.isElem && k.tag == t)
def elemKidsTagged (n : XNode) (t : String) : List XNode := n.kids.filter (fun k => k.isElem && k.tag == t)

/-- `SoapMessage::try_from_node` -/
def messageFromNode (node : XNode) (ctx : Ctx) (fuel : Nat) : NM Msg := do
  let name ← liftOpt (node.attr? "name") .attributeMissing
  let mut parts : List (String × (RNode × Option Ns)) := []
  for p in elemKidsTagged node "part" do
    let partName ← liftOpt (p.attr? "name") .attributeMissing
    let element ← liftOpt (p.attr? "element") .attributeMissing
    let d ← getDoc
    let (xmlName, ns) := resolveType d element
    let rn ← findNodeByXmlName ctx xmlName ns .element fuel
    let rn ← liftOpt rn .nodeNotFound
    parts := bmInsert partName (rn, ns) parts
  pure { xmlName := name, parts := parts }

/-- port.rs `read_port_operation` -/
def portMessage (n : XNode) : NM Msg := do
  let m ← liftOpt (n.attr? "message") .attributeMissing
  let d ← getDoc
  let (xmlName, _) := resolveType d m
  liftOpt (d.messages.find? (fun msg => msg.xmlName == xmlName)) .messageNotFound

/-- `SoapPort::try_from_node` -/
def portFromNode (node : XNode) : NM Port := do
  let name ← liftOpt (node.attr? "name") .attributeMissing
  let mut ops : List (String × PortOp) := []
  for o in elemKidsTagged node "operation" do
    let oname ← liftOpt (o.attr? "name") .attributeMissing
    let inp ← match firstElemKid o "input" with
      | some n => portMessage n
      | none => throw .nodeNotFound
    let out ← match firstElemKid o "output" with
      | some n => okOrNone (portMessage n)
      | none => pure none
    ops := bmInsert oname { input := inp, output := out } ops
  pure { xmlName := name, ops := ops }

/-- binding/mod.rs `map_to_rust_node` -/
def mapToRustNode (po : PortOp) (isInput : Bool) (parts : String) : NM RNode := do
  let d ← getDoc
  let (xmlName, _) := resolveType d parts
  let msg? := if isInput then some po.input else po.output
  match msg?.bind (fun m => bmGet m.parts xmlName) with
  | some (rn, _) => pure rn
  | none => throw .nodeNotFound

/-- binding/mod.rs `read_port_operation` (body + headers of one direction) -/
def bindingEnvelope (n : XNode) (po : PortOp) (isInput : Bool) : NM Envelope := do
  let headerParts := (elemKidsTagged n "header").filterMap (·.attr? "part")
  let body ← match firstElemKid n "body" with
    | none => throw .nodeNotFound
    | some b =>
      let enc ← liftOpt (b.attr? "use") .attributeMissing
      if enc != "literal" then throw .unsupportedEncoding
      match b.attr? "parts" with
      | some parts => mapToRustNode po isInput parts
      | none =>
        let msg? := if isInput then some po.input else po.output
        match msg?.bind (fun m => m.parts.find? (fun kv => !headerParts.contains kv.1)) with
        | some (_, (rn, _)) => pure rn
        | none => throw .nodeNotFound
  let mut headers : List (String × RNode) := []
  for h in elemKidsTagged n "header" do
    let part ← liftOpt (h.attr? "part") .attributeMissing
    let rn ← mapToRustNode po isInput part
    headers := headers ++ [(part, rn)]
  pure { headers := headers, body := body }

/-- `SoapBinding::try_from_node`; `urls` is the `reqwest::Url` oracle of the file -/
def bindingFromNode (node : XNode) (urls : List (String × Option String)) : NM Binding := do
  let name ← liftOpt (node.attr? "name") .attributeMissing
  let pt ← liftOpt (node.attr? "type") .attributeMissing
  let d ← getDoc
  let (ptName, _) := resolveType d pt
  let port ← liftOpt (d.ports.find? (fun p => p.xmlName == ptName)) .nodeNotFound
  let mut ops : List (String × BindOp) := []
  for o in elemKidsTagged node "operation" do
    let oname ← liftOpt (o.attr? "name") .attributeMissing
    let po ← liftOpt (bmGet port.ops oname) .nodeNotFound
    let mut action : Option String := none
    for so in elemKidsTagged o "operation" do
      match so.attr? "soapAction" with
      | some a =>
        if !a.isEmpty then
          match (urls.find? (fun kv => kv.1 == a)).bind (·.2) with
          | some u => action := some u
          | none => throw .invalidUrl
      | none => pure ()
    let inp ← match firstElemKid o "input" with
      | some n => bindingEnvelope n po true
      | none => throw .nodeNotFound
    let out ← match firstElemKid o "output" with
      | some n => okOrNone (bindingEnvelope n po false)
      | none => pure none
    ops := bmInsert oname { action := action, input := inp, output := out } ops
  let d ← getDoc
  pure { name := name, ops := ops, tns := d.targetNamespaces }

/-- `SoapService::try_from_node` -/
def serviceFromNode (node : XNode) (urls : List (String × Option String)) : NM Service := do
  let name ← liftOpt (node.attr? "name") .attributeMissing
  let port ← liftOpt (firstElemKid node "port") .attributeMissing
  let b ← liftOpt (port.attr? "binding") .attributeMissing
  let d ← getDoc
  let (bName, _) := resolveType d b
  let binding ← liftOpt (d.bindings.find? (fun x => x.name == bName)) .nodeNotFound
  let addr ← liftOpt (firstElemKid port "address") .nodeNotFound
  let loc ← liftOpt (addr.attr? "location") .attributeMissing
  match (urls.find? (fun kv => kv.1 == loc)).bind (·.2) with
  | some u => pure { name := name, binding := binding, location := u }
  | none => throw .invalidUrl

/-! ### files and imports (reader.rs) -/

mutual
def allElemsNode (n : XNode) (anc : List XNode) : List (XNode × List XNode) :=
  match n with
  | .elem t a ns tx kids => (.elem t a ns tx kids, anc) :: allElemsOf kids (.elem t a ns tx kids :: anc)
  | .other => []
/-- every element of a forest in document order, each with its ancestors (nearest first) -/
def allElemsOf (nodes : List XNode) (anc : List XNode) : List (XNode × List XNode) :=
  match nodes with
  | [] => []
  | n :: rest => allElemsNode n anc ++ allElemsOf rest anc
end

structure RS where
  processed : List String := []
deriving Inhabited

abbrev FM := StateT RS (Except Err)

def runNM {α : Type} (x : NM α) (d : Doc) : Except Err α × Doc := (x.run).run d

def nodeFuel : Nat := 100000

mutual

/-- `read_xml_internal` -/
def readXmlInternal (files : String → Option XFile) (fileName : String) (known : List Ns) (knownNodes : List RNode) :
    Nat → FM Doc
  | 0 => throw .outOfFuel
  | fuel + 1 => do
    let some file := files fileName | throw .importNotFound
    let st ← get
    if st.processed.contains fileName then return {}
    let some tops := file.tops | throw .message
    -- init_with_known_namespaces: collect the root element's namespaces
    let d0 : Doc := { namespaces := known, knownNodes := knownNodes }
    let d0 := match tops.find? (·.isElem) with
      | some root => d0.collectNamespaces root.nss
      | none => d0
    modify fun s => { s with processed := fileName :: s.processed }
    let allElems := allElemsOf tops []
    let mut d := d0
    for child in tops do
      d ← readTop files file allElems child d fuel
    pure d

/-- `read` + `read_wsdl` + `read_xsd` -/
def readTop (files : String → Option XFile) (file : XFile) (allElems : List (XNode × List XNode))
    (node : XNode) (d : Doc) : Nat → FM Doc
  | 0 => throw .outOfFuel
  | fuel + 1 => do
    if !node.isElem then return d
    let d := match node.attr? "targetNamespace" with
      | some tns => d.switchToTargetNamespace tns
      | none => d
    match node.tag with
    | "schema" => readXsd files file allElems node [] d fuel
    | "definitions" =>
      let mut d := d
      let ctx : Ctx := { ancestors := [node], allElems := allElems }
      for child in node.kids do
        let t := child.tag
        if t == "types" then
          match child.kids.find? (fun n => n.tag == "schema") with
          | none => throw .schemaNotFound
          | some schema => d ← readXsd files file allElems schema [child, node] d fuel
        if t == "message" then
          let (r, d') := runNM (messageFromNode child ctx nodeFuel) d
          d := d'
          match r with
          | .ok m => d := { d with messages := d.messages ++ [m] }
          | .error e => throw e
        if t == "portType" then
          let (r, d') := runNM (portFromNode child) d
          d := d'
          match r with
          | .ok p => d := { d with ports := d.ports ++ [p] }
          | .error e => throw e
        if t == "binding" then
          let (r, d') := runNM (bindingFromNode child file.urls) d
          d := d'
          match r with
          | .ok b => d := { d with bindings := d.bindings ++ [b] }
          | .error e => throw e
        if t == "service" then
          let (r, d') := runNM (serviceFromNode child file.urls) d
          d := d'
          match r with
          | .ok s => d := { d with services := d.services ++ [s] }
          | .error e => throw e
      pure d
    | _ => pure d

/-- `read_xsd`; `anc` are the ancestors of the `schema` node -/
def readXsd (files : String → Option XFile) (file : XFile) (allElems : List (XNode × List XNode))
    (schema : XNode) (anc : List XNode) (d : Doc) : Nat → FM Doc
  | 0 => throw .outOfFuel
  | fuel + 1 => do
    let mut d := d
    let ctx : Ctx := { ancestors := schema :: anc, allElems := allElems }
    for child in schema.kids do
      if child.tag == "import" then
        -- process_import
        let ns ← match child.attr? "namespace" with
          | some ns => pure ns
          | none => throw Err.namespaceMissing
        if Tables.wellKnownNamespaces.contains ns then continue
        let some loc := child.attr? "schemaLocation" | continue
        let some _ := files loc | throw Err.importNotFound
        let st ← get
        if st.processed.contains loc then continue
        let imported ← readXmlInternal files loc d.namespaces (d.knownNodes ++ d.nodes) fuel
        d := d.extend imported
        continue
      let (r, d') := runNM (tryFromNode child ctx nodeFuel) d
      d := d'
      match r with
      | .ok n => d := { d with nodes := d.nodes ++ [n] }
      | .error e => if e == Err.outOfFuel then throw e else pure ()
    pure d

end

/-- the file table is a map keyed by file name: it is only ever looked up by key -/
def fileTable (files : List XFile) : String → Option XFile := fun n => files.find? (fun f => f.name == n)

/-- `XmlReader::read_xml` on a `FilesToRead` whose processed flags are `flags` (left over from earlier
    calls): the flags are cleared first, then the start file is read; the flags at the end are returned -/
def readXmlOn (files : String → Option XFile) (start : String) (flags : RS) (fuel : Nat := 10000) : Except Err Doc × RS :=
  let cleared : RS := { flags with processed := [] }
  match (readXmlInternal files start [] [] fuel).run cleared with
  | .ok (d, st) => (.ok d, st)
  | .error e => (.error e, cleared)

/-- `XmlReader::read_xml` on fresh files -/
def readXml (files : List XFile) (start : String) (fuel : Nat := 10000) : Except Err Doc :=
  (readXmlOn (fileTable files) start {} fuel).1

end ZeepVerif.Model
