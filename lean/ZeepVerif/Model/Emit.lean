/-
Hand-written executable model of zeep's writer (every `impl WriteXml`): the output is the list of
chunks, one per `write!`/`writeln!` call in the source, in order; the emitted text is their
concatenation. The fixed prelude and the appended runtime come from the translator
(`Generated.Tables.headerText/helpersText`).
-/
import ZeepVerif.Model.Reader
import ZeepVerif.Runtime.Prelude
import ZeepVerif.Model.Text

namespace ZeepVerif.Model
open ZeepVerif.Inflector ZeepVerif.Generated

/-- Rust `{:?}` of a `str` (see `Text.escChar`) -/
def rustDebugStr (s : String) : String := String.ofList (Text.debugChars s.toList)

/-- Rust `str::lines()` followed by `split('\r')` on every line -/
def docLines (s : String) : List String := (Text.docLines s.toList).map String.ofList

abbrev Chunks := List String

def writeCommentLines (c : Option String) : Chunks :=
  match c with
  | some c => (docLines c).map (fun l => "/// " ++ l ++ "\n")
  | none => []

/-- `impl WriteXml for Field` -/
def writeField (f : Field) : Chunks :=
  let inner := f.rustType.render
  let ty := if f.isVec then "Vec<" ++ inner ++ ">"
            else if f.isOptional || f.isChoice then "Option<" ++ inner ++ ">"
            else inner
  let attrHeader := if f.isAttribute then ", attribute = true" else ""
  let attrLine := match (if f.isAttribute then none else f.tns) with
    | some tns => "    #[yaserde(prefix = " ++ rustDebugStr tns.abbreviation ++ ", rename = " ++ rustDebugStr f.xmlName ++ attrHeader ++ ")]\n"
    | none => "    #[yaserde(rename = " ++ rustDebugStr f.xmlName ++ attrHeader ++ ")]\n"
  [attrLine, "    pub " ++ f.rustName ++ ": " ++ ty ++ ",\n"]

/-- `write_numeric_facet::<_, T>` -/
def writeNumericFacet (ty : String) (name : String) (v : Option String) : Chunks :=
  match v with
  | none => []
  | some v =>
    match Runtime.parseInt ty (rustTrim v) with
    | .ok n => ["   " ++ name ++ ": Some(" ++ toString n ++ "), \n"]
    | .error _ => []

/-- `impl WriteXml for Restrictions` -/
def writeRestrictions (r : Restr) : Chunks :=
  ["Rc::new(restrictions::Restrictions {\n"]
  ++ writeNumericFacet "i32" "min_inclusive" r.minInclusive
  ++ writeNumericFacet "i32" "max_inclusive" r.maxInclusive
  ++ writeNumericFacet "i32" "min_exclusive" r.minExclusive
  ++ writeNumericFacet "i32" "max_exclusive" r.maxExclusive
  ++ writeNumericFacet "usize" "length" r.length
  ++ writeNumericFacet "usize" "min_length" r.minLength
  ++ writeNumericFacet "usize" "max_length" r.maxLength
  ++ (match r.enumeration with
      | some e => ["   enumeration: Some(vec![\n"] ++ e.map (fun v => "      " ++ rustDebugStr v ++ ".to_string(),\n") ++ ["   ]),\n"]
      | none => [])
  ++ ["   ..Default::default()\n", "})\n"]

/-- helpers.rs `write_check_restrictions_header` -/
def writeCheckHeader (rustName : String) (r : Option Restr) : Chunks :=
  let fnLine := "  fn check_restrictions(&self, restrictions: Option<Rc<restrictions::Restrictions>>) -> error::SoapResult<()>  {\n"
  ["impl restrictions::CheckRestrictions for " ++ rustName ++ " {\n"] ++
  match r with
  | some r =>
    [fnLine, "        if restrictions.is_some() {\n", "            self.value.check_restrictions(restrictions)?;\n",
     "        }\n", "        let restrictions = Some(\n"] ++ writeRestrictions r ++ [");\n"]
  | none => [fnLine]

def writeCheckFooter : Chunks := ["  }\n", "}\n"]

def deriveLine : String := "#[derive(Debug, Default, YaSerialize, YaDeserialize)]\n"

/-- `write_type_alias` -/
def writeTypeAlias (xmlName rustName : String) (t : FType) (tns : Option Ns) (r : Option Restr) : Chunks :=
  [deriveLine]
  ++ (match tns with
      | some tns =>
        ["#[yaserde(prefix = " ++ rustDebugStr tns.abbreviation ++ ", namespaces = {" ++ rustDebugStr tns.abbreviation
          ++ " = " ++ rustDebugStr tns.uri ++ "}, rename = " ++ rustDebugStr xmlName ++ ")]\n"]
      | none => [])
  ++ ["pub struct " ++ rustName ++ " {\n"]
  ++ (if t.isString then ["    #[yaserde(text = true)]\n", "    pub value: " ++ t.render ++ "\n"]
      else if t.isOther then ["    #[yaserde(flatten = true)]\n", "    pub value: " ++ t.render ++ "\n"]
      else ["    #[yaserde(text = true)]\n", "    pub value: String\n"])
  ++ ["}\n"]
  ++ writeCheckHeader rustName r
  ++ ["     self.value.check_restrictions(restrictions)\n"]
  ++ writeCheckFooter

/-- the last `:`-separated segment of the rendered type equals the struct name: nothing is emitted -/
def aliasIsNoop (t : FType) (rustName : String) : Bool :=
  ((t.render.splitOn ":").getLast?.getD "") == rustName

/-- the type is a named type of a module other than `ownModule` -/
def inOtherModule (t : FType) (ownModule : Option String) : Bool :=
  match t with
  | .other _ (some m) => some m != ownModule
  | _ => false

/-- `write_simple_type` -/
def writeSimpleType (p : SProps) : Chunks :=
  let rustName := xmlNameToRustName p.xmlName
  if aliasIsNoop p.rustType rustName && !inOtherModule p.rustType (p.tns.map (·.rustModName)) then []
  else writeCommentLines p.comment ++ writeTypeAlias p.xmlName rustName p.rustType p.tns p.restrictions

/-- the namespaces a struct declares: its own, then those of its element members, by first use -/
def usedNamespaces (tns : Ns) (fields : List Field) : List Ns :=
  (fields.filter (fun f => !f.isAttribute)).foldl
    (fun acc f => match f.tns with
      | some ns => if acc.any (fun u => u.abbreviation == ns.abbreviation) then acc else acc ++ [ns]
      | none => acc) [tns]

/-- `write_complex_type`: doc comment, derive line, struct-level yaserde attribute, `pub struct X {` -/
def complexHead (p : CProps) : Chunks :=
  writeCommentLines p.comment
  ++ [deriveLine]
  ++ (match p.tns with
      | some tns =>
        let nss := ", ".intercalate ((usedNamespaces tns p.fields).map
          (fun ns => rustDebugStr ns.abbreviation ++ " = " ++ rustDebugStr ns.uri))
        ["#[yaserde(prefix = " ++ rustDebugStr tns.abbreviation ++ ", namespaces = {" ++ nss ++ "}, rename = "
          ++ rustDebugStr p.xmlName ++ ")]\n"]
      | none => [])
  ++ ["pub struct " ++ xmlNameToRustName p.xmlName ++ " {\n"]

/-- `write_complex_type`, up to and including the head of the `check_restrictions` impl -/
def complexPrefix (p : CProps) : Chunks :=
  complexHead p ++ p.fields.flatMap writeField ++ (["}\n"] ++ writeCheckHeader (xmlNameToRustName p.xmlName) none)

/-- the delegation of the check to every member, in order -/
def complexChecks (p : CProps) : Chunks :=
  p.fields.map (fun f => "     self." ++ f.rustName ++ ".check_restrictions(restrictions.clone())?;\n")

def complexSuffix : Chunks := ["    drop(restrictions);\n", "    Ok(())\n"] ++ writeCheckFooter

/-- `write_complex_type` -/
def writeComplexType (p : CProps) : Chunks := complexPrefix p ++ complexChecks p ++ complexSuffix

/-- `impl WriteXml for RustType` / `RustNode` -/
def writeNode (n : RNode) : Chunks :=
  match n.rtype with
  | .ignore => []
  | .element { xmlName := xn, etype := .rustType (.other name (some m)) } =>
    -- node.rs: the alias to a same-named type of another namespace's module is emitted
    let rustName := xmlNameToRustName xn
    if name == rustName && some m != n.inNs.map (·.rustModName) then
      ["pub type " ++ rustName ++ " = " ++ (FType.other name (some m)).render ++ ";\n"]
    else if aliasIsNoop (.other name (some m)) rustName then []
    else ["pub type " ++ rustName ++ " = " ++ (FType.other name (some m)).render ++ ";\n"]
  | .complex p => writeComplexType p
  | .simple p => writeSimpleType p
  | .element p =>
    let rustName := xmlNameToRustName p.xmlName
    match p.etype with
    | .rustType t => if aliasIsNoop t rustName then [] else ["pub type " ++ rustName ++ " = " ++ t.render ++ ";\n"]
    | .complex cp => writeComplexType cp
    | .unsupported => []

/-- binding/writer.rs `write_soap_operation`; `none` = the `NodeNotFound` error of a part bound to an ignored node -/
def writeSoapOperation (envelopeName : String) (env : Envelope) (tns : List Ns) : Except Err Chunks := do
  let xmlns : List (String × String) := ("soapenv", "http://schemas.xmlsoap.org/soap/envelope/") :: tns.map (fun n => (n.abbreviation, n.uri))
  let namespaces := ", ".intercalate (xmlns.map (fun (k, v) => rustDebugStr k ++ " = " ++ rustDebugStr v))
  let nsHeader := "namespaces = { " ++ namespaces ++ " }"
  let mut out : Chunks := []
  if !env.headers.isEmpty then
    let rustName := envelopeName ++ "Header"
    out := out ++ [deriveLine, "#[yaserde(prefix = \"soapenv\", " ++ nsHeader ++ ")]\n", "pub struct " ++ rustName ++ " {\n"]
    for (partName, header) in env.headers do
      let fieldName := asFieldName partName
      let some xmlName := header.rtype.xmlName | throw Err.nodeNotFound
      let rustType := xmlNameToRustName xmlName
      match header.inNs with
      | some ns =>
        out := out ++ ["#[yaserde(prefix = " ++ rustDebugStr ns.abbreviation ++ ", rename = " ++ rustDebugStr xmlName ++ ")]\n",
                       "    pub " ++ fieldName ++ ": Option<" ++ ns.rustModName ++ "::" ++ rustType ++ ">,\n"]
      | none =>
        out := out ++ ["    #[yaserde(rename = " ++ rustDebugStr xmlName ++ ")]\n",
                       "    pub " ++ fieldName ++ ": Option<" ++ rustType ++ ">,\n"]
    out := out ++ ["}\n"] ++ writeCheckHeader rustName none
    for (partName, _) in env.headers do
      out := out ++ ["     self." ++ asFieldName partName ++ ".check_restrictions(restrictions.clone())?;\n"]
    out := out ++ ["    Ok(())\n"] ++ writeCheckFooter
  let some body := env.body.rtype.xmlName | throw Err.nodeNotFound
  let bodyFieldName := asFieldName (toSnakeCase body)
  let xmlName := body
  let bodyTy := xmlNameToRustName body
  out := out ++ [deriveLine]
  match env.body.inNs with
  | some ns => out := out ++ ["#[yaserde(prefix = " ++ rustDebugStr ns.abbreviation ++ ", " ++ nsHeader ++ ")]\n"]
  | none => out := out ++ ["#[yaserde(rename = \"Envelope\", " ++ nsHeader ++ ")]\n"]
  let rustName := envelopeName ++ "Body"
  out := out ++ ["pub struct " ++ rustName ++ " {\n"]
  match env.body.inNs with
  | some ns =>
    out := out ++ ["    #[yaserde(prefix = " ++ rustDebugStr ns.abbreviation ++ ", rename = " ++ rustDebugStr xmlName ++ ")]\n",
                   "    pub " ++ bodyFieldName ++ ": " ++ ns.rustModName ++ "::" ++ bodyTy ++ ",\n"]
  | none =>
    out := out ++ ["    #[yaserde(rename = " ++ rustDebugStr xmlName ++ ")]\n",
                   "    pub " ++ bodyFieldName ++ ": " ++ bodyTy ++ ",\n"]
  out := out ++ ["}\n"] ++ writeCheckHeader rustName none
    ++ ["     self." ++ bodyFieldName ++ ".check_restrictions(restrictions)\n"] ++ writeCheckFooter
  out := out ++ [deriveLine, "#[yaserde(prefix = \"soapenv\", rename = \"Envelope\", " ++ nsHeader ++ ")]\n",
                 "pub struct " ++ envelopeName ++ " {\n"]
  if !env.headers.isEmpty then
    out := out ++ ["    #[yaserde(prefix = \"soapenv\", rename = \"Header\")]\n", "    pub header: " ++ envelopeName ++ "Header,\n"]
  out := out ++ ["    #[yaserde(prefix = \"soapenv\", rename = \"Body\")]\n", "    pub body: " ++ envelopeName ++ "Body,\n", "}\n"]
    ++ writeCheckHeader envelopeName none
  if !env.headers.isEmpty then
    out := out ++ ["     self.header.check_restrictions(restrictions.clone())?;\n"]
  out := out ++ ["     self.body.check_restrictions(restrictions)\n"] ++ writeCheckFooter
  pure out

/-- binding/writer.rs `write_soap_action` -/
def writeSoapAction (operationName : String) (op : BindOp) (action : String) : Chunks :=
  let fnName := asFieldName operationName
  let req := operationName ++ "InputEnvelope"
  [ (match op.output with
     | some _ => "pub async fn " ++ fnName ++ "(req: " ++ req ++ ", credentials: Option<(String, String)>) -> error::SoapResult<" ++ operationName ++ "OutputEnvelope> {\n"
     | none => "pub async fn " ++ fnName ++ "(req: " ++ req ++ ", credentials: Option<(String, String)>) -> error::SoapResult<()> {\n"),
    "    let url = " ++ rustDebugStr action ++ ";\n",
    (match op.output with
     | some _ => "    helpers::send_soap_request(url, credentials, req).await\n"
     | none => "    helpers::send_soap_request::<_, helpers::NoResponse, _, _>(url, credentials, req).await.map(|_| ())\n"),
    "}\n" ]

/-- `impl WriteXml for SoapBinding` -/
def writeBinding (b : Binding) : Except Err Chunks := do
  let mut out : Chunks := []
  for (opName, op) in b.ops do
    out := out ++ ["\n/* " ++ String.ofList (Text.commentText opName.toList) ++ " */\n\n"]
    let pascal := xmlNameToRustName opName
    out := out ++ (← writeSoapOperation (pascal ++ "InputEnvelope") op.input b.tns)
    if let some o := op.output then
      out := out ++ (← writeSoapOperation (pascal ++ "OutputEnvelope") o b.tns)
    if let some a := op.action then
      out := out ++ writeSoapAction pascal op a
  pure out

/-- service.rs `write_async_soap_call` -/
def writeAsyncSoapCall (opName : String) (op : BindOp) : Chunks :=
  let fnName := asFieldName opName
  let pascal := xmlNameToRustName opName
  let req := pascal ++ "InputEnvelope"
  [ (match op.output with
     | some _ => "pub async fn " ++ fnName ++ "(&self, req: " ++ req ++ ") -> error::SoapResult<" ++ pascal ++ "OutputEnvelope> {\n"
     | none => "pub async fn " ++ fnName ++ "(&self, req: " ++ req ++ ") -> error::SoapResult<()> {\n"),
    "    let credentials = self.credentials.as_ref().map(|(u, p)| (u.as_str(), p.as_str()));\n",
    (match op.output with
     | some _ => "    helpers::send_soap_request_using_client(&self.client, &self.location, credentials, req).await\n"
     | none => "    helpers::send_soap_request_using_client::<_, helpers::NoResponse, _, _>(&self.client, &self.location, credentials, req).await.map(|_| ())\n"),
    "}\n" ]

/-- `impl WriteXml for SoapService` -/
def writeService (s : Service) : Chunks :=
  let name := xmlNameToRustName s.name
  [ "pub struct " ++ name ++ " {\n", "    pub client: reqwest::Client,\n", "    pub location: String,\n",
    "    pub credentials: Option<(String, String)>,\n", "}\n",
    "impl " ++ name ++ " {\n", "    pub fn new(credentials: Option<(String, String)>) -> Self {\n", "        Self {\n",
    "            client: reqwest::Client::new(),\n", "            location: " ++ rustDebugStr s.location ++ ".to_string(),\n",
    "            credentials,\n", "        }\n", "    }\n" ]
  ++ s.binding.ops.flatMap (fun (n, op) => writeAsyncSoapCall n op)
  ++ ["}\n"]

/-- `impl WriteXml for RustDocument` -/
def writeDoc (d : Doc) : Except Err Chunks := do
  let mut out : Chunks := [Tables.headerText]
  for ns in d.targetNamespaces do
    out := out ++ ["pub mod " ++ ns.rustModName ++ " {\n", "    use super::*;\n", "    use restrictions::CheckRestrictions;\n"]
    out := out ++ (d.nodes.filter (fun n => n.inNs == some ns)).flatMap writeNode
    out := out ++ ["}\n"]
  out := out ++ (d.nodes.filter (fun n => n.inNs.isNone)).flatMap writeNode
  for b in d.bindings do
    out := out ++ (← writeBinding b)
  for s in d.services do
    out := out ++ writeService s
  pure (out ++ [Tables.helpersText])

end ZeepVerif.Model
