/-
Model of `zeep/src/main.rs` (C17): an interpreter of the effect list the translator extracts, over an
abstract file system that holds only what matters here — the bytes at the output path.
`File::create` truncates (or creates); a failed `expect` aborts the process with a non-zero status and
leaves the file system as it is at that moment.
-/
import ZeepVerif.Generated.Cli

namespace ZeepVerif.Model.Cli

inductive Step where
  | readInput | readXml | writeXmlMemory | writeXmlFile | create | writeAllFileFromMemory | abortOnError
  | withExtensionRs | other (s : String)
deriving Repr, DecidableEq, Inhabited

def parseStep : String → Step
  | "read_input" => .readInput
  | "read_xml" => .readXml
  | "write_xml:memory" => .writeXmlMemory
  | "write_xml:file" => .writeXmlFile
  | "create" => .create
  | "write_all:file:memory" => .writeAllFileFromMemory
  | "abort-on-error" => .abortOnError
  | "with_extension:\"rs\"" => .withExtensionRs
  | s => .other s

/-- what the environment decides: whether the input can be read, whether reading and writing the
    document succeed, whether the output file can be created and written; `text` is what the library emits -/
structure Env where
  inputOk : Bool
  readOk : Bool
  writeOk : Bool
  createOk : Bool
  fileWriteOk : Bool
  text : List Char
deriving Repr, Inhabited

structure St where
  out : Option (List Char)          -- bytes at the output path (none = no such file)
  memory : List Char := []
  fileOpen : Bool := false
  failed : Bool := false            -- the last fallible call returned Err (waiting for its expect)
  failedAt : String := ""
deriving Repr, Inhabited

inductive Exit where
  | success | failure (stage : String) | unmodelled
deriving Repr, DecidableEq, Inhabited

def run (env : Env) : List Step → St → Exit × St
  | [], st => (.success, st)
  | s :: rest, st =>
    match s with
    | .readInput => run env rest { st with failed := !env.inputOk, failedAt := "read-input" }
    | .readXml => run env rest { st with failed := !env.readOk, failedAt := "generate" }
    | .writeXmlMemory =>
      if env.writeOk then run env rest { st with memory := env.text, failed := false }
      else run env rest { st with failed := true, failedAt := "generate" }
    | .writeXmlFile =>
      -- the old shape: the document is written straight into the (already truncated) file
      if !st.fileOpen then (.unmodelled, st)
      else if env.writeOk && env.fileWriteOk then run env rest { st with out := some ((st.out.getD []) ++ env.text), failed := false }
      else run env rest { st with failed := true, failedAt := if env.writeOk then "write-output" else "generate" }
    | .create =>
      if env.createOk then run env rest { st with out := some [], fileOpen := true, failed := false }
      else run env rest { st with failed := true, failedAt := "create-output" }
    | .writeAllFileFromMemory =>
      if !st.fileOpen then (.unmodelled, st)
      else if env.fileWriteOk then run env rest { st with out := some ((st.out.getD []) ++ st.memory), failed := false }
      else run env rest { st with failed := true, failedAt := "write-output" }
    | .abortOnError => if st.failed then (.failure st.failedAt, st) else run env rest st
    | .withExtensionRs => run env rest st
    | .other _ => (.unmodelled, st)

def cliSteps : List Step := Generated.Cli.cliSteps.map parseStep

/-- one run of the tool with `old` at the output path -/
def main (env : Env) (old : Option (List Char)) : Exit × St := run env cliSteps { out := old }

end ZeepVerif.Model.Cli
