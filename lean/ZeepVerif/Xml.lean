/-
XML trees as the generator sees them through roxmltree 0.20 (parsing itself is not modelled: the
harness parses with the same crate and dumps the tree; see harness/zv/src/dump.rs for the format).
-/
import ZeepVerif.Driver.Util

namespace ZeepVerif

structure XAttr where
  name : String
  ns : Option String := none
  value : String
deriving Repr, DecidableEq, Inhabited

/-- `elem tag attrs nsInScope text kids`: `text` is roxmltree's `Node::text()` of the element (the text of
    its first child when that is a text node); `nsInScope` is `Node::namespaces()` in its order.
    `other` is any non-element node (text, comment, processing instruction). -/
inductive XNode where
  | elem (tag : String) (attrs : List XAttr) (nss : List (Option String × String)) (text : Option String)
      (kids : List XNode)
  | other
deriving Repr, Inhabited

namespace XNode

def isElem : XNode → Bool
  | elem .. => true
  | other => false

def tag : XNode → String
  | elem t .. => t
  | other => ""

def attrs : XNode → List XAttr
  | elem _ a .. => a
  | other => []

def nss : XNode → List (Option String × String)
  | elem _ _ n .. => n
  | other => []

def text : XNode → Option String
  | elem _ _ _ t _ => t
  | other => none

def kids : XNode → List XNode
  | elem _ _ _ _ k => k
  | other => []

/-- `Node::attribute(name)`: the attribute with that local name and no namespace -/
def attr? (n : XNode) (name : String) : Option String :=
  (n.attrs.find? (fun a => a.name == name && a.ns.isNone)).map (·.value)

def elemKids (n : XNode) : List XNode := n.kids.filter isElem

end XNode

mutual
/-- what the reader's traversal can see of a tree: tags, no-namespace attributes in order, children
    (non-element nodes as `_`); in-scope namespaces and text are left out -/
partial def XNode.shape : XNode → String
  | .elem t attrs _ _ kids =>
    t ++ "[" ++ ",".intercalate ((attrs.filter (·.ns.isNone)).map (fun a => a.name ++ "=" ++ a.value)) ++ "](" ++ XNode.shapes kids ++ ")"
  | .other => "_"
partial def XNode.shapes : List XNode → String
  | [] => ""
  | k :: ks => k.shape ++ ";" ++ XNode.shapes ks
end

/-- one input file: its top-level nodes (children of roxmltree's root), or a parse failure; plus the
    `reqwest::Url` oracle table for the `location`/`soapAction` values occurring in it -/
structure XFile where
  name : String
  tops : Option (List XNode)    -- none = does not parse
  urls : List (String × Option String) := []
deriving Repr, Inhabited

/-! ### reader of the dump format -/

namespace Dump
open ZeepVerif.Driver

/-- `=hex` → some (decoded), `-` → none -/
def optHex (s : String) : Option (Option String) :=
  if s = "-" then some none
  else if s.startsWith "=" then (unhex? (s.drop 1).toString).map some
  else none

def reqHex (s : String) : Option String :=
  if s.startsWith "=" then unhex? (s.drop 1).toString else unhex? s

inductive Line where
  | file (name : String)
  | parseErr
  | elem (depth : Nat) (tag : String) (text : Option String)
  | attr (a : XAttr)
  | ns (p : Option String) (uri : String)
  | other (depth : Nat)
  | url (raw : String) (norm : Option String)
  | endFile
  | bad
deriving Inhabited

def parseLine (l : String) : Line :=
  match (l.trimAscii.toString.splitOn " ") with
  | ["F", n] => match reqHex n with | some n => .file n | none => .bad
  | ["P"] => .parseErr
  | ["E", d, t, tx] =>
    match d.toNat?, unhex? t, optHex tx with
    | some d, some t, some tx => .elem d t tx
    | _, _, _ => .bad
  | ["A", n, ns, v] =>
    match unhex? n, optHex ns, reqHex v with
    | some n, some ns, some v => .attr { name := n, ns := ns, value := v }
    | _, _, _ => .bad
  | ["N", p, u] =>
    match optHex p, reqHex u with
    | some p, some u => .ns p u
    | _, _ => .bad
  | ["O", d, _] => match d.toNat? with | some d => .other d | none => .bad
  | ["U", r, n] =>
    match reqHex r with
    | some r => if n = "!" then .url r none else match reqHex n with | some n => .url r (some n) | none => .bad
    | none => .bad
  | ["X"] => .endFile
  | _ => .bad

/-- a node under construction: its header and the children collected so far (reversed) -/
structure Open where
  depth : Nat
  tag : String
  attrs : List XAttr   -- reversed
  nss : List (Option String × String)   -- reversed
  text : Option String
  kids : List XNode    -- reversed

def Open.close (o : Open) : XNode :=
  .elem o.tag o.attrs.reverse o.nss.reverse o.text o.kids.reverse

structure St where
  files : List XFile := []      -- reversed
  name : String := ""
  parseErr : Bool := false
  stack : List Open := []       -- innermost first
  tops : List XNode := []       -- reversed
  urls : List (String × Option String) := []
  bad : Nat := 0

/-- close open elements until the innermost open one has depth < d -/
partial def closeTo (st : St) (d : Nat) : St :=
  match st.stack with
  | [] => st
  | o :: rest =>
    if o.depth < d then st
    else
      let n := o.close
      match rest with
      | [] => closeTo { st with stack := [], tops := n :: st.tops } d
      | p :: rest' => closeTo { st with stack := { p with kids := n :: p.kids } :: rest' } d

def addNode (st : St) (n : XNode) : St :=
  match st.stack with
  | [] => { st with tops := n :: st.tops }
  | p :: rest => { st with stack := { p with kids := n :: p.kids } :: rest }

def step (st : St) (l : String) : St :=
  match parseLine l with
  | .file n => { st with name := n, parseErr := false, stack := [], tops := [], urls := [] }
  | .parseErr => { st with parseErr := true }
  | .elem d t tx =>
    let st := closeTo st d
    { st with stack := { depth := d, tag := t, attrs := [], nss := [], text := tx, kids := [] } :: st.stack }
  | .attr a =>
    match st.stack with
    | o :: rest => { st with stack := { o with attrs := a :: o.attrs } :: rest }
    | [] => { st with bad := st.bad + 1 }
  | .ns p u =>
    match st.stack with
    | o :: rest => { st with stack := { o with nss := (p, u) :: o.nss } :: rest }
    | [] => { st with bad := st.bad + 1 }
  | .other d =>
    let st := closeTo st d
    addNode st .other
  | .url r n => { (closeTo st 0) with urls := (r, n) :: st.urls }
  | .endFile =>
    let st := closeTo st 0
    let f : XFile := { name := st.name, tops := if st.parseErr then none else some st.tops.reverse,
                       urls := st.urls.reverse }
    { st with files := f :: st.files, stack := [], tops := [], urls := [] }
  | .bad => if l.trimAscii.toString.isEmpty then st else { st with bad := st.bad + 1 }

def parse (content : String) : List XFile × Nat :=
  let st := (content.splitOn "\n").foldl step {}
  (st.files.reverse, st.bad)

end Dump

end ZeepVerif
