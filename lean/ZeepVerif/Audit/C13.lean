import ZeepVerif.Props.C13
import ZeepVerif.AuditLib
#eval ZeepVerif.audit `ZeepVerif.Props.C13
