import ZeepVerif.Props.C16
import ZeepVerif.AuditLib
#eval ZeepVerif.audit `ZeepVerif.Props.C16
