import ZeepVerif.Props.C03Ya
import ZeepVerif.AuditLib
#eval ZeepVerif.audit `ZeepVerif.Props.C03Ya
