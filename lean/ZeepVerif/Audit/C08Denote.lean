import ZeepVerif.Props.C08Denote
import ZeepVerif.AuditLib
#eval ZeepVerif.audit `ZeepVerif.Props.C08Denote
