import ZeepVerif.Props.C11
import ZeepVerif.AuditLib
#eval ZeepVerif.audit `ZeepVerif.Props.C11
