import ZeepVerif.Props.C09All
import ZeepVerif.AuditLib
#eval ZeepVerif.audit `ZeepVerif.Props.C09All
