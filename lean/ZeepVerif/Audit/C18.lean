import ZeepVerif.Props.C18
import ZeepVerif.AuditLib
#eval ZeepVerif.audit `ZeepVerif.Props.C18
