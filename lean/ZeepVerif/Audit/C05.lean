import ZeepVerif.Props.C05
import ZeepVerif.AuditLib
#eval ZeepVerif.audit `ZeepVerif.Props.C05
