import ZeepVerif.Props.C10Graph
import ZeepVerif.AuditLib
#eval ZeepVerif.audit `ZeepVerif.Props.C10Graph
