import ZeepVerif.Props.C02Field
import ZeepVerif.AuditLib
#eval ZeepVerif.audit `ZeepVerif.Props.C02Field
