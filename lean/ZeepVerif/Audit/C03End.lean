import ZeepVerif.Props.C03End
import ZeepVerif.AuditLib
#eval ZeepVerif.audit `ZeepVerif.Props.C03End
