import ZeepVerif.Props.C09
import ZeepVerif.AuditLib
#eval ZeepVerif.audit `ZeepVerif.Props.C09
