import ZeepVerif.Props.C11All
import ZeepVerif.AuditLib
#eval ZeepVerif.audit `ZeepVerif.Props.C11All
