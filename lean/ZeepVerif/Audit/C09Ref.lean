import ZeepVerif.Props.C09Ref
import ZeepVerif.AuditLib
#eval ZeepVerif.audit `ZeepVerif.Props.C09Ref
