import ZeepVerif.Props.C12
import ZeepVerif.AuditLib
#eval ZeepVerif.audit `ZeepVerif.Props.C12
