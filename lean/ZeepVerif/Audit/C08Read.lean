import ZeepVerif.Props.C08Read
import ZeepVerif.AuditLib
#eval ZeepVerif.audit `ZeepVerif.Props.C08Read
