import ZeepVerif.Props.C15
import ZeepVerif.AuditLib
#eval ZeepVerif.audit `ZeepVerif.Props.C15
