import ZeepVerif.Props.C09Denote
import ZeepVerif.AuditLib
#eval ZeepVerif.audit `ZeepVerif.Props.C09Denote
