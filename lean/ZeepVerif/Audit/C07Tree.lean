import ZeepVerif.Props.C07Tree
import ZeepVerif.AuditLib
#eval ZeepVerif.audit `ZeepVerif.Props.C07Tree
