import ZeepVerif.Props.DocAll
import ZeepVerif.AuditLib
#eval ZeepVerif.audit `ZeepVerif.Props.DocAll
