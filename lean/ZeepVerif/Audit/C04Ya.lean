import ZeepVerif.Props.C04Ya
import ZeepVerif.AuditLib
#eval ZeepVerif.audit `ZeepVerif.Props.C04Ya
