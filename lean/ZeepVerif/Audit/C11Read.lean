import ZeepVerif.Props.C11Read
import ZeepVerif.AuditLib
#eval ZeepVerif.audit `ZeepVerif.Props.C11Read
