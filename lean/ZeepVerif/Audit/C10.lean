import ZeepVerif.Props.C10
import ZeepVerif.AuditLib
#eval ZeepVerif.audit `ZeepVerif.Props.C10
