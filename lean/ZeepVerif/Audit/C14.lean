import ZeepVerif.Props.C14
import ZeepVerif.AuditLib
#eval ZeepVerif.audit `ZeepVerif.Props.C14
