import ZeepVerif.Props.C03
import ZeepVerif.AuditLib
#eval ZeepVerif.audit `ZeepVerif.Props.C03
