import ZeepVerif.Props.C08All
import ZeepVerif.AuditLib
#eval ZeepVerif.audit `ZeepVerif.Props.C08All
