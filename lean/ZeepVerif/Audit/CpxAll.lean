import ZeepVerif.Props.CpxAll
import ZeepVerif.AuditLib
#eval ZeepVerif.audit `ZeepVerif.Props.CpxAll
