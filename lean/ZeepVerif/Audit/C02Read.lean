import ZeepVerif.Props.C02Read
import ZeepVerif.AuditLib
#eval ZeepVerif.audit `ZeepVerif.Props.C02Read
