import ZeepVerif.Props.C02
import ZeepVerif.AuditLib
#eval ZeepVerif.audit `ZeepVerif.Props.C02
