import ZeepVerif.Props.C01
import ZeepVerif.AuditLib
#eval ZeepVerif.audit `ZeepVerif.Props.C01
