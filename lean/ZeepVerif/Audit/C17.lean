import ZeepVerif.Props.C17
import ZeepVerif.AuditLib
#eval ZeepVerif.audit `ZeepVerif.Props.C17
