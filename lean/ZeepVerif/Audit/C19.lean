import ZeepVerif.Props.C19
import ZeepVerif.AuditLib
#eval ZeepVerif.audit `ZeepVerif.Props.C19
