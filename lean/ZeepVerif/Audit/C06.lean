import ZeepVerif.Props.C06
import ZeepVerif.AuditLib
#eval ZeepVerif.audit `ZeepVerif.Props.C06
