import ZeepVerif.Props.C02All
import ZeepVerif.AuditLib
#eval ZeepVerif.audit `ZeepVerif.Props.C02All
