import ZeepVerif.Props.C10All
import ZeepVerif.AuditLib
#eval ZeepVerif.audit `ZeepVerif.Props.C10All
