import ZeepVerif.Props.C10Read
import ZeepVerif.AuditLib
#eval ZeepVerif.audit `ZeepVerif.Props.C10Read
