import ZeepVerif.Props.C09Read
import ZeepVerif.AuditLib
#eval ZeepVerif.audit `ZeepVerif.Props.C09Read
