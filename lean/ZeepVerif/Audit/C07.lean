import ZeepVerif.Props.C07
import ZeepVerif.AuditLib
#eval ZeepVerif.audit `ZeepVerif.Props.C07
