import ZeepVerif.Props.C13All
import ZeepVerif.AuditLib
#eval ZeepVerif.audit `ZeepVerif.Props.C13All
