import ZeepVerif.Props.C05All
import ZeepVerif.AuditLib
#eval ZeepVerif.audit `ZeepVerif.Props.C05All
