import ZeepVerif.Props.C08
import ZeepVerif.AuditLib
#eval ZeepVerif.audit `ZeepVerif.Props.C08
