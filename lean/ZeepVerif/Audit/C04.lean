import ZeepVerif.Props.C04
import ZeepVerif.AuditLib
#eval ZeepVerif.audit `ZeepVerif.Props.C04
