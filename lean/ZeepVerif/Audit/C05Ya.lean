import ZeepVerif.Props.C05Ya
import ZeepVerif.AuditLib
#eval ZeepVerif.audit `ZeepVerif.Props.C05Ya
