/-
The part of the Rust reference's lexical grammar the properties need (ASCII subset): identifiers, raw
identifiers, the keyword lists of edition 2024. Non-ASCII identifier characters are not accepted here
(conservative: the theorems then say less, never more).
-/
import ZeepVerif.Inflector

namespace ZeepVerif.RustLex
open ZeepVerif.Inflector

def strictKeywords : List String := [
  "as", "break", "const", "continue", "crate", "else", "enum", "extern", "false", "fn", "for", "if", "impl", "in",
  "let", "loop", "match", "mod", "move", "mut", "pub", "ref", "return", "self", "Self", "static", "struct", "super",
  "trait", "true", "type", "unsafe", "use", "where", "while", "async", "await", "dyn"]

def reservedKeywords : List String := [
  "abstract", "become", "box", "do", "final", "macro", "override", "priv", "typeof", "unsized", "virtual", "yield", "try", "gen"]

def keywords : List String := strictKeywords ++ reservedKeywords

/-- keywords that cannot be written as raw identifiers -/
def notRawable : List String := ["crate", "self", "super", "Self", "_"]

def isIdentStart (c : Char) : Bool := isLowerA c || isUpperA c || c == '_'
def isIdentCont (c : Char) : Bool := isIdentStart c || isDigitA c

/-- `IDENTIFIER_OR_KEYWORD` (ASCII): XID_Start XID_Continue* | `_` XID_Continue+ -/
def isIdentOrKeywordChars : List Char → Bool
  | [] => false
  | ['_'] => false
  | c :: cs => isIdentStart c && cs.all isIdentCont

/-- a legal identifier token in item/field/function position: a non-keyword plain identifier, or a raw
    identifier `r#x` with `x` not one of crate/self/super/Self/_ -/
def isIdentChars (cs : List Char) : Bool :=
  match cs with
  | 'r' :: '#' :: rest => isIdentOrKeywordChars rest && !(notRawable.contains (String.ofList rest))
  | _ => isIdentOrKeywordChars cs && !(keywords.contains (String.ofList cs))

def isIdent (s : String) : Bool := isIdentChars s.toList

end ZeepVerif.RustLex
