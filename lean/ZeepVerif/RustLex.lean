/-
The part of the Rust reference's lexical grammar the properties need (ASCII subset): identifiers, raw
identifiers, the keyword lists of edition 2024. Non-ASCII identifier characters are not accepted here
(conservative: the theorems then say less, never more).
-/
import ZeepVerif.Inflector

namespace ZeepVerif.RustLex
open ZeepVerif.Inflector

def strictKeywords : List String := [
  "as", "break", "const", "continue", "crate", "else", "enum", "extern", "false", "fn", "for", "if", "impl", "in",
  "let", "loop", "match", "mod", "move", "mut", "pub", "ref", "return", "self", "Self", "static", "struct", "super",
  "trait", "true", "type", "unsafe", "use", "where", "while", "async", "await", "dyn"]

def reservedKeywords : List String := [
  "abstract", "become", "box", "do", "final", "macro", "override", "priv", "typeof", "unsized", "virtual", "yield", "try", "gen"]

def keywords : List String := strictKeywords ++ reservedKeywords

/-- keywords that cannot be written as raw identifiers -/
def notRawable : List String := ["crate", "self", "super", "Self", "_"]

def isIdentStart (c : Char) : Bool := isLowerA c || isUpperA c || c == '_'
def isIdentCont (c : Char) : Bool := isIdentStart c || isDigitA c

/-- `IDENTIFIER_OR_KEYWORD` (ASCII): XID_Start XID_Continue* | `_` XID_Continue+ -/
def isIdentOrKeywordChars : List Char → Bool
  | [] => false
  | ['_'] => false
  | c :: cs => isIdentStart c && cs.all isIdentCont

/-- a legal identifier token in item/field/function position: a non-keyword plain identifier, or a raw
    identifier `r#x` with `x` not one of crate/self/super/Self/_ -/
def isIdentChars (cs : List Char) : Bool :=
  match cs with
  | 'r' :: '#' :: rest => isIdentOrKeywordChars rest && !(notRawable.contains (String.ofList rest))
  | _ => isIdentOrKeywordChars cs && !(keywords.contains (String.ofList cs))

def isIdent (s : String) : Bool := isIdentChars s.toList

end ZeepVerif.RustLex

namespace ZeepVerif.RustLex

/-! ### literals and comments (Rust reference: string literals, line and block comments) -/

def hexVal? (c : Char) : Option Nat :=
  if '0' ≤ c ∧ c ≤ '9' then some (c.toNat - '0'.toNat)
  else if 'a' ≤ c ∧ c ≤ 'f' then some (c.toNat - 'a'.toNat + 10)
  else if 'A' ≤ c ∧ c ≤ 'F' then some (c.toNat - 'A'.toNat + 10)
  else none

inductive StrMode where
  | norm                          -- inside the literal
  | esc                           -- after a backslash
  | uOpen                         -- after `\u`
  | hex (value digits : Nat)      -- inside `\u{…}`

/-- lexer of the body of a (non-raw) string literal, positioned after the opening quote: the literal's
    value and the input after the closing quote, or `none` when the text is not one well-formed literal
    (unknown escape, bare CR, bad `\u{…}`, no closing quote) -/
def lexStrBody : StrMode → List Char → List Char → Option (List Char × List Char)
  | _, _, [] => none
  | .norm, acc, c :: rest =>
    if c = '"' then some (acc.reverse, rest)
    else if c = '\\' then lexStrBody .esc acc rest
    else if c = '\r' then none
    else lexStrBody .norm (c :: acc) rest
  | .esc, acc, c :: rest =>
    if c = 'n' then lexStrBody .norm ('\n' :: acc) rest
    else if c = 'r' then lexStrBody .norm ('\r' :: acc) rest
    else if c = 't' then lexStrBody .norm ('\t' :: acc) rest
    else if c = '0' then lexStrBody .norm ('\x00' :: acc) rest
    else if c = '\\' then lexStrBody .norm ('\\' :: acc) rest
    else if c = '"' then lexStrBody .norm ('"' :: acc) rest
    else if c = '\'' then lexStrBody .norm ('\'' :: acc) rest
    else if c = 'u' then lexStrBody .uOpen acc rest
    else none
  | .uOpen, acc, c :: rest => if c = '{' then lexStrBody (.hex 0 0) acc rest else none
  | .hex v n, acc, c :: rest =>
    if c = '}' then
      if n = 0 ∨ 6 < n ∨ ¬ v.isValidChar then none else lexStrBody .norm (Char.ofNat v :: acc) rest
    else match hexVal? c with
      | some d => lexStrBody (.hex (16 * v + d) (n + 1)) acc rest
      | none => none

/-- a string literal token at the head of the input: its value and what follows it -/
def lexStrLit : List Char → Option (List Char × List Char)
  | '"' :: rest => lexStrBody .norm [] rest
  | _ => none

/-- a line comment at the head of the input (`//` up to, not including, the newline): its text and what
    follows; a bare CR inside is an error for doc comments -/
def lexLineComment : List Char → Option (List Char × List Char)
  | '/' :: '/' :: rest =>
    let body := rest.takeWhile (· ≠ '\n')
    if body.contains '\r' then none else some (body, rest.dropWhile (· ≠ '\n'))
  | _ => none

/-- inside a block comment at nesting depth `d + 1`: the input after the comment is closed -/
def lexBlockBody : Nat → List Char → Option (List Char)
  | d, '*' :: '/' :: rest => match d with
    | 0 => some rest
    | d + 1 => lexBlockBody d rest
  | d, '/' :: '*' :: rest => lexBlockBody (d + 1) rest
  | d, _ :: rest => lexBlockBody d rest
  | _, [] => none

/-- a (nesting) block comment at the head of the input: what follows it -/
def lexBlockComment : List Char → Option (List Char)
  | '/' :: '*' :: rest => lexBlockBody 0 rest
  | _ => none

end ZeepVerif.RustLex
