/-
C10 — namespace → prefix/module assignment is injective and stable within one output.
Theorems about the model's namespace bookkeeping (doc.rs): the abbreviation loop always yields an
abbreviation nobody has, and the invariant "one abbreviation ↔ one URI" survives every operation that
touches the tables — including the merge of an imported document, which starts from its importer's tables.
-/
import ZeepVerif.Lemmas.Abbrev

namespace ZeepVerif.Props.C10
open ZeepVerif ZeepVerif.Model

/-- a namespace created for `url` gets an abbreviation (hence a prefix and a module name) that no known
    namespace has — for every URI and every set of known namespaces (any number of collisions) -/
theorem c10_fresh (url : String) (existing : List Ns) :
    (mkNs url existing).abbreviation ∉ existing.map (·.abbreviation) ∧
    (mkNs url existing).uri = url ∧
    (mkNs url existing).rustModName = "mod_" ++ (mkNs url existing).abbreviation := by
  refine ⟨?_, rfl, rfl⟩
  have h1 := findFree_fresh (abbreviationBase url) (existing.map (·.abbreviation))
  have h2 := findFree_fresh (abbreviationBase "") (existing.map (·.abbreviation))
  show abbreviationForNewNamespace url existing ∉ _
  unfold abbreviationForNewNamespace
  by_cases hx : startsWithXml (makeAbbreviatedNamespace url existing) = true
  · simp only [hx, if_true]
    simpa [makeAbbreviatedNamespace] using h2
  · simp only [hx]
    simpa [makeAbbreviatedNamespace] using h1

/-- … and never one that begins with the reserved `xml`, when the fallback stem does not (it is `ns`) -/
theorem c10_not_reserved (url : String) (existing : List Ns)
    (h : startsWithXml (mkNs url existing).abbreviation = true) :
    startsWithXml (makeAbbreviatedNamespace "" existing) = true := by
  have h' : startsWithXml (abbreviationForNewNamespace url existing) = true := h
  unfold abbreviationForNewNamespace at h'
  by_cases hx : startsWithXml (makeAbbreviatedNamespace url existing) = true
  · simpa [hx] using h'
  · simp only [hx] at h'
    exact absurd h' hx

/-- the invariant of the namespace list: an abbreviation stands for one URI and a URI has one
    abbreviation (entries may repeat — `switch_to_target_namespace` pushes a known namespace again) -/
def NsInv (l : List Ns) : Prop :=
  ∀ a ∈ l, ∀ b ∈ l, (a.abbreviation = b.abbreviation → a = b) ∧ (a.uri = b.uri → a = b)

theorem nsInv_append_fresh {l : List Ns} {n : Ns} (h : NsInv l)
    (ha : n.abbreviation ∉ l.map (·.abbreviation)) (hu : ∀ x ∈ l, x.uri ≠ n.uri) : NsInv (l ++ [n]) := by
  intro a hal b hbl
  simp only [List.mem_append, List.mem_singleton] at hal hbl
  rcases hal with hal | rfl <;> rcases hbl with hbl | rfl
  · exact h a hal b hbl
  · refine ⟨fun e => absurd (by simpa [e] using List.mem_map_of_mem (f := (·.abbreviation)) hal) (by simpa [e] using ha), fun e => absurd e (hu a hal)⟩
  · refine ⟨fun e => absurd (by simpa [e] using List.mem_map_of_mem (f := (·.abbreviation)) hbl) (by simpa [← e] using ha), fun e => absurd e.symm (hu b hbl)⟩
  · exact ⟨fun _ => rfl, fun _ => rfl⟩

theorem nsInv_append_known {l : List Ns} {n : Ns} (h : NsInv l) (hn : n ∈ l) : NsInv (l ++ [n]) := by
  intro a hal b hbl
  have ha : a ∈ l := by simp only [List.mem_append, List.mem_singleton] at hal; rcases hal with h | rfl <;> assumption
  have hb : b ∈ l := by simp only [List.mem_append, List.mem_singleton] at hbl; rcases hbl with h | rfl <;> assumption
  exact h a ha b hb

theorem find_none_uri {l : List Ns} {url : String} (h : l.find? (fun ns => ns.uri == url) = none) :
    ∀ x ∈ l, x.uri ≠ url := by
  intro x hx e
  have := List.find?_eq_none.mp h x hx
  simp [e] at this

/-- `add_namespace_reference` keeps the invariant -/
theorem c10_add_preserves (d : Doc) (abbr url : String) (h : NsInv d.namespaces) :
    NsInv (d.addNamespaceReference abbr url).namespaces := by
  unfold Doc.addNamespaceReference
  split
  · exact h
  · split
    · exact h
    · split
      · exact h
      · split
        · exact h
        · rename_i hnone
          exact nsInv_append_fresh h (c10_fresh url d.namespaces).1 (fun x hx => by simpa [mkNs] using find_none_uri hnone x hx)

/-- `add_default_namespace` allocates nothing: the default namespace gets no abbreviation of its own -/
theorem c10_default_preserves (d : Doc) (url : String) :
    (d.addDefaultNamespace url).namespaces = d.namespaces := by
  unfold Doc.addDefaultNamespace
  split <;> rfl

/-- `switch_to_target_namespace` keeps the invariant (a new target namespace is abbreviated against
    *all* known namespaces) -/
theorem c10_switch_preserves (d : Doc) (ns : String) (h : NsInv d.namespaces) :
    NsInv (d.switchToTargetNamespace ns).namespaces := by
  unfold Doc.switchToTargetNamespace
  split
  · exact h
  · cases hf : d.namespaces.find? (fun n => n.uri == ns) with
    | some n => simpa using nsInv_append_known h (List.mem_of_find?_eq_some hf)
    | none => simpa using nsInv_append_fresh h (c10_fresh ns d.namespaces).1 (fun x hx => by simpa [mkNs] using find_none_uri hf x hx)

/-- collecting all xmlns declarations of a node keeps the invariant -/
theorem c10_collect_preserves (nss : List (Option String × String)) (d : Doc) (h : NsInv d.namespaces) :
    NsInv (d.collectNamespaces nss).namespaces := by
  unfold Doc.collectNamespaces
  induction nss generalizing d with
  | nil => simpa using h
  | cons pu rest ih =>
    simp only [List.foldl_cons]
    apply ih
    cases pu.1 with
    | none => rw [c10_default_preserves]; exact h
    | some a => exact c10_add_preserves d a pu.2 h

theorem extendNoDuplicates_subset (me other : List Ns) : ∀ x ∈ extendNoDuplicates me other, x ∈ me ∨ x ∈ other := by
  unfold extendNoDuplicates
  induction other generalizing me with
  | nil => intro x hx; exact Or.inl (by simpa using hx)
  | cons o rest ih =>
    intro x hx
    simp only [List.foldl_cons] at hx
    split at hx
    · rcases ih me x hx with h | h
      · exact Or.inl h
      · exact Or.inr (List.mem_cons_of_mem _ h)
    · rcases ih (me ++ [o]) x hx with h | h
      · simp only [List.mem_append, List.mem_singleton] at h
        rcases h with h | rfl
        · exact Or.inl h
        · exact Or.inr List.mem_cons_self
      · exact Or.inr (List.mem_cons_of_mem _ h)

/-- merging an imported document keeps the invariant, because the imported document was started from
    the importer's namespaces (`init_with_known_namespaces`): everything the importer knows is in it -/
theorem c10_extend_preserves (me other : Doc) (ho : NsInv other.namespaces)
    (hseed : ∀ x ∈ me.namespaces, x ∈ other.namespaces) : NsInv (me.extend other).namespaces := by
  intro a ha b hb
  have ha' : a ∈ other.namespaces := by
    rcases extendNoDuplicates_subset _ _ a (by simpa [Doc.extend] using ha) with h | h
    · exact hseed a h
    · exact h
  have hb' : b ∈ other.namespaces := by
    rcases extendNoDuplicates_subset _ _ b (by simpa [Doc.extend] using hb) with h | h
    · exact hseed b h
    · exact h
  exact ho a ha' b hb'

/-! non-vacuity -/
example : NsInv [⟨"u1", "typ", "mod_typ"⟩, ⟨"u2", "typ1", "mod_typ1"⟩, ⟨"u1", "typ", "mod_typ"⟩] := by
  intro a ha b hb
  simp at ha hb
  rcases ha with rfl | rfl | rfl <;> rcases hb with rfl | rfl | rfl <;> simp

end ZeepVerif.Props.C10
