/-
C09 — QName references resolve by namespace, independent of declaration order.
Theorems about the model's resolution machinery (doc.rs `namespace_lookup`, `find_node_by_xml_name`,
field.rs `as_rust_type`): a lookup returns only a component of the wanted name, namespace and kind; a
prefix binding, once made, is never changed — neither by a later declaration nor by merging an imported
file; a prefix bound to a schema namespace never denotes a builtin.
-/
import ZeepVerif.Lemmas.SplitType
import ZeepVerif.Model.Reader

namespace ZeepVerif.Props.C09
open ZeepVerif ZeepVerif.Model ZeepVerif.Generated

/-- whatever the order in which components were read: a successful lookup among the read nodes gives
    a component with exactly the wanted local name, namespace and kind -/
theorem c09_lookup_sound (d : Doc) (n : String) (ns : Option Ns) (k : Kind) (r : RNode)
    (h : lookupRead d n ns k = some r) :
    r.rtype.xmlName = some n ∧ r.inNs = ns ∧ k.matchesType r.rtype = true := by
  have := List.find?_some h
  simp only [Bool.and_eq_true, beq_iff_eq] at this
  exact ⟨this.1.1, this.1.2, this.2⟩

/-- and it finds one whenever one has been read (own nodes or the importer's) -/
theorem c09_lookup_complete (d : Doc) (n : String) (ns : Option Ns) (k : Kind) (r : RNode)
    (hr : r ∈ d.nodes ++ d.knownNodes) (h1 : r.rtype.xmlName = some n) (h2 : r.inNs = ns)
    (h3 : k.matchesType r.rtype = true) : (lookupRead d n ns k).isSome = true := by
  unfold lookupRead
  rw [List.find?_isSome]
  exact ⟨r, hr, by simp [h1, h2, h3]⟩

/-- a type is never taken for an element nor an element for a type -/
theorem c09_kinds_apart (p : EProps) (c : CProps) (s : SProps) :
    Kind.type.matchesType (.element p) = false ∧ Kind.element.matchesType (.complex c) = false ∧
    Kind.element.matchesType (.simple s) = false := by
  simp [Kind.matchesType]

theorem lookup_append (l : List (String × Ns)) (kv : String × Ns) (p : String) (n : Ns)
    (h : (l.find? (fun x => x.1 == p)).map (·.2) = some n) :
    ((l ++ [kv]).find? (fun x => x.1 == p)).map (·.2) = some n := by
  cases hf : l.find? (fun x => x.1 == p) with
  | none => simp [hf] at h
  | some v => simp [List.find?_append, hf] at h ⊢; exact h

theorem find_append_some {α} (l : List α) (x : α) (q : α → Bool) (n : α) (h : l.find? q = some n) :
    (l ++ [x]).find? q = some n := by
  simp [List.find?_append, h]

/-- a later xmlns declaration never changes what an already bound prefix (or the default namespace)
    means -/
theorem c09_add_keeps_bindings (d : Doc) (a u p : String) (n : Ns) (h : lookupNs d p = some n) :
    lookupNs (d.addNamespaceReference a u) p = some n := by
  unfold Doc.addNamespaceReference
  split
  · exact h
  · split
    · exact h
    · split
      · exact h
      · split
        · unfold lookupNs at h ⊢
          split
          · next hp => simpa [hp] using h
          · next hp => simp only [hp, if_false] at h; exact lookup_append _ _ _ _ h
        · unfold lookupNs at h ⊢
          split
          · next hp =>
            simp only [hp, if_true] at h
            cases hd : d.defaultNs with
            | none => simp [hd] at h
            | some u' =>
              simp only [hd, Option.bind_some] at h ⊢
              exact find_append_some _ _ _ _ h
          · next hp => simp only [hp, if_false] at h; exact lookup_append _ _ _ _ h

/-- the first default-namespace declaration of a file stands; a later one changes nothing that resolved -/
theorem c09_default_keeps_bindings (d : Doc) (u p : String) (n : Ns) (h : lookupNs d p = some n) :
    lookupNs (d.addDefaultNamespace u) p = some n := by
  unfold Doc.addDefaultNamespace
  split
  · exact h
  · next hc =>
    simp only [Bool.or_eq_true, not_or, Bool.not_eq_true, Option.isSome_eq_false_iff, Option.isNone_iff_eq_none] at hc
    unfold lookupNs at h ⊢
    split
    · next hp => simp [hp, hc.2] at h
    · next hp => simpa [hp] using h

/-- an unprefixed reference is resolved through the empty prefix, i.e. it denotes the default namespace
    when one is bound and known — never a builtin of the same local name -/
theorem c09_unprefixed_is_default (d : Doc) (l : String) (n : Ns)
    (hp : lookupNs d "" = some n) (hcolon : ':' ∉ l.toList) :
    asRustType d l = .other (xmlNameToRustName l) (some n.rustModName) := by
  simp [asRustType, ZeepVerif.Lemmas.SplitType.splitType_unprefixed l hcolon, hp]

theorem lookup_fold_keeps (ol l : List (String × Ns)) (p : String) (n : Ns)
    (h : (l.find? (fun x => x.1 == p)).map (·.2) = some n) :
    ((ol.foldl (fun acc kv => if acc.any (fun x => x.1 == kv.1) then acc else acc ++ [kv]) l).find?
      (fun x => x.1 == p)).map (·.2) = some n := by
  induction ol generalizing l with
  | nil => simpa using h
  | cons kv rest ih =>
    simp only [List.foldl_cons]
    split
    · exact ih l h
    · exact ih _ (lookup_append l kv p n h)

theorem extendNoDuplicates_prefix (me other : List Ns) : ∃ extra, extendNoDuplicates me other = me ++ extra := by
  unfold extendNoDuplicates
  induction other generalizing me with
  | nil => exact ⟨[], by simp⟩
  | cons x rest ih =>
    simp only [List.foldl_cons]
    split
    · exact ih me
    · obtain ⟨e, he⟩ := ih (me ++ [x])
      exact ⟨x :: e, by rw [he]; simp⟩

/-- merging an imported file never rebinds a prefix of the importer (both files may use `tns`), nor its
    default namespace -/
theorem c09_extend_keeps_bindings (me other : Doc) (p : String) (n : Ns) (h : lookupNs me p = some n) :
    lookupNs (me.extend other) p = some n := by
  unfold lookupNs at h ⊢
  unfold Doc.extend
  simp only
  split
  · next hp =>
    simp only [hp, if_true] at h
    cases hd : me.defaultNs with
    | none => simp [hd] at h
    | some u =>
      simp only [hd, Option.bind_some] at h ⊢
      obtain ⟨e, he⟩ := extendNoDuplicates_prefix me.namespaces other.namespaces
      rw [he]
      simp [List.find?_append, h]
  · next hp =>
    simp only [hp] at h
    exact lookup_fold_keeps other.lookup me.lookup p n h

/-- a prefix bound to one of the schema's namespaces denotes a user type of that namespace's module,
    even when the local name is the name of an XSD builtin -/
theorem c09_user_prefix_not_builtin (d : Doc) (pfx l : String) (n : Ns)
    (hp : lookupNs d pfx = some n) (hcolon : ':' ∉ pfx.toList) :
    asRustType d (pfx ++ ":" ++ l) = .other (xmlNameToRustName l) (some n.rustModName) := by
  simp [asRustType, ZeepVerif.Lemmas.SplitType.splitType_prefixed pfx l hcolon, hp]

/-! non-vacuity: two namespaces define `Item`; the lookup in the second namespace returns the second -/
example : lookupRead
    { nodes := [⟨.complex ⟨"Item", [], none, none⟩, some ⟨"urn:a", "a", "mod_a"⟩⟩,
                ⟨.complex ⟨"Item", [], none, none⟩, some ⟨"urn:b", "b", "mod_b"⟩⟩] }
    "Item" (some ⟨"urn:b", "b", "mod_b"⟩) .type
    = some ⟨.complex ⟨"Item", [], none, none⟩, some ⟨"urn:b", "b", "mod_b"⟩⟩ := by decide

end ZeepVerif.Props.C09
