/-
C09 — QName references resolve by namespace, independent of declaration order.
Theorems about the model's resolution machinery (doc.rs `namespace_lookup`, `find_node_by_xml_name`,
field.rs `as_rust_type`): a lookup returns only a component of the wanted name, namespace and kind; a
prefix binding, once made, is never changed — neither by a later declaration nor by merging an imported
file; a prefix bound to a schema namespace never denotes a builtin.
-/
import ZeepVerif.Model.Reader

namespace ZeepVerif.Props.C09
open ZeepVerif ZeepVerif.Model ZeepVerif.Generated

/-- whatever the order in which components were read: a successful lookup among the read nodes gives
    a component with exactly the wanted local name, namespace and kind -/
theorem c09_lookup_sound (d : Doc) (n : String) (ns : Option Ns) (k : Kind) (r : RNode)
    (h : lookupRead d n ns k = some r) :
    r.rtype.xmlName = some n ∧ r.inNs = ns ∧ k.matchesType r.rtype = true := by
  have := List.find?_some h
  simp only [Bool.and_eq_true, beq_iff_eq] at this
  exact ⟨this.1.1, this.1.2, this.2⟩

/-- and it finds one whenever one has been read (own nodes or the importer's) -/
theorem c09_lookup_complete (d : Doc) (n : String) (ns : Option Ns) (k : Kind) (r : RNode)
    (hr : r ∈ d.nodes ++ d.knownNodes) (h1 : r.rtype.xmlName = some n) (h2 : r.inNs = ns)
    (h3 : k.matchesType r.rtype = true) : (lookupRead d n ns k).isSome = true := by
  unfold lookupRead
  rw [List.find?_isSome]
  exact ⟨r, hr, by simp [h1, h2, h3]⟩

/-- a type is never taken for an element nor an element for a type -/
theorem c09_kinds_apart (p : EProps) (c : CProps) (s : SProps) :
    Kind.type.matchesType (.element p) = false ∧ Kind.element.matchesType (.complex c) = false ∧
    Kind.element.matchesType (.simple s) = false := by
  simp [Kind.matchesType]

theorem lookup_append (l : List (String × Ns)) (kv : String × Ns) (p : String) (n : Ns)
    (h : (l.find? (fun x => x.1 == p)).map (·.2) = some n) :
    ((l ++ [kv]).find? (fun x => x.1 == p)).map (·.2) = some n := by
  cases hf : l.find? (fun x => x.1 == p) with
  | none => simp [hf] at h
  | some v => simp [List.find?_append, hf] at h ⊢; exact h

/-- a later xmlns declaration never changes what an already bound prefix means -/
theorem c09_add_keeps_bindings (d : Doc) (a u p : String) (n : Ns) (h : lookupNs d p = some n) :
    lookupNs (d.addNamespaceReference a u) p = some n := by
  unfold Doc.addNamespaceReference
  split
  · exact h
  · split
    · exact h
    · split
      · exact h
      · split <;> (unfold lookupNs at h ⊢; exact lookup_append _ _ _ _ h)

/-- merging an imported file never rebinds a prefix of the importer (both files may use `tns`) -/
theorem c09_extend_keeps_bindings (me other : Doc) (p : String) (n : Ns) (h : lookupNs me p = some n) :
    lookupNs (me.extend other) p = some n := by
  unfold lookupNs Doc.extend at *
  simp only
  generalize other.lookup = ol
  induction ol generalizing me with
  | nil => simpa using h
  | cons kv rest ih =>
    simp only [List.foldl_cons]
    split
    · exact ih me h
    · have := lookup_append me.lookup kv p n h
      exact ih { me with lookup := me.lookup ++ [kv] } this

/-- a prefix bound to one of the schema's namespaces denotes a user type of that namespace's module,
    even when the local name is the name of an XSD builtin -/
theorem c09_user_prefix_not_builtin (d : Doc) (pfx l : String) (n : Ns)
    (hp : lookupNs d pfx = some n) (hsplit : splitType (pfx ++ ":" ++ l) = (l, some pfx)) :
    asRustType d (pfx ++ ":" ++ l) = .other (xmlNameToRustName l) (some n.rustModName) := by
  simp [asRustType, hsplit, hp]

/-! non-vacuity: two namespaces define `Item`; the lookup in the second namespace returns the second -/
example : lookupRead
    { nodes := [⟨.complex ⟨"Item", [], none, none⟩, some ⟨"urn:a", "a", "mod_a"⟩⟩,
                ⟨.complex ⟨"Item", [], none, none⟩, some ⟨"urn:b", "b", "mod_b"⟩⟩] }
    "Item" (some ⟨"urn:b", "b", "mod_b"⟩) .type
    = some ⟨.complex ⟨"Item", [], none, none⟩, some ⟨"urn:b", "b", "mod_b"⟩⟩ := by decide

end ZeepVerif.Props.C09
