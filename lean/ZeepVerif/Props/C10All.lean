/-
C10 for EVERY input: in the document `read_xml` returns — for any XML trees, any file table, any import graph, any fuel —
  * an abbreviation (XML prefix, Rust module) stands for one URI and a URI has one abbreviation (`NsInv`),
  * every prefix binding points to a namespace of that list, every target namespace is in it,
  * every component is filed under one of the target namespaces (so it is emitted in that namespace's single module).
Instance of the general invariant theorem `Lemmas/KeepsFile.readXml_rel`; no fragment hypothesis.
-/
import ZeepVerif.Lemmas.KeepsFile
import ZeepVerif.Props.C10Read
import ZeepVerif.Props.C11Read

namespace ZeepVerif.Props.C10All
open ZeepVerif ZeepVerif.Model ZeepVerif.Lemmas.Keeps ZeepVerif.Lemmas.KeepsFile ZeepVerif.Props.C10 ZeepVerif.Props.C10Read

/-- the namespace bookkeeping of a document is coherent -/
structure Good (d : Doc) : Prop where
  inj : NsInv d.namespaces
  lookup : ∀ kv ∈ d.lookup, kv.2 ∈ d.namespaces
  targets : ∀ t ∈ d.targetNamespaces, t ∈ d.namespaces
  current : ∀ c, d.current = some c → c ∈ d.targetNamespaces
  nodes : ∀ n ∈ d.nodes, ∀ c, n.inNs = some c → c ∈ d.targetNamespaces

/-- coherence is kept, and the namespace list only grows -/
def Rel (d0 d : Doc) : Prop := (Good d0 → Good d) ∧ ∀ x ∈ d0.namespaces, x ∈ d.namespaces

theorem good_addRef (d : Doc) (a u : String) (h : Good d) : Good (d.addNamespaceReference a u) := by
  refine ⟨c10_add_preserves d a u h.inj, ?_, ?_, ?_, ?_⟩
  all_goals unfold Doc.addNamespaceReference
  all_goals (split; · first | exact h.lookup | exact h.targets | exact h.current | exact h.nodes)
  all_goals (split; · first | exact h.lookup | exact h.targets | exact h.current | exact h.nodes)
  all_goals (split; · first | exact h.lookup | exact h.targets | exact h.current | exact h.nodes)
  · split
    · next ex hf =>
      intro kv hkv
      simp only [List.mem_append, List.mem_singleton] at hkv
      rcases hkv with hkv | rfl
      · exact h.lookup kv hkv
      · exact List.mem_of_find?_eq_some hf
    · intro kv hkv
      simp only [List.mem_append, List.mem_singleton] at hkv ⊢
      rcases hkv with hkv | rfl
      · exact Or.inl (h.lookup kv hkv)
      · exact Or.inr rfl
  · split
    · exact h.targets
    · intro t ht; simp only [List.mem_append]; exact Or.inl (h.targets t ht)
  · split <;> exact h.current
  · split <;> exact h.nodes

theorem good_addDefault (d : Doc) (u : String) (h : Good d) : Good (d.addDefaultNamespace u) := by
  unfold Doc.addDefaultNamespace
  split
  · exact h
  · exact ⟨h.inj, h.lookup, h.targets, h.current, h.nodes⟩

theorem good_switch (d : Doc) (ns : String) (h : Good d) : Good (d.switchToTargetNamespace ns) := by
  refine ⟨c10_switch_preserves d ns h.inj, ?_, ?_, ?_, ?_⟩
  all_goals unfold Doc.switchToTargetNamespace
  all_goals (split; · first | exact h.lookup | exact h.targets | exact h.current | exact h.nodes)
  · intro kv hkv; simp only [List.mem_append]; exact Or.inl (h.lookup kv hkv)
  · intro t ht
    simp only [List.mem_append, List.mem_singleton] at ht ⊢
    rcases ht with ht | rfl
    · exact Or.inl (h.targets t ht)
    · exact Or.inr rfl
  · intro c hc
    simp only [Option.some.injEq] at hc
    subst hc
    simp
  · intro n hn c hc
    simp only [List.mem_append]
    exact Or.inl (h.nodes n hn c hc)

theorem mem_extendNoDuplicates (me other : List Ns) (x : Ns) : x ∈ extendNoDuplicates me other ↔ x ∈ me ∨ x ∈ other := by
  constructor
  · exact extendNoDuplicates_subset me other x
  · unfold extendNoDuplicates
    induction other generalizing me with
    | nil => intro h; rcases h with h | h; exact h; cases h
    | cons o rest ih =>
      intro h
      simp only [List.foldl_cons]
      split
      · next hc =>
        apply ih
        rcases h with h | h
        · exact Or.inl h
        · rcases List.mem_cons.mp h with rfl | h
          · exact Or.inl (by simpa using hc)
          · exact Or.inr h
      · apply ih
        rcases h with h | h
        · exact Or.inl (by simp [h])
        · rcases List.mem_cons.mp h with rfl | h
          · exact Or.inl (by simp)
          · exact Or.inr h

theorem mem_lookup_fold (ol l : List (String × Ns)) (kv : String × Ns)
    (h : kv ∈ ol.foldl (fun acc kv => if acc.any (fun x => x.1 == kv.1) then acc else acc ++ [kv]) l) : kv ∈ l ∨ kv ∈ ol := by
  induction ol generalizing l with
  | nil => exact Or.inl (by simpa using h)
  | cons o rest ih =>
    simp only [List.foldl_cons] at h
    split at h
    · rcases ih l h with h | h
      · exact Or.inl h
      · exact Or.inr (List.mem_cons_of_mem _ h)
    · rcases ih _ h with h | h
      · simp only [List.mem_append, List.mem_singleton] at h
        rcases h with h | rfl
        · exact Or.inl h
        · exact Or.inr List.mem_cons_self
      · exact Or.inr (List.mem_cons_of_mem _ h)

theorem good_extend (d imp : Doc) (hd : Good d) (hi : Good imp) (hsub : ∀ x ∈ d.namespaces, x ∈ imp.namespaces) :
    Good (d.extend imp) := by
  refine ⟨c10_extend_preserves d imp hi.inj hsub, ?_, ?_, ?_, ?_⟩
  · intro kv hkv
    simp only [Doc.extend] at hkv ⊢
    rw [mem_extendNoDuplicates]
    rcases mem_lookup_fold _ _ kv hkv with h | h
    · exact Or.inl (hd.lookup kv h)
    · exact Or.inr (hi.lookup kv h)
  · intro t ht
    simp only [Doc.extend] at ht ⊢
    rw [mem_extendNoDuplicates] at ht ⊢
    rcases ht with h | h
    · exact Or.inl (hd.targets t h)
    · exact Or.inr (hi.targets t h)
  · intro c hc
    simp only [Doc.extend] at hc ⊢
    rw [mem_extendNoDuplicates]
    exact Or.inl (hd.current c hc)
  · intro n hn c hc
    simp only [Doc.extend, List.mem_append] at hn ⊢
    rw [mem_extendNoDuplicates]
    rcases hn with h | h
    · exact Or.inl (hd.nodes n h c hc)
    · exact Or.inr (hi.nodes n h c hc)

theorem good_start (known : List Ns) (kn : List RNode) (h : NsInv known) : Good (startDoc known kn) :=
  ⟨h, by simp [startDoc], by simp [startDoc], by simp [startDoc], by simp [startDoc]⟩

theorem rel_fileRel : FileRel Rel where
  inv d0 := {
    addRef := fun d a u h => ⟨fun g => good_addRef d a u (h.1 g), fun x hx => by
      have := h.2 x hx
      unfold Doc.addNamespaceReference
      repeat' split
      all_goals simp [this]⟩
    addDefault := fun d u h => ⟨fun g => good_addDefault d u (h.1 g), fun x hx => by
      rw [c10_default_preserves]; exact h.2 x hx⟩
    switch := fun d ns h => ⟨fun g => good_switch d ns (h.1 g), fun x hx => switch_mono_ns d ns x (h.2 x hx)⟩
    push := fun d key h => ⟨fun g => by
      have := h.1 g
      exact ⟨this.inj, this.lookup, this.targets, this.current, this.nodes⟩, h.2⟩
    pop := fun d h => ⟨fun g => by
      have := h.1 g
      exact ⟨this.inj, this.lookup, this.targets, this.current, this.nodes⟩, h.2⟩ }
  refl _ _ := ⟨id, fun _ h => h⟩
  nodes d0 d n h hn _ := ⟨fun g => by
    have := h.1 g
    refine ⟨this.inj, this.lookup, this.targets, this.current, ?_⟩
    intro m hm c hc
    simp only [List.mem_append, List.mem_singleton] at hm
    rcases hm with hm | rfl
    · exact this.nodes m hm c hc
    · exact this.current c (by rw [← hn]; exact hc), h.2⟩
  messages d0 d m h := ⟨fun g => by
    have := h.1 g
    exact ⟨this.inj, this.lookup, this.targets, this.current, this.nodes⟩, h.2⟩
  ports d0 d m h := ⟨fun g => by
    have := h.1 g
    exact ⟨this.inj, this.lookup, this.targets, this.current, this.nodes⟩, h.2⟩
  bindings d0 d m h := ⟨fun g => by
    have := h.1 g
    exact ⟨this.inj, this.lookup, this.targets, this.current, this.nodes⟩, h.2⟩
  services d0 d m h := ⟨fun g => by
    have := h.1 g
    exact ⟨this.inj, this.lookup, this.targets, this.current, this.nodes⟩, h.2⟩
  imported d0 d imp h hi := ⟨fun g => by
    have gd := h.1 g
    exact good_extend d imp gd (hi.1 (good_start _ _ gd.inj)) hi.2, fun x hx => by
    simp only [Doc.extend]
    rw [mem_extendNoDuplicates]
    exact Or.inl (h.2 x hx)⟩

/-- **C10, every input**: whatever `read_xml` returns has coherent namespace bookkeeping — in particular two different
    URIs never share a prefix or a module, one URI never has two, and every component sits under a target namespace -/
theorem c10_all_inputs (files : List XFile) (start : String) (fuel : Nat) (d : Doc)
    (h : readXml files start fuel = .ok d) : Good d :=
  (readXml_rel rel_fileRel files start fuel d h).1 (good_start [] [] (by intro a ha; cases ha))

/-- spelled out: in the returned document equal prefixes mean equal namespaces and equal URIs mean equal prefixes/modules -/
theorem c10_injective_all_inputs (files : List XFile) (start : String) (fuel : Nat) (d : Doc)
    (h : readXml files start fuel = .ok d) (a b : Ns) (ha : a ∈ d.namespaces) (hb : b ∈ d.namespaces) :
    (a.abbreviation = b.abbreviation → a.uri = b.uri) ∧ (a.uri = b.uri → a.abbreviation = b.abbreviation ∧ a.rustModName = b.rustModName) := by
  have := (c10_all_inputs files start fuel d h).inj a ha b hb
  exact ⟨fun e => by rw [this.1 e], fun e => by rw [this.2 e]; exact ⟨rfl, rfl⟩⟩

/-- every component of the returned document is filed under a target namespace that is in the namespace list
    (hence has exactly one module) -/
theorem c10_components_in_one_module (files : List XFile) (start : String) (fuel : Nat) (d : Doc)
    (h : readXml files start fuel = .ok d) (n : RNode) (hn : n ∈ d.nodes) (c : Ns) (hc : n.inNs = some c) :
    c ∈ d.targetNamespaces ∧ c ∈ d.namespaces := by
  have g := c10_all_inputs files start fuel d h
  exact ⟨g.nodes n hn c hc, g.targets c (g.nodes n hn c hc)⟩

/-! non-vacuity: the cyclic two-file set of `Props/C11Read` is read into a document, which therefore is `Good` -/
example : ∃ d, readXml C11Read.demoCycle "a.xsd" = .ok d ∧ Good d := by
  have hsome : (Lemmas.ReadGraph.readFileG (fileTable C11Read.demoCycle) 5 "a.xsd" [] [] { processed := [] }).isSome = true := by decide
  obtain ⟨r, hr⟩ := Option.isSome_iff_exists.mp hsome
  have hd := C11Read.c11_graph_read C11Read.demoCycle "a.xsd" 5 (by decide) r hr
  exact ⟨r.1, hd, c10_all_inputs _ _ _ _ hd⟩

end ZeepVerif.Props.C10All
