/-
C02 — generated structs mirror the schema: members, occurrence, types, names.
Theorems over the model of the generator (`Model.Reader`, `Model.Emit`) and the tables the translator
regenerates from field.rs (`Generated.Tables`), against the reference mapping `Spec.Ref`.
-/
import ZeepVerif.Model.Emit
import ZeepVerif.Spec.Grammar
import ZeepVerif.Lemmas.Flatten

namespace ZeepVerif.Props.C02
open ZeepVerif ZeepVerif.Model ZeepVerif.Spec ZeepVerif.Generated

/-- the `RustFieldType` variant the documented Rust type is rendered from -/
def variantOf : String → String
  | "String" => "string"
  | t => t

/-- all 27 mapped builtins: the table extracted from `as_rust_type` gives each the documented type -/
theorem c02_builtin_table :
    Ref.builtinMap.all (fun kv =>
      ((Tables.builtinTable.find? (fun r => r.1 == kv.1)).map (·.2)) == some (variantOf kv.2)) = true := by
  decide

/-- nothing else is treated as a builtin: the table has exactly the documented 27 names, and the
    catch-all arm makes a named type -/
theorem c02_builtin_exact :
    (Tables.builtinTable.map (·.1)).all (fun n => (Ref.builtinMap.map (·.1)).contains n) = true ∧
    Tables.builtinTable.length = 27 ∧ Tables.builtinDefault = "other" := by
  decide

/-- every variant name in the table is one the model (and `impl Display for RustFieldType`) knows, and it
    renders to the documented Rust type -/
theorem c02_builtin_render :
    Ref.builtinMap.all (fun kv =>
      match (Tables.builtinTable.find? (fun r => r.1 == kv.1)).bind (fun r => ftypeOfName r.2) with
      | some t => t.render == kv.2
      | none => false) = true := by
  decide

/-- the wrapper the writer puts around a member type is exactly the reference one:
    `Vec<T>` when it may repeat, else `Option<T>` when optional or a choice branch, else `T` -/
theorem c02_wrapper (f : Field) :
    (writeField f).getLast? = some ("    pub " ++ f.rustName ++ ": " ++
      (match Ref.wrapperOf f.isOptional f.isVec f.isChoice with
       | "Vec" => "Vec<" ++ f.rustType.render ++ ">"
       | "Option" => "Option<" ++ f.rustType.render ++ ">"
       | _ => f.rustType.render) ++ ",\n") := by
  cases hv : f.isVec <;> cases ho : f.isOptional <;> cases hc : f.isChoice <;>
    simp [writeField, Ref.wrapperOf, hv, ho, hc]

/-- one attribute line and one public field line per member: nothing else is written for it -/
theorem c02_one_field_per_member (f : Field) : (writeField f).length = 2 := by
  simp [writeField]

/-- attribute members: optional unless `use="required"`; never repeated by their own occurrence -/
theorem c02_attribute_use (attrs : List XAttr) (nss) (tx) (kids) (anc : List XNode) :
    (occurrence (.elem "attribute" attrs nss tx kids) anc).isAttribute = true ∧
    (occurrence (.elem "attribute" attrs nss tx kids) anc).isOptional =
      ((XNode.elem "attribute" attrs nss tx kids).attr? "use" != some "required") := by
  simp [occurrence, XNode.tag]

/-! non-vacuity: the documented table is the one extracted; a field with all flags set is a `Vec` -/
example : (Tables.builtinTable.find? (fun r => r.1 == "long")).map (·.2) = some "i64" := by decide
example : (writeField ⟨"a", "a", .i32, true, true, none, false, true, false⟩).getLast? = some "    pub a: Vec<i32>,\n" := by
  decide

open ZeepVerif.Lemmas.Flatten in
/-- **members and occurrence, for every content model**: take any particle tree (elements, element
    references, nested sequences and choices to any depth, every `minOccurs`/`maxOccurs` up to 2^64-1),
    render it as the XML the generator reads, and let the model traverse it (`memberSites`, the flattening of
    `import_sequence_node_fields`) and compute each member's flags (`occurrence`, as `Field::try_from_node`
    does). The resulting wrappers — `Vec` / `Option` / bare — are, member by member and in order, those of
    the reference flattening `Spec.Ref.flattenParticles`: none dropped, none added, none misjudged. -/
theorem c02_members_occurrence (s : SchemaSet) (f : SchemaFile) (uri : String) (ps : List Particle) (hp : PartsOk ps)
    (anc : List XNode) :
    (memberSitesList (particlesToX f ps) anc).map W =
      (Ref.flattenParticles s uri (ancOpt anc) (ancRep anc) (ancCh anc) ps).map (·.wrapper) :=
  flatten_particles s f uri ps hp anc

open ZeepVerif.Lemmas.Flatten in
/-- the content of a complex type: its top sequence, directly under the `complexType`/`extension` element
    (which is not a particle, so nothing above it influences occurrence) -/
theorem c02_type_content (s : SchemaSet) (f : SchemaFile) (d : ComplexDef) (o : Occurs) (ps : List Particle)
    (hc : d.content = some (o, ps)) (ho : OccOk o) (hp : PartsOk ps) (owner : XNode) (above : List XNode)
    (hown : isParticleTag owner.tag = false) :
    (memberSites (XNode.elem "sequence" (occAttrs o) [] none (particlesToX f ps)) (owner :: above)).map W =
      (Ref.ownElements s f d).map (·.wrapper) := by
  have h0 : enclosingParticles (owner :: above) = [] := by simp [enclosingParticles, hown]
  have e1 : ancOpt (owner :: above) = false := by simp [ancOpt, h0]
  have e2 : ancRep (owner :: above) = false := by simp [ancRep, h0]
  have e3 : ancCh (owner :: above) = false := by simp [ancCh, h0]
  obtain ⟨a1, a2, a3⟩ := anc_particle "sequence" o (particlesToX f ps) (owner :: above) (Or.inl rfl) ho
  have := flatten_particles s f (uriOf s f.tns) ps hp (XNode.elem "sequence" (occAttrs o) [] none (particlesToX f ps) :: owner :: above)
  rw [a1, a2, a3, e1, e2, e3] at this
  simp only [memberSites, Ref.ownElements, hc]
  simpa using this

end ZeepVerif.Props.C02
