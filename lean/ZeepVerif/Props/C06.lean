/-
C06 — a value passes the restriction check exactly when it satisfies the facets.
Stated over the definitions that `zv extract` regenerates from helpers_content.rs on every run
(`ZeepVerif.Generated.Restr`). Property theorems only; helper lemmas live in `Lemmas/`.
-/
import ZeepVerif.Generated.Restrictions
import ZeepVerif.Spec.Facets
import ZeepVerif.Lemmas.Flow

namespace ZeepVerif.Props.C06
open ZeepVerif.Runtime ZeepVerif.Spec ZeepVerif.Generated

/-- the restriction set the emitted code hands to the runtime, read as XSD facets (by field name) -/
def facetsOf (r : Restr.Restrictions) : Facets :=
  { minInclusive := r.min_inclusive, maxInclusive := r.max_inclusive,
    minExclusive := r.min_exclusive, maxExclusive := r.max_exclusive,
    length := r.length, minLength := r.min_length, maxLength := r.max_length,
    enumeration := r.enumeration }

/-- "the value satisfies every facet of the restriction set, if there is one" -/
def SatInt (r : Option Restr.Restrictions) (v : Int) : Prop := ∀ r', r = some r' → (facetsOf r').satInt v
def SatString (r : Option Restr.Restrictions) (s : String) : Prop := ∀ r', r = some r' → (facetsOf r').satString s

/-- the shared integer comparison: every `Int`, every restriction set -/
theorem c06_int_core (r : Option Restr.Restrictions) (v : Int) :
    Restr.check_int v r = .ok ↔ SatInt r v := by
  unfold SatInt
  cases r with
  | none => simp [Restr.check_int]
  | some r =>
    obtain ⟨mi, ma, me, mx, l, ml, mxl, en⟩ := r
    cases mi <;> cases ma <;> cases me <;> cases mx <;>
      simp [Restr.check_int, facetsOf, Facets.satInt] <;> grind

/-! ### every integer carrier, over its whole range (in fact over all of `Int`: no narrowing) -/

theorem c06_i8 (r : Option Restr.Restrictions) (v : Int) : Restr.check_i8 r v = .ok ↔ SatInt r v := by
  simpa [Restr.check_i8] using c06_int_core r v
theorem c06_u8 (r : Option Restr.Restrictions) (v : Int) : Restr.check_u8 r v = .ok ↔ SatInt r v := by
  simpa [Restr.check_u8] using c06_int_core r v
theorem c06_i16 (r : Option Restr.Restrictions) (v : Int) : Restr.check_i16 r v = .ok ↔ SatInt r v := by
  simpa [Restr.check_i16] using c06_int_core r v
theorem c06_u16 (r : Option Restr.Restrictions) (v : Int) : Restr.check_u16 r v = .ok ↔ SatInt r v := by
  simpa [Restr.check_u16] using c06_int_core r v
theorem c06_i32 (r : Option Restr.Restrictions) (v : Int) : Restr.check_i32 r v = .ok ↔ SatInt r v := by
  simpa [Restr.check_i32] using c06_int_core r v
theorem c06_u32 (r : Option Restr.Restrictions) (v : Int) : Restr.check_u32 r v = .ok ↔ SatInt r v := by
  simpa [Restr.check_u32] using c06_int_core r v
theorem c06_i64 (r : Option Restr.Restrictions) (v : Int) : Restr.check_i64 r v = .ok ↔ SatInt r v := by
  simpa [Restr.check_i64] using c06_int_core r v
theorem c06_u64 (r : Option Restr.Restrictions) (v : Int) : Restr.check_u64 r v = .ok ↔ SatInt r v := by
  simpa [Restr.check_u64] using c06_int_core r v

/-- with no restriction set every integer of every carrier is accepted — including values outside
    the 32-bit range (the statement is for all of `Int`) -/
theorem c06_none (v : Int) :
    Restr.check_i8 none v = .ok ∧ Restr.check_u8 none v = .ok ∧ Restr.check_i16 none v = .ok ∧
    Restr.check_u16 none v = .ok ∧ Restr.check_i32 none v = .ok ∧ Restr.check_u32 none v = .ok ∧
    Restr.check_i64 none v = .ok ∧ Restr.check_u64 none v = .ok := by
  simp [c06_i8, c06_u8, c06_i16, c06_u16, c06_i32, c06_u32, c06_i64, c06_u64, SatInt]

/-- floating-point and boolean carriers are never rejected -/
theorem c06_float_bool (r : Option Restr.Restrictions) (x y : Float) (b : Bool) :
    Restr.check_f32 r x = .ok ∧ Restr.check_f64 r y = .ok ∧ Restr.check_bool r b = .ok := by
  simp [Restr.check_f32, Restr.check_f64, Restr.check_bool]

theorem parseInt_i128_some {s : String} {v : Int} (h : lexInt s = some v) (hr : inRange "i128" v) :
    parseInt "i128" s = .ok v := by
  simp [parseInt, h, hr, intRange]

theorem parseInt_i128_none {s : String} (h : lexInt s = none) :
    parseInt "i128" s = .error "invalid digit found in string" := by
  simp [parseInt, h]

/-- strings: character count (code points) against length/minLength/maxLength, enumeration membership,
    and numeric facets on the integer the text denotes. Guard: a numeral the code can read
    (`parse::<i128>`), i.e. within 128 bits; beyond that see `c06_string_huge`. -/
theorem c06_string (r : Option Restr.Restrictions) (s : String)
    (hfit : ∀ v, lexInt s = some v → inRange "i128" v) :
    Restr.check_String r s = .ok ↔ SatString r s := by
  unfold SatString
  cases r with
  | none => simp [Restr.check_String]
  | some r =>
    have hint := fun v => c06_int_core (some r) v
    obtain ⟨mi, ma, me, mx, l, ml, mxl, en⟩ := r
    simp only [Restr.check_String]
    cases hl : lexInt s with
    | none =>
      rw [parseInt_i128_none hl]
      cases ml <;> cases mxl <;> cases l <;> cases en <;>
        simp [facetsOf, Facets.satString, Facets.hasNumeric] <;> grind
    | some v =>
      rw [parseInt_i128_some hl (hfit v hl)]
      have hv := hint v
      simp only [SatInt, facetsOf, forall_eq', Option.some.injEq] at hv
      cases ml <;> cases mxl <;> cases l <;> cases en <;>
        simp [facetsOf, Facets.satString, Facets.hasNumeric, hv] <;> grind [Facets.satInt]

/-- the excluded branch of `c06_string`, covered explicitly: a numeral beyond 128 bits under a numeric
    facet is rejected (a parse error), whatever the facets say -/
theorem c06_string_huge (r : Restr.Restrictions) (s : String) (v : Int)
    (hnum : (facetsOf r).hasNumeric) (hl : lexInt s = some v) (hbig : ¬ inRange "i128" v) :
    Restr.check_String (some r) s ≠ .ok := by
  obtain ⟨mi, ma, me, mx, l, ml, mxl, en⟩ := r
  have hp : parseInt "i128" s = .error "number too large or too small to fit in target type" := by
    simp [parseInt, hl, hbig, intRange]
  simp only [Restr.check_String, hp]
  simp only [facetsOf, Facets.hasNumeric] at hnum
  cases ml <;> cases mxl <;> cases l <;> cases en <;> simp <;> grind

/-- `Option<C>`: checked iff the contained value, when present, is -/
theorem c06_option {C : Type} (chk : Option Restr.Restrictions → C → Res)
    (r : Option Restr.Restrictions) (o : Option C) :
    Restr.check_Option chk r o = .ok ↔ ∀ c, o = some c → chk r c = .ok := by
  cases o with
  | none => simp [Restr.check_Option]
  | some c => simp only [Restr.check_Option]; cases h : chk r c <;> simp_all

/-- `Vec<C>`: checked iff every item is (any length; induction) -/
theorem c06_vec {C : Type} (chk : Option Restr.Restrictions → C → Res)
    (r : Option Restr.Restrictions) (xs : List C) :
    Restr.check_Vec chk r xs = .ok ↔ ∀ x ∈ xs, chk r x = .ok := by
  induction xs with
  | nil => simp [Restr.check_Vec]
  | cons x xs ih =>
    simp only [Restr.check_Vec, forEach_cons] at ih ⊢
    cases h : chk r x <;> simp_all

/-! ### non-vacuity: concrete boundary instances on both sides of each iff -/

example : Restr.check_i32 (some { min_inclusive := some 1 }) 1 = .ok := by decide
example : Restr.check_i32 (some { min_exclusive := some 1 }) 1 ≠ .ok := by decide
example : Restr.check_i64 none 9223372036854775807 = .ok := by decide
example : Restr.check_u64 (some { min_inclusive := some 0 }) 18446744073709551615 = .ok := by decide
example : Restr.check_i64 (some { max_inclusive := some 2147483647 }) 2147483648 ≠ .ok := by decide
example : SatInt (some { min_inclusive := some 1, max_exclusive := some 3 }) 2 := by
  intro r' h; cases h; simp [facetsOf, Facets.satInt]

end ZeepVerif.Props.C06
