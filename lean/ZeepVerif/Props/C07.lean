/-
C07 — declared facets are enforced at every depth and before anything is sent.
-/
import ZeepVerif.Model.Http
import ZeepVerif.Model.Emit
import ZeepVerif.Props.C06
import ZeepVerif.Props.C16

namespace ZeepVerif.Props.C07
open ZeepVerif ZeepVerif.Model ZeepVerif.Model.Http ZeepVerif.Runtime ZeepVerif.Generated

/-- the restriction check is the first thing the helper does -/
theorem c07_check_first : helperSteps.head? = some .check ∧ helperSteps[1]? = some .try_ := by decide

/-- a request that fails its check is answered with the restriction error, and nothing has been
    serialised, built or sent: no connection is opened -/
theorem c07_before_io (env : Env) (h : env.checkOk = false) :
    (call env).1 = .errRestriction ∧ (call env).2.sends = 0 ∧ (call env).2.serialized = false ∧
    (call env).2.postBuilt = false := by
  obtain ⟨ck, se, cr, tr, de⟩ := env
  simp only at h
  subst h
  simp [call, helperSteps, Send.sendSteps, parseStep, run]

/-- every member of a struct is checked: the emitted impl delegates to each field once, in order -/
theorem c07_every_field_checked (p : CProps) :
    writeComplexType p = complexPrefix p ++
      p.fields.map (fun f => "     self." ++ f.rustName ++ ".check_restrictions(restrictions.clone())?;\n") ++
      (["    drop(restrictions);\n", "    Ok(())\n"] ++ writeCheckFooter) := rfl

/-- the emitted check of a restricted simple type (helpers.rs `write_check_restrictions_header` +
    `write_type_alias`): first the facets handed down by a type derived from this one, when there are
    any, then its own; `inner` is the check of its `value` member -/
def emittedSimpleCheck (own : Restr.Restrictions) (inner : Option Restr.Restrictions → Res)
    (incoming : Option Restr.Restrictions) : Res :=
  match (if incoming.isSome then inner incoming else Res.ok) with
  | .ok => inner (some own)
  | e => e

/-- a derivation chain of restricted simple types, most derived first, down to the carrier's own check -/
def chainCheck (leaf : Option Restr.Restrictions → Res) : List Restr.Restrictions → Option Restr.Restrictions → Res
  | [], inc => leaf inc
  | r :: rs, inc => emittedSimpleCheck r (chainCheck leaf rs) inc

theorem chain_iff (leaf : Option Restr.Restrictions → Res) (hnone : leaf none = .ok) :
    ∀ (rs : List Restr.Restrictions) (inc : Option Restr.Restrictions),
      chainCheck leaf rs inc = .ok ↔ (∀ i, inc = some i → leaf (some i) = .ok) ∧ ∀ r ∈ rs, leaf (some r) = .ok := by
  intro rs
  induction rs with
  | nil =>
    intro inc
    cases inc with
    | none => simp [chainCheck, hnone]
    | some i => simp [chainCheck]
  | cons r rs ih =>
    intro inc
    simp only [chainCheck, emittedSimpleCheck]
    cases inc with
    | none =>
      simp only [Option.isSome_none, Bool.false_eq_true, if_false]
      rw [ih (some r)]
      simp
    | some i =>
      simp only [Option.isSome_some, if_true]
      cases h : chainCheck leaf rs (some i) with
      | ok =>
        have h1 := (ih (some i)).mp h
        simp only
        rw [ih (some r)]
        constructor
        · intro ⟨ha, hb⟩
          exact ⟨fun j hj => by cases hj; exact h1.1 i rfl, fun x hx => by
            simp only [List.mem_cons] at hx
            rcases hx with rfl | hx
            · exact ha x rfl
            · exact hb x hx⟩
        · intro ⟨_, hb⟩
          exact ⟨fun j hj => by cases hj; exact hb r List.mem_cons_self, fun x hx => hb x (List.mem_cons_of_mem _ hx)⟩
      | err m =>
        simp only
        constructor
        · intro hc; cases hc
        · intro ⟨ha, hb⟩
          have : chainCheck leaf rs (some i) = .ok :=
            (ih (some i)).mpr ⟨fun j hj => by cases hj; exact ha i rfl, fun x hx => hb x (List.mem_cons_of_mem _ hx)⟩
          rw [h] at this
          cases this

/-- facets inherited through derivation: a text value passes the check of the most derived type exactly when
    it satisfies the facets of *every* type of the chain (XSD: a derived simple type must meet its own
    facets and those of its base), at any derivation depth -/
theorem c07_derivation_chain (rs : List Restr.Restrictions) (s : String)
    (hfit : ∀ v, lexInt s = some v → inRange "i128" v) :
    chainCheck (fun r => Restr.check_String r s) rs none = .ok ↔
      ∀ r ∈ rs, (C06.facetsOf r).satString s := by
  rw [chain_iff _ (by simp [Restr.check_String])]
  simp only [reduceCtorEq, false_implies, implies_true, true_and]
  constructor
  · intro h r hr
    have := (C06.c06_string (some r) s hfit).mp (h r hr)
    exact this r rfl
  · intro h r hr
    exact (C06.c06_string (some r) s hfit).mpr (fun r' e => by cases e; exact h r hr)

/-! non-vacuity: Tiny (maxLength 2) ⊂ Small (minLength 1): "abc" is rejected by the derived type -/
example : chainCheck (fun r => Restr.check_String r "abc") [{ max_length := some 2 }, { min_length := some 1 }] none ≠ .ok := by
  decide
example : chainCheck (fun r => Restr.check_String r "ab") [{ max_length := some 2 }, { min_length := some 1 }] none = .ok := by
  decide

end ZeepVerif.Props.C07
