/-
C09 for members written as references (`ref=`), for EVERY input: result specification of `Field::try_from_node` on its reference branch
(over C09Denote.fnd_denotes).
-/
import ZeepVerif.Props.C09Denote

namespace ZeepVerif.Props.C09Denote
open ZeepVerif ZeepVerif.Model ZeepVerif.Lemmas.Keeps Std.Do ZeepVerif.Props.DocAll ZeepVerif.Props.CpxAll

set_option mvcgen.warning false

/-- the namespace a reference's prefix is bound to in the prefix table of `d` -/
def nsOf (d : Doc) (refName : String) : Option Ns := (splitType refName).2.bind (lookupNs d)

/-- what a member written as a reference (`ref="p:Name"`) must look like -/
def RefFieldOf (node : XNode) (ctx : Ctx) (refName : String) (f : Field) : Prop :=
  ∃ d : Doc,
    f.tns = nsOf d refName ∧ f.rustType = .other (xmlNameToRustName f.xmlName) ((nsOf d refName).map (·.rustModName)) ∧
    f.rustName = asFieldName (splitType refName).1 ∧
    (if node.tag == "element" then globalComponentExists ctx d (splitType refName).1 (nsOf d refName) .element = true ∧ f.xmlName = (splitType refName).1
     else ∃ rn, Denotes ctx (splitType refName).1 (nsOf d refName) .any rn ∧ rn.rtype.xmlName = some f.xmlName)

theorem refField_elem {node : XNode} {ctx : Ctx} {refName : String} (d : Doc) (o v a c : Bool)
    (htag : (node.tag == "element") = true)
    (hg : globalComponentExists ctx d (splitType refName).1 (nsOf d refName) .element = true) :
    RefFieldOf node ctx refName
      { xmlName := (splitType refName).1, rustName := asFieldName (splitType refName).1,
        rustType := .other (xmlNameToRustName (splitType refName).1) ((nsOf d refName).map (·.rustModName)),
        isOptional := o, isVec := v, tns := nsOf d refName, isAttribute := a, isChoice := c, isAny := false } := by
  refine ⟨d, ?_, ?_, ?_, ?_⟩
  · simp only
  · simp only
  · simp only
  · simp only [htag, if_true]
    exact ⟨hg, trivial⟩

theorem refField_any {node : XNode} {ctx : Ctx} {refName : String} (d : Doc) (o v a c : Bool) (nm : String)
    (htag : (node.tag == "element") = false)
    (rn : RNode) (hden : Denotes ctx (splitType refName).1 (nsOf d refName) .any rn)
    (hx : rn.rtype.xmlName = some nm) :
    RefFieldOf node ctx refName
      { xmlName := nm, rustName := asFieldName (splitType refName).1,
        rustType := .other (xmlNameToRustName nm) ((nsOf d refName).map (·.rustModName)),
        isOptional := o, isVec := v, tns := nsOf d refName, isAttribute := a, isChoice := c, isAny := false } := by
  refine ⟨d, ?_, ?_, ?_, ?_⟩
  · simp only
  · simp only
  · simp only
  · simp only [htag]
    exact ⟨rn, hden, hx⟩

theorem not_not_true {b : Bool} (h : ¬ (!b) = true) : b = true := by cases b <;> simp_all

theorem kind_elem {t : String} (h : ((if (t == "element") = true then Kind.element else Kind.any) == Kind.element) = true) :
    (t == "element") = true := by
  by_cases ht : (t == "element") = true
  · exact ht
  · simp [ht] at h

theorem kind_any {t : String} (h : ¬ ((if (t == "element") = true then Kind.element else Kind.any) == Kind.element) = true) :
    (t == "element") = false := by
  by_cases ht : (t == "element") = true
  · simp [ht] at h
  · simpa using ht

theorem field_ref_spec (node : XNode) (ctx : Ctx) (fuel : Nat) :
    ⦃fun _ => ⌜True⌝⦄ fieldFromNode node ctx fuel
    ⦃post⟨fun f _ => ⌜∀ refName, (node.tag == "any") = false → node.attr? "ref" = some refName → refName.startsWith "xml" = false →
            RefFieldOf node ctx refName f⌝, fun _ _ => ⌜True⌝⟩⦄ := by
  cases fuel with
  | zero => mvcgen [fieldFromNode]
  | succ fuel =>
    have hfnd := fun c x ns k => fnd_denotes c x ns k fuel
    mvcgen [fieldFromNode, switchToTargetNamespace, modifyDoc, getDoc, liftOpt, hfnd]
    all_goals (try intros)
    all_goals clear hfnd
    case vc1.succ.isFalse.h_1.isTrue => rename_i h _ h2 _ _; rw [h] at h2; cases h2
    case vc6.succ.isFalse.h_2.isTrue => rename_i h _ h2 _ _; rw [h] at h2; cases h2
    case vc2.succ.isFalse.h_1.isFalse.h_1.isTrue => rename_i hx _ hs _ _ hr hn; rw [hx] at hr; cases hr; rw [hs] at hn; cases hn
    case vc7.succ.isFalse.h_2.isFalse.h_1.isTrue => rename_i hx _ hs _ _ hr hn; rw [hx] at hr; cases hr; rw [hs] at hn; cases hn
    case vc5.succ.isFalse.h_1.isFalse.h_2.h_1 => rename_i hx _ _ _ _ _ _ hr _; rw [hx] at hr; cases hr
    case vc10.succ.isFalse.h_2.isFalse.h_2.h_1 => rename_i hx _ _ _ _ _ _ hr _; rw [hx] at hr; cases hr
    case vc3.succ.isFalse.h_1.isFalse.h_1.isFalse.isTrue.isFalse =>
      rename_i t _ _ _ v hx _ _ _ _ _ hk _ hg refName _ hr _
      rw [hx] at hr; cases hr
      have htag := kind_elem hk
      have hk' : (if (node.tag == "element") = true then Kind.element else Kind.any) = Kind.element := by simp [htag]
      have hg' : globalComponentExists ctx t.2 (splitType v).1 (nsOf t.2 v) (if (node.tag == "element") = true then Kind.element else Kind.any) = true := not_not_true hg
      rw [hk'] at hg'
      exact refField_elem t.2 _ _ _ _ htag hg'
    case vc8.succ.isFalse.h_2.isFalse.h_1.isFalse.isTrue.isFalse =>
      rename_i d _ _ _ v hx _ _ _ _ _ hk _ hg refName _ hr _
      rw [hx] at hr; cases hr
      have htag := kind_elem hk
      have hk' : (if (node.tag == "element") = true then Kind.element else Kind.any) = Kind.element := by simp [htag]
      have hg' : globalComponentExists ctx d (splitType v).1 (nsOf d v) (if (node.tag == "element") = true then Kind.element else Kind.any) = true := not_not_true hg
      rw [hk'] at hg'
      exact refField_elem d _ _ _ _ htag hg'
    case vc4.succ.isFalse.h_1.isFalse.h_1.isFalse.isFalse.success.h_1.h_1 =>
      rename_i t _ _ _ v hx _ _ _ _ _ hk r _ hden rn hrn nm hnm refName _ hr _
      rw [hx] at hr; cases hr
      have htag := kind_any hk
      have hk' : (if (node.tag == "element") = true then Kind.element else Kind.any) = Kind.any := by simp [htag]
      have hd' : Denotes ctx (splitType v).1 (nsOf t.2 v) (if (node.tag == "element") = true then Kind.element else Kind.any) rn := hden rn hrn
      rw [hk'] at hd'
      exact refField_any t.2 _ _ _ _ nm htag rn hd' hnm
    case vc9.succ.isFalse.h_2.isFalse.h_1.isFalse.isFalse.success.h_1.h_1 =>
      rename_i d _ _ _ v hx _ _ _ _ _ hk r _ hden rn hrn nm hnm refName _ hr _
      rw [hx] at hr; cases hr
      have htag := kind_any hk
      have hk' : (if (node.tag == "element") = true then Kind.element else Kind.any) = Kind.any := by simp [htag]
      have hd' : Denotes ctx (splitType v).1 (nsOf d v) (if (node.tag == "element") = true then Kind.element else Kind.any) rn := hden rn hrn
      rw [hk'] at hd'
      exact refField_any d _ _ _ _ nm htag rn hd' hnm

/-- **C09 for members written as references, every input.** Whenever `Field::try_from_node` returns for a member with `ref="p:Name"`
    (not an `xml:` attribute, not a wildcard): the field's namespace is the one the prefix `p` is bound to in the prefix table at that
    moment (the default namespace when there is no prefix), its type is `mod_of_that_namespace::PascalCase(name)`, its Rust name comes from
    `Name`; for an element reference a global element `Name` of that namespace exists (read before, or declared in a schema of that
    namespace in the tree) and the field carries that name; for a group / attribute reference the name is that of the component the
    reference denotes (`Denotes`). -/
theorem c09_reference_member_all_inputs (node : XNode) (ctx : Ctx) (fuel : Nat) (d : Doc) (f : Field) (refName : String)
    (hany : (node.tag == "any") = false) (href : node.attr? "ref" = some refName) (hxml : refName.startsWith "xml" = false)
    (h : (runNM (fieldFromNode node ctx fuel) d).1 = .ok f) : RefFieldOf node ctx refName f := by
  have := run_of_triple _ _ _ _ (field_ref_spec node ctx fuel) d trivial
  revert this h
  rcases runNM (fieldFromNode node ctx fuel) d with ⟨res, d'⟩
  cases res with
  | ok a => intro h hh; cases h; exact hh refName hany href hxml
  | error e => intro h; cases h

end ZeepVerif.Props.C09Denote
