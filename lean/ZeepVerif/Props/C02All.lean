/-
C02 for EVERY input, at the level of a content model: whatever `import_sequence_node_fields` returns — for any tree, any
document state, any fuel — is the accumulator followed by exactly one field per member site of the content model
(`memberSites`: nested sequences and choices flattened, attribute declarations and non-elements skipped), in document order;
field i carries the occurrence flags `occurrence` computes for site i and, for a named declaration, its `name`.
Nothing declared is dropped, nothing undeclared is added, the wrapper follows the effective occurrence.
-/
import ZeepVerif.Lemmas.Keeps

namespace ZeepVerif.Props.C02All
open ZeepVerif ZeepVerif.Model ZeepVerif.Lemmas.Keeps Std.Do

set_option mvcgen.warning false

/-- what a field read from a member site must look like -/
def FieldOf (node : XNode) (anc : List XNode) (f : Field) : Prop :=
  (node.tag = "any" → f.isAny = true ∧ f.xmlName = "body" ∧ f.isOptional = true ∧ f.isVec = false) ∧
  (node.tag ≠ "any" →
    f.isAny = false ∧ f.isOptional = (occurrence node anc).isOptional ∧ f.isVec = (occurrence node anc).isVec ∧
    f.isAttribute = (occurrence node anc).isAttribute ∧ f.isChoice = (occurrence node anc).isChoice ∧
    (node.attr? "ref" = none → node.attr? "name" = some f.xmlName ∧ f.rustName = asFieldName f.xmlName))

theorem field_spec (node : XNode) (ctx : Ctx) (fuel : Nat) :
    ⦃fun _ => ⌜True⌝⦄ fieldFromNode node ctx fuel ⦃post⟨fun f _ => ⌜FieldOf node ctx.ancestors f⌝, fun _ _ => ⌜True⌝⟩⦄ := by
  have hT : DocInv (fun _ => True) := ⟨fun _ _ _ _ => trivial, fun _ _ _ => trivial, fun _ _ _ => trivial, fun _ _ _ => trivial, fun _ _ => trivial⟩
  cases fuel with
  | zero => mvcgen [fieldFromNode]
  | succ fuel =>
    have hfnd := (block_keeps hT fuel).fnd
    unfold Keeps at hfnd
    mvcgen [fieldFromNode, switchToTargetNamespace, modifyDoc, getDoc, liftOpt, hfnd]
    all_goals (try simp only [SPred.down_pure] at *)
    all_goals (try intros)
    all_goals first
      | (simp_all [FieldOf]; done)
      | (refine ⟨fun h => ?_, fun _ => ?_⟩
         · simp_all
         · simp (config := { zetaDelta := true }) only [] at *
           simp_all)

/-- fields `fs` are, one by one and in order, what the member sites `sites` must give -/
def Matches : List (XNode × List XNode) → List Field → Prop
  | [], [] => True
  | s :: ss, f :: fs => FieldOf s.1 s.2 f ∧ Matches ss fs
  | _, _ => False

theorem matches_append (ss : List (XNode × List XNode)) (fs : List Field) (s : XNode × List XNode) (f : Field)
    (h : Matches ss fs) (hf : FieldOf s.1 s.2 f) : Matches (ss ++ [s]) (fs ++ [f]) := by
  induction ss generalizing fs with
  | nil => cases fs with
    | nil => exact ⟨hf, trivial⟩
    | cons a b => cases h
  | cons x xs ih => cases fs with
    | nil => cases h
    | cons a b => exact ⟨h.1, ih b h.2⟩

theorem matches_length {ss : List (XNode × List XNode)} {fs : List Field} (h : Matches ss fs) : fs.length = ss.length := by
  induction ss generalizing fs with
  | nil => cases fs with
    | nil => rfl
    | cons a b => cases h
  | cons x xs ih => cases fs with
    | nil => cases h
    | cons a b => simp [ih h.2]

/-- **a content model, every input**: what `import_sequence_node_fields` returns is the accumulator followed by exactly one
    field per member site, in document order, each with the flags and name of its site -/
theorem sequence_spec (node : XNode) (ctx : Ctx) (acc : List Field) (fuel : Nat) :
    ⦃fun _ => ⌜True⌝⦄ importSequence node ctx acc fuel
    ⦃post⟨fun r _ => ⌜∃ fs, r = acc ++ fs ∧ Matches (memberSites node ctx.ancestors) fs⌝, fun _ _ => ⌜True⌝⟩⦄ := by
  cases fuel with
  | zero => mvcgen [importSequence]
  | succ fuel =>
    have hfld := fun n c => field_spec n c fuel
    mvcgen [importSequence, hfld]
    case inv1 => exact post⟨fun (c, r) _ => ⌜∃ fs, r = acc ++ fs ∧ Matches c.prefix fs⌝, fun _ _ => ⌜True⌝⟩
    all_goals (try simp only [SPred.down_pure] at *)
    all_goals (try intros)
    case vc1.step.success =>
      rename_i hpre r _ _ hf
      obtain ⟨fs, hb, hm⟩ := hpre
      exact ⟨fs ++ [r], by show _ ++ [r] = _; rw [hb, List.append_assoc], matches_append _ _ _ _ hm hf⟩
    case vc2.step.except.handle => trivial
    case vc3.succ.pre => exact ⟨[], by simp, trivial⟩
    case vc4.succ.post.success => assumption

/-- the same about a run: no member is dropped, none is added, the order is the document's -/
theorem c02_content_model_all_inputs (node : XNode) (ctx : Ctx) (acc : List Field) (fuel : Nat) (d : Doc) (r : List Field)
    (h : (runNM (importSequence node ctx acc fuel) d).1 = .ok r) :
    ∃ fs, r = acc ++ fs ∧ fs.length = (memberSites node ctx.ancestors).length ∧ Matches (memberSites node ctx.ancestors) fs := by
  have := run_of_triple _ _ _ _ (sequence_spec node ctx acc fuel) d trivial
  revert this h
  rcases runNM (importSequence node ctx acc fuel) d with ⟨res, d'⟩
  cases res with
  | ok a =>
    intro h hh
    cases h
    obtain ⟨fs, h1, h2⟩ := hh
    exact ⟨fs, h1, matches_length h2, h2⟩
  | error e => intro h; cases h

/-- the wrapper a member is written with follows the flags: `Vec` when it may repeat, else `Option` when it may be absent or is a
    choice branch — for the field of every member site (with `occurrence`, this is the effective occurrence over all enclosing particles) -/
theorem c02_member_flags (node : XNode) (anc : List XNode) (f : Field) (h : FieldOf node anc f) (hn : node.tag ≠ "any") :
    f.isVec = (mayRepeat (node.attr? "maxOccurs") || (enclosingParticles anc).any (fun n => mayRepeat (n.attr? "maxOccurs"))) ∧
    f.isChoice = (enclosingParticles anc).any (fun n => n.tag == "choice") := by
  have := h.2 hn
  exact ⟨by rw [this.2.2.1]; rfl, by rw [this.2.2.2.2.1]; rfl⟩

end ZeepVerif.Props.C02All
