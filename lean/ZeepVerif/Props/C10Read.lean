/-
C10 as a statement about what `read_xml` returns (on the inputs the refinement theorems cover): in the document
the reader produces for a file set, a namespace abbreviation stands for one URI and a URI has one abbreviation —
across the start file and every imported file, whatever abbreviations collide.
-/
import ZeepVerif.Props.C10
import ZeepVerif.Lemmas.ReadDecideG

namespace ZeepVerif.Props.C10Read
open ZeepVerif ZeepVerif.Model ZeepVerif.Props.C10 ZeepVerif.Lemmas.ReadFile ZeepVerif.Lemmas.ReadExt
open ZeepVerif.Lemmas.ReadImport ZeepVerif.Lemmas.ReadDecideG

theorem nsStep_mono_ns (d : Doc) (pu : Option String × String) : ∀ x ∈ d.namespaces, x ∈ (nsStep d pu).namespaces := by
  intro x hx
  obtain ⟨p, u⟩ := pu
  cases p with
  | some a =>
    simp only [nsStep, Doc.addNamespaceReference]
    split
    · exact hx
    · split
      · exact hx
      · split
        · exact hx
        · split
          · exact hx
          · simp [hx]
  | none =>
    simp only [nsStep, Doc.addDefaultNamespace]
    split <;> exact hx

theorem collect_mono_ns (nss : List (Option String × String)) : ∀ (d : Doc), ∀ x ∈ d.namespaces, x ∈ (d.collectNamespaces nss).namespaces := by
  induction nss with
  | nil => intro d x hx; exact hx
  | cons e rest ih =>
    intro d x hx
    rw [collectNamespaces_eq, List.foldl_cons, ← collectNamespaces_eq]
    exact ih _ x (nsStep_mono_ns d e x hx)

theorem switch_mono_ns (d : Doc) (ns : String) : ∀ x ∈ d.namespaces, x ∈ (d.switchToTargetNamespace ns).namespaces := by
  intro x hx
  unfold Doc.switchToTargetNamespace
  split
  · exact hx
  · simp [hx]

/-- one step of the file-set fold keeps the invariant -/
theorem stepG_nsInv (files : String → Option XFile) (anc : List XNode) (p : Doc × RS) (k : XNode)
    (h : NsInv p.1.namespaces) : NsInv (stepG files anc p k).1.namespaces := by
  unfold stepG
  split
  · split
    · split
      · split
        · exact h
        · split
          · rename_i schemaB _
            apply c10_extend_preserves
            · -- the imported document starts from the importer's namespaces
              show NsInv (fileDocG (startDoc p.1.namespaces (p.1.knownNodes ++ p.1.nodes)) schemaB _).namespaces
              exact c10_switch_preserves _ _ (c10_collect_preserves _ _ h)
            · intro x hx
              show x ∈ (fileDocG (startDoc p.1.namespaces (p.1.knownNodes ++ p.1.nodes)) schemaB _).namespaces
              exact switch_mono_ns _ _ x (collect_mono_ns _ _ x hx)
          · exact h
      · exact h
    · exact h
  · exact h

theorem fold_nsInv (files : String → Option XFile) (anc : List XNode) : (kids : List XNode) → (p : Doc × RS) →
    NsInv p.1.namespaces → NsInv (kids.foldl (stepG files anc) p).1.namespaces
  | [], _, h => h
  | k :: rest, p, h => by
    rw [List.foldl_cons]
    exact fold_nsInv files anc rest _ (stepG_nsInv files anc p k h)

/-- **the assignment is injective in the document `read_xml` returns**: whenever the decidable hypothesis of
    `c11_file_set_read` holds of a file set, the reader returns a document whose namespace list satisfies `NsInv`:
    two entries with the same abbreviation (prefix, module) are the same namespace, and two entries with the same
    URI are the same entry — for the start file's namespaces and those of every imported file, however many of
    them would abbreviate to the same three letters -/
theorem c10_document_injective (fs : List XFile) (start : String) (h : startFileB fs start = true) :
    ∃ doc, readXml fs start = .ok doc ∧ NsInv doc.namespaces := by
  obtain ⟨schema, tns, hread⟩ := readXml_of_startFileB fs start h
  refine ⟨_, hread, ?_⟩
  apply fold_nsInv
  show NsInv (fileDoc schema tns).namespaces
  unfold fileDoc
  exact c10_switch_preserves _ _ (c10_collect_preserves _ _ (by intro a ha; cases ha))


end ZeepVerif.Props.C10Read
