/-
C08 for EVERY input: what `import_extension_fields` returns for a `complexContent` with an `extension` is — whatever the
trees, the document state, the fuel — the member list of the component the base lookup returned (a *type*, never an
element: `C09All.fnd_kind`), followed by the extension's own element members (one field per member site of the extension,
in document order, once per `sequence` child), followed by one field per `attribute` child of the extension, in order.
Base first, then own elements, then own attributes.
-/
import ZeepVerif.Props.C02All
import ZeepVerif.Props.C09All
import ZeepVerif.Props.C08Read

namespace ZeepVerif.Props.C08All
open ZeepVerif ZeepVerif.Model ZeepVerif.Lemmas.Keeps Std.Do ZeepVerif.Props.C02All

set_option mvcgen.warning false

def baseFieldsOf (bn : RNode) : List Field :=
  match bn.rtype with
  | .complex p => p.fields
  | _ => []

/-- one field per node of `ns`, each read with ancestors `anc` -/
def MatchesA (anc : List XNode) : List XNode → List Field → Prop
  | [], [] => True
  | n :: ns, f :: fs => FieldOf n anc f ∧ MatchesA anc ns fs
  | _, _ => False

theorem matchesA_append (anc : List XNode) (ns : List XNode) (fs : List Field) (n : XNode) (f : Field)
    (h : MatchesA anc ns fs) (hf : FieldOf n anc f) : MatchesA anc (ns ++ [n]) (fs ++ [f]) := by
  induction ns generalizing fs with
  | nil => cases fs with
    | nil => exact ⟨hf, trivial⟩
    | cons a b => cases h
  | cons x xs ih => cases fs with
    | nil => cases h
    | cons a b => exact ⟨h.1, ih b h.2⟩

def seqKids (ks : List XNode) : List XNode := ks.filter (fun n => n.tag == "sequence")
def attrKids (ks : List XNode) : List XNode := ks.filter (fun n => n.tag == "attribute")

theorem attrKids_snoc_t (p : List XNode) (c : XNode) (h : (c.tag == "attribute") = true) :
    attrKids (p ++ [c]) = attrKids p ++ [c] := by simp [attrKids, List.filter_append, h]
theorem attrKids_snoc_f (p : List XNode) (c : XNode) (h : ¬ (c.tag == "attribute") = true) :
    attrKids (p ++ [c]) = attrKids p := by simp [attrKids, List.filter_append, h]

/-- the shape of a derived member list -/
def Derived (ext cc : XNode) (anc : List XNode) (r : List Field) : Prop :=
  ∃ (bn : RNode) (blocks : List (List Field)) (attrs : List Field),
    Kind.type.matchesType bn.rtype = true ∧ r = baseFieldsOf bn ++ blocks.flatten ++ attrs ∧
    blocks.length = (seqKids ext.elemKids).length ∧
    (∀ b ∈ blocks, Matches (memberSites ext (cc :: anc)) b) ∧
    MatchesA (ext :: cc :: anc) (attrKids ext.elemKids) attrs

theorem extension_spec (node : XNode) (ctx : Ctx) (fuel : Nat) :
    ⦃fun _ => ⌜True⌝⦄ importExtension node ctx fuel
    ⦃post⟨fun r _ => ⌜match node.kids.find? (fun n => n.isElem && n.tag == "extension") with
                       | none => r = []
                       | some ext => Derived ext node ctx.ancestors r⌝, fun _ _ => ⌜True⌝⟩⦄ := by
  cases fuel with
  | zero => mvcgen [importExtension]
  | succ fuel =>
    have hfnd := fun c x ns k => C09All.fnd_kind c x ns k fuel
    have hseq := fun n c acc => sequence_spec n c acc fuel
    have hfld := fun n c => field_spec n c fuel
    mvcgen [importExtension, getDoc, liftOpt, hfnd, hseq, hfld]
    case inv1 =>
      rename_i ext _ _ _ _ _ _ _ bn _ _ _
      exact post⟨fun (c, r) _ => ⌜∃ blocks : List (List Field), r = baseFieldsOf bn ++ blocks.flatten ∧
        blocks.length = (seqKids c.prefix).length ∧ ∀ b ∈ blocks, Matches (memberSites ext (node :: ctx.ancestors)) b⌝, fun _ _ => ⌜True⌝⟩
    case inv2 =>
      rename_i ext _ _ _ _ _ _ _ bn _ _ _ _ _ _ _
      exact post⟨fun (c, r) _ => ⌜∃ (blocks : List (List Field)) (attrs : List Field), r = baseFieldsOf bn ++ blocks.flatten ++ attrs ∧
        blocks.length = (seqKids ext.elemKids).length ∧ (∀ b ∈ blocks, Matches (memberSites ext (node :: ctx.ancestors)) b) ∧
        MatchesA (ext :: node :: ctx.ancestors) (attrKids c.prefix) attrs⌝, fun _ _ => ⌜True⌝⟩
    all_goals (try simp only [SPred.down_pure] at *)
    all_goals (try intros)
    all_goals (first | trivial | skip)
    case vc2.step.isTrue.success =>
      rename_i hc _ hinv r _ hs
      obtain ⟨blocks, hb, hl, hm⟩ := hinv
      obtain ⟨fs, hr, hfs⟩ := hs
      refine ⟨blocks ++ [fs], ?_, ?_, ?_⟩
      · simp [hr, hb, List.flatten_append]
      · simp [seqKids, List.filter_append, hc, hl] at *
      · intro b hb'
        rcases List.mem_append.mp hb' with h | h
        · exact hm b h
        · simp at h; subst h; exact hfs
    case vc4.step.isFalse =>
      rename_i hc _ hinv
      obtain ⟨blocks, hb, hl, hm⟩ := hinv
      refine ⟨blocks, hb, ?_, hm⟩
      simp [seqKids, List.filter_append, hc, hl] at *
    case vc5.succ.h_2.h_1.success.h_1.pre =>
      exact ⟨[], by simp [baseFieldsOf]; rfl, by simp [seqKids], by simp⟩
    case vc1.succ.h_1 => rename_i hx _; rw [hx]; trivial
    case vc6.step.isTrue.success =>
      rename_i hc _ hinv r flds _ hf
      obtain ⟨blocks, attrs, hb, hl, hm, ha⟩ := hinv
      refine ⟨blocks, attrs ++ [r], ?_, hl, hm, ?_⟩
      · show _ ++ [r] = _
        rw [hb]; simp
      · rw [attrKids_snoc_t _ _ hc]
        exact matchesA_append _ _ _ _ _ ha hf
    case vc8.step.isFalse =>
      rename_i hc _ hinv
      obtain ⟨blocks, attrs, hb, hl, hm, ha⟩ := hinv
      refine ⟨blocks, attrs, hb, hl, hm, ?_⟩
      rw [attrKids_snoc_f _ _ hc]; exact ha
    case vc9.succ.h_2.h_1.success.h_1.post.success.pre =>
      rename_i hinv
      obtain ⟨blocks, hb, hl, hm⟩ := hinv
      exact ⟨blocks, [], by simp [hb], by simpa using hl, hm, by simp [attrKids, MatchesA]⟩
    case vc10.succ.h_2.h_1.success.h_1.post.success.post.success =>
      rename_i hx _ _ _ _ _ hk bn hbn _ _ _ _ _ _ _ _ hinv
      rw [hx]
      obtain ⟨blocks, attrs, hb, hl, hm, ha⟩ := hinv
      exact ⟨bn, blocks, attrs, hk bn hbn, hb, hl, hm, by simpa using ha⟩

/-- **C08, every input.** Whenever `import_extension_fields` returns (any trees, any document state, any fuel): with no
    `extension` child there are no members; with one, the members are the base component's — a type's, never an element's —
    first, then one block per `sequence` child of the extension, each with one field per member site in order, then one field per
    `attribute` child in order. -/
theorem c08_base_first_all_inputs (node : XNode) (ctx : Ctx) (fuel : Nat) (d : Doc) (r : List Field)
    (h : (runNM (importExtension node ctx fuel) d).1 = .ok r) :
    match node.kids.find? (fun n => n.isElem && n.tag == "extension") with
    | none => r = []
    | some ext => Derived ext node ctx.ancestors r := by
  have := run_of_triple _ _ _ _ (extension_spec node ctx fuel) d trivial
  revert this h
  rcases runNM (importExtension node ctx fuel) d with ⟨res, d'⟩
  cases res with
  | ok a => intro h hh; cases h; exact hh
  | error e => intro h; cases h

/-- the base's members are a prefix and nothing of the base is dropped or reordered; the number of own members is fixed by the
    extension's own particles: `|sequence children| × |member sites|` elements, then `|attribute children|` attributes -/
theorem c08_member_count (ext cc : XNode) (anc : List XNode) (r : List Field) (h : Derived ext cc anc r) :
    ∃ bn : RNode, baseFieldsOf bn <+: r ∧
      r.length = (baseFieldsOf bn).length + (seqKids ext.elemKids).length * (memberSites ext (cc :: anc)).length
                 + (attrKids ext.elemKids).length := by
  obtain ⟨bn, blocks, attrs, _, hr, hl, hm, ha⟩ := h
  refine ⟨bn, ⟨blocks.flatten ++ attrs, by simp [hr]⟩, ?_⟩
  have h1 : blocks.flatten.length = blocks.length * (memberSites ext (cc :: anc)).length := by
    clear hr hl
    induction blocks with
    | nil => simp
    | cons b bs ih =>
      have hb := matches_length (hm b (by simp))
      have := ih (fun b' hb' => hm b' (by simp [hb']))
      simp [List.flatten_cons, this, hb, Nat.add_mul]; omega
  have h2 : ∀ (ns : List XNode) (fs : List Field), MatchesA (ext :: cc :: anc) ns fs → fs.length = ns.length := by
    intro ns
    induction ns with
    | nil => intro fs h; cases fs with
      | nil => rfl
      | cons a b => cases h
    | cons x xs ih => intro fs h; cases fs with
      | nil => cases h
      | cons a b => simp [ih b h.2]
  rw [hr, List.length_append, List.length_append, h1, hl, h2 _ _ ha]

/-- own attributes come after own elements: every field of the attribute block is an attribute field -/
theorem c08_attrs_last (anc : List XNode) (ns : List XNode) (fs : List Field) (h : MatchesA anc ns fs)
    (hn : ∀ n ∈ ns, n.tag = "attribute") : ∀ f ∈ fs, f.isAttribute = true := by
  induction ns generalizing fs with
  | nil => cases fs with
    | nil => simp
    | cons a b => cases h
  | cons x xs ih => cases fs with
    | nil => cases h
    | cons a b =>
      intro f hf
      rcases List.mem_cons.mp hf with rfl | hf
      · have hx : x.tag = "attribute" := hn x (by simp)
        have := (h.1.2 (by rw [hx]; decide)).2.2.2.1
        rw [this]; simp [occurrence, hx]
      · exact ih b h.2 (fun n hn' => hn n (by simp [hn'])) f hf

/-! non-vacuity: on the demonstration schema of `C08Read` the hypothesis is met — the derived type's `complexContent` is read, in the
    document state the reader has reached after `Base`, to four members: base element, base attribute, own element, own attribute -/
def demoCC : XNode :=
  let nss : List (Option String × String) := [(some "xs", "http://www.w3.org/2001/XMLSchema"), (some "tns", "urn:demo")]
  let el (n t : String) : XNode := .elem "element" [⟨"name", none, n⟩, ⟨"type", none, t⟩] nss none []
  .elem "complexContent" [] nss none [.elem "extension" [⟨"base", none, "tns:Base"⟩] nss none [
    .elem "sequence" [] nss none [el "note" "xs:string"],
    .elem "attribute" [⟨"name", none, "flag"⟩, ⟨"type", none, "xs:boolean"⟩] nss none []]]

def demoRun : Option (List (String × Bool)) :=
  match readXml [C08Read.demoFile] "demo.xsd" with
  | .ok d => (match (runNM (importExtension demoCC ⟨[], []⟩ 50) d).1 with
      | .ok r => some (r.map (fun f => (f.xmlName, f.isAttribute)))
      | .error _ => none)
  | .error _ => none

example : demoRun = some [("id", false), ("code", true), ("note", false), ("flag", true)] := by decide +kernel

end ZeepVerif.Props.C08All
