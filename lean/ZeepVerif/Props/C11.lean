/-
C11 — each reachable schema file is read exactly once; others never matter.
The import traversal of reader.rs (`read_xml_internal` / `process_import`: mark the file, then follow
its imports, skipping marked and unknown-to-XSD ones) as a function on the import relation, for an
arbitrary directed graph (chains, diamonds, mutual and self imports).
-/
import ZeepVerif.Model.Reader
import Mathlib.Data.List.Nodup

namespace ZeepVerif.Props.C11
open ZeepVerif ZeepVerif.Model

/-- the files entered, in order: `p` are the files marked so far. The file is marked *before* its
    imports are followed (the order reader.rs uses since the fix of the import-cycle overflow). -/
def visit (imports : String → List String) : Nat → List String → String → List String
  | 0, p, _ => p
  | fuel + 1, p, f =>
    if p.contains f then p
    else (imports f).foldl (fun p g => visit imports fuel p g) (p ++ [f])

/-- files reachable from `f` by following imports -/
inductive Reach (imports : String → List String) : String → String → Prop
  | refl (f : String) : Reach imports f f
  | step {f g h : String} : g ∈ imports f → Reach imports g h → Reach imports f h

theorem foldl_visit_inv (imports : String → List String) (fuel : Nat) (P : List String → Prop)
    (hstep : ∀ p g, P p → P (visit imports fuel p g)) :
    ∀ (gs : List String) (p : List String), P p → P (gs.foldl (fun p g => visit imports fuel p g) p) := by
  intro gs
  induction gs with
  | nil => intro p hp; simpa using hp
  | cons g gs ih => intro p hp; simp only [List.foldl_cons]; exact ih _ (hstep p g hp)

/-- no file is entered twice, whatever the import graph: the marked list never gets a duplicate -/
theorem c11_once (imports : String → List String) :
    ∀ fuel p f, p.Nodup → (visit imports fuel p f).Nodup := by
  intro fuel
  induction fuel with
  | zero => intro p f h; simpa [visit] using h
  | succ fuel ih =>
    intro p f h
    unfold visit
    split
    · exact h
    · rename_i hc
      apply foldl_visit_inv imports fuel List.Nodup (fun p g hp => ih p g hp)
      have : f ∉ p := by simpa using hc
      exact List.nodup_append.mpr ⟨h, by simp, by intro a ha b hb; simp at hb; subst hb; intro e; exact this (e ▸ ha)⟩

/-- files already marked stay marked, in the same order (a prefix): what was read is never re-read or lost -/
theorem c11_monotone (imports : String → List String) :
    ∀ fuel p f, ∃ q, visit imports fuel p f = p ++ q := by
  intro fuel
  induction fuel with
  | zero => intro p f; exact ⟨[], by simp [visit]⟩
  | succ fuel ih =>
    intro p f
    unfold visit
    split
    · exact ⟨[], by simp⟩
    · have := foldl_visit_inv imports fuel (fun r => ∃ q, r = p ++ q)
        (fun r g ⟨q, hq⟩ => by obtain ⟨q', hq'⟩ := ih r g; exact ⟨q ++ q', by rw [hq', hq, List.append_assoc]⟩)
        (imports f) (p ++ [f]) ⟨[f], rfl⟩
      exact this

/-- only files reachable from the start file (or marked before) are ever entered: an unreachable
    sibling file cannot influence the run -/
theorem c11_only_reachable (imports : String → List String) :
    ∀ fuel p f, ∀ x ∈ visit imports fuel p f, x ∈ p ∨ Reach imports f x := by
  intro fuel
  induction fuel with
  | zero => intro p f x hx; exact Or.inl (by simpa [visit] using hx)
  | succ fuel ih =>
    intro p f x hx
    unfold visit at hx
    split at hx
    · exact Or.inl hx
    · have key : ∀ (gs : List String) (r : List String), (∀ g ∈ gs, g ∈ imports f) →
          (∀ y ∈ r, y ∈ p ∨ Reach imports f y) →
          ∀ y ∈ gs.foldl (fun p g => visit imports fuel p g) r, y ∈ p ∨ Reach imports f y := by
        intro gs
        induction gs with
        | nil => intro r _ hr y hy; exact hr y (by simpa using hy)
        | cons g gs ihg =>
          intro r hg hr y hy
          simp only [List.foldl_cons] at hy
          refine ihg _ (fun g' hg' => hg g' (List.mem_cons_of_mem _ hg')) ?_ y hy
          intro z hz
          rcases ih r g z hz with h | h
          · exact hr z h
          · exact Or.inr (Reach.step (hg g List.mem_cons_self) h)
      refine key (imports f) (p ++ [f]) (fun g hg => hg) ?_ x hx
      intro y hy
      simp only [List.mem_append, List.mem_singleton] at hy
      rcases hy with h | rfl
      · exact Or.inl h
      · exact Or.inr (Reach.refl _)

/-! non-vacuity: a mutual import and a self import, entered once each -/
def demo : String → List String
  | "a" => ["b", "a"]
  | "b" => ["a", "c"]
  | _ => []

example : visit demo 10 [] "a" = ["a", "b", "c"] := by decide

end ZeepVerif.Props.C11
