/-
C10 on the document `read_xml` returns, for every import graph the pure reader covers.
-/
import ZeepVerif.Lemmas.ReadGraphProps

namespace ZeepVerif.Props.C10Graph
open ZeepVerif ZeepVerif.Model ZeepVerif.Props.C10 ZeepVerif.Lemmas.ReadGraph ZeepVerif.Lemmas.ReadGraphProps

/-- **the assignment is injective in the document `read_xml` returns, whatever the import graph**: nesting to any
    depth, diamonds, self imports, cycles; each imported file starts from its importer's namespace list, so an
    abbreviation handed out anywhere is never handed out again for another URI, and a URI met again gets the
    abbreviation it has -/
theorem c10_graph_injective (fs : List XFile) (start : String) (depth : Nat) (hd : 3 * depth ≤ 10000) (r : Doc × RS)
    (h : readFileG (fileTable fs) depth start [] [] { processed := [] } = some r) :
    readXml fs start = .ok r.1 ∧ NsInv r.1.namespaces :=
  ⟨readXml_graph fs start depth hd r h,
   (readFileG_nsInv (fileTable fs) depth start [] [] { processed := [] } r (by intro a ha; cases ha) h).1⟩

end ZeepVerif.Props.C10Graph
