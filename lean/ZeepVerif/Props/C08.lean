/-
C08 — a derived type carries its base type's members first, then its own.
The flattening the reader applies to the content of a type (`import_sequence_node_fields`, model
`memberSites`) preserves declaration order at every nesting depth, never yields an attribute
declaration as an element member, and the reference elaboration orders members base-first.
-/
import ZeepVerif.Model.Reader
import ZeepVerif.Spec.Grammar

namespace ZeepVerif.Props.C08
open ZeepVerif ZeepVerif.Model ZeepVerif.Spec

/-- flattening is a homomorphism on child lists: members of `a ++ b` are the members of `a`
    followed by those of `b` — declaration order is preserved, whatever is nested inside -/
theorem c08_flatten_append (a b : List XNode) (anc : List XNode) :
    memberSitesList (a ++ b) anc = memberSitesList a anc ++ memberSitesList b anc := by
  induction a with
  | nil => simp [memberSitesList]
  | cons k ks ih => simp [memberSitesList, ih, List.append_assoc]

/-- a nested sequence or choice contributes its own members in place (inlined, in order) -/
theorem c08_nested_inline (t : String) (attrs nss tx) (kids rest : List XNode) (anc : List XNode)
    (ht : t = "sequence" ∨ t = "choice") :
    memberSitesList (XNode.elem t attrs nss tx kids :: rest) anc =
      memberSitesList kids (XNode.elem t attrs nss tx kids :: anc) ++ memberSitesList rest anc := by
  rcases ht with rfl | rfl <;> simp [memberSitesList, memberSites, XNode.isElem, XNode.tag]

/-- an attribute declaration is never an element member of a particle (the callers read attributes,
    after the elements) and non-element nodes (white space, comments) contribute nothing -/
theorem c08_attributes_skipped (attrs nss tx kids) (rest : List XNode) (anc : List XNode) :
    memberSitesList (XNode.elem "attribute" attrs nss tx kids :: rest) anc = memberSitesList rest anc ∧
    memberSitesList (XNode.other :: rest) anc = memberSitesList rest anc := by
  simp [memberSitesList, XNode.isElem, XNode.tag]

/-- a plain element declaration is exactly one member, in place, with the enclosing particles as its ancestors -/
theorem c08_element_member (attrs nss tx kids) (rest : List XNode) (anc : List XNode) :
    memberSitesList (XNode.elem "element" attrs nss tx kids :: rest) anc =
      (XNode.elem "element" attrs nss tx kids, anc) :: memberSitesList rest anc := by
  simp [memberSitesList, XNode.isElem, XNode.tag]

/-- reference order: the members of a type derived from `(ns, b)` are the members of that base (in the
    base's order, elaborated in the base's own file, so with the namespaces of the schemas that declared
    them), then its own elements, then its own attributes — at every derivation depth -/
theorem c08_ref_order (s : SchemaSet) (f bf : SchemaFile) (d bd : ComplexDef) (ns : Nat) (b : String) (fuel : Nat)
    (hb : d.base = some (ns, b)) (hf : Ref.findComplex s ns b = some (bf, bd)) :
    Ref.members s f d (fuel + 1) =
      Ref.members s bf bd fuel ++ Ref.ownElements s f d ++ d.attrs.map (Ref.attrField s) := by
  simp [Ref.members, hb, hf]

theorem c08_ref_no_base (s : SchemaSet) (f : SchemaFile) (d : ComplexDef) (fuel : Nat) (hb : d.base = none) :
    Ref.members s f d (fuel + 1) = Ref.ownElements s f d ++ d.attrs.map (Ref.attrField s) := by
  simp [Ref.members, hb]

/-! non-vacuity -/
example : (memberSitesList
    [XNode.elem "element" [⟨"name", none, "a"⟩] [] none [], XNode.other,
     XNode.elem "sequence" [] [] none [XNode.elem "element" [⟨"name", none, "b"⟩] [] none []],
     XNode.elem "attribute" [⟨"name", none, "c"⟩] [] none [],
     XNode.elem "element" [⟨"name", none, "d"⟩] [] none []] []).map (fun s => s.1.attr? "name") =
    [some "a", some "b", some "d"] := by decide

end ZeepVerif.Props.C08
