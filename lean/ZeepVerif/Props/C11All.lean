/-
C11 for EVERY file table: no file is read twice. A file's components are read only by the call of `read_xml_internal`
that marks it, a marked file is never entered again (neither as an import nor by a second call for the same name), so the
list of marked files never holds a name twice — for any XML trees, any import graph (diamonds, self imports, cycles),
any fuel, and whether the read ends with a document or an error. (Termination for every import graph: `Props/C13All`.)
-/
import ZeepVerif.Lemmas.KeepsFile
import ZeepVerif.Lemmas.Irrelevant
import ZeepVerif.Props.C11Read

namespace ZeepVerif.Props.C11All
open ZeepVerif ZeepVerif.Model Std.Do ZeepVerif.Lemmas.Keeps ZeepVerif.Lemmas.KeepsFile

set_option mvcgen.warning false

structure ReadOnce (files : String → Option XFile) (fuel : Nat) : Prop where
  int : ∀ name known kn, ⦃fun st => ⌜st.processed.Nodup ∧ name ∉ st.processed⌝⦄ readXmlInternal files name known kn fuel
    ⦃⇓? _ st' => ⌜st'.processed.Nodup⌝⦄
  top : ∀ file all node d, ⦃fun st => ⌜st.processed.Nodup⌝⦄ readTop files file all node d fuel ⦃⇓? _ st' => ⌜st'.processed.Nodup⌝⦄
  xsd : ∀ file all schema anc d, ⦃fun st => ⌜st.processed.Nodup⌝⦄ readXsd files file all schema anc d fuel ⦃⇓? _ st' => ⌜st'.processed.Nodup⌝⦄

attribute [local irreducible] runNM in
theorem read_once (files : String → Option XFile) : ∀ fuel, ReadOnce files fuel := by
  intro fuel
  induction fuel with
  | zero =>
    constructor
    · intro name known kn; mvcgen [readXmlInternal, spec_throw_FM, -Spec.throw_MonadExcept]
    · intro file all node d; mvcgen [readTop, spec_throw_FM, -Spec.throw_MonadExcept]
    · intro file all schema anc d; mvcgen [readXsd, spec_throw_FM, -Spec.throw_MonadExcept]
  | succ fuel ih =>
    have hint := ih.int
    have htop := ih.top
    have hxsd := ih.xsd
    constructor
    · intro name known kn
      mvcgen [readXmlInternal, spec_throw_FM, -Spec.throw_MonadExcept, htop]
      case inv1 => exact ⇓? _ st => ⌜st.processed.Nodup⌝
      all_goals (try simp only [SPred.down_pure] at *)
      all_goals (try intros)
      all_goals first | exact True.intro | exact ExceptConds.entails.rfl | (simp_all; done) | (show (_ :: _).Nodup; simp_all) | skip
    · intro file all node d
      mvcgen [readTop, spec_throw_FM, -Spec.throw_MonadExcept, hxsd]
      case inv1 => exact ⇓? _ st => ⌜st.processed.Nodup⌝
      all_goals (try simp only [SPred.down_pure] at *)
      all_goals (try intros)
      all_goals first | exact True.intro | exact ExceptConds.entails.rfl | (simp_all; done) | (show (_ :: _).Nodup; simp_all) | skip
    · intro file all schema anc d
      mvcgen [readXsd, spec_throw_FM, -Spec.throw_MonadExcept, hint]
      case inv1 => exact ⇓? _ st => ⌜st.processed.Nodup⌝
      all_goals (try simp only [SPred.down_pure] at *)
      all_goals (try intros)
      all_goals first | exact True.intro | exact ExceptConds.entails.rfl | (simp_all; done) | (show (_ :: _).Nodup; simp_all) | skip

/-- **each file is read at most once**, every file table: the processed-file list that `read_xml` leaves behind holds no
    name twice -/
theorem c11_read_once_all_inputs (files : String → Option XFile) (start : String) (flags : RS) (fuel : Nat) (d : Doc)
    (h : (readXmlOn files start flags fuel).1 = .ok d) :
    (readXmlOn files start flags fuel).2.processed.Nodup := by
  have ht := (read_once files fuel).int start [] []
  have := fm_run_of_triple _ _ (fun _ st' => st'.processed.Nodup) ht { flags with processed := [] } (by simp)
  simp only [readXmlOn] at h ⊢
  revert this
  cases hr : (readXmlInternal files start [] [] fuel).run { flags with processed := [] } with
  | error e => simp [hr] at h
  | ok r => intro this; simpa using this

open ZeepVerif.Lemmas.Irrelevant in
/-- **files that are not reachable never matter**, every file table: if two tables agree on a set of names that contains the
    start file and is closed under "schemaLocation values occurring anywhere in a file registered under a name of the set",
    `read_xml` gives the same result on both — the same document or the same error, and the same processed-file list — for
    every fuel. Adding, removing or changing any file outside the set (an unreachable sibling) therefore changes nothing. -/
theorem c11_unreachable_irrelevant_all_inputs (files files' : String → Option XFile) (S : List String) (start : String)
    (hstart : start ∈ S) (hclosed : Closed files S) (hagree : ∀ n ∈ S, files n = files' n) (flags : RS) (fuel : Nat) :
    readXmlOn files start flags fuel = readXmlOn files' start flags fuel := by
  simp only [readXmlOn]
  rw [(agree files files' S hclosed hagree fuel).int start [] [] hstart]

/-- the same for lists of registered files -/
theorem c11_unreachable_irrelevant_lists (fs fs' : List XFile) (S : List String) (start : String) (hstart : start ∈ S)
    (hclosed : Lemmas.Irrelevant.Closed (fileTable fs) S) (hagree : ∀ n ∈ S, fileTable fs n = fileTable fs' n) (fuel : Nat) :
    readXml fs start fuel = readXml fs' start fuel := by
  simp only [readXml]
  rw [c11_unreachable_irrelevant_all_inputs (fileTable fs) (fileTable fs') S start hstart hclosed hagree]

/-- decidable form of `Closed` for a list of files -/
def closedB (fs : List XFile) (S : List String) : Bool :=
  S.all fun n => match fileTable fs n with
    | some f => (match f.tops with
      | some tops => tops.all (fun t => (Lemmas.Irrelevant.deepLocs t).all (fun l => S.contains l))
      | none => true)
    | none => true

theorem closedB_sound (fs : List XFile) (S : List String) (h : closedB fs S = true) : Lemmas.Irrelevant.Closed (fileTable fs) S := by
  intro n hn f tops hf ht top htop l hl
  simp only [closedB, List.all_eq_true] at h
  have := h n hn
  simp only [hf, ht, List.all_eq_true] at this
  simpa using this top htop l hl

/-! non-vacuity: the cyclic set a.xsd ⇄ b.xsd of `Props/C11Read` is closed; a third, unreachable file changes nothing -/
example : closedB C11Read.demoCycle ["a.xsd", "b.xsd"] = true := by decide
example : readXml (C11Read.demoCycle ++ [{ name := "zz.xsd", urls := [], tops := none }]) "a.xsd" = readXml C11Read.demoCycle "a.xsd" := by
  symm
  apply c11_unreachable_irrelevant_lists _ _ ["a.xsd", "b.xsd"] "a.xsd" (by simp) (closedB_sound _ _ (by decide))
  intro n hn
  simp only [List.mem_cons, List.mem_nil_iff, or_false] at hn
  rcases hn with rfl | rfl <;> rfl

end ZeepVerif.Props.C11All
